package main

import (
	"fmt"
	"go/ast"
	"go/constant"
	"go/token"
	"go/types"
)

// E12: decision-table evaluation of a small guard function. The function's
// if/else skeleton is walked for one binding of its integer parameters; the
// conditions are evaluated with go/constant arithmetic; the outcome is which
// return statement is reached and whether it returns nil. Statements other
// than if/return/block are assumed not to influence the guards (checked: they
// may not assign to a bound parameter).

type guardOutcome struct {
	Nil bool
	Ret *ast.ReturnStmt
}

type guardEnv struct {
	p    *packagesPackage
	bind map[types.Object]constant.Value
	// opaque sub-expressions (accessor calls such as v.Mandatory(), v.Limit().Min) bound by their printed form
	opaque map[string]constant.Value
	// locals introduced by `x := expr` inside the guard function: evaluated on use
	locals map[types.Object]ast.Expr
}

func (g *guardEnv) val(e ast.Expr) constant.Value {
	e = ast.Unparen(e)
	if v, ok := g.opaque[types.ExprString(e)]; ok {
		return v
	}
	if tv, ok := g.p.TypesInfo.Types[e]; ok && tv.Value != nil {
		return tv.Value
	}
	switch x := e.(type) {
	case *ast.Ident:
		if v, ok := g.bind[g.p.TypesInfo.Uses[x]]; ok {
			return v
		}
		if rhs, ok := g.locals[g.p.TypesInfo.Uses[x]]; ok {
			return g.val(rhs)
		}
	case *ast.CallExpr:
		// integer conversion of a bound non-negative value
		if tv, ok := g.p.TypesInfo.Types[x.Fun]; ok && tv.IsType() && len(x.Args) == 1 {
			return g.val(x.Args[0])
		}
	case *ast.BinaryExpr:
		a, b := g.val(x.X), g.val(x.Y)
		switch x.Op {
		case token.ADD, token.SUB, token.MUL:
			return constant.BinaryOp(a, x.Op, b)
		}
	}
	panic(undecided{"guard expression not evaluable: " + types.ExprString(e)})
}

func (g *guardEnv) cond(e ast.Expr) bool {
	e = ast.Unparen(e)
	if v, ok := g.opaque[types.ExprString(e)]; ok && v.Kind() == constant.Bool {
		return constant.BoolVal(v)
	}
	switch x := e.(type) {
	case *ast.Ident:
		if rhs, ok := g.locals[g.p.TypesInfo.Uses[x]]; ok {
			return g.cond(rhs)
		}
	case *ast.BinaryExpr:
		switch x.Op {
		case token.LAND:
			return g.cond(x.X) && g.cond(x.Y)
		case token.LOR:
			return g.cond(x.X) || g.cond(x.Y)
		case token.EQL, token.NEQ, token.LSS, token.LEQ, token.GTR, token.GEQ:
			return constant.Compare(g.val(x.X), x.Op, g.val(x.Y))
		}
	case *ast.UnaryExpr:
		if x.Op == token.NOT {
			return !g.cond(x.X)
		}
	}
	panic(undecided{"guard condition not evaluable: " + types.ExprString(e)})
}

// run returns the outcome of executing stmts; ok=false when control falls through.
func (g *guardEnv) run(stmts []ast.Stmt) (guardOutcome, bool) {
	for _, s := range stmts {
		switch x := s.(type) {
		case *ast.ReturnStmt:
			isNil := false
			if len(x.Results) > 0 {
				last := x.Results[len(x.Results)-1]
				if tv, ok := g.p.TypesInfo.Types[last]; ok && tv.IsNil() {
					isNil = true
				}
			}
			return guardOutcome{Nil: isNil, Ret: x}, true
		case *ast.BlockStmt:
			if o, ok := g.run(x.List); ok {
				return o, true
			}
		case *ast.IfStmt:
			if x.Init != nil {
				panic(undecided{"guard with init statement"})
			}
			if g.cond(x.Cond) {
				if o, ok := g.run(x.Body.List); ok {
					return o, true
				}
			} else if x.Else != nil {
				if o, ok := g.run([]ast.Stmt{x.Else}); ok {
					return o, true
				}
			}
		case *ast.AssignStmt:
			for i, l := range x.Lhs {
				if id, ok := l.(*ast.Ident); ok {
					if _, bound := g.bind[g.p.TypesInfo.Uses[id]]; bound {
						panic(undecided{"guard function assigns to parameter " + id.Name})
					}
					// a named intermediate (`tooFew := …`): remember its definition
					if x.Tok == token.DEFINE && len(x.Lhs) == len(x.Rhs) {
						if g.locals == nil {
							g.locals = map[types.Object]ast.Expr{}
						}
						if o := g.p.TypesInfo.Defs[id]; o != nil {
							g.locals[o] = x.Rhs[i]
						}
					}
				}
			}
		case *ast.ExprStmt, *ast.DeclStmt:
		default:
			panic(undecided{fmt.Sprintf("guard function contains %T", s)})
		}
	}
	return guardOutcome{}, false
}

package main

import "strings"

// RFC 6020 substatement tables. Authority for multiplicities is the ABNF of
// §12; where a §7 table is a known erratum against the ABNF the row says so.
// Notation per cell: kw* = 0..n, kw? = 0..1, kw1 = 1, kw+ = 1..n.
var rfcCardSrc = map[string]string{
	// §7.1.1
	"module": "anyxml* augment* choice* contact? container* description? deviation* extension* feature* grouping* identity* import* include* leaf* leaf-list* list* namespace1 notification* organization? prefix1 reference? revision* rpc* typedef* uses* yang-version?",
	// §7.1.5
	"import": "prefix1 revision-date?",
	// §7.1.6
	"include": "revision-date?",
	// §7.1.9
	"revision": "description? reference?",
	// §7.2.1
	"submodule": "anyxml* augment* belongs-to1 choice* contact? container* description? deviation* extension* feature* grouping* identity* import* include* leaf* leaf-list* list* notification* organization? reference? revision* rpc* typedef* uses* yang-version?",
	// §7.2.2
	"belongs-to": "prefix1",
	// §7.3.1
	"typedef": "default? description? reference? status? type1 units?",
	// §7.4.1 plus the ABNF type-body-stmts (base for identityref, fraction-digits
	// for decimal64 are missing from the §7.4.1 table but required by §12)
	"type": "base? bit* enum* fraction-digits? length? path? pattern* range? require-instance? type*",
	// §7.5.2
	"container": "anyxml* choice* config? container* description? grouping* if-feature* leaf* leaf-list* list* must* presence? reference? status? typedef* uses* when?",
	// §7.5.4.1
	"must": "description? error-app-tag? error-message? reference?",
	// §7.6.2
	"leaf": "config? default? description? if-feature* mandatory? must* reference? status? type1 units? when?",
	// §7.7.1
	"leaf-list": "config? description? if-feature* max-elements? min-elements? must* ordered-by? reference? status? type1 units? when?",
	// §7.8.1 (key is 0..1: required only for lists that represent configuration, §7.8.2)
	"list": "anyxml* choice* config? container* description? grouping* if-feature* key? leaf* leaf-list* list* max-elements? min-elements? must* ordered-by? reference? status? typedef* unique* uses* when?",
	// §7.9.1
	"choice": "anyxml* case* config? container* default? description? if-feature* leaf* leaf-list* list* mandatory? reference? status? when?",
	// §7.9.2.1
	"case": "anyxml* choice* container* description? if-feature* leaf* leaf-list* list* reference? status? uses* when?",
	// §7.10.1
	"anyxml": "config? description? if-feature* mandatory? must* reference? status? when?",
	// §7.11.1
	"grouping": "anyxml* choice* container* description? grouping* leaf* leaf-list* list* reference? status? typedef* uses*",
	// §7.12.1; the table says augment 0..1 and refine 0..1, the ABNF (uses-stmt)
	// has *(refine-stmt) *(uses-augment-stmt): ABNF wins
	"uses": "augment* description? if-feature* refine* reference? status? when?",
	// §7.13.1
	"rpc": "description? grouping* if-feature* input? output? reference? status? typedef*",
	// §7.13.2.1 / §7.13.3.1
	"input":  "anyxml* choice* container* grouping* leaf* leaf-list* list* typedef* uses*",
	"output": "anyxml* choice* container* grouping* leaf* leaf-list* list* typedef* uses*",
	// §7.14.1
	"notification": "anyxml* choice* container* description? grouping* if-feature* leaf* leaf-list* list* reference? status? typedef* uses*",
	// §7.15.1
	"augment": "anyxml* case* choice* container* description? if-feature* leaf* leaf-list* list* reference? status? uses* when?",
	// §7.16.1
	"identity": "base? description? reference? status?",
	// §7.17.1
	"extension": "argument? description? reference? status?",
	// §7.17.2.1
	"argument": "yin-element?",
	// §7.18.1.1
	"feature": "description? if-feature* reference? status?",
	// §7.18.3.1 (deviate is 1..n; the implementation splits deviate by its
	// argument into four node types, see deviateKinds)
	"deviation": "description? deviate+ reference?",
	// §7.18.3.2 (union of the four kinds)
	"deviate": "config? default? mandatory? max-elements? min-elements? must* type? unique* units?",
	// §12 deviate-add-stmt / deviate-delete-stmt / deviate-replace-stmt / deviate-not-supported-stmt
	"deviate-add":           "config? default? mandatory? max-elements? min-elements? must* unique* units?",
	"deviate-delete":        "default? must* unique* units?",
	"deviate-replace":       "config? default? mandatory? max-elements? min-elements? type? units?",
	"deviate-not-supported": "",
	// §7.19.5.1
	"when": "description? reference?",
	// §9.2.4.1, §9.4.4.1, §9.4.6.1
	"range":   "description? error-app-tag? error-message? reference?",
	"length":  "description? error-app-tag? error-message? reference?",
	"pattern": "description? error-app-tag? error-message? reference?",
	// §9.6.4.1, §9.7.4.1
	"enum": "description? reference? status? value?",
	"bit":  "description? position? reference? status?",
}

// keywords of RFC 6020 (§12 statement keywords)
var rfcKeywords = strings.Fields(`anyxml argument augment base belongs-to bit case choice config contact container default
 description enum error-app-tag error-message extension deviation deviate feature fraction-digits grouping identity
 if-feature import include input key leaf leaf-list length list mandatory max-elements min-elements module must
 namespace notification ordered-by organization output path pattern position prefix presence range reference refine
 require-instance revision revision-date rpc status submodule type typedef unique units uses value when yang-version
 yin-element`)

// implementation-only split of `deviate` by argument (not RFC keywords)
var deviateKinds = []string{"deviate-add", "deviate-delete", "deviate-replace", "deviate-not-supported"}

func rfcCard() map[string]map[string]Card {
	out := map[string]map[string]Card{}
	for parent, src := range rfcCardSrc {
		row := map[string]Card{}
		for _, f := range strings.Fields(src) {
			kw, m := f[:len(f)-1], f[len(f)-1]
			switch m {
			case '*':
				row[kw] = Card{"0", "n"}
			case '?':
				row[kw] = Card{"0", "1"}
			case '1':
				row[kw] = Card{"1", "1"}
			case '+':
				row[kw] = Card{"1", "n"}
			default:
				panic("bad spec cell " + f)
			}
		}
		out[parent] = row
	}
	return out
}

// RFC 6020 argument classes per statement (§12 ABNF)
var rfcArgClass = map[string]string{
	"anyxml": "identifier", "argument": "identifier", "bit": "identifier", "case": "identifier", "choice": "identifier",
	"container": "identifier", "extension": "identifier", "feature": "identifier", "grouping": "identifier",
	"identity": "identifier", "leaf": "identifier", "leaf-list": "identifier", "list": "identifier", "module": "identifier",
	"notification": "identifier", "rpc": "identifier", "submodule": "identifier", "typedef": "identifier",
	"import": "identifier", "include": "identifier", "belongs-to": "identifier",
	"prefix": "prefix",
	"base":   "identifier-ref", "if-feature": "identifier-ref", "type": "identifier-ref", "uses": "identifier-ref",
	"revision": "date", "revision-date": "date",
	"config": "boolean", "mandatory": "boolean", "require-instance": "boolean", "yin-element": "boolean",
	"min-elements": "non-negative-integer", "position": "non-negative-integer",
	"max-elements": "max-value",
	"value":        "integer",
	"status":       "status", "ordered-by": "ordered-by", "deviate": "deviate",
	"range": "range", "length": "length", "key": "key", "unique": "unique",
	"deviation": "absolute-schema-nodeid", "augment": "schema-nodeid", "refine": "descendant-schema-nodeid",
	"fraction-digits": "fraction-digits", "pattern": "pattern", "namespace": "uri", "yang-version": "yang-version",
	"input": "none", "output": "none",
	"contact": "string", "description": "string", "organization": "string", "reference": "string", "default": "string",
	"presence": "string", "when": "string", "must": "string", "error-app-tag": "string", "error-message": "string",
	"units": "string", "path": "string", "enum": "string",
}

// the Go argument type that implements each class
var argClassImpl = map[string]string{
	"identifier": "IdArg", "prefix": "PrefixArg", "identifier-ref": "IdRefArg", "date": "DateArg", "boolean": "BoolArg",
	"non-negative-integer": "UintArg", "max-value": "MaxValueArg", "integer": "IntArg", "status": "StatusArg",
	"ordered-by": "OrdByArg", "deviate": "DeviateArg", "range": "RangeArg", "length": "LengthArg", "key": "KeyArg",
	"unique": "UniqueArg", "absolute-schema-nodeid": "AbsoluteSchemaArg", "descendant-schema-nodeid": "DescendantSchemaArg",
	"schema-nodeid": "AbsoluteSchemaArg|DescendantSchemaArg", "fraction-digits": "FractionDigitsArg", "pattern": "PatternArg",
	"uri": "UriArg", "yang-version": "YangVersionArg", "none": "EmptyArg", "string": "StringArg",
}

// module section membership (§12 module-stmt)
var rfcSections = map[string][]string{
	"header":   {"yang-version", "namespace", "prefix", "belongs-to"},
	"linkage":  {"import", "include"},
	"meta":     {"organization", "contact", "description", "reference"},
	"revision": {"revision"},
}

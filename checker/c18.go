package main

import (
	"fmt"
	"go/constant"
	"go/token"
	"go/types"
	"sort"
	"strings"

	"golang.org/x/tools/go/ssa"
)

func init() { register("C18", checkC18) }

func checkC18(w *World, r *Report) {
	r.NotDecided = []string{
		"mandatory/unique semantics through presence chains, nested choices and descendant unique paths on concrete trees",
		"idempotence and exactness of decoration as equalities over runtime trees (only the mechanisms that make them hold are decided)",
	}
	_ = w.Pkg("schema")

	r.Rule("R18.1", "decoration never alters explicit data: the plain data node's fields are written only by its constructor; the decorator builds a fresh slice and writes nothing through the child slice it is given; every existing child is wrapped once, in order", 3)
	r.guard("R18.1", func() {
		dp := w.Pkg("data/datanode")
		var writers []string
		for _, fd := range funcDecls(dp) {
			if isTestFile(w, fd.Pos()) {
				continue
			}
			for _, fname := range []string{"name", "children", "values"} {
				if len(assignsToField(dp, fd.Body, w.Field("data/datanode", "datanode", fname))) > 0 {
					writers = append(writers, funcDeclName(fd))
				}
			}
		}
		sort.Strings(writers)
		r.Check(len(writers) == 0, "R18.1", "writers of datanode fields", token.NoPos, "none besides the constructor literal", "the data node is modified after construction by {"+strings.Join(writers, ",")+"}")
		eff := NewEffects(w)
		m := w.SSAFunc(w.Method("schema", "addDefaults", "yangDataChildren"))
		mut, why, pos := false, "", token.NoPos
		for _, b := range m.Blocks {
			for _, in := range b.Instrs {
				switch x := in.(type) {
				case *ssa.Store:
					if ia, ok := x.Addr.(*ssa.IndexAddr); ok && eff.rootsOf(ia.X).params[1] {
						mut, why, pos = true, "element store into the given slice", x.Pos()
					}
				case *ssa.Call:
					if bi, ok := x.Call.Value.(*ssa.Builtin); ok && nm(bi) == "append" && eff.rootsOf(x.Call.Args[0]).params[1] {
						mut, why, pos = true, "append to the given slice (may write into its spare capacity)", x.Pos()
					}
				}
			}
		}
		r.Check(!mut, "R18.1", "addDefaults.yangDataChildren leaves its input slice alone", pos, "no element store / append through the children it is given", "the decorator writes through the child slice of the underlying tree: "+why)
		// fresh result of the same length; each child wrapped at its index
		fd, _ := w.FuncDecl(w.Method("schema", "addDefaults", "yangDataChildren"))
		okMake, okWrap := c18WrappedInPlace(w, m)
		r.Check(okMake && okWrap, "R18.1", "existing children are wrapped in place", fd.Pos(), "out = make(len(children)); out[i] = AddDefaults(schema child, children[i])", "explicit children are not carried over one-to-one and in order into the decorated view")
	})

	r.Rule("R18.2", "cardinality: too few is len < min, too many is len > max, and an all-ones max means unbounded", 1)
	r.guard("R18.2", func() {
		fd, _ := w.FuncDecl(w.Func("schema", "cardinalityInRange"))
		// the boundary cases of the decision table (R18.5 has the whole grid): count == min and count == max are accepted,
		// one less / one more is not, and an all-ones max accepts any count
		var bad []string
		for _, c := range []struct {
			mn, mx, n int64
			err       bool
		}{{2, 4, 2, false}, {2, 4, 1, true}, {2, 4, 4, false}, {2, 4, 5, true}, {0, -1, 1000, false}, {3, -1, 2, true}} {
			got, why := c18CardinalityVerdict(w, c.mn, c.mx, c.n)
			if why != "" {
				panic(undecided{"cardinalityInRange: " + why})
			}
			if got != c.err {
				bad = append(bad, fmt.Sprintf("min=%d max=%d count=%d: error=%v", c.mn, c.mx, c.n, got))
			}
		}
		r.Check(len(bad) == 0, "R18.2", "cardinalityInRange", fd.Pos(), "len<min, len>max; max == ^uint(0) ⇒ unbounded", "the element-count comparisons are off at {"+strings.Join(bad, "; ")+"}: a bound is inclusive/exclusive in the wrong way")
	})

	r.Rule("R18.5", "cardinality decision table: for every (min, max, count) of a small grid — count 0 included — cardinalityInRange reports an error iff count < min, or max is bounded and count > max", 1)
	r.guard("R18.5", func() {
		fd, _ := w.FuncDecl(w.Func("schema", "cardinalityInRange"))
		var bad []string
		n := 0
		for _, mn := range []int64{0, 1, 2, 3} {
			for _, mx := range []int64{1, 2, 3, -1} {
				if mx >= 0 && mx < mn {
					continue
				}
				for c := int64(0); c <= 5; c++ {
					got, why := c18CardinalityVerdict(w, mn, mx, c)
					if why != "" {
						panic(undecided{"cardinalityInRange: " + why})
					}
					want := c < mn || (mx >= 0 && c > mx)
					n++
					if want != got {
						mxs := fmt.Sprint(mx)
						if mx < 0 {
							mxs = "unbounded"
						}
						bad = append(bad, fmt.Sprintf("min=%d max=%s count=%d: error expected %v, reported %v", mn, mxs, c, want, got))
					}
				}
			}
		}
		r.Count("cardinality grid points", n)
		r.Check(len(bad) == 0, "R18.5", "cardinalityInRange decision table", fd.Pos(), fmt.Sprintf("%d grid points agree", n), "the verdict differs from `count < min || (bounded && count > max)` at: "+strings.Join(firstN(bad, 4), "; "))
	})

	r.Rule("R18.6", "an inactive case imposes nothing: in caseHasMandatory every check that can report a missing node for a case (a call returning the error list) runs only on the branch where hasOneOf found a configured child of that case", 2)
	r.guard("R18.6", func() {
		f := w.SSAFunc(w.Func("schema", "caseHasMandatory"))
		if f == nil {
			panic(undecided{"schema.caseHasMandatory"})
		}
		hasOne := w.SSAFunc(w.Func("schema", "hasOneOf"))
		var active []*ssa.BasicBlock
		for _, b := range f.Blocks {
			if iff, ok := b.Instrs[len(b.Instrs)-1].(*ssa.If); ok {
				if c, ok := iff.Cond.(*ssa.Call); ok && c.Call.StaticCallee() == hasOne && len(b.Succs[0].Preds) == 1 {
					active = append(active, b.Succs[0])
				}
			}
		}
		k := 0
		for _, b := range f.Blocks {
			for _, in := range b.Instrs {
				c, ok := in.(*ssa.Call)
				if !ok || c.Call.StaticCallee() == nil || c.Call.StaticCallee().Pkg != f.Pkg {
					continue
				}
				res := c.Call.StaticCallee().Signature.Results()
				if res.Len() != 1 || res.At(0).Type().String() != "[]error" {
					continue
				}
				k++
				dom := false
				for _, a := range active {
					if a.Dominates(b) {
						dom = true
					}
				}
				r.Check(dom, "R18.6", fmt.Sprintf("caseHasMandatory: %s", c.Call.StaticCallee().Name()), c.Pos(), "only for a case with a configured child", "the check also runs for cases that are not selected: a mandatory node or nested mandatory choice inside an inactive case is reported missing although the tree is valid")
			}
		}
		if k == 0 {
			panic(undecided{"caseHasMandatory performs no checks"})
		}
	})

	r.Rule("R18.7", "the three mandatory classifiers agree with the rule and with each other: checkMandatory, hasMandatoryChildren (absent non-presence container) and hasCaseMandatoryChildren (active case) treat a child as required iff Leaf: Mandatory(); List, LeafList: Limit().Min > 0; Container: not Presence() (looked through)", 12)
	r.guard("R18.7", func() { c18Classifiers(w, r) })

	r.Rule("R18.8", "a default under a choice is added only when its case is the active or default one: in the decorator's loop over default children, the path on which IsActiveDefault answered false cannot reach the append of the created default", 1)
	r.guard("R18.8", func() {
		d := c18DefaultDecision(w)
		r.Check(d.whole == "" && d.hasChoice && d.hasActive, "R18.8", "yangDataChildren: inactive choice defaults are skipped", d.pos,
			"IsActiveDefault false ⇒ next default child; true ⇒ createDefault", "the default of a choice member is created although IsActiveDefault answered false (or not created when it answered true): defaults of cases that are neither selected nor the default case appear in the decorated tree"+d.whole)
	})

	r.Rule("R18.9", "whether a choice or case holds configuration is asked of that very node: the checker the decorator hands to IsActiveDefault is a closure that returns hasCfg(seen, node) for its argument, with no table in between (choices, cases and nested choices may share a name)", 1)
	r.guard("R18.9", func() {
		f, _ := c18DefaultLoop(w)
		isActive := w.SSAFunc(w.Func("schema", "IsActiveDefault"))
		checked := false
		rsym := NewSym(w)
		{
			callsWithCtx(f, 2, func(c *ssa.Call, cctx *symCtx) {
				if c.Call.StaticCallee() != isActive {
					return
				}
				checked = true
				arg := rsym.Resolve(c.Call.Args[len(c.Call.Args)-1], cctx)
				if ct, ok := arg.(*ssa.ChangeType); ok {
					arg = rsym.Resolve(ct.X, cctx)
				}
				mc, ok := arg.(*ssa.MakeClosure)
				good, why := false, "the checker is not a closure built at the call"
				if ok {
					cf := mc.Fn.(*ssa.Function)
					good, why = true, ""
					// the closure and the helpers of the package it hands its argument to
					fns := []*ssa.Function{cf}
					for i := 0; i < len(fns) && i < 6; i++ {
						for _, cb := range fns[i].Blocks {
							for _, ci := range cb.Instrs {
								if call, ok := ci.(*ssa.Call); ok {
									if g := call.Call.StaticCallee(); g != nil && g.Pkg == cf.Pkg && g.Blocks != nil {
										dup := false
										for _, h := range fns {
											if h == g {
												dup = true
											}
										}
										if !dup {
											fns = append(fns, g)
										}
									}
								}
							}
						}
					}
					// key of a table lookup: must come from a child of the node asked about
					fromChild := func(v ssa.Value) bool {
						seen := map[ssa.Value]bool{}
						var walk func(v ssa.Value, d int) bool
						walk = func(v ssa.Value, d int) bool {
							if v == nil || seen[v] || d > 12 {
								return false
							}
							seen[v] = true
							if call, ok := v.(*ssa.Call); ok && call.Call.IsInvoke() && call.Call.Method.Name() == "Children" {
								return true
							}
							if in, ok := v.(ssa.Instruction); ok {
								for _, op := range in.Operands(nil) {
									if *op != nil && walk(*op, d+1) {
										return true
									}
								}
							}
							return false
						}
						return walk(v, 0)
					}
					for _, g := range fns {
						for _, cb := range g.Blocks {
							for _, ci := range cb.Instrs {
								switch x := ci.(type) {
								case *ssa.MapUpdate:
									good, why = false, "the checker fills a table"
								case *ssa.Lookup:
									if _, isMap := x.X.Type().Underlying().(*types.Map); isMap && !fromChild(x.Index) {
										good, why = false, "the checker consults a table by something other than the names of the node's children"
									}
								}
							}
						}
					}
					// and the answer is computed from the argument
					for _, cb := range cf.Blocks {
						if ret, ok := cb.Instrs[len(cb.Instrs)-1].(*ssa.Return); ok && len(ret.Results) == 1 {
							if k, isConst := ret.Results[0].(*ssa.Const); isConst && k != nil {
								continue
							}
							if !c18DependsOnParam(ret.Results[0], cf, fns) {
								good, why = false, "the checker's answer does not depend on the node it is asked about"
							}
						}
					}
				}
				r.Check(good, "R18.9", "yangDataChildren: configuration checker", c.Pos(), "func(n) { return hasCfg(seen, n) }", why+": the answer for one choice/case can be served for a different, like-named one, so defaults of an inactive case are added or those of the default case are missing")
			})
		}
		if !checked {
			panic(undecided{"yangDataChildren: IsActiveDefault call not found"})
		}
	})

	r.Rule("R18.10", "one place decides which defaults exist: the default children of a schema node are enumerated only by the decorator's yangDataChildren, which applies the explicit-data and active/default-case tests — a missing container is decorated in its own right, not filled with all of its default children", 1)
	r.guard("R18.10", func() {
		sp := w.SSAPkg("schema")
		var callers []string
		for _, f := range allFuncs(sp) {
			if isTestFile(w, f.Pos()) {
				continue
			}
			for _, b := range f.Blocks {
				for _, in := range b.Instrs {
					if c, ok := in.(ssa.CallInstruction); ok && c.Common().IsInvoke() && nm(c.Common().Method) == "DefaultChildren" {
						if dl, _ := c18DefaultLoop(w); f == dl {
							callers = append(callers, "yangDataChildren") // the decorator's own loop, possibly in its helper
						} else {
							callers = append(callers, f.Name())
						}
					}
				}
			}
		}
		sort.Strings(callers)
		r.Check(strings.Join(callers, ",") == "yangDataChildren", "R18.10", "callers of Node.DefaultChildren", token.NoPos, "yangDataChildren only", "default children are enumerated in {"+strings.Join(callers, ",")+"}: outside yangDataChildren nothing tests whether a default belongs to the active or default case, so e.g. an absent non-presence container is created with the defaults of every case of a choice inside it")
	})

	r.Rule("R18.12", "members of a choice are left to the choice logic, whatever their kind: in checkMandatory a schema child is entered into the table of required children (the one the missing-node errors are produced from) only when isAChoice says it is not a choice member — a non-presence container of an inactive case must not be looked through", 1)
	r.guard("R18.12", func() {
		f := w.SSAFunc(w.Func("schema", "checkMandatory"))
		if f == nil {
			panic(undecided{"schema.checkMandatory"})
		}
		sym := NewSym(w)
		sym.Expand = false // the verdict of isAChoice is taken as one condition, however it is computed
		// the table the errors are produced from: a map of nodes that is ranged over
		ranged := map[ssa.Value]bool{}
		for _, b := range f.Blocks {
			for _, in := range b.Instrs {
				if rg, ok := in.(*ssa.Range); ok {
					ranged[rg.X] = true
				}
			}
		}
		n := 0
		why := ""
		for _, b := range f.Blocks {
			for _, in := range b.Instrs {
				mu, ok := in.(*ssa.MapUpdate)
				if !ok || !ranged[mu.Map] {
					continue
				}
				if mt, ok := mu.Map.Type().Underlying().(*types.Map); !ok || !strings.HasSuffix(mt.Elem().String(), "schema.Node") {
					continue
				}
				n++
				from := f.Blocks[0]
				if l, in := loopOf(f, b); in {
					from = l.Header
				}
				has := false
				msg := pcImplies(sym.PathCond(from, b, nil), func(a *pcAtom) string {
					if c, ok := a.v.(*ssa.Call); ok && c.Call.StaticCallee() != nil && nm(c.Call.StaticCallee()) == "isAChoice" {
						has = true
						return "member"
					}
					return ""
				}, func(env map[string]bool) bool { return !env["member"] })
				if !has || msg != "" {
					why = "a child is entered although it may be a choice member (" + msg + ")"
				}
			}
		}
		if n == 0 {
			panic(undecided{"checkMandatory: table of required children"})
		}
		r.Check(why == "", "R18.12", "checkMandatory leaves choice members to the choice logic", f.Pos(), "required[name] = n only under !isAChoice(schema, n)", why+": a mandatory node inside a non-presence container of an inactive case is reported missing")
	})

	r.Rule("R18.13", "a list's number of entries is always measured against min-/max-elements: validateListSchema and validateLeafListSchema (where they exist) reach CheckCardinality whatever the number of entries is — a list node that is present with no entries still has to meet min-elements", 1)
	r.guard("R18.13", func() {
		n := 0
		for _, name := range []string{"validateListSchema", "validateLeafListSchema", "validateLeafSchema"} {
			fo := w.tryFunc("schema", name)
			if fo == nil {
				continue
			}
			f := w.SSAFunc(fo)
			sym := NewSym(w)
			for _, b := range f.Blocks {
				for _, in := range b.Instrs {
					c, ok := in.(*ssa.Call)
					if !ok || !c.Call.IsInvoke() || nm(c.Call.Method) != "CheckCardinality" {
						continue
					}
					n++
					cond := sym.PathCond(f.Blocks[0], b, nil)
					uncond := !pcSat(pcNotF(cond))
					r.Check(uncond, "R18.13", name+" checks the cardinality", c.Pos(), "CheckCardinality(path, number of entries) reached unconditionally", "the cardinality check is reached only when `"+cond.String()+"`: e.g. a list node with no entries skips it and its min-elements is enforced nowhere")
				}
			}
		}
		if n == 0 {
			panic(undecided{"no CheckCardinality call in the list validators"})
		}
	})

	r.Rule("R18.11", "the right node is asked: the choice-membership helpers receive (parent, child) and the configuration checker is asked about the case under examination resp. the choice and then the enclosing node — argument roles (parameter / loop element) at the six reviewed call sites", 6)
	r.guard("R18.11", func() { c18ArgumentRoles(w, r) })

	r.Rule("R18.3", "explicit data wins and decoration is idempotent in what it adds: a default is created only for a child name not already present; a leaf's HasDefault agrees with its Default (which suppresses a type default on a mandatory leaf)", 2)
	r.guard("R18.3", func() {
		_, dlo := c18DefaultLoop(w)
		fd, _ := w.FuncDecl(dlo)
		d := c18DefaultDecision(w)
		ok := d.whole == "" && d.hasSeen
		r.Check(ok, "R18.3", "defaults only for absent names", fd.Pos(), "name ∈ seen ⇒ continue, before createDefault", "a default is created for a child that exists explicitly: explicit data is shadowed or duplicated, and decorating twice differs from decorating once")
		hd := w.Method("schema", "leaf", "HasDefault")
		hfd, _ := w.FuncDecl(hd)
		def := w.Method("schema", "leaf", "Default")
		// both answer "has a default" exactly when the leaf is not mandatory and its type has one
		hasDefaultIs := func(f *ssa.Function, idx int) string {
			if f == nil || len(ssaLoops(f)) > 0 {
				return "not a loop-free function"
			}
			sym := NewSym(w)
			out := pcZ
			for _, bl := range f.Blocks {
				ret, ok := bl.Instrs[len(bl.Instrs)-1].(*ssa.Return)
				if !ok || len(ret.Results) <= idx || bl == f.Recover {
					continue
				}
				out = pcOrF(out, pcAndF(sym.PathCond(f.Blocks[0], bl, nil), sym.Cond(unspill(ret.Results[idx]), nil)))
			}
			sawMand, sawType := false, false
			why := pcCompare(out, func(a *pcAtom) string {
				if a.x == nil && loadedFieldName(a.v) == "mandatory" {
					sawMand = true
					return "mandatory"
				}
				if c, ok := a.v.(*ssa.Call); ok && a.x == nil {
					if (c.Call.IsInvoke() && nm(c.Call.Method) == "Mandatory") || (c.Call.StaticCallee() != nil && c.Call.StaticCallee().Name() == "Mandatory") {
						sawMand = true
						return "mandatory"
					}
				}
				if ex, ok := a.v.(*ssa.Extract); ok && ex.Index == 1 {
					if c, isC := ex.Tuple.(*ssa.Call); isC && c.Call.IsInvoke() && nm(c.Call.Method) == "Default" {
						sawType = true
						return "typedefault"
					}
				}
				return ""
			}, func(env map[string]bool) bool { return !env["mandatory"] && env["typedefault"] })
			if why == "" && !(sawMand && sawType) {
				why = "the answer does not depend on both the mandatory flag and the type's default"
			}
			return why
		}
		whyHas := hasDefaultIs(w.SSAFunc(hd), 0)
		whyDef := hasDefaultIs(w.SSAFunc(def), 1)
		viaDefault, direct, suppress := whyHas == "", false, whyDef == ""
		r.Check(viaDefault && !direct && suppress, "R18.3", "leaf.HasDefault agrees with leaf.Default", hfd.Pos(), "HasDefault = second result of Default(); Default() is empty for a mandatory leaf", "HasDefault no longer goes through leaf.Default (which suppresses a type-inherited default on a mandatory leaf): a mandatory leaf is registered as a default child and decoration invents an empty value for it, hiding the missing-mandatory error")
	})

	r.Rule("R18.4", "unique sets are independent: the table that groups list entries by unique-key is created afresh for each unique statement", 1)
	r.guard("R18.4", func() {
		fn := w.SSAFunc(w.Func("schema", "checkUnique"))
		// the MakeMap whose values are appended-to must sit inside the loop over Uniques(): i.e. in a block
		// dominated by the loop header of the outer range loop (not in the entry block)
		var maps []*ssa.MakeMap
		for _, b := range fn.Blocks {
			for _, in := range b.Instrs {
				if mm, ok := in.(*ssa.MakeMap); ok {
					if mt, ok := mm.Type().Underlying().(*types.Map); ok {
						if _, isSlice := mt.Elem().Underlying().(*types.Slice); isSlice {
							maps = append(maps, mm)
						}
					}
				}
			}
		}
		groupingMaps := func(g *ssa.Function) []*ssa.MakeMap {
			var out []*ssa.MakeMap
			for _, b := range g.Blocks {
				for _, in := range b.Instrs {
					if mm, ok := in.(*ssa.MakeMap); ok {
						if mt, ok := mm.Type().Underlying().(*types.Map); ok {
							if _, isSlice := mt.Elem().Underlying().(*types.Slice); isSlice {
								out = append(out, mm)
							}
						}
					}
				}
			}
			return out
		}
		if len(maps) == 0 {
			// built by a helper that is called once per unique statement and hands back the table it made
			for _, b := range fn.Blocks {
				for _, in := range b.Instrs {
					c, ok := in.(*ssa.Call)
					if !ok {
						continue
					}
					h := c.Call.StaticCallee()
					if h == nil || h.Blocks == nil || h.Pkg != fn.Pkg {
						continue
					}
					hm := groupingMaps(h)
					if len(hm) != 1 {
						continue
					}
					returned := true
					for _, hb := range h.Blocks {
						if ret, isRet := hb.Instrs[len(hb.Instrs)-1].(*ssa.Return); isRet {
							returned = returned && len(ret.Results) == 1 && unspill(ret.Results[0]) == ssa.Value(hm[0])
						}
					}
					_, inLoop := loopOf(fn, b)
					r.Check(returned && inLoop, "R18.4", "checkUnique grouping table", c.Pos(), "made afresh by "+h.Name()+", called inside the loop over the unique statements", "one grouping table is shared by all unique statements of the list: a value of one unique leaf that coincides with a value of another is reported as a violation, and real violations are reported repeatedly")
					return
				}
			}
		}
		if len(maps) != 1 {
			r.Fail("R18.4", "checkUnique grouping table", fn.Pos(), fmt.Sprintf("expected one grouping map, found %d", len(maps)))
			return
		}
		inLoop := false
		blk := maps[0].Block()
		// a block is inside a loop iff it can reach itself
		seen := map[*ssa.BasicBlock]bool{}
		var dfs func(b *ssa.BasicBlock)
		dfs = func(b *ssa.BasicBlock) {
			for _, s := range b.Succs {
				if s == blk {
					inLoop = true
				}
				if !seen[s] {
					seen[s] = true
					dfs(s)
				}
			}
		}
		dfs(blk)
		r.Check(inLoop, "R18.4", "checkUnique grouping table", maps[0].Pos(), "allocated inside the loop over the unique statements", "one grouping table is shared by all unique statements of the list: a value of one unique leaf that coincides with a value of another is reported as a violation, and real violations are reported repeatedly")
	})
}

// c18Classifiers (R18.7): for each of the three functions that decide whether
// an absent schema child is required, the decision is read off the path
// conditions of what the function does about a required child (records it,
// reports it, or descends into it), with helpers expanded, and evaluated per
// kind of child for the values of the kind's accessor.
func c18Classifiers(w *World, r *Report) {
	kinds := []string{"Leaf", "List", "LeafList", "Container"}
	text := map[string]string{"Leaf": "Mandatory()", "List": "Limit().Min > 0", "LeafList": "Limit().Min > 0", "Container": "not Presence()"}
	for _, fn := range []string{"checkMandatory", "hasMandatoryChildren", "hasCaseMandatoryChildren"} {
		f := w.SSAFunc(w.Func("schema", fn))
		if f == nil {
			panic(undecided{"schema." + fn})
		}
		sym := NewSym(w)
		typeOK := func(a *pcAtom) string {
			if ex, ok := a.v.(*ssa.Extract); ok && ex.Index == 1 {
				if ta, ok := ex.Tuple.(*ssa.TypeAssert); ok && ta.CommaOk {
					if n, ok := ta.AssertedType.(*types.Named); ok {
						return n.Obj().Name()
					}
				}
			}
			return ""
		}
		isKind := func(n string) bool {
			for _, k := range kinds {
				if k == n {
					return true
				}
			}
			return false
		}
		// what is done about a required child
		isAction := func(in ssa.Instruction) bool {
			switch x := in.(type) {
			case *ssa.MapUpdate:
				if mt, ok := x.Map.Type().Underlying().(*types.Map); ok {
					if n, ok := mt.Elem().(*types.Named); ok && nm(n.Obj()) == "Node" {
						return true
					}
				}
			case *ssa.Call:
				if g := x.Call.StaticCallee(); g != nil {
					return nm(g) == "appendMandatoryError" || nm(g) == "hasMandatoryChildren"
				}
			}
			return false
		}
		// aboutChild: the atom asks something of the child as a Leaf/List/...: a
		// method of the value the type switch bound
		aboutChild := func(a *pcAtom) bool {
			found := false
			seen := map[ssa.Value]bool{}
			var walk func(v ssa.Value, d int)
			walk = func(v ssa.Value, d int) {
				if v == nil || seen[v] || d > 6 {
					return
				}
				seen[v] = true
				switch x := v.(type) {
				case *ssa.Call:
					if x.Call.IsInvoke() {
						if ex, ok := x.Call.Value.(*ssa.Extract); ok && ex.Index == 0 {
							if ta, ok := ex.Tuple.(*ssa.TypeAssert); ok {
								if n, ok := ta.AssertedType.(*types.Named); ok && isKind(n.Obj().Name()) {
									found = true
								}
							}
						}
					}
					for _, arg := range x.Call.Args {
						walk(arg, d+1)
					}
				case *ssa.BinOp:
					walk(x.X, d+1)
					walk(x.Y, d+1)
				case *ssa.UnOp:
					walk(x.X, d+1)
				case *ssa.Field:
					walk(x.X, d+1)
				}
			}
			walk(a.v, 0)
			return found
		}
		req := pcZ
		for _, l := range ssaLoops(f) {
			body := l.body()
			lreq := pcZ
			seenKinds := map[string]bool{}
			for _, b := range f.Blocks {
				if !body[b] && !(l.Header.Dominates(b) && reachesLatchFree(b, l)) {
					continue
				}
				for _, in := range b.Instrs {
					var conds []*pcF
					if isAction(in) {
						conds = append(conds, sym.PathCond(l.Header, b, nil))
					} else if call, ok := in.(*ssa.Call); ok {
						// the classification handed to a loop-free helper of the package: its actions,
						// under the helper's own conditions
						if h := call.Call.StaticCallee(); h != nil && h.Pkg == f.Pkg && h.Blocks != nil && len(ssaLoops(h)) == 0 {
							nctx := &symCtx{call: call}
							for _, hb := range h.Blocks {
								for _, hin := range hb.Instrs {
									if isAction(hin) {
										conds = append(conds, pcAndF(sym.PathCond(l.Header, b, nil), sym.PathCond(h.Blocks[0], hb, nctx)))
									}
								}
							}
						}
					}
					for _, c := range conds {
						for _, a := range c.atoms() {
							if isKind(typeOK(a)) {
								seenKinds[typeOK(a)] = true
							}
						}
						lreq = pcOrF(lreq, c)
					}
				}
			}
			// a loop that tells the kinds apart (a later loop that only asks
			// "container or not" about nodes already classified is not one)
			if len(seenKinds) >= 3 {
				req = pcOrF(req, lreq)
			}
		}
		atoms := req.atoms()
		if len(atoms) > 18 {
			r.Fail("R18.7", fn, f.Pos(), fmt.Sprintf("%d atomic tests, not decided", len(atoms)))
			continue
		}
		for _, k := range kinds {
			// accessor values to try
			type accVal struct {
				b bool
				n int64
			}
			var vals []accVal
			if k == "Leaf" || k == "Container" {
				vals = []accVal{{b: false}, {b: true}}
			} else {
				vals = []accVal{{n: 0}, {n: 1}, {n: 2}, {n: 7}}
			}
			bad := ""
			armSeen := false
			for _, av := range vals {
				want := false
				switch k {
				case "Leaf":
					want = av.b
				case "Container":
					want = !av.b
				default:
					want = av.n > 0
				}
				// known atoms by model, the others existentially
				var free []*pcAtom
				env := map[string]bool{}
				for _, a := range atoms {
					if t := typeOK(a); t != "" {
						env[a.key] = t == k
						if t == k {
							armSeen = true
						}
						continue
					}
					if call, ok := a.v.(*ssa.Call); ok && call.Call.IsInvoke() {
						switch nm(call.Call.Method) {
						case "Mandatory", "Presence":
							env[a.key] = av.b
							continue
						}
					}
					if bo, ok := a.v.(*ssa.BinOp); ok && a.subj != "" {
						isMin := false
						for _, side := range []ssa.Value{bo.X, bo.Y} {
							if fl, ok := side.(*ssa.Field); ok {
								st := fl.X.Type().Underlying().(*types.Struct)
								if nm(st.Field(fl.Field)) == "Min" {
									isMin = true
								}
							}
						}
						if isMin {
							env[a.key] = a.set.contains(av.n)
							continue
						}
					}
					free = append(free, a)
				}
				// anything else asked of the child itself must not matter (for all
				// its values); tests about the surroundings (already configured,
				// belongs to a choice, more children to go) may select (exists)
				var envFree, accFree []*pcAtom
				for _, a := range free {
					if aboutChild(a) {
						accFree = append(accFree, a)
					} else {
						envFree = append(envFree, a)
					}
				}
				for am := 0; am < 1<<len(accFree); am++ {
					for i, a := range accFree {
						env[a.key] = am&(1<<i) != 0
					}
					got := false
					for m := 0; m < 1<<len(envFree); m++ {
						for i, a := range envFree {
							env[a.key] = m&(1<<i) != 0
						}
						if req.eval(env, map[*pcF]bool{}) {
							got = true
							break
						}
					}
					if got != want {
						extra := ""
						for _, a := range accFree {
							extra += fmt.Sprintf(", %s = %v", a.key, env[a.key])
						}
						if k == "Leaf" || k == "Container" {
							bad = fmt.Sprintf("%s = %v%s gives %v", text[k], av.b, extra, got)
						} else {
							bad = fmt.Sprintf("Limit().Min = %d%s gives %v", av.n, extra, got)
						}
					}
				}
			}
			if !armSeen {
				r.Fail("R18.7", fn+": "+k, f.Pos(), fn+" has no arm that decides a "+k+" child: such a child is never reported missing here although the sibling classifiers report it")
				continue
			}
			r.Check(bad == "", "R18.7", fn+": "+k, f.Pos(), "required iff "+text[k], fmt.Sprintf("%s decides a %s child differently (%s); the rule and the sibling classifiers say: required iff %s", fn, k, bad, text[k]))
		}
	}
}

// c18DependsOnParam: v is computed from parameter 0 of cf (through calls into
// the listed helpers).
func c18DependsOnParam(v ssa.Value, cf *ssa.Function, fns []*ssa.Function) bool {
	seen := map[ssa.Value]bool{}
	var walk func(v ssa.Value, d int) bool
	walk = func(v ssa.Value, d int) bool {
		if v == nil || seen[v] || d > 20 {
			return false
		}
		seen[v] = true
		if v == ssa.Value(cf.Params[0]) {
			return true
		}
		if phi, ok := v.(*ssa.Phi); ok {
			// a result assembled by control flow depends on what the branches tested
			for _, e := range phi.Edges {
				if walk(e, d+1) {
					return true
				}
			}
			for _, p := range phi.Block().Preds {
				for q := p; q != nil; q = q.Idom() {
					if iff, ok := q.Instrs[len(q.Instrs)-1].(*ssa.If); ok && walk(iff.Cond, d+1) {
						return true
					}
				}
			}
			return false
		}
		if in, ok := v.(ssa.Instruction); ok {
			for _, op := range in.Operands(nil) {
				if *op != nil && walk(*op, d+1) {
					return true
				}
			}
		}
		return false
	}
	if walk(v, 0) {
		return true
	}
	// constant results selected by tests on the parameter
	return false
}

// c18CardinalityVerdict: does cardinalityInRange return an error for (min, max,
// count)?  max < 0 stands for the all-ones value.  The function's exits are
// evaluated under the model; min and max are its two unsigned parameters in
// that order, or the fields Min and Max of a parameter, count its int parameter.
func c18CardinalityVerdict(w *World, mn, mx, count int64) (isErr bool, why string) {
	f := w.SSAFunc(w.Func("schema", "cardinalityInRange"))
	if f == nil {
		return false, "not found"
	}
	if len(ssaLoops(f)) != 0 {
		return false, "has a loop"
	}
	var uints []*ssa.Parameter
	var cnt *ssa.Parameter
	for _, p := range f.Params {
		if bt, ok := p.Type().Underlying().(*types.Basic); ok {
			switch {
			case bt.Info()&types.IsUnsigned != 0:
				uints = append(uints, p)
			case bt.Info()&types.IsInteger != 0:
				cnt = p
			}
		}
	}
	maxV := constant.MakeInt64(mx)
	if mx < 0 {
		maxV = constant.MakeUint64(^uint64(0))
	}
	var val func(v ssa.Value, d int) constant.Value
	val = func(v ssa.Value, d int) constant.Value {
		if d > 6 {
			return nil
		}
		switch x := v.(type) {
		case *ssa.Const:
			if x.Value != nil && x.Value.Kind() == constant.Int {
				return x.Value
			}
		case *ssa.Convert:
			return val(x.X, d+1)
		case *ssa.ChangeType:
			return val(x.X, d+1)
		case *ssa.Parameter:
			if x == cnt {
				return constant.MakeInt64(count)
			}
			if len(uints) == 2 && x == uints[0] {
				return constant.MakeInt64(mn)
			}
			if len(uints) == 2 && x == uints[1] {
				return maxV
			}
		}
		switch loadedFieldName(v) {
		case "Min":
			return constant.MakeInt64(mn)
		case "Max":
			return maxV
		}
		return nil
	}
	sym := NewSym(w)
	model := func(a *pcAtom) (bool, bool) {
		if a.x != nil && a.y != nil && a.subj == "" {
			x, y := val(a.x, 0), val(a.y, 0)
			if x == nil || y == nil {
				return false, false
			}
			return constant.Compare(x, a.op, y), true
		}
		if bo, ok := a.v.(*ssa.BinOp); ok && a.subj != "" {
			for _, side := range []ssa.Value{bo.X, bo.Y} {
				if _, isC := side.(*ssa.Const); isC {
					continue
				}
				if c := val(side, 0); c != nil {
					if i, exact := constant.Int64Val(c); exact {
						return a.set.contains(i), true
					}
					// the all-ones value: in the set only if the set reaches the top of the range
					return len(a.set) > 0 && a.set[len(a.set)-1].hi == fullISet[len(fullISet)-1].hi, true
				}
			}
		}
		return false, false
	}
	taken := 0
	for _, row := range sym.retTable(f, 0) {
		hit, decided := pcEvalFree(row.cond, model)
		if !decided {
			return false, "an exit depends on more than min, max and the count"
		}
		if hit {
			taken++
			isErr = !isNilConst(row.val)
		}
	}
	if taken != 1 {
		return false, fmt.Sprintf("%d exits taken at once", taken)
	}
	return isErr, ""
}

// c18DefaultLoop: the function that holds the decorator's loop over the default
// children — addDefaults.yangDataChildren, or the helper of the package it
// hands that half of its work to (the one that calls createDefault).
func c18DefaultLoop(w *World) (*ssa.Function, *types.Func) {
	mo := w.Method("schema", "addDefaults", "yangDataChildren")
	m := w.SSAFunc(mo)
	create := w.SSAFunc(w.Func("schema", "createDefault"))
	if m == nil || create == nil {
		panic(undecided{"schema.addDefaults.yangDataChildren / createDefault"})
	}
	calls := func(g *ssa.Function) bool {
		for _, b := range g.Blocks {
			for _, in := range b.Instrs {
				if c, ok := in.(*ssa.Call); ok && c.Call.StaticCallee() == create {
					return true
				}
			}
		}
		return false
	}
	if calls(m) {
		return m, mo
	}
	for g := range calleesDeep(m, 1) {
		if g.Pkg == m.Pkg && g.Blocks != nil && g.Parent() == nil && calls(g) {
			if o, ok := g.Object().(*types.Func); ok {
				return g, o
			}
		}
	}
	panic(undecided{"yangDataChildren: the loop that creates the missing defaults"})
}

// c18WrappedInPlace: somewhere in yangDataChildren or a function it calls,
// out = make([]T, len(children)) and, in a loop, out[i] = AddDefaults(_,
// children[i]) for the same i — children being the slice the method was given.
func c18WrappedInPlace(w *World, m *ssa.Function) (okMake, okWrap bool) {
	addDef := w.SSAFunc(w.Func("schema", "AddDefaults"))
	sym := NewSym(w)
	// the functions to look in, each with the value that stands for the children there
	type place struct {
		g        *ssa.Function
		children ssa.Value
	}
	places := []place{{m, m.Params[1]}}
	callsWithCtx(m, 1, func(c *ssa.Call, ctx *symCtx) {
		g := c.Call.StaticCallee()
		if ctx != nil || g == nil || g.Blocks == nil || g.Pkg != m.Pkg {
			return
		}
		for i, a := range c.Call.Args {
			if a == ssa.Value(m.Params[1]) && i < len(g.Params) {
				places = append(places, place{g, g.Params[i]})
			}
		}
	})
	_ = sym
	for _, pl := range places {
		var out ssa.Value
		for _, b := range pl.g.Blocks {
			for _, in := range b.Instrs {
				if ms, ok := in.(*ssa.MakeSlice); ok {
					if arg, isLen := isLenCall(ms.Len); isLen && arg == pl.children {
						out = ms
					}
				}
			}
		}
		if out == nil {
			continue
		}
		for _, b := range pl.g.Blocks {
			if _, inLoop := loopOf(pl.g, b); !inLoop {
				continue
			}
			for _, in := range b.Instrs {
				st, ok := in.(*ssa.Store)
				if !ok {
					continue
				}
				ia, ok := st.Addr.(*ssa.IndexAddr)
				if !ok || ia.X != out {
					continue
				}
				c, ok := st.Val.(*ssa.Call)
				if !ok || c.Call.StaticCallee() != addDef || len(c.Call.Args) != 2 {
					continue
				}
				ld, ok := c.Call.Args[1].(*ssa.UnOp)
				if !ok || ld.Op != token.MUL {
					continue
				}
				src, ok := ld.X.(*ssa.IndexAddr)
				if ok && src.X == pl.children && src.Index == ia.Index {
					return true, true
				}
			}
		}
		okMake = true
	}
	return okMake, false
}

// c18Decision: when, in one round of the decorator's loop over the default
// children, a default is created.
type c18Decision struct {
	whole                         string // "" when created ⇔ further element ∧ name ∉ seen ∧ (not under a choice ∨ IsActiveDefault)
	hasSeen, hasChoice, hasActive bool
	pos                           token.Pos
}

var c18DecisionMemo *c18Decision

func c18DefaultDecision(w *World) c18Decision {
	if c18DecisionMemo != nil {
		return *c18DecisionMemo
	}
	f, _ := c18DefaultLoop(w)
	create := w.SSAFunc(w.Func("schema", "createDefault"))
	isActive := w.SSAFunc(w.Func("schema", "IsActiveDefault"))
	isChoice := w.SSAFunc(w.Method("schema", "addDefaults", "isAChoice"))
	sym := NewSym(w)
	sym.keepAtom = func(g *ssa.Function) bool { return g == isActive || g == isChoice }
	d := c18Decision{whole: "createDefault call not found in a loop"}
	// the table of the names present: a map made here or in a helper, filled under YangDataName()
	isSeenMap := func(v ssa.Value, ctx *symCtx) bool {
		os := sym.Origins(v, ctx, 0)
		for _, o := range os {
			ov := o.v
			// a variable a closure also sees lives in a cell: read what was stored once
			if ld, isLd := ov.(*ssa.UnOp); isLd && ld.Op == token.MUL {
				if al, isAl := ld.X.(*ssa.Alloc); isAl {
					if st := cellSingleStore(al); st != nil {
						if inner := sym.Origins(st, o.ctx, 0); len(inner) == 1 {
							ov = inner[0].v
						}
					}
				}
			}
			// handed back by the helper that wrapped the children (it has a loop, so its exits are read here)
			if ex, isEx := ov.(*ssa.Extract); isEx {
				if hc, isCall := ex.Tuple.(*ssa.Call); isCall {
					if h := hc.Call.StaticCallee(); h != nil && h.Blocks != nil && strings.HasPrefix(pkgPathOf(h), modPath) {
						var got ssa.Value
						same := true
						for _, hb := range h.Blocks {
							if ret, isRet := hb.Instrs[len(hb.Instrs)-1].(*ssa.Return); isRet && ex.Index < len(ret.Results) {
								rv := unspill(ret.Results[ex.Index])
								if got != nil && got != rv {
									same = false
								}
								got = rv
							}
						}
						if same && got != nil {
							ov = got
						}
					}
				}
			}
			mm, ok := ov.(*ssa.MakeMap)
			if !ok {
				return false
			}
			filled := false
			for _, fb := range mm.Parent().Blocks {
				for _, fin := range fb.Instrs {
					mu, isMU := fin.(*ssa.MapUpdate)
					if !isMU {
						continue
					}
					target := mu.Map
					if ld, isLd := target.(*ssa.UnOp); isLd && ld.Op == token.MUL {
						if al, isAl := ld.X.(*ssa.Alloc); isAl {
							if st := cellSingleStore(al); st != nil {
								target = st
							}
						}
					}
					if target != ssa.Value(mm) {
						continue
					}
					if kc, isC := mu.Key.(*ssa.Call); isC && kc.Call.IsInvoke() && nm(kc.Call.Method) == "YangDataName" {
						filled = true
					}
				}
			}
			if !filled {
				return false
			}
		}
		return len(os) > 0
	}
	for _, bl := range f.Blocks {
		for _, in := range bl.Instrs {
			c, ok := in.(*ssa.Call)
			if !ok || c.Call.StaticCallee() != create {
				continue
			}
			lp, inLoop := loopOf(f, bl)
			if !inLoop {
				continue
			}
			d.pos = c.Pos()
			pc := sym.PathCond(lp.Header, bl, nil)
			d.hasSeen, d.hasChoice, d.hasActive = false, false, false
			d.whole = pcCompare(pc, func(a *pcAtom) string {
				if (a.op == token.LSS && a.x != nil && isRangeIndex(a.x)) || a.iter {
					return "iter"
				}
				if ex, isE := a.v.(*ssa.Extract); isE && ex.Index == 1 {
					if lk, isL := ex.Tuple.(*ssa.Lookup); isL && lk.CommaOk && isSeenMap(lk.X, a.ctx) {
						d.hasSeen = true
						return "seen"
					}
				}
				if tc, isT := a.v.(*ssa.Call); isT && a.x == nil {
					switch tc.Call.StaticCallee() {
					case isChoice:
						d.hasChoice = true
						return "choice"
					case isActive:
						d.hasActive = true
						return "active"
					}
				}
				return ""
			}, func(env map[string]bool) bool {
				return env["iter"] && !env["seen"] && (!env["choice"] || env["active"])
			})
			if d.whole != "" {
				d.whole = " (" + d.whole + ")"
			}
		}
	}
	c18DecisionMemo = &d
	return d
}

// cellSingleStore: the one value ever stored into a local variable that
// closures may also read (never write); nil when there are several stores,
// a closure stores into it, or its address goes anywhere else.
func cellSingleStore(a *ssa.Alloc) ssa.Value {
	var val ssa.Value
	n := 0
	for _, ref := range *a.Referrers() {
		switch x := ref.(type) {
		case *ssa.Store:
			if x.Addr != ssa.Value(a) {
				return nil
			}
			val = x.Val
			n++
		case *ssa.UnOp:
			if x.Op != token.MUL {
				return nil
			}
		case *ssa.DebugRef:
		case *ssa.MakeClosure:
			fn, _ := x.Fn.(*ssa.Function)
			if fn == nil {
				return nil
			}
			for i, b := range x.Bindings {
				if b != ssa.Value(a) || i >= len(fn.FreeVars) {
					continue
				}
				for _, fr := range *fn.FreeVars[i].Referrers() {
					if ld, ok := fr.(*ssa.UnOp); ok && ld.Op == token.MUL {
						continue
					}
					if _, ok := fr.(*ssa.DebugRef); ok {
						continue
					}
					return nil
				}
			}
		default:
			return nil
		}
	}
	if n != 1 {
		return nil
	}
	return val
}

package main

// Rules added after the seventh round of seeded changes (see round6.go).

import (
	"fmt"
	"go/constant"
	"go/token"
	"go/types"
	"regexp"
	"sort"
	"strconv"
	"strings"

	"golang.org/x/tools/go/ssa"
)

// r7LexerScansTheTextGiven (R07.15 / R10.15): positions are offsets into the
// text the caller handed in — the lexer's input is that text itself.
func r7LexerScansTheTextGiven(w *World, r *Report, rule string) {
	input := w.Field("parse", "lexer", "input")
	n := 0
	for _, f := range allFuncs(w.SSAPkg("parse")) {
		if isTestFile(w, f.Pos()) {
			continue
		}
		for _, b := range f.Blocks {
			for _, in := range b.Instrs {
				st, ok := in.(*ssa.Store)
				if !ok {
					continue
				}
				fa, ok := st.Addr.(*ssa.FieldAddr)
				if !ok || !isFieldAddrOf(fa, input) {
					continue
				}
				n++
				v := st.Val
				if ld, ok := v.(*ssa.UnOp); ok {
					if al, ok := ld.X.(*ssa.Alloc); ok {
						// a parameter that lives in a cell: fine when it is never assigned again
						for _, prm := range f.Params {
							if spillCell(prm) == al {
								v = prm
							}
						}
					}
				}
				_, isParam := v.(*ssa.Parameter)
				r.Check(isParam, rule, funcKey(f)+" sets lexer.input", st.Pos(), "the text handed in, as it stands", "the lexer scans `"+st.Val.String()+"`, a text derived from the one it was given: token offsets no longer index the caller's text, which Tree.errorf / ErrorContext use to compute line and column (a byte-order mark stripped, a line break appended: locations shift or point past the end)")
			}
		}
	}
	if n == 0 {
		panic(undecided{"no store to lexer.input"})
	}
}

// r7NoPackageLevelFreeList for C02 (R02.12): see r6NoHandOver.

// r7WrapperLexerStateless (R03.11): the grammar-specific lexers add no state to
// the common lexer.
func r7WrapperLexerStateless(w *World, r *Report, rule string) {
	for _, c := range []struct{ key, typ string }{{"xpath/grammars/expr", "exprLex"}} {
		tn, ok := scopeLookup(w.Pkg(c.key).Types.Scope(), c.typ).(*types.TypeName)
		if !ok {
			panic(undecided{c.key + "." + c.typ})
		}
		st, ok := tn.Type().Underlying().(*types.Struct)
		if !ok {
			panic(undecided{c.typ + " is not a struct"})
		}
		var extra []string
		for i := 0; i < st.NumFields(); i++ {
			if f := st.Field(i); !f.Embedded() {
				extra = append(extra, f.Name()+" "+f.Type().String())
			}
		}
		r.Check(len(extra) == 0, rule, c.typ+" holds only the common lexer", tn.Pos(), "no field of its own", "the expression lexer keeps state of its own ("+strings.Join(extra, ", ")+") between tokens: whether a token is accepted can then depend on how many brackets came before, so an expression and its fully parenthesised form are no longer accepted alike")
	}
}

// r7FunctionTokensNeedParen (R04.26): a name is a function name or node type
// only when '(' follows (XPath 1.0 §3.7).
func r7FunctionTokensNeedParen(w *World, r *Report, rule string) {
	f := w.SSAFunc(w.Method("xpath", "CommonLex", "LexName"))
	if f == nil {
		panic(undecided{"CommonLex.LexName"})
	}
	toks := map[int64]string{}
	for _, name := range []string{"FUNC", "TEXTFUNC", "CURRENTFUNC", "DEREFFUNC", "NODETYPE"} {
		if v, ok := pkgConstInt(w, "xpath/xutils", name); ok {
			toks[v] = name
		}
	}
	if len(toks) < 3 {
		panic(undecided{"xutils token constants"})
	}
	sym := NewSym(w)
	sym.Expand = false
	sym.ExpandReturns = true // the arm for names before '(' may live in a helper: its exits, under the caller's condition
	n := 0
	for _, row := range sym.retTable(f, 0) {
		k, ok := intConstOf(row.val)
		if !ok || toks[k] == "" {
			continue
		}
		n++
		has := false
		msg := pcImplies(row.cond, func(a *pcAtom) string {
			if c, ok := a.v.(*ssa.Call); ok && c.Call.StaticCallee() != nil && nm(c.Call.StaticCallee()) == "NextNonWhitespaceStringIs" && len(c.Call.Args) == 2 {
				if kc, ok := c.Call.Args[1].(*ssa.Const); ok && kc.Value != nil && kc.Value.Kind() == constant.String && constant.StringVal(kc.Value) == "(" {
					has = true
					return "paren"
				}
			}
			return ""
		}, func(env map[string]bool) bool { return env["paren"] })
		r.Check(has && msg == "", rule, "LexName returns "+toks[k]+" only before '('", row.pos, "look-ahead for '(' holds", "the token "+toks[k]+" is returned although no '(' follows the name ("+msg+"): a data node called current, deref, text … can no longer be named in an expression")
	}
	if n == 0 {
		panic(undecided{"LexName: function tokens"})
	}
}

// r7ExactlyOneKeyName (R05.15): LRefEquals raises its error unless exactly one
// key name element is pending.
func r7ExactlyOneKeyName(w *World, r *Report, rule string) {
	f := w.SSAFunc(w.Method("xpath", "ProgBuilder", "LRefEquals"))
	execError := w.SSAFunc(w.Method("xpath", "context", "execError"))
	if f == nil || execError == nil {
		panic(undecided{"ProgBuilder.LRefEquals / context.execError"})
	}
	sym := NewSym(w)
	cond := pcZ
	n := 0
	for _, b := range f.Blocks {
		for _, in := range b.Instrs {
			if c, ok := in.(*ssa.Call); ok && c.Call.StaticCallee() == execError {
				n++
				cond = pcOrF(cond, sym.PathCond(f.Blocks[0], b, nil))
			}
		}
	}
	if n == 0 {
		r.Fail(rule, "LRefEquals checks the number of key names", f.Pos(), "LRefEquals no longer raises an error for an unexpected number of key name elements")
		return
	}
	subj := ""
	for _, a := range cond.atoms() {
		if a.subj != "" && strings.Contains(a.subj, "pathOperPushes") {
			subj = a.subj
		}
	}
	vals, decided := pcValuesWhen(pcNotF(cond), subj)
	r.Check(subj != "" && decided && vals.equal(isetOf(1)), rule, "LRefEquals goes on only with exactly one key name", f.Pos(), "pathOperPushes == 1", fmt.Sprintf("the leafref predicate is evaluated further for pathOperPushes in %s, not only for 1: instructions that were unreachable run on a stack they do not fit, and a failure of the data tree is replaced by an internal error", vals.String()))
}

// r7QuoteEscapes (R08.18): in a double-quoted string a backslash takes the next
// character with it: lexQuote reads one more rune after a backslash before it
// looks at anything else.
func r7QuoteEscapes(w *World, r *Report, rule string) {
	f := w.SSAFunc(w.Func("parse", "lexQuote"))
	next := w.SSAFunc(w.Method("parse", "lexer", "next"))
	if f == nil || next == nil {
		panic(undecided{"parse.lexQuote / lexer.next"})
	}
	sym := NewSym(w)
	ok := false
	// the scan of the string's body: in lexQuote or in a function of the package it hands the scan to
	cands := []*ssa.Function{f}
	for g := range calleesDeep(f, 0) {
		if g != next && g.Pkg == f.Pkg && g.Blocks != nil {
			cands = append(cands, g)
		}
	}
	for _, sf := range cands {
		var reads []*ssa.Call
		for _, b := range sf.Blocks {
			for _, in := range b.Instrs {
				if c, isC := in.(*ssa.Call); isC && c.Call.StaticCallee() == next {
					if _, inLoop := loopOf(sf, b); inLoop {
						reads = append(reads, c)
					}
				}
			}
		}
		for _, first := range reads {
			k := sym.Key(first, nil)
			for _, second := range reads {
				if second == first {
					continue
				}
				l, _ := loopOf(sf, second.Block())
				cond := sym.PathCond(l.Header, second.Block(), nil)
				if vals, decided := pcValuesWhen(cond, k); decided && vals.equal(isetOf('\\')) {
					ok = true
				}
			}
		}
	}
	r.Check(ok, rule, "lexQuote consumes the character after a backslash", f.Pos(), "next() == '\\\\' ⇒ next() once more", "no read of the following rune is tied to having just read a backslash: whether a quote is escaped is decided some other way (counting backslashes from a position that may be off), so \"\\\\\" or a string that begins with an escaped quote ends in the wrong place")
}

// r7WordTerminators (R08.19): an unquoted word ends exactly at a separator
// (space, tab, CR, LF), a quote, ';', '{', '}' or the end of the input.
func r7WordTerminators(w *World, r *Report, rule string) {
	f := w.SSAFunc(w.Func("parse", "lexString"))
	if f == nil {
		panic(undecided{"parse.lexString"})
	}
	term := ISet{}
	for _, c := range []int64{-1, ' ', '\t', '\r', '\n', ';', '{', '}', '"', '\''} {
		term = term.union(isetOf(c))
	}
	why := "no scan for the end of the word found"
	if stops, ok := c07WordStops(w); ok {
		if stops.equal(term) {
			why = ""
		} else {
			why = fmt.Sprintf("the word is ended by the runes %s", stops.String())
		}
	}
	for _, g := range bodiesDeep(f, 1) {
		if g.Pkg != f.Pkg {
			continue
		}
		for _, b := range g.Blocks {
			for _, in := range b.Instrs {
				c, ok := in.(*ssa.Call)
				if !ok || c.Call.StaticCallee() == nil || len(c.Call.Args) != 2 {
					continue
				}
				if c.Call.StaticCallee().String() != "strings.IndexAny" && c.Call.StaticCallee().String() != "strings.ContainsAny" {
					continue
				}
				k, ok := c.Call.Args[1].(*ssa.Const)
				if !ok || k.Value == nil || k.Value.Kind() != constant.String {
					continue
				}
				set := isetOf(-1) // the end of the input ends the word in this form too (not found)
				for _, ch := range constant.StringVal(k.Value) {
					set = set.union(isetOf(int64(ch)))
				}
				if set.equal(term) {
					why = ""
				} else {
					why = fmt.Sprintf("the word is ended by the characters %s", set.String())
				}
			}
		}
	}
	r.Check(why == "", rule, "lexString stops at exactly the terminators", f.Pos(), "SP TAB CR LF ; { } \" ' and the end of the input", why+", not by exactly {SP, TAB, CR, LF, ';', '{', '}', '\"', \"'\", end of input}: with CR missing, an unquoted word at the end of a CRLF line keeps the CR (`contact admin\\r\\n;` reports \"admin\\r\")")
}

// r7StmtAlwaysChecked (R09.15): every statement Tree.stmt builds is checked.
func r7StmtAlwaysChecked(w *World, r *Report, rule string) {
	f := w.SSAFunc(w.Method("parse", "Tree", "stmt"))
	if f == nil {
		panic(undecided{"parse.Tree.stmt"})
	}
	isCheck := func(c *ssa.Call) bool {
		return (c.Call.IsInvoke() && nm(c.Call.Method) == "check") || (c.Call.StaticCallee() != nil && nm(c.Call.StaticCallee()) == "check")
	}
	// a helper of the package that checks on every way back to its caller counts as the check
	checksAlways := func(g *ssa.Function) bool {
		if g == nil || g.Blocks == nil || g.Pkg != f.Pkg {
			return false
		}
		var at []*ssa.BasicBlock
		for _, b := range g.Blocks {
			for _, in := range b.Instrs {
				if c, ok := in.(*ssa.Call); ok && isCheck(c) {
					at = append(at, b)
				}
			}
		}
		nret := 0
		for _, b := range g.Blocks {
			if _, ok := b.Instrs[len(b.Instrs)-1].(*ssa.Return); !ok {
				continue
			}
			nret++
			covered := false
			for _, cb := range at {
				if cb == b || cb.Dominates(b) {
					covered = true
				}
			}
			if !covered {
				return false
			}
		}
		return nret > 0 && len(at) > 0
	}
	var checks []*ssa.BasicBlock
	for _, b := range f.Blocks {
		for _, in := range b.Instrs {
			if c, ok := in.(*ssa.Call); ok {
				if isCheck(c) || checksAlways(c.Call.StaticCallee()) {
					checks = append(checks, b)
				}
			}
		}
	}
	bad := token.NoPos
	n := 0
	for _, b := range f.Blocks {
		ret, ok := b.Instrs[len(b.Instrs)-1].(*ssa.Return)
		if !ok || len(ret.Results) != 1 || isNilConst(ret.Results[0]) {
			continue
		}
		n++
		covered := false
		for _, cb := range checks {
			if cb == b || cb.Dominates(b) {
				covered = true
			}
		}
		if !covered {
			bad = firstValid(ret.Pos(), f.Pos())
		}
	}
	if n == 0 {
		panic(undecided{"Tree.stmt: return of the node built"})
	}
	r.Check(!bad.IsValid(), rule, "Tree.stmt checks every node it returns", firstValid(bad, f.Pos()), "check() on every path that returns the node", "a path returns the statement without check(): cardinality, ordering and argument syntax are not enforced for it (e.g. a body-less `leaf x;` after an identical well-formed `leaf x { … }`)")
}

// r7RecoverReraisesRuntimeOnly (R11.15): Compiler.recover turns every panic whose
// value is an error into the returned error, and re-raises run-time errors only.
func r7RecoverReraisesRuntimeOnly(w *World, r *Report, rule string) {
	f := w.SSAFunc(w.Method("compile", "Compiler", "recover"))
	if f == nil {
		panic(undecided{"compile.Compiler.recover"})
	}
	sym := NewSym(w)
	sym.Expand = false
	n := 0
	why := ""
	for _, b := range f.Blocks {
		if _, ok := b.Instrs[len(b.Instrs)-1].(*ssa.Panic); !ok {
			continue
		}
		n++
		has := false
		msg := pcImplies(sym.PathCond(f.Blocks[0], b, nil), func(a *pcAtom) string {
			if ex, ok := a.v.(*ssa.Extract); ok && ex.Index == 1 {
				if ta, ok := ex.Tuple.(*ssa.TypeAssert); ok && ta.CommaOk {
					if nt, ok := ta.AssertedType.(*types.Named); ok && nt.Obj().Pkg() != nil && nt.Obj().Pkg().Path() == "runtime" && nt.Obj().Name() == "Error" {
						has = true
						return "runtime"
					}
				}
			}
			return ""
		}, func(env map[string]bool) bool { return env["runtime"] })
		if !has || msg != "" {
			why = "a recovered value is raised again although it is not a runtime.Error (" + msg + ")"
		}
	}
	r.Check(why == "", rule, "Compiler.recover re-raises run-time errors only", f.Pos(), "panic(e) iff e is a runtime.Error", why+": an error the compiler raised with a bare panic (the import-cycle report) escapes CompileParseTrees as a panic instead of coming back as an error")
	_ = n
}

// r7EveryIfFeatureChecked (R12.13 / R14.15): IgnoreNode puts every if-feature of the node to CheckIfFeature.
func r7EveryIfFeatureChecked(w *World, r *Report, rule string) {
	f := w.SSAFunc(w.Method("compile", "Compiler", "IgnoreNode"))
	cif := w.SSAFunc(w.Method("compile", "Compiler", "CheckIfFeature"))
	if f == nil || cif == nil {
		panic(undecided{"Compiler.IgnoreNode / CheckIfFeature"})
	}
	found, every, why := everyIterationCallsDeep(f, func(c ssa.CallInstruction) bool { return c.Common().StaticCallee() == cif }, 0)
	if !found {
		// the scan handed to slices.ContainsFunc is complete by construction
		for _, b := range f.Blocks {
			for _, in := range b.Instrs {
				if call, ok := in.(*ssa.Call); ok {
					if _, test := containsFuncCall(call); test != nil {
						r.OK(rule, "IgnoreNode evaluates every if-feature", f.Pos(), "library scan over the if-feature statements")
						return
					}
				}
			}
		}
		panic(undecided{"IgnoreNode: loop over the if-feature statements"})
	}
	r.Check(every, rule, "IgnoreNode evaluates every if-feature", f.Pos(), "CheckIfFeature on every iteration", "an if-feature statement of the node can be skipped ("+why+"): two statements with the same text, inherited through a uses from another module, name different features — the node stays although one of its features is disabled")
}

// r7PatternAnchored (R13.14): a pattern is parenthesised as a whole before it is anchored.
func r7PatternAnchored(w *World, r *Report, rule string) {
	f := w.SSAFunc(w.Method("parse", "PatternArg", "Parse"))
	if f == nil {
		panic(undecided{"parse.PatternArg.Parse"})
	}
	isConst := func(v ssa.Value, pre, suf string) bool {
		k, ok := v.(*ssa.Const)
		if !ok || k.Value == nil || k.Value.Kind() != constant.String {
			return false
		}
		s := constant.StringVal(k.Value)
		return strings.HasPrefix(s, pre) && strings.HasSuffix(s, suf)
	}
	var wrapped func(v ssa.Value, d int) bool
	wrapped = func(v ssa.Value, d int) bool {
		if d > 6 {
			return false
		}
		switch x := v.(type) {
		case *ssa.Phi:
			for _, e := range x.Edges {
				if !wrapped(e, d+1) {
					return false
				}
			}
			return len(x.Edges) > 0
		case *ssa.BinOp:
			if x.Op != token.ADD {
				return false
			}
			// ("^(" + s) + ")$"
			if !isConst(x.Y, "", ")$") {
				return false
			}
			if in, ok := x.X.(*ssa.BinOp); ok && in.Op == token.ADD {
				return isConst(in.X, "^(", "")
			}
			return false
		case *ssa.Call:
			if g := x.Call.StaticCallee(); g != nil && g.String() == "fmt.Sprintf" {
				return isConst(x.Call.Args[0], "^(", ")$")
			}
			// a helper of the module that returns the wrapped text
			if g := x.Call.StaticCallee(); g != nil && g.Blocks != nil && strings.HasPrefix(pkgPathOf(g), modPath) && g.Signature.Results().Len() == 1 {
				nret := 0
				for _, gb := range g.Blocks {
					if ret, ok := gb.Instrs[len(gb.Instrs)-1].(*ssa.Return); ok {
						nret++
						if !wrapped(ret.Results[0], d+1) {
							return false
						}
					}
				}
				return nret > 0
			}
		}
		return false
	}
	n := 0
	why := ""
	for _, b := range f.Blocks {
		for _, in := range b.Instrs {
			c, ok := in.(*ssa.Call)
			if !ok || c.Call.StaticCallee() == nil {
				continue
			}
			if s := c.Call.StaticCallee().String(); s != "regexp.Compile" && s != "regexp.MustCompile" {
				continue
			}
			n++
			if !wrapped(c.Call.Args[0], 0) {
				why = "the expression compiled is `" + c.Call.Args[0].String() + "`"
			}
		}
	}
	if n == 0 {
		panic(undecided{"PatternArg.Parse: regexp.Compile"})
	}
	if rule == "R16.4" {
		r.Check(why == "", rule, "PatternArg.Parse anchoring", f.Pos(), "\"^(\" + pattern + \")$\"", "the pattern is not wrapped as ^(…)$: a value that merely contains a match, or matches one alternative of an unparenthesised '|', is accepted")
		r.Check(why == "", rule, "PatternArg.Parse anchors on every path", f.Pos(), "regexp.Compile(\"^(\" + … + \")$\") on every path", "on some path the expression handed to regexp.Compile is not the ^(…)$ wrapping (e.g. patterns that already carry anchors are left alone): \"^a|b$\" then accepts any value that starts with a or ends with b")
		return
	}
	r.Check(why == "", rule, "PatternArg.Parse anchors the whole pattern", f.Pos(), "^( pattern )$ on every path", why+", not the pattern in one group between ^ and $: for a branched pattern `(a)|(b)` the anchors bind to the first and last branch only, and a derived type accepts values its pattern should refuse")
}

// r7DefaultValidatedAsIs (R13.15): the default that is validated is the default the type reports.
func r7DefaultValidatedAsIs(w *World, r *Report, rule string) {
	f := w.SSAFunc(w.Method("compile", "Compiler", "validateDefault"))
	if f == nil {
		panic(undecided{"Compiler.validateDefault"})
	}
	n := 0
	why := ""
	for _, b := range f.Blocks {
		for _, in := range b.Instrs {
			c, ok := in.(*ssa.Call)
			if !ok || !c.Call.IsInvoke() || nm(c.Call.Method) != "Validate" || len(c.Call.Args) != 3 {
				continue
			}
			n++
			ex, ok := c.Call.Args[2].(*ssa.Extract)
			isDefault := false
			if ok && ex.Index == 0 {
				if dc, ok := ex.Tuple.(*ssa.Call); ok && dc.Call.IsInvoke() && nm(dc.Call.Method) == "Default" {
					isDefault = true
				}
			}
			if !isDefault {
				why = "the value validated is `" + c.Call.Args[2].String() + "`"
			}
		}
	}
	if n == 0 {
		panic(undecided{"validateDefault: Validate call"})
	}
	r.Check(why == "", rule, "validateDefault validates the default the type reports", f.Pos(), "t.Validate(…, first result of t.Default())", why+", not the default as the type will report it: `default \"abc \"` under `length 1..3` compiles and the leaf then has a default its own type refuses")
}

// r7ReplaceNeedsExisting (R14.14): deviate replace refuses a property the target does not have.
func r7ReplaceNeedsExisting(w *World, r *Report, rule string) {
	f := w.SSAFunc(w.Method("compile", "deviateReplace", "propertyAction"))
	if f == nil {
		panic(undecided{"compile.deviateReplace.propertyAction"})
	}
	sym := NewSym(w)
	sym.Expand = false
	isCount := func(v ssa.Value) bool {
		c, ok := v.(*ssa.Call)
		if !ok {
			return false
		}
		bi, ok := c.Call.Value.(*ssa.Builtin)
		if !ok || bi.Name() != "len" {
			return false
		}
		in, ok := c.Call.Args[0].(*ssa.Call)
		return ok && in.Call.IsInvoke() && nm(in.Call.Method) == "ChildrenByType"
	}
	errCond := pcZ
	n := 0
	for _, row := range sym.retTable(f, 0) {
		if !isNilConst(row.val) {
			n++
			errCond = pcOrF(errCond, row.cond)
		}
	}
	if n == 0 {
		r.Fail(rule, "deviate replace of an absent property", f.Pos(), "deviateReplace.propertyAction never refuses")
		return
	}
	// under "the target has none of that property" (and the property is a known statement) the error is returned
	refused, decided := pcEvalFree(errCond, func(a *pcAtom) (bool, bool) {
		if bo, ok := a.v.(*ssa.BinOp); ok && a.subj != "" {
			for _, side := range []ssa.Value{bo.X, bo.Y} {
				if isCount(side) {
					return a.set.contains(0), true
				}
				if c, ok := side.(*ssa.Call); ok && c.Call.IsInvoke() && nm(c.Call.Method) == "Type" && len(c.Call.Args) == 0 {
					return false, true // the statement kind is not `unknown`
				}
			}
		}
		return false, false
	})
	r.Check(decided && refused, rule, "deviate replace refuses a property the target does not have", f.Pos(), "len(target.ChildrenByType(kind)) == 0 ⇒ error", "whether the replacement is refused does not follow from the target having none of that property: `deviate replace { default 5; }` on a leaf without a default is accepted and acts as `deviate add`")
}

// r7PrefixAsWritten (R15.15): the prefix handed to the prefix map is the text of the expression.
func r7PrefixAsWritten(w *World, r *Report, rule string) {
	n := 0
	for _, c := range []struct{ key, typ string }{{"xpath/grammars/leafref", "leafrefLex"}, {"xpath", "CommonLex"}} {
		f := w.SSAFunc(w.Method(c.key, c.typ, "LexName"))
		if f == nil {
			panic(undecided{c.typ + ".LexName"})
		}
		bad := ""
		for _, g := range bodiesDeep(f, 1) {
			if g.Pkg != f.Pkg {
				continue
			}
			for _, b := range g.Blocks {
				for _, in := range b.Instrs {
					call, ok := in.(*ssa.Call)
					if !ok || call.Call.StaticCallee() != nil || call.Call.IsInvoke() || len(call.Call.Args) != 1 {
						continue
					}
					// a call through a function value of the prefix-map type
					if sig, ok := call.Call.Value.Type().Underlying().(*types.Signature); !ok || sig.Params().Len() != 1 || sig.Results().Len() != 2 {
						continue
					}
					n++
					seen := map[ssa.Value]bool{}
					var walk func(v ssa.Value, d int)
					walk = func(v ssa.Value, d int) {
						if d > 8 || seen[v] {
							return
						}
						seen[v] = true
						switch x := v.(type) {
						case *ssa.Call:
							if sc := x.Call.StaticCallee(); sc != nil {
								switch sc.String() {
								case "strings.ToLower", "strings.ToUpper", "strings.Title", "strings.ToTitle", "strings.TrimSpace", "strings.Map":
									bad = sc.String()
								}
							}
							for _, a := range x.Call.Args {
								walk(a, d+1)
							}
						case *ssa.Phi:
							for _, e := range x.Edges {
								walk(e, d+1)
							}
						case *ssa.Extract:
							walk(x.Tuple, d+1)
						}
					}
					walk(call.Call.Args[0], 0)
				}
			}
		}
		r.Check(bad == "", rule, c.typ+".LexName resolves the prefix as written", f.Pos(), "the token text goes to the prefix map unchanged", "the prefix is passed through "+bad+" before it is looked up: `Ext:x` is resolved through the import called `ext` (another module, or none)")
	}
	if n == 0 {
		panic(undecided{"LexName: call of the prefix map"})
	}
}

// r7PatternsInherited (R16.18): the patterns of a derived string type are those of its base plus its own.
func r7PatternsInherited(w *World, r *Report, rule string) {
	f := w.SSAFunc(w.Method("compile", "Compiler", "getPatterns"))
	if f == nil {
		panic(undecided{"Compiler.getPatterns"})
	}
	var fromBase func(v ssa.Value, d int) bool
	fromBase = func(v ssa.Value, d int) bool {
		if d > 6 {
			return false
		}
		switch x := v.(type) {
		case *ssa.Call:
			if x.Call.IsInvoke() && nm(x.Call.Method) == "Pats" {
				return true
			}
			if bi, ok := x.Call.Value.(*ssa.Builtin); ok && bi.Name() == "append" {
				if fromBase(x.Call.Args[0], d+1) {
					return true
				}
				// append(fresh, base.Pats()...) : a copy that holds every inherited level
				if len(x.Call.Args) == 2 && fromBase(x.Call.Args[1], d+1) {
					return true
				}
			}
			if sc := x.Call.StaticCallee(); sc != nil && (sc.String() == "slices.Clone" || strings.HasPrefix(sc.String(), "slices.Clone[")) {
				return fromBase(x.Call.Args[0], d+1)
			}
		case *ssa.Phi:
			for _, e := range x.Edges {
				if !fromBase(e, d+1) {
					return false
				}
			}
			return len(x.Edges) > 0
		case *ssa.Slice:
			return fromBase(x.X, d+1)
		}
		return false
	}
	n := 0
	why := ""
	for _, b := range f.Blocks {
		ret, ok := b.Instrs[len(b.Instrs)-1].(*ssa.Return)
		if !ok || len(ret.Results) != 1 {
			continue
		}
		n++
		if !fromBase(ret.Results[0], 0) {
			// copy(dst, base.Pats()) into the slice that is returned
			copied := false
			for _, bb := range f.Blocks {
				for _, in := range bb.Instrs {
					if c, ok := in.(*ssa.Call); ok {
						if bi, ok := c.Call.Value.(*ssa.Builtin); ok && bi.Name() == "copy" && fromBase(c.Call.Args[1], 0) {
							copied = true
						}
					}
				}
			}
			if !copied {
				why = "the list returned (`" + ret.Results[0].String() + "`) does not hold the base type's patterns"
			}
		}
	}
	if n == 0 {
		panic(undecided{"getPatterns: return"})
	}
	r.Check(why == "", rule, "getPatterns keeps the inherited patterns", f.Pos(), "append(base.Pats(), own…)", why+": a type that adds a pattern to a typedef that already has one enforces only its own — `type hex { pattern \".{2}\"; }` accepts \"zz\"")
}

// r7ChoiceWithDefaultStillChecked (R18.16): an active case is checked for its mandatory nodes whatever else is true of the choice.
func r7ChoiceWithDefaultStillChecked(w *World, r *Report, rule string) {
	f := w.SSAFunc(w.Func("schema", "choiceHasMandatory"))
	hasOneOf := w.SSAFunc(w.Func("schema", "hasOneOf"))
	if f == nil || hasOneOf == nil {
		panic(undecided{"schema.choiceHasMandatory / hasOneOf"})
	}
	sym := NewSym(w)
	sym.Expand = false
	n := 0
	why := ""
	for _, b := range f.Blocks {
		for _, in := range b.Instrs {
			c, ok := in.(*ssa.Call)
			if !ok || c.Call.StaticCallee() != hasOneOf {
				continue
			}
			l, inLoop := loopOf(f, b)
			if !inLoop {
				continue
			}
			n++
			for _, a := range sym.PathCond(l.Header, b, nil).atoms() {
				if cc, ok := a.v.(*ssa.Call); ok && cc.Call.IsInvoke() {
					why = "whether the members of a choice are looked at depends on " + nm(cc.Call.Method) + "()"
				}
			}
		}
	}
	if n == 0 {
		panic(undecided{"choiceHasMandatory: hasOneOf in the loop over the choices"})
	}
	r.Check(why == "", rule, "choiceHasMandatory looks into every choice", f.Pos(), "hasOneOf(choice members) for every choice, by kind only", why+": a choice with a default case whose non-default case is active is skipped, and a mandatory node missing from that case is not reported")
}

// r7UniqueKeyIsTheValues (R18.17): entries are compared on the values of the unique leaves, not on a digest.
func r7UniqueKeyIsTheValues(w *World, r *Report, rule string) {
	f := w.SSAFunc(w.Func("schema", "getUniqueKey"))
	if f == nil {
		panic(undecided{"schema.getUniqueKey"})
	}
	var bad []string
	for g := range calleesDeep(f, 3) {
		if pp := pkgPathOf(g); strings.HasPrefix(pp, "hash") || strings.HasPrefix(pp, "crypto") {
			bad = append(bad, g.String())
		}
	}
	sort.Strings(bad)
	r.Check(len(bad) == 0, rule, "getUniqueKey compares values, not digests", f.Pos(), "no hash on the path", "the key under which entries are compared goes through "+strings.Join(firstN(bad, 3), ", ")+": two entries that differ in every leaf of the unique set are reported as duplicates when their digests coincide")
}

// r7FieldStoredAsGiven: in constructor ctor (package key) the field typ.field is set to the parameter called param.
func r7FieldStoredAsGiven(w *World, r *Report, rule, key, ctor, typ, field, param, consequence string) {
	f := w.SSAFunc(w.Func(key, ctor))
	if f == nil {
		panic(undecided{key + "." + ctor})
	}
	fld := w.Field(key, typ, field)
	var given *ssa.Parameter
	for _, prm := range f.Params {
		if prm.Name() == param {
			given = prm
		}
	}
	if given == nil {
		// renamed: the only parameter of the field's type
		for _, prm := range f.Params {
			if types.Identical(prm.Type(), fld.Type()) {
				if given != nil {
					panic(undecided{ctor + ": parameter for " + field})
				}
				given = prm
			}
		}
	}
	n := 0
	why := ""
	for _, b := range f.Blocks {
		for _, in := range b.Instrs {
			st, ok := in.(*ssa.Store)
			if !ok {
				continue
			}
			fa, ok := st.Addr.(*ssa.FieldAddr)
			if !ok || !isFieldAddrOf(fa, fld) {
				continue
			}
			n++
			if st.Val != ssa.Value(given) {
				why = "the value stored is `" + st.Val.String() + "`"
			}
		}
	}
	if n == 0 {
		// the object is made by a helper of the package that is handed the value
		for _, b := range f.Blocks {
			for _, in := range b.Instrs {
				c, ok := in.(*ssa.Call)
				if !ok {
					continue
				}
				h := c.Call.StaticCallee()
				if h == nil || h.Blocks == nil || h.Pkg != f.Pkg {
					continue
				}
				for i, a := range c.Call.Args {
					if a != ssa.Value(given) || i >= len(h.Params) {
						continue
					}
					for _, hb := range h.Blocks {
						for _, hin := range hb.Instrs {
							st, isSt := hin.(*ssa.Store)
							if !isSt {
								continue
							}
							fa, isFA := st.Addr.(*ssa.FieldAddr)
							if !isFA || !isFieldAddrOf(fa, fld) {
								continue
							}
							n++
							if st.Val != ssa.Value(h.Params[i]) {
								why = "the value stored is `" + st.Val.String() + "`"
							}
						}
					}
				}
			}
		}
	}
	if n == 0 {
		panic(undecided{ctor + ": store to " + field})
	}
	r.Check(why == "", rule, ctor+" stores "+field+" as given", f.Pos(), field+": "+param, why+", not the "+param+" handed in: "+consequence)
}

// r7WritersKeepOrder (R19.18): the writers emit the values of a leaf-list in the order the tree holds them.
func r7WritersKeepOrder(w *World, r *Report, rule string) {
	n := 0
	var bad []string
	for _, f := range allFuncs(w.SSAPkg("data/encoding")) {
		if isTestFile(w, f.Pos()) {
			continue
		}
		name := strings.ToLower(f.Name())
		if !(strings.Contains(name, "encode") || strings.Contains(name, "write") || strings.HasPrefix(name, "to")) {
			continue
		}
		n++
		for _, b := range f.Blocks {
			for _, in := range b.Instrs {
				if c, ok := in.(*ssa.Call); ok && c.Call.StaticCallee() != nil {
					s := c.Call.StaticCallee().String()
					if strings.HasPrefix(s, "sort.") || strings.HasPrefix(s, "slices.Sort") {
						bad = append(bad, funcKey(f)+" calls "+s)
					}
				}
			}
		}
	}
	if n == 0 {
		panic(undecided{"no writer function found in data/encoding"})
	}
	sort.Strings(bad)
	r.Check(len(bad) == 0, rule, "the writers of data/encoding do not reorder", token.NoPos, fmt.Sprintf("%d writer functions, none sorts", n), strings.Join(firstN(bad, 3), "; ")+": the values of an `ordered-by user` leaf-list (or the entries of a list) come out in another order in one encoding than in the others, and decode to a different tree")
}

// r7IsOpdKinds (R20.10): IsOpd holds for exactly the three opd node kinds.
func r7IsOpdKinds(w *World, r *Report, rule string) {
	f := w.SSAFunc(w.Func("compile", "IsOpd"))
	if f == nil {
		panic(undecided{"compile.IsOpd"})
	}
	kinds := map[string]bool{}
	for _, b := range f.Blocks {
		for _, in := range b.Instrs {
			if ta, ok := in.(*ssa.TypeAssert); ok {
				if nt, ok := ta.AssertedType.(*types.Named); ok {
					kinds[nm(nt.Obj())] = true
				}
			}
		}
	}
	var ks []string
	for k := range kinds {
		ks = append(ks, k)
	}
	sort.Strings(ks)
	r.Check(strings.Join(ks, ",") == "OpdArgument,OpdCommand,OpdOption", rule, "IsOpd recognises the three opd kinds", f.Pos(), "OpdArgument, OpdCommand, OpdOption", "IsOpd tests for {"+strings.Join(ks, ",")+"}: an opd node of a kind left out fails every filter that should keep operational nodes and is pruned with its subtree, although its parent survives")
}

// r7BuildNodeKeepsWhatItBuilt (R20.11): BuildNode hands on what the kind builders return, whatever it contains.
func r7BuildNodeKeepsWhatItBuilt(w *World, r *Report, rule string) {
	f := w.SSAFunc(w.Method("compile", "Compiler", "BuildNode"))
	if f == nil {
		panic(undecided{"Compiler.BuildNode"})
	}
	built := map[ssa.Value]bool{}
	for _, b := range f.Blocks {
		for _, in := range b.Instrs {
			if c, ok := in.(*ssa.Call); ok && c.Call.StaticCallee() != nil && strings.HasPrefix(nm(c.Call.StaticCallee()), "Build") && c.Call.StaticCallee() != f {
				built[c] = true
			}
		}
	}
	if len(built) == 0 {
		panic(undecided{"BuildNode: kind builders"})
	}
	var bad []string
	for _, b := range f.Blocks {
		for _, in := range b.Instrs {
			c, ok := in.(*ssa.Call)
			if !ok || !c.Call.IsInvoke() {
				continue
			}
			v := c.Call.Value
			for {
				switch x := v.(type) {
				case *ssa.ChangeInterface:
					v = x.X
					continue
				case *ssa.MakeInterface:
					v = x.X
					continue
				}
				break
			}
			if built[v] {
				bad = append(bad, nm(c.Call.Method)+"()")
			}
		}
	}
	sort.Strings(bad)
	r.Check(len(bad) == 0, rule, "BuildNode does not look into what it built", f.Pos(), fmt.Sprintf("%d kind builders, their results handed on as they are", len(built)), "BuildNode asks the node it has just built for "+strings.Join(bad, ", ")+": whether a node is kept then depends on what the filter left of its content (children are filtered before the node itself), so a node that passes the filter can still disappear")
}

// round7 registers the rules of this file with their properties.
func round7(w *World, r *Report, prop string) {
	switch prop {
	case "C06":
		r.Rule("R06.10", "no scratch buffer is shared between runs: outside the package initialiser no function of package xpath slices, or stores into an element of, a package-level array or slice", 1)
		r.guard("R06.10", func() { r8NoSharedBuffer(w, r, "R06.10") })
	case "C02":
		r.Rule("R02.12", "a run starts from an empty path: no package-level channel, pool or synchronised map in the xpath packages hands a path stack (or any other per-run object) from one run to the next (same analysis as R06.9) — a recycled stack of a run that was cut short carries its path into the next relative path", 1)
		r.guard("R02.12", func() { r6NoHandOver(w, r, "R02.12") })
		r.Rule("R02.13", "the keys of a step are attached once, when all its predicates are complete: in the expression grammar PredicatesStart and PredicatesEnd enclose PredicateSet in the productions of Step, and no production of PredicateSet contains them", 1)
		r.guard("R02.13", func() { r7PredicateSetBracketed(w, r, "R02.13") })
		r.Rule("R02.14", "one element per step whatever the step is: PathStack.PushElem adds the element it is given to the path under construction on every way through it (a `..` at the root is an element too: `/../a` designates nothing, it is not `/a`)", 1)
		r.guard("R02.14", func() {
			f := w.SSAFunc(w.Method("xpath", "PathStack", "PushElem"))
			if f == nil || len(f.Params) < 2 {
				panic(undecided{"PathStack.PushElem"})
			}
			var add *ssa.Call
			for _, b := range f.Blocks {
				for _, in := range b.Instrs {
					if c, ok := in.(*ssa.Call); ok {
						name := ""
						if c.Call.IsInvoke() {
							name = nm(c.Call.Method)
						} else if g := c.Call.StaticCallee(); g != nil {
							name = g.Name()
						}
						if name == "AddPathElem" && len(c.Call.Args) > 0 && c.Call.Args[len(c.Call.Args)-1] == ssa.Value(f.Params[1]) {
							add = c
						}
					}
				}
			}
			ok := add != nil
			if ok {
				for _, b := range f.Blocks {
					if _, isRet := b.Instrs[len(b.Instrs)-1].(*ssa.Return); isRet && !(add.Block() == b || add.Block().Dominates(b)) {
						ok = false
					}
				}
			}
			r.Check(ok, "R02.14", "PathStack.PushElem adds the element on every path", f.Pos(), "AddPathElem(e) dominates every return", "an element handed to PushElem can be dropped: the path the data tree is asked for has fewer elements than the expression has steps (e.g. a `..` directly below the root vanishes and `/../a` asks for `/a`)")
		})
	case "C01":
		r.Rule("R01.12", "each comparison instruction decides through its own comparators: none of Eq, Ne, Lt, Le, Gt, Ge is computed from another of them (over node-sets a comparison is existential, so `!=` is not the complement of `=`, nor `>=` of `<`)", 6)
		r.guard("R01.12", func() { r8ComparisonsIndependent(w, r, "R01.12") })
		r.Rule("R01.11", "no function rounds by floor(x + 0.5): x + 0.5 is not representable for 0.49999999999999994 and for odd integers above 2^52, so every rounding in package xpath is floor(x) plus one when the fraction is at least one half (round() and both arguments of substring())", 2)
		r.guard("R01.11", func() { r8NoFloorPlusHalf(w, r, "R01.11") })
	case "C03":
		r.Rule("R03.11", "acceptance does not depend on how many brackets came before: the expression lexer adds no state of its own to the common lexer (struct exprLex has the embedded CommonLex and nothing else)", 1)
		r.guard("R03.11", func() { r7WrapperLexerStateless(w, r, "R03.11") })
	case "C04":
		r.Rule("R04.26", "a name is a function name or a node type only when '(' follows (XPath 1.0 §3.7): every function-class token LexName returns (FUNC, TEXTFUNC, CURRENTFUNC, DEREFFUNC, NODETYPE) is returned under the look-ahead for '('", 3)
		r.guard("R04.26", func() { r7FunctionTokensNeedParen(w, r, "R04.26") })
		r.Rule("R04.27", "an unterminated token is an error wherever the input ends: every way out of ConstructToken has either read on with Next() or set an error (the end of input is detected in the collection loop, which no path may bypass)", 1)
		r.guard("R04.27", func() { r7TokenEndDetected(w, r, "R04.27") })
	case "C05":
		r.Rule("R05.16", "a checked type assertion is checked: in package xpath no `v, ok := x.(T)` uses v while ignoring ok (a stack entry that is not a Datum must end the run with an error, not travel on as a nil Datum that yields neither a value nor an error)", 1)
		r.guard("R05.16", func() { r8CommaOkUsed(w, r, "R05.16") })
		r.Rule("R05.15", "a leafref predicate is evaluated only in the state its instructions were written for: LRefEquals raises its error unless exactly one key name element is pending", 1)
		r.guard("R05.15", func() { r7ExactlyOneKeyName(w, r, "R05.15") })
	case "C07":
		r.Rule("R07.16", "the lexer is given up in the open: Tree.Parse defers nothing but t.recover — a deferred stopParse would run before recover and clear t.lex, so recover would skip the drain and the lexer goroutine stay blocked", 1)
		r.guard("R07.16", func() {
			f := w.SSAFunc(w.Method("parse", "Tree", "Parse"))
			rec := w.SSAFunc(w.Method("parse", "Tree", "recover"))
			if f == nil || rec == nil {
				panic(undecided{"Tree.Parse / Tree.recover"})
			}
			nRec, other := 0, ""
			for _, b := range f.Blocks {
				for _, in := range b.Instrs {
					if d, ok := in.(*ssa.Defer); ok {
						if d.Call.StaticCallee() == rec {
							nRec++
						} else {
							other = pcCalleeName(&d.Call)
						}
					}
				}
			}
			r.Check(nRec == 1 && other == "", "R07.16", "Tree.Parse defers only recover", f.Pos(), "one deferred call: t.recover(&err)", "Parse also defers "+other+": deferred calls run last-in first-out, so it runs before recover; if it gives the lexer up (t.lex = nil) recover no longer drains it and the lexer goroutine of a rejected text stays blocked on its send forever")
		})
		r.Rule("R07.14", "no slice bound is computed from what an earlier line left behind: in trimWhitespace's per-line loop nothing but the result is carried from one line to the next (same analysis as R08.9) — a stale `ended in CR` flag slices an empty line at -1, a run-time error that Tree.recover re-raises", 1)
		r.guard("R07.14", func() { c08LineLoop(w, r, "R07.14", "R07.14") })
		r.Rule("R07.15", "line and column lie inside the text the caller handed in: the lexer scans that text itself (lexer.input is the parameter as it stands), since Tree.errorf and ErrorContext measure positions in it", 1)
		r.guard("R07.15", func() { r7LexerScansTheTextGiven(w, r, "R07.15") })
	case "C08":
		r.Rule("R08.22", "only double-quoted text is decoded: escapeSequenceSubstitution is used by trimWhitespace alone, which argumentQuoted calls exactly for a double-quoted piece (R08.3)", 1)
		r.guard("R08.22", func() { r8EscapesOnlyWhenDoubleQuoted(w, r, "R08.22") })
		r.Rule("R08.21", "separators are space, tab, CR and LF only: lexSep moves over the input through the lexer's next() under isSep — it neither sets the position itself nor asks another classifier", 1)
		r.guard("R08.21", func() { r8SeparatorSet(w, r, "R08.21") })
		r.Rule("R08.20", "a token's text is its own: the string interner every token value passes through hands back a string equal to the one it was given (table keyed by, and holding, the whole string)", 1)
		r.guard("R08.20", func() { r8StringInternerIdentity(w, r, "R08.20") })
		r.Rule("R08.18", "in a double-quoted string a backslash takes the next character with it: lexQuote reads one more rune exactly when the rune just read is a backslash (and the string is double-quoted), before it looks for the closing quote", 1)
		r.guard("R08.18", func() { r7QuoteEscapes(w, r, "R08.18") })
		r.Rule("R08.19", "an unquoted argument is the text up to the next separator, quote, ';', '{', '}' or the end of the input — exactly that set, CR included", 1)
		r.guard("R08.19", func() { r7WordTerminators(w, r, "R08.19") })
	case "C09":
		r.Rule("R09.17", "hand-written number readers test both bounds: wherever package parse turns a byte into a digit value by subtracting '0', every way there has tested the byte to lie in '0'..'9' (there is no such reader on the reviewed tree: the integer arguments go through strconv)", 0)
		r.guard("R09.17", func() { r8DigitBytesBounded(w, r, "R09.17") })
		r.Rule("R09.16", "an error names the place it is about: the column printed is pos − (index of the last line break + 1) for every index from −1 up, computed from the last LF before the position (Tree.ErrorContextPosition and Tree.errorf)", 2)
		r.guard("R09.16", func() { c10ColumnRule(w, r, "R09.16") })
		r.Rule("R09.15", "every statement is checked, whatever was checked before: in Tree.stmt the call of check() lies on every path that returns the node built (no memo of arguments already seen)", 1)
		r.guard("R09.15", func() { r7StmtAlwaysChecked(w, r, "R09.15") })
	case "C10":
		r.Rule("R10.18", "validating an argument does not change it: no Parse method of an argument type (nor a helper it calls) assigns the arg field", 10)
		r.guard("R10.18", func() { r8ArgTextKept(w, r, "R10.18") })
		r.Rule("R10.19", "only double-quoted text is decoded: escapeSequenceSubstitution is used by trimWhitespace alone, which argumentQuoted calls exactly for a double-quoted piece (R10.3/R08.3)", 1)
		r.guard("R10.19", func() { r8EscapesOnlyWhenDoubleQuoted(w, r, "R10.19") })
		r.Rule("R10.17", "separators are space, tab, CR and LF only: lexSep moves over the input through the lexer's next() under isSep — it neither sets the position itself nor asks another classifier", 1)
		r.guard("R10.17", func() { r8SeparatorSet(w, r, "R10.17") })
		r.Rule("R10.16", "a token's text is its own: the string interner every token value passes through hands back a string equal to the one it was given (table keyed by, and holding, the whole string)", 1)
		r.guard("R10.16", func() { r8StringInternerIdentity(w, r, "R10.16") })
		r.Rule("R10.15", "a node's position is an offset into the text that was handed in: the lexer scans that text itself (same analysis as R07.15) — stripping a byte-order mark or appending a line break shifts every position", 1)
		r.guard("R10.15", func() { r7LexerScansTheTextGiven(w, r, "R10.15") })
	case "C11":
		r.Rule("R11.15", "every error the compiler raises comes back as an error: Compiler.recover re-raises a recovered value only when it is a runtime.Error", 1)
		r.guard("R11.15", func() { r7RecoverReraisesRuntimeOnly(w, r, "R11.15") })
	case "C12":
		r.Rule("R12.15", "a leaf copied in by uses names its identity values like the same leaf written in place: the prefix stripped is the module name of the configuration node (the node as expanded), and BuildBaseType hands that node on unchanged", 2)
		r.guard("R12.15", func() { r8IdentityNamesRelativeToUser(w, r, "R12.15") })
		r.Rule("R12.14", "refinements of repeatable statements are additional: in applyChange a statement of cardinality 'n' on the target is added on every path, and replacing is done for cardinality '1' alone", 1)
		r.guard("R12.14", func() { r8RefineAdds(w, r, "R12.14") })
		r.Rule("R12.13", "a node copied by uses keeps every if-feature it passed through: IgnoreNode puts each if-feature statement of the node to CheckIfFeature (no skipping of statements with the same text — they may name features of different modules)", 1)
		r.guard("R12.13", func() { r7EveryIfFeatureChecked(w, r, "R12.13") })
	case "C13":
		r.Rule("R13.17", "a range statement is always checked against the base: in getRangeBoundary every exit is reached either with no range statement present or after createRangeBdry (where the derived range is required to be restrictive) — no form of the range is exempt", 1)
		r.guard("R13.17", func() {
			f := w.SSAFunc(w.Method("compile", "Compiler", "getRangeBoundary"))
			crb := w.SSAFunc(w.Method("compile", "Compiler", "createRangeBdry"))
			if f == nil || crb == nil {
				panic(undecided{"Compiler.getRangeBoundary / createRangeBdry"})
			}
			sym := NewSym(w)
			sym.Expand = false
			var made []*ssa.BasicBlock
			var rng ssa.Value
			for _, b := range f.Blocks {
				for _, in := range b.Instrs {
					if c, ok := in.(*ssa.Call); ok {
						if c.Call.StaticCallee() == crb {
							made = append(made, b)
						}
						if c.Call.IsInvoke() && nm(c.Call.Method) == "ChildByType" {
							rng = c
						}
					}
				}
			}
			why := ""
			if len(made) == 0 || rng == nil {
				why = "createRangeBdry is not called, or the range statement is not looked up"
			}
			for _, b := range f.Blocks {
				if _, isRet := b.Instrs[len(b.Instrs)-1].(*ssa.Return); !isRet || why != "" {
					continue
				}
				// every way to the exit passes createRangeBdry, or is taken only when there is no range statement
				msg := waysPassOrExcused(sym, f, b, made, func(cond *pcF) string {
					return pcImplies(cond, func(a *pcAtom) string {
						if a.op == token.EQL && a.x != nil && a.y != nil && ((a.x == rng && isNilConst(a.y)) || (a.y == rng && isNilConst(a.x))) {
							return "norange"
						}
						return ""
					}, func(env map[string]bool) bool { return env["norange"] })
				}, 0)
				if msg != "" {
					why = "an exit is reached with a range statement present and without createRangeBdry (" + msg + ")"
				}
			}
			r.Check(why == "", "R13.17", "getRangeBoundary checks every range statement", f.Pos(), "exit ⇒ no range statement ∨ createRangeBdry was called", why+": a derived range of that form is not required to lie within the base's range (e.g. `min..max` over a base with a gap is accepted)")
		})
		r.Rule("R13.16", "what counts as a restriction: NodeType.IsTypeRestriction holds exactly for the statement kinds declared between NodeTypeRestrictionStart and NodeTypeRestrictionEnd (enum and bit included) — validateRestrictions refuses only what it recognises as a restriction", 1)
		r.guard("R13.16", func() {
			lo, ok1 := pkgConstInt(w, "parse", "NodeTypeRestrictionStart")
			hi, ok2 := pkgConstInt(w, "parse", "NodeTypeRestrictionEnd")
			if !ok1 || !ok2 || hi-lo < 2 {
				panic(undecided{"parse.NodeTypeRestrictionStart / End"})
			}
			itr := w.SSAFunc(w.Method("parse", "NodeType", "IsTypeRestriction"))
			if itr == nil || len(itr.Params) != 1 || len(ssaLoops(itr)) > 0 {
				panic(undecided{"parse.NodeType.IsTypeRestriction"})
			}
			sym := NewSym(w)
			got, decided := pcValuesWhenWide(sym.ResultCond(itr, nil), sym.Key(itr.Params[0], nil))
			if !decided {
				panic(undecided{"IsTypeRestriction: the kinds it holds for were not decided"})
			}
			want := ISet{{lo + 1, hi - 1}}
			names, _ := nodeTypeNames(w)
			var missing []string
			for _, iv := range want.minus(got) {
				for v := iv.lo; v <= iv.hi && v-iv.lo < 40; v++ {
					missing = append(missing, names[v])
				}
			}
			r.Check(got.equal(want), "R13.16", "NodeType.IsTypeRestriction", token.NoPos, "true exactly for the kinds between the two markers", "IsTypeRestriction is "+got.String()+", the restriction kinds are "+want.String()+" (not recognised: "+strings.Join(missing, ", ")+"): such a substatement on a type it does not apply to is silently accepted and ignored")
		})
		r.Rule("R13.14", "a pattern restricts as a whole: PatternArg.Parse compiles `^(` pattern `)$` on every path — the anchors never bind to the first and last branch of an alternation only", 1)
		r.guard("R13.14", func() { r7PatternAnchored(w, r, "R13.14") })
		r.Rule("R13.15", "the default that is validated is the default the type reports: validateDefault hands the first result of t.Default() to t.Validate unchanged", 1)
		r.guard("R13.15", func() { r7DefaultValidatedAsIs(w, r, "R13.15") })
	case "C14":
		r.Rule("R14.16", "rpc and notification statements are present under the same test as data nodes: in BuildModule an rpc or a notification is built only after IgnoreNode answered false for it (if-features evaluated, not-supported deviations honoured)", 2)
		r.guard("R14.16", func() {
			f := w.SSAFunc(w.Method("compile", "Compiler", "BuildModule"))
			ign := w.SSAFunc(w.Method("compile", "Compiler", "IgnoreNode"))
			if f == nil || ign == nil {
				panic(undecided{"Compiler.BuildModule / IgnoreNode"})
			}
			sym := NewSym(w)
			sym.Expand = false
			n := 0
			for _, b := range f.Blocks {
				for _, in := range b.Instrs {
					c, ok := in.(*ssa.Call)
					if !ok || c.Call.StaticCallee() == nil {
						continue
					}
					what := ""
					switch c.Call.StaticCallee().String() {
					case modPath + "/schema.NewRpc":
						what = "rpc"
					case modPath + "/schema.NewNotification":
						what = "notification"
					}
					if what == "" {
						continue
					}
					n++
					l, inLoop := loopOf(f, b)
					good := false
					if inLoop {
						saw := false
						msg := pcImplies(sym.PathCond(l.Header, b, nil), func(a *pcAtom) string {
							if ic, isC := a.v.(*ssa.Call); isC && a.x == nil && ic.Call.StaticCallee() == ign {
								saw = true
								return "ignored"
							}
							return ""
						}, func(env map[string]bool) bool { return !env["ignored"] })
						good = msg == "" && saw
					}
					r.Check(good, "R14.16", "BuildModule builds a "+what+" only if IgnoreNode lets it", c.Pos(), "IgnoreNode(stmt, …) false on the way to the build", "a "+what+" statement is built without asking IgnoreNode: its if-features are not evaluated (it is part of the model although a feature it depends on is disabled) and a not-supported deviation of it has no effect")
				}
			}
			if n == 0 {
				panic(undecided{"BuildModule: no rpc or notification is built"})
			}
		})
		r.Rule("R14.15", "no written status escapes the weaken-only test: in getStatus every exit is reached either without a status statement or after the comparison of the written status with the inherited one (no value — not `current` either — is returned before it)", 1)
		r.guard("R14.15", func() {
			f := w.SSAFunc(w.Method("compile", "Compiler", "getStatus"))
			if f == nil || len(f.Params) != 3 {
				panic(undecided{"Compiler.getStatus"})
			}
			sym := NewSym(w)
			sym.Expand = false
			var stmt ssa.Value
			var tests []*ssa.BasicBlock
			for _, b := range f.Blocks {
				for _, in := range b.Instrs {
					switch x := in.(type) {
					case *ssa.Call:
						if x.Call.IsInvoke() && nm(x.Call.Method) == "ChildByType" {
							stmt = x
						}
					case *ssa.BinOp:
						if (x.Op == token.LSS || x.Op == token.GTR || x.Op == token.LEQ || x.Op == token.GEQ) && (x.X == ssa.Value(f.Params[2]) || x.Y == ssa.Value(f.Params[2])) {
							tests = append(tests, b)
						}
					}
				}
			}
			why := ""
			if stmt == nil || len(tests) == 0 {
				why = "the written status is not compared with the inherited one"
			}
			for _, b := range f.Blocks {
				if _, isRet := b.Instrs[len(b.Instrs)-1].(*ssa.Return); !isRet || why != "" {
					continue
				}
				msg := waysPassOrExcused(sym, f, b, tests, func(cond *pcF) string {
					return pcImplies(cond, func(a *pcAtom) string {
						if a.op == token.EQL && a.x != nil && a.y != nil && ((a.x == stmt && isNilConst(a.y)) || (a.y == stmt && isNilConst(a.x))) {
							return "nostmt"
						}
						return ""
					}, func(env map[string]bool) bool { return env["nostmt"] })
				}, 0)
				if msg != "" {
					why = "an exit is reached with a status statement present and before the comparison (" + msg + ")"
				}
			}
			r.Check(why == "", "R14.15", "getStatus compares every written status", f.Pos(), "exit ⇒ no status statement ∨ the comparison was made", why+": a node that writes that status under a deprecated or obsolete ancestor is accepted (status may only weaken downwards)")
		})
		r.Rule("R14.14", "deviate replace replaces: deviateReplace.propertyAction returns its error whenever the target has no statement of that kind", 1)
		r.guard("R14.14", func() { r7ReplaceNeedsExisting(w, r, "R14.14") })
	case "C15":
		r.Rule("R15.16", "every must written in a refine is attached (and so compiled in the refining module's scope): in applyChange a statement of cardinality 'n' on the target is added on every path, whatever the node already carries", 1)
		r.guard("R15.16", func() { r8RefineAdds(w, r, "R15.16") })
		r.Rule("R15.14", "a compile error names the place where the expression is written: error locations are computed from node.tree; node.useTree is read by UsesRoot alone (same analysis as R11.12)", 2)
		r.guard("R15.14", func() { c11UseTreeReaders(w, r, "R15.14") })
		r.Rule("R15.15", "a prefix is resolved as it is written: the LexName of the leafref and of the common lexer hand the prefix text to the prefix map without changing its case or trimming it", 2)
		r.guard("R15.15", func() { r7PrefixAsWritten(w, r, "R15.15") })
	case "C16":
		r.Rule("R16.20", "XSD block escapes are translated to the block's code points: every entry \\p{IsX} of parse.patternReplacements maps to the character class of the Unicode block X as XSD names it (BasicLatin = U+0000..U+007F)", 1)
		r.guard("R16.20", func() {
			blocks := map[string][2]int64{"BasicLatin": {0x0000, 0x007F}, "Latin-1Supplement": {0x0080, 0x00FF}, "LatinExtended-A": {0x0100, 0x017F}, "LatinExtended-B": {0x0180, 0x024F}, "Greek": {0x0370, 0x03FF}, "Cyrillic": {0x0400, 0x04FF}}
			v := w.Var("parse", "patternReplacements")
			init, ip := w.VarInit(v)
			lv := evalLit(ip, init)
			// a map from escape to class, or a list of (escape, class) pairs
			type entry struct {
				k, v string
				pos  token.Pos
			}
			var entries []entry
			str := func(l *LitVal) (string, bool) {
				if l == nil || l.Const == nil || l.Const.Kind() != constant.String {
					return "", false
				}
				return constant.StringVal(l.Const), true
			}
			for _, kv := range lv.KVs {
				v, okV := str(kv.Val)
				if kv.Key.Kind() != constant.String || !okV {
					panic(undecided{"parse.patternReplacements: an entry that is not string → string"})
				}
				entries = append(entries, entry{constant.StringVal(kv.Key), v, kv.Val.Node.Pos()})
			}
			for _, el := range lv.Elems {
				var parts []*LitVal
				parts = append(parts, el.Elems...)
				for _, kv := range el.KVs {
					parts = append(parts, kv.Val)
				}
				if len(parts) != 2 {
					panic(undecided{"parse.patternReplacements: an entry that is not a pair of strings"})
				}
				k, ok1 := str(parts[0])
				v, ok2 := str(parts[1])
				if !ok1 || !ok2 {
					panic(undecided{"parse.patternReplacements: an entry that is not a pair of strings"})
				}
				entries = append(entries, entry{k, v, el.Node.Pos()})
			}
			if len(entries) == 0 {
				panic(undecided{"parse.patternReplacements is not a literal table"})
			}
			re := regexp.MustCompile(`^\[\\x\{([0-9A-Fa-f]+)\}-\\x\{([0-9A-Fa-f]+)\}\]$`)
			for _, en := range entries {
				k, val := en.k, en.v
				name := strings.TrimSuffix(strings.TrimPrefix(k, `\p{Is`), "}")
				want, known := blocks[name]
				m := re.FindStringSubmatch(val)
				good := false
				if known && m != nil {
					lo, _ := strconv.ParseInt(m[1], 16, 64)
					hi, _ := strconv.ParseInt(m[2], 16, 64)
					good = lo == want[0] && hi == want[1]
				}
				r.Check(good, "R16.20", "patternReplacements["+k+"]", en.pos, val, fmt.Sprintf("the block escape %s is translated to %s; XSD defines the block as U+%04X..U+%04X (or the block is not in the checker's table): strings with characters outside the block satisfy the pattern", k, val, want[0], want[1]))
			}
		})
		r.Rule("R16.19", "identityref values are named relative to the module the leaf is used in: the prefix stripped is the module name of the configuration node, and BuildBaseType hands that node on unchanged when it follows a typedef", 2)
		r.guard("R16.19", func() { r8IdentityNamesRelativeToUser(w, r, "R16.19") })
		r.Rule("R16.18", "a derived string type keeps the patterns of its base: every list getPatterns returns is the base's list (or a copy holding all of it) with the own patterns appended", 1)
		r.guard("R16.18", func() { r7PatternsInherited(w, r, "R16.18") })
	case "C17":
		r.Rule("R17.15", "a value is accepted by a range only if some part accepts it: in integer.Validate and uinteger.Validate the loop over the range parts is left before exhaustion only when the part just asked returned no error", 2)
		r.guard("R17.15", func() { r8RangeLoopLeavesOnAcceptance(w, r, "R17.15") })
		r.Rule("R17.14", "the lexical check of a decimal64 value is unconditional: validateDecimal64String is reached whenever the value parsed as a number — no form of the token (no '.', exponent, NaN) bypasses it", 1)
		r.guard("R17.14", func() {
			vds := w.SSAFunc(w.Func("schema", "validateDecimal64String"))
			root := w.SSAFunc(w.Method("schema", "decimal64", "Validate"))
			if vds == nil || root == nil {
				panic(undecided{"schema.validateDecimal64String / decimal64.Validate"})
			}
			sym := NewSym(w)
			sym.Expand = false
			n, why := 0, ""
			for _, g := range bodiesDeep(root, 1) {
				if g.Pkg != root.Pkg {
					continue
				}
				for _, b := range g.Blocks {
					for _, in := range b.Instrs {
						c, ok := in.(*ssa.Call)
						if !ok || c.Call.StaticCallee() != vds {
							continue
						}
						n++
						sawParse := false
						msg := pcCompare(sym.PathCond(g.Blocks[0], b, nil), func(a *pcAtom) string {
							if a.op == token.EQL && a.x != nil && a.y != nil {
								for _, side := range []ssa.Value{a.x, a.y} {
									if ex, isEx := side.(*ssa.Extract); isEx {
										if pc, isC := ex.Tuple.(*ssa.Call); isC && pc.Call.StaticCallee() != nil && pc.Call.StaticCallee().String() == "strconv.ParseFloat" {
											sawParse = true
											return "parsed"
										}
									}
								}
							}
							return ""
						}, func(env map[string]bool) bool { return env["parsed"] || !sawParse })
						if msg != "" {
							why = "the lexical check depends on more than the number having parsed (" + msg + ")"
						}
					}
				}
			}
			if n == 0 {
				why = "validateDecimal64String is not called"
			}
			r.Check(why == "", "R17.14", "decimal64.Validate always checks the lexical form", root.Pos(), "validateDecimal64String reached iff ParseFloat succeeded", why+": tokens ParseFloat understands but that are no decimal64 values (NaN, 1e2, 0x1p4) are accepted after a decimal64 leaf name or as a list key")
		})
		r.Rule("R17.12", "the key token of a list entry is checked against the first key of the key statement: NewList stores the key names as given, in the order of the key statement", 1)
		r.guard("R17.12", func() {
			r7FieldStoredAsGiven(w, r, "R17.12", "schema", "NewList", "list", "keys", "keys", "the order of the keys follows the declaration order of the leaves, and the token after the list name is validated against the wrong key's type")
		})
		r.Rule("R17.13", "an identityref value is accepted in the form valid for the node: identityref.Validate compares the token with Identity.Val (bare for identities of the node's module, module-qualified otherwise), not with the bare name", 1)
		r.guard("R17.13", func() { r7IdentityrefComparesVal(w, r, "R17.13") })
	case "C18":
		r.Rule("R18.18", "choices at the top of a module are choices of the model set: NewModelSet registers every top-level choice of every module (addChoice on every round of the loop over mod.Choices()) — the flattened children it also adds contain no choice nodes, so defaults and mandatory checks at the root depend on it", 1)
		r.guard("R18.18", func() {
			f := w.SSAFunc(w.Func("schema", "NewModelSet"))
			if f == nil {
				panic(undecided{"schema.NewModelSet"})
			}
			// a loop whose range is mod.Choices() and that calls addChoice on every round
			ok := false
			type floop struct {
				g *ssa.Function
				l ssaLoop
			}
			var all []floop
			for _, g := range bodiesDeep(f, 1) {
				if g.Pkg == f.Pkg {
					for _, l := range ssaLoops(g) {
						all = append(all, floop{g, l})
					}
				}
			}
			for _, fl := range all {
				l := fl.l
				overChoices := false
				for _, e := range l.Entries {
					for _, in := range e.Instrs {
						if c, isC := in.(*ssa.Call); isC && c.Call.IsInvoke() && nm(c.Call.Method) == "Choices" {
							overChoices = true
						}
					}
				}
				if !overChoices {
					continue
				}
				body := l.body()
				for b := range body {
					for _, in := range b.Instrs {
						if c, isC := in.(*ssa.Call); isC && c.Call.StaticCallee() != nil && nm(c.Call.StaticCallee()) == "addChoice" {
							every := true
							for _, lt := range l.Latches {
								every = every && (b == lt || b.Dominates(lt))
							}
							ok = ok || every
						}
					}
				}
			}
			r.Check(ok, "R18.18", "NewModelSet registers the modules' top-level choices", f.Pos(), "for each mod.Choices(): ms.addChoice(choice)", "the choices declared directly at module level are not registered with the model set: at the root every case's defaults are added, a mandatory top-level choice is not enforced and mandatory leaves of inactive top-level cases are demanded")
		})
		r.Rule("R18.16", "an active case is checked for mandatory nodes whatever else holds of its choice: in choiceHasMandatory the test which case is active (hasOneOf) is reached for every choice, by its kind alone", 1)
		r.guard("R18.16", func() { r7ChoiceWithDefaultStillChecked(w, r, "R18.16") })
		r.Rule("R18.17", "entries violate `unique` only when they agree on the values: getUniqueKey builds its key from the values themselves (no digest)", 1)
		r.guard("R18.17", func() { r7UniqueKeyIsTheValues(w, r, "R18.17") })
	case "C19":
		r.Rule("R19.20", "the XML writer writes every child: inside the loop over the children, whether an element is opened depends on the kind of the child's schema node (and on the loop over its values) and on nothing else", 2)
		r.guard("R19.20", func() { r8XMLWritesEveryChild(w, r, "R19.20") })
		r.Rule("R19.19", "children keep the order they were given: datanode.YangDataChildren hands back the stored slice itself (entries of an ordered-by user list are children named by their keys: a sorted copy would reorder them in every encoding)", 1)
		r.guard("R19.19", func() {
			f := w.SSAFunc(w.Method("data/datanode", "datanode", "YangDataChildren"))
			if f == nil {
				panic(undecided{"datanode.YangDataChildren"})
			}
			good := true
			n := 0
			for _, b := range f.Blocks {
				if ret, ok := b.Instrs[len(b.Instrs)-1].(*ssa.Return); ok && len(ret.Results) == 1 {
					n++
					if loadedFieldName(unspill(ret.Results[0])) != "children" {
						good = false
					}
				}
			}
			r.Check(good && n > 0, "R19.19", "datanode.YangDataChildren returns the children as stored", f.Pos(), "return n.children", "the children are handed back as something other than the stored slice (a sorted or filtered copy): the order of list entries — user order for ordered-by user lists — is lost in JSON, RFC 7951 and XML alike")
		})
		r.Rule("R19.17", "a data node holds the values it was given: CreateDataNode stores its values argument as it stands (an empty string is a value)", 1)
		r.guard("R19.17", func() {
			r7FieldStoredAsGiven(w, r, "R19.17", "data/datanode", "CreateDataNode", "datanode", "values", "values", "a leaf of type empty or with the value \"\" has no value any more: the XML writer emits nothing for it, and the three encodings decode to different trees")
		})
		r.Rule("R19.18", "the three encodings carry the same order: no writer of data/encoding sorts what it writes", 1)
		r.guard("R19.18", func() { r7WritersKeepOrder(w, r, "R19.18") })
	case "C20":
		r.Rule("R20.12", "a choice is registered with its parent whatever survived inside it: in addChoiceToChoices the addChoice call is reached exactly when the child is a Choice (a choice whose cases lost all their nodes to the filter is still a node of the pruned schema)", 1)
		r.guard("R20.12", func() { r8ChoiceRegistered(w, r, "R20.12") })
		r.Rule("R20.10", "the opd predicate covers every opd node kind: IsOpd tests for OpdCommand, OpdOption and OpdArgument", 1)
		r.guard("R20.10", func() { r7IsOpdKinds(w, r, "R20.10") })
		r.Rule("R20.11", "a node that passes the filter survives: BuildNode hands on what the kind builders return and asks the built node nothing (its children were filtered before it)", 1)
		r.guard("R20.11", func() { r7BuildNodeKeepsWhatItBuilt(w, r, "R20.11") })
	}
}

// r7IdentityrefComparesVal (R17.13)
func r7IdentityrefComparesVal(w *World, r *Report, rule string) {
	f := w.SSAFunc(w.Method("schema", "identityref", "Validate"))
	if f == nil {
		panic(undecided{"schema.identityref.Validate"})
	}
	n := 0
	why := ""
	for _, g := range append([]*ssa.Function{f}, f.AnonFuncs...) {
		for _, b := range g.Blocks {
			for _, in := range b.Instrs {
				bo, ok := in.(*ssa.BinOp)
				if !ok || (bo.Op != token.EQL && bo.Op != token.NEQ) {
					continue
				}
				for _, side := range []ssa.Value{bo.X, bo.Y} {
					if fn := loadedFieldName(side); fn != "" {
						if st, ok := side.Type().Underlying().(*types.Basic); ok && st.Info()&types.IsString != 0 {
							n++
							if fn != "Val" {
								why = "the token is compared with Identity." + fn
							}
						}
					}
				}
			}
		}
	}
	if n == 0 {
		panic(undecided{"identityref.Validate: comparison with the identity's name"})
	}
	r.Check(why == "", rule, "identityref.Validate compares with Identity.Val", f.Pos(), "id.Val == value", why+": the module-qualified value the type advertises for an identity of another module is rejected and its bare name accepted")
}

// r7PredicateSetBracketed (R02.13): the keys of a step are attached when the
// step's whole predicate set is complete — in the expression grammar the
// markers PredicatesStart / PredicatesEnd stand around PredicateSet in the
// productions of Step, never around the single predicates.
func r7PredicateSetBracketed(w *World, r *Report, rule string) {
	g := w.Gram["expr"]
	if g == nil {
		panic(undecided{"expression grammar"})
	}
	n := 0
	why := ""
	for _, p := range g.Prods {
		var names []string
		for _, s := range p.RHS {
			names = append(names, s.Name)
		}
		for i, s := range names {
			if s != "PredicateSet" || p.LHS == "PredicateSet" {
				continue
			}
			n++
			if i == 0 || names[i-1] != "PredicatesStart" || i+1 >= len(names) || names[i+1] != "PredicatesEnd" {
				why = "in `" + p.String() + "` the predicate set is not enclosed by PredicatesStart … PredicatesEnd"
			}
		}
		if p.LHS == "PredicateSet" {
			for _, s := range names {
				if s == "PredicatesStart" || s == "PredicatesEnd" {
					why = "`" + p.String() + "` opens or closes the key collection for a single predicate"
				}
			}
		}
	}
	if n == 0 {
		panic(undecided{"expression grammar: PredicateSet in a step"})
	}
	r.Check(why == "", rule, "the keys of a step are attached once, after all its predicates", token.NoPos, "Step → … PredicatesStart PredicateSet PredicatesEnd", why+": the keys of earlier predicates are already on the step when a later predicate copies the path so far, so an operand `../y` of the second predicate is resolved below a keyed element, and the node asked for depends on the order of the predicates")
}

// r7TokenEndDetected (R04.27): ConstructToken finds the end of every token it
// is asked to collect — each way out has either read on (Next) or set an error.
func r7TokenEndDetected(w *World, r *Report, rule string) {
	f := w.SSAFunc(w.Method("xpath", "CommonLex", "ConstructToken"))
	next := w.SSAFunc(w.Method("xpath", "CommonLex", "Next"))
	setErr := w.SSAFunc(w.Method("xpath", "CommonLex", "SetError"))
	if f == nil || next == nil || setErr == nil {
		panic(undecided{"CommonLex.ConstructToken / Next / SetError"})
	}
	var marks []*ssa.BasicBlock
	for _, b := range f.Blocks {
		for _, in := range b.Instrs {
			if c, ok := in.(*ssa.Call); ok && (c.Call.StaticCallee() == next || c.Call.StaticCallee() == setErr || (c.Call.IsInvoke() && (nm(c.Call.Method) == "Next" || nm(c.Call.Method) == "SetError"))) {
				marks = append(marks, b)
			}
		}
	}
	bad := token.NoPos
	n := 0
	for _, b := range f.Blocks {
		ret, ok := b.Instrs[len(b.Instrs)-1].(*ssa.Return)
		if !ok {
			continue
		}
		n++
		covered := false
		for _, m := range marks {
			if m == b || m.Dominates(b) {
				covered = true
			}
		}
		if !covered {
			bad = firstValid(ret.Pos(), f.Pos())
		}
	}
	if n == 0 {
		panic(undecided{"ConstructToken: return"})
	}
	r.Check(!bad.IsValid(), rule, "ConstructToken reads on or reports on every way out", firstValid(bad, f.Pos()), "Next() or SetError() before every return", "a way out of ConstructToken neither reads the next rune nor sets an error: the end of input inside a token goes unnoticed there (an opening quote as the last character of an expression yields the literal '' instead of an error)")
}

// r8NoFloorPlusHalf (R01.11): every call of math.Floor in package xpath is
// looked at; none has an argument of the form x + 0.5.
func r8NoFloorPlusHalf(w *World, r *Report, rule string) {
	n := 0
	for _, fn := range allFuncs(w.SSAPkg("xpath")) {
		if isTestFile(w, fn.Pos()) {
			continue
		}
		for _, b := range fn.Blocks {
			for _, in := range b.Instrs {
				c, ok := in.(*ssa.Call)
				if !ok || c.Call.StaticCallee() == nil || c.Call.StaticCallee().String() != "math.Floor" || len(c.Call.Args) != 1 {
					continue
				}
				n++
				half := false
				if bo, isBo := c.Call.Args[0].(*ssa.BinOp); isBo && bo.Op == token.ADD {
					for _, side := range []ssa.Value{bo.X, bo.Y} {
						if k, isK := side.(*ssa.Const); isK && k.Value != nil && k.Value.Kind() == constant.Float {
							if f, _ := constant.Float64Val(k.Value); f == 0.5 {
								half = true
							}
						}
					}
				}
				r.Check(!half, rule, fmt.Sprintf("%s: math.Floor #%d", funcKey(fn), n), c.Pos(), "not of the form floor(x + 0.5)", "rounds by floor(x + 0.5): 0.49999999999999994 becomes 1 and odd integers above 2^52 move to the next even one, where XPath round() gives 0 and the integer itself")
			}
		}
	}
	if n == 0 {
		panic(undecided{"package xpath: no use of math.Floor found"})
	}
}

// r8ComparisonsIndependent (R01.12): no comparison instruction of the builder
// calls another one (itself excepted: Eq descends into leaf-list members).
func r8ComparisonsIndependent(w *World, r *Report, rule string) {
	names := []string{"Eq", "Ne", "Lt", "Le", "Gt", "Ge"}
	fns := map[*ssa.Function]string{}
	for _, n := range names {
		f := w.SSAFunc(w.Method("xpath", "ProgBuilder", n))
		if f == nil {
			panic(undecided{"ProgBuilder." + n})
		}
		fns[f] = n
	}
	for f, n := range fns {
		other := ""
		for g := range calleesDeep(f, 1) {
			if on, is := fns[g]; is && g != f {
				other = on
			}
		}
		r.Check(other == "", rule, "ProgBuilder."+n, f.Pos(), "calls none of the other comparison instructions", "is computed from "+other+": over node-sets every comparison is existential (some pair compares true), so one operator is not the complement or the converse of another — an absent leaf must be false under both `=` and `!=`, and a leaf-list with the values {red, blue} is both `= 'red'` and `!= 'red'`")
	}
}

// r8CommaOkUsed (R05.16): every comma-ok type assertion of package xpath whose
// value is used has its ok flag used as well.
func r8CommaOkUsed(w *World, r *Report, rule string) {
	n := 0
	for _, fn := range allFuncs(w.SSAPkg("xpath")) {
		if isTestFile(w, fn.Pos()) {
			continue
		}
		for _, b := range fn.Blocks {
			for _, in := range b.Instrs {
				ta, ok := in.(*ssa.TypeAssert)
				if !ok || !ta.CommaOk {
					continue
				}
				valUsed, okUsed := false, false
				for _, ref := range *ta.Referrers() {
					ex, isEx := ref.(*ssa.Extract)
					if !isEx {
						continue
					}
					used := false
					for _, r2 := range *ex.Referrers() {
						if _, isDbg := r2.(*ssa.DebugRef); !isDbg {
							used = true
						}
					}
					if ex.Index == 0 {
						valUsed = valUsed || used
					} else {
						okUsed = okUsed || used
					}
				}
				if !valUsed {
					continue // a pure type test
				}
				n++
				r.Check(okUsed, rule, fmt.Sprintf("%s: %s", funcKey(fn), w.PosStr(ta.Pos())), ta.Pos(), "the ok flag is tested", "the value of a checked type assertion is used without looking at its ok flag: when the assertion fails the zero value travels on (a nil Datum reaches the result, which then has neither a value nor an error)")
			}
		}
	}
	if n == 0 {
		panic(undecided{"package xpath: no checked type assertion found"})
	}
}

// r8NoSharedBuffer (R06.10): no function of package xpath takes a slice of, or
// stores into an element of, a package-level array or slice variable (the
// package initialiser excepted): such a variable is a scratch buffer every run
// in the process shares.
func r8NoSharedBuffer(w *World, r *Report, rule string) {
	pkg := w.SSAPkg("xpath")
	nGlobals := 0
	for _, m := range pkg.Members {
		if _, ok := m.(*ssa.Global); ok {
			nGlobals++
		}
	}
	bad := ""
	var badPos token.Pos
	for _, fn := range allFuncs(pkg) {
		if isTestFile(w, fn.Pos()) || (fn.Name() == "init" && fn.Synthetic != "") {
			continue
		}
		isGlobalBuf := func(v ssa.Value) *ssa.Global {
			if g, ok := v.(*ssa.Global); ok {
				return g
			}
			if ld, ok := v.(*ssa.UnOp); ok && ld.Op == token.MUL {
				if g, ok := ld.X.(*ssa.Global); ok {
					if _, isSl := g.Type().(*types.Pointer).Elem().Underlying().(*types.Slice); isSl {
						return g
					}
				}
			}
			return nil
		}
		for _, b := range fn.Blocks {
			for _, in := range b.Instrs {
				switch x := in.(type) {
				case *ssa.Slice:
					if g := isGlobalBuf(x.X); g != nil {
						if _, isArr := g.Type().(*types.Pointer).Elem().Underlying().(*types.Array); isArr {
							bad, badPos = g.Name()+" is sliced in "+funcKey(fn), x.Pos()
						}
					}
				case *ssa.Store:
					if ia, ok := x.Addr.(*ssa.IndexAddr); ok {
						if g := isGlobalBuf(ia.X); g != nil {
							bad, badPos = "an element of "+g.Name()+" is written in "+funcKey(fn), x.Pos()
						}
					}
				}
			}
		}
	}
	if nGlobals == 0 {
		panic(undecided{"package xpath: no package-level variable found"})
	}
	r.Check(bad == "", rule, fmt.Sprintf("package xpath: %d package-level variables, none used as a scratch buffer", nGlobals), badPos, "no slice of, no element store into, a package-level array or slice outside the initialiser", "a package-level buffer is written while expressions run ("+bad+"): overlapping runs, on any machines, overwrite each other's digits or bytes")
}

// r8StringInternerIdentity (R08.20 / R10.16): StringInterner.Intern hands back
// a string equal to the one it is given: its table is keyed by the whole
// string and stores that string.
func r8StringInternerIdentity(w *World, r *Report, rule string) {
	f := w.SSAFunc(w.Method("parse", "StringInterner", "Intern"))
	if f == nil || len(f.Params) != 2 {
		panic(undecided{"parse.StringInterner.Intern"})
	}
	in := ssa.Value(f.Params[1])
	n := 0
	why := ""
	for _, b := range f.Blocks {
		for _, ins := range b.Instrs {
			switch x := ins.(type) {
			case *ssa.Lookup:
				if _, isMap := x.X.Type().Underlying().(*types.Map); isMap {
					n++
					if x.Index != in {
						why = "the table is looked up by `" + x.Index.String() + "`, not by the whole string"
					}
				}
			case *ssa.MapUpdate:
				n++
				if x.Key != in || x.Value != in {
					why = "the table entry is made for `" + x.Key.String() + "`, not for the whole string"
				}
			}
		}
	}
	if n == 0 {
		panic(undecided{"StringInterner.Intern: no table access found"})
	}
	r.Check(why == "", rule, "StringInterner.Intern keys its table by the whole string", f.Pos(), "lookup and entry by the string itself", why+": two different token texts (say, two long descriptions that differ near the end) are handed back as the same string, so the tree carries the text of an earlier statement — possibly of another module")
}

// r8SeparatorSet (R08.21 / R10.17): lexSep moves over the input only through
// the lexer's next() and decides by isSep — it neither writes the position
// itself nor asks another classifier.
func r8SeparatorSet(w *World, r *Report, rule string) {
	f := w.SSAFunc(w.Func("parse", "lexSep"))
	isSep := w.SSAFunc(w.Func("parse", "isSep"))
	if f == nil || isSep == nil {
		panic(undecided{"parse.lexSep / parse.isSep"})
	}
	usesIsSep, why := false, ""
	for _, g := range bodiesDeep(f, 1) {
		if g.Pkg != f.Pkg || g == isSep {
			continue
		}
		switch g.Name() {
		case "next", "peek", "backup", "emit", "ignore", "lexStmt":
			continue // the lexer's own primitives and the state handed back
		}
		for _, b := range g.Blocks {
			for _, in := range b.Instrs {
				for _, op := range in.Operands(nil) {
					if *op == ssa.Value(isSep) {
						usesIsSep = true
					}
				}
				switch x := in.(type) {
				case *ssa.Store:
					if fa, ok := x.Addr.(*ssa.FieldAddr); ok {
						pt, isPtr := fa.X.Type().Underlying().(*types.Pointer)
						if !isPtr {
							continue
						}
						named, isNamed := pt.Elem().(*types.Named)
						if st, isSt := pt.Elem().Underlying().(*types.Struct); isSt && isNamed && named.Obj().Name() == "lexer" && st.Field(fa.Field).Name() == "pos" {
							why = g.Name() + " sets the position itself"
						}
					}
				case *ssa.Call:
					if c := x.Call.StaticCallee(); c != nil && c.Pkg != nil && c.Pkg.Pkg.Path() == "unicode" {
						why = g.Name() + " classifies with unicode." + c.Name()
					}
				}
				if mc, ok := in.(*ssa.MakeClosure); ok {
					_ = mc
				}
			}
		}
	}
	if !usesIsSep && why == "" {
		why = "isSep is not consulted"
	}
	r.Check(why == "", rule, "lexSep skips exactly the separators", f.Pos(), "moves with next() while isSep", why+": characters other than space, tab, CR and LF (a no-break space, U+3000, form feed) are swallowed into the separator although they are part of the following word, so an unquoted argument loses its first character(s) and differs from the same text written in quotes")
}

// r8DigitBytesBounded (R09.17): wherever package parse turns a byte into a
// digit value by subtracting '0', the byte has been tested to lie in '0'..'9'
// on every way there.
func r8DigitBytesBounded(w *World, r *Report, rule string) {
	sym := NewSym(w)
	n := 0
	for _, fn := range allFuncs(w.SSAPkg("parse")) {
		if isTestFile(w, fn.Pos()) || fn.Blocks == nil {
			continue
		}
		for _, b := range fn.Blocks {
			for _, in := range b.Instrs {
				bo, ok := in.(*ssa.BinOp)
				if !ok || bo.Op != token.SUB {
					continue
				}
				k, isK := intConstOf(bo.Y)
				if !isK || k != '0' {
					continue
				}
				v := stripConv(bo.X)
				if _, isIdx := v.(*ssa.Index); !isIdx { // s[i] of a string; else an element of a byte slice
					ld, isLd := v.(*ssa.UnOp)
					if !isLd || ld.Op != token.MUL {
						continue
					}
					if _, isIA := ld.X.(*ssa.IndexAddr); !isIA {
						continue
					}
				}
				n++
				cond := sym.PathCond(fn.Blocks[0], b, nil)
				vals, decided := pcValuesWhen(cond, sym.Key(v, nil))
				good := decided && len(vals.minus(ISet{{'0', '9'}})) == 0
				r.Check(good, rule, fmt.Sprintf("%s: digit value of %s", funcKey(fn), v.String()), bo.Pos(), "reached only with the byte in '0'..'9'", "a byte is turned into a digit value without having been tested against both '0' and '9': characters that sort below '0' (or above '9') are accepted as digits, so an argument such as `1/` is taken for a number")
			}
		}
	}
	r.Analysed["R09.17: byte-to-digit conversions examined in package parse"] = n
}

// r8ArgTextKept (R10.18): no Parse method of an argument type assigns the
// argument text it validates.
func r8ArgTextKept(w *World, r *Report, rule string) {
	n := 0
	for _, fn := range allFuncs(w.SSAPkg("parse")) {
		if isTestFile(w, fn.Pos()) || fn.Blocks == nil || fn.Name() != "Parse" || fn.Signature.Recv() == nil {
			continue
		}
		n++
		bad := token.NoPos
		for _, g := range bodiesDeep(fn, 1) {
			if g.Pkg != fn.Pkg {
				continue
			}
			for _, b := range g.Blocks {
				for _, in := range b.Instrs {
					st, ok := in.(*ssa.Store)
					if !ok {
						continue
					}
					fa, ok := st.Addr.(*ssa.FieldAddr)
					if !ok {
						continue
					}
					// the receiver's own text (sub-arguments built on the way are fresh objects)
					if g != fn || fa.X != ssa.Value(fn.Params[0]) {
						continue
					}
					if sty, isSt := fa.X.Type().Underlying().(*types.Pointer).Elem().Underlying().(*types.Struct); isSt && sty.Field(fa.Field).Name() == "arg" {
						bad = st.Pos()
					}
				}
			}
		}
		r.Check(!bad.IsValid(), rule, funcKey(fn)+" leaves the argument text alone", fn.Pos(), "no assignment to the arg field", "the validator rewrites the argument it checks ("+w.PosStr(bad)+"): the tree no longer carries the decoded source text (a pattern shows its translated form) although nothing in the source changed")
	}
	if n < 10 {
		panic(undecided{"fewer argument Parse methods than expected"})
	}
}

// r8EscapesOnlyWhenDoubleQuoted (R08.22 / R10.19): escape substitution is
// reached only through trimWhitespace, which argumentQuoted calls for a
// double-quoted piece (R08.3).
func r8EscapesOnlyWhenDoubleQuoted(w *World, r *Report, rule string) {
	esc := w.SSAFunc(w.Func("parse", "escapeSequenceSubstitution"))
	tw := w.SSAFunc(w.Func("parse", "trimWhitespace"))
	if esc == nil || tw == nil {
		panic(undecided{"parse.escapeSequenceSubstitution / trimWhitespace"})
	}
	var callers []string
	n := 0
	for _, fn := range allFuncs(w.SSAPkg("parse")) {
		if isTestFile(w, fn.Pos()) || fn.Blocks == nil {
			continue
		}
		for _, b := range fn.Blocks {
			for _, in := range b.Instrs {
				for _, op := range in.Operands(nil) {
					if *op == ssa.Value(esc) {
						n++
						if fn != tw {
							callers = append(callers, fn.Name())
						}
					}
				}
			}
		}
	}
	if n == 0 {
		panic(undecided{"escapeSequenceSubstitution is never used"})
	}
	sort.Strings(callers)
	r.Check(len(callers) == 0, rule, "escapeSequenceSubstitution is used by trimWhitespace only", esc.Pos(), fmt.Sprintf("%d use(s), all in trimWhitespace", n), "escape sequences are also substituted in "+strings.Join(callers, ", ")+": an unquoted (or single-quoted) argument containing a backslash is decoded like a double-quoted one, so `c:\\\\temp\\new` loses its backslashes and gains a line feed")
}

// r8RefineAdds (R12.14 / R15.16): in applyChange a statement whose cardinality
// on the target is 'n' is added — always, and nothing is replaced or removed
// for it; replacement is for cardinality '1' alone.
func r8RefineAdds(w *World, r *Report, rule string) {
	f := w.SSAFunc(w.Method("compile", "Compiler", "applyChange"))
	if f == nil {
		panic(undecided{"Compiler.applyChange"})
	}
	sym := NewSym(w)
	sym.Expand = false
	var card *ssa.Call
	for _, b := range f.Blocks {
		for _, in := range b.Instrs {
			if c, ok := in.(*ssa.Call); ok && c.Call.IsInvoke() && nm(c.Call.Method) == "GetCardinalityEnd" {
				card = c
			}
		}
	}
	if card == nil {
		panic(undecided{"applyChange: the cardinality of the statement on the target is not asked for"})
	}
	key := sym.Key(card, nil)
	why := ""
	nAdd := 0
	for _, b := range f.Blocks {
		for _, in := range b.Instrs {
			c, ok := in.(*ssa.Call)
			if !ok || !c.Call.IsInvoke() {
				continue
			}
			name := nm(c.Call.Method)
			if name != "AddChildren" && !strings.HasPrefix(name, "Replace") {
				continue
			}
			if !(card.Block() == b || card.Block().Dominates(b)) {
				continue
			}
			cond := sym.PathCond(card.Block(), b, nil)
			if name == "AddChildren" {
				nAdd++
				msg := pcCompare(cond, func(a *pcAtom) string {
					if a.subj == key && a.set.equal(isetOf('n')) {
						return "n"
					}
					return ""
				}, func(env map[string]bool) bool { return env["n"] })
				if msg != "" {
					why = "a statement of cardinality 'n' is not always added (" + msg + ")"
				}
				continue
			}
			vals, decided := pcValuesWhen(cond, key)
			if !decided || !vals.equal(isetOf('1')) {
				why = name + " is also reached for a cardinality other than '1'"
			}
		}
	}
	if nAdd == 0 {
		why = "no AddChildren for cardinality 'n'"
	}
	r.Check(why == "", rule, "applyChange: cardinality 'n' adds, cardinality '1' replaces", f.Pos(), "AddChildren ⇔ 'n'; Replace* ⇒ '1'", why+": a must (or another repeatable statement) written in a refine or augment replaces, or is dropped in favour of, one the node already has — RFC 6020 §7.12.2 makes refined musts additional, and each is compiled in the scope of the module it is written in")
}

// r8IdentityNamesRelativeToUser (R12.15 / R16.19): identity values are named
// relative to the module the identityref leaf ends up in: the prefix stripped
// from the full names is GetNodeModulename of the configuration node, and that
// node travels unchanged through BuildBaseType's descent into a typedef.
func r8IdentityNamesRelativeToUser(w *World, r *Report, rule string) {
	closure := identityClosureFunc(w)
	gi := w.SSAFunc(w.Method("compile", "Compiler", "getIdentities"))
	// the second argument of strings.TrimPrefix in the closure function
	var prefix ssa.Value
	for _, b := range closure.Blocks {
		for _, in := range b.Instrs {
			if c, ok := in.(*ssa.Call); ok && c.Call.StaticCallee() != nil && c.Call.StaticCallee().String() == "strings.TrimPrefix" && len(c.Call.Args) == 2 {
				prefix = c.Call.Args[1]
			}
		}
	}
	if prefix == nil {
		panic(undecided{"the identity closure does not strip a module prefix"})
	}
	// kept in a field of the walk's state: what was stored there
	if ld, ok := prefix.(*ssa.UnOp); ok && ld.Op == token.MUL {
		if fa, isFA := ld.X.(*ssa.FieldAddr); isFA && gi != nil {
			for _, b := range gi.Blocks {
				for _, in := range b.Instrs {
					if st, isSt := in.(*ssa.Store); isSt {
						if sfa, isS := st.Addr.(*ssa.FieldAddr); isS && sfa.Field == fa.Field && types.Identical(sfa.X.Type(), fa.X.Type()) {
							prefix = st.Val
						}
					}
				}
			}
		}
	}
	why := "the prefix is not <module name of the configuration node> + \":\""
	if bo, ok := prefix.(*ssa.BinOp); ok && bo.Op == token.ADD {
		if c, isC := bo.X.(*ssa.Call); isC && c.Call.IsInvoke() {
			switch {
			case nm(c.Call.Method) != "GetNodeModulename":
				why = "the prefix is built from " + nm(c.Call.Method) + "(), not from GetNodeModulename(): for a leaf copied in from a grouping of another module that is the module the grouping was written in"
			default:
				if _, isP := c.Call.Value.(*ssa.Parameter); isP {
					why = ""
				} else {
					why = "GetNodeModulename is asked of something other than the configuration node handed in"
				}
			}
		}
	}
	r.Check(why == "", rule, "identity values are named relative to the module of the configuration node", closure.Pos(), "TrimPrefix(full name, cfgNode.GetNodeModulename(cfgNode.Root()) + \":\")", why+": the value space of the identityref leaf differs from the one the same leaf written in place has (values valid for the inlined leaf are rejected)")
	// BuildBaseType hands its own configuration node on
	bbt := w.SSAFunc(w.Method("compile", "Compiler", "BuildBaseType"))
	bt := w.SSAFunc(w.Method("compile", "Compiler", "BuildType"))
	if bbt == nil || bt == nil || len(bbt.Params) < 2 {
		panic(undecided{"Compiler.BuildBaseType / BuildType"})
	}
	n, bad := 0, false
	for _, b := range bbt.Blocks {
		for _, in := range b.Instrs {
			if c, ok := in.(*ssa.Call); ok && c.Call.StaticCallee() == bt && len(c.Call.Args) >= 2 {
				n++
				if c.Call.Args[1] != ssa.Value(bbt.Params[1]) {
					bad = true
				}
			}
		}
	}
	r.Check(n > 0 && !bad, rule, "BuildBaseType descends into a typedef with its own configuration node", bbt.Pos(), "BuildType(cfgNode, …)", "the typedef's type is built for another node than the one the type is used at: an identityref reached through a typedef of another module gets its values named relative to the typedef's module")
}

// r8RangeLoopLeavesOnAcceptance (R17.15): in the Validate methods of the integer
// types the loop over the range parts is left before exhaustion only when the
// part just asked accepted the value.
func r8RangeLoopLeavesOnAcceptance(w *World, r *Report, rule string) {
	for _, typ := range []string{"integer", "uinteger"} {
		f := w.SSAFunc(w.Method("schema", typ, "Validate"))
		if f == nil {
			panic(undecided{"schema." + typ + ".Validate"})
		}
		sym := NewSym(w)
		sym.Expand = false
		n, why := 0, ""
		type where struct {
			g *ssa.Function
			l ssaLoop
		}
		var loops []where
		for _, g := range bodiesDeep(f, 1) { // the loop may have been handed to a helper of the package
			if g.Pkg == f.Pkg {
				for _, l := range ssaLoops(g) {
					loops = append(loops, where{g, l})
				}
			}
		}
		for _, wl := range loops {
			l := wl.l
			body := l.body()
			var asked []*ssa.Call
			for b := range body {
				for _, in := range b.Instrs {
					if c, ok := in.(*ssa.Call); ok {
						name := ""
						if c.Call.IsInvoke() {
							name = nm(c.Call.Method)
						} else if g := c.Call.StaticCallee(); g != nil {
							name = g.Name()
						}
						if name == "Validate" {
							asked = append(asked, c)
						}
					}
				}
			}
			if len(asked) == 0 {
				continue
			}
			for b := range body {
				if b == l.Header {
					continue
				}
				for _, s := range b.Succs {
					if body[s] {
						continue
					}
					n++
					cond := pcAndF(sym.PathCond(l.Header, b, nil), sym.edgeCond(b, s, nil))
					msg := pcImplies(cond, func(a *pcAtom) string {
						if a.op == token.EQL && a.x != nil && a.y != nil {
							for _, c := range asked {
								if (a.x == ssa.Value(c) && isNilConst(a.y)) || (a.y == ssa.Value(c) && isNilConst(a.x)) {
									return "accepted"
								}
							}
						}
						return ""
					}, func(env map[string]bool) bool { return env["accepted"] })
					if msg != "" {
						why = "the loop over the range parts is left in mid-course without the part having accepted the value (" + msg + ")"
					}
				}
			}
		}
		if n == 0 {
			why = "no loop over the range parts with an early exit found"
		}
		r.Check(why == "", rule, typ+".Validate leaves the range loop only on acceptance", f.Pos(), "early exit ⇒ r.Validate(v) == nil", why+": a value no part accepted (e.g. one below the first range) leaves the loop with no error and is accepted")
	}
}

// r8XMLWritesEveryChild (R19.20): in the XML child encoder whether and how a
// child is written depends on the kind of its schema node alone.
func r8XMLWritesEveryChild(w *World, r *Report, rule string) {
	sym := NewSym(w)
	sym.Expand = true // a kind test may be asked through a predicate of the package
	n := 0
	for _, fn := range allFuncs(w.SSAPkg("data/encoding")) {
		if isTestFile(w, fn.Pos()) || fn.Blocks == nil || len(ssaLoops(fn)) == 0 {
			continue
		}
		for _, b := range fn.Blocks {
			for _, in := range b.Instrs {
				c, ok := in.(*ssa.Call)
				if !ok || c.Call.StaticCallee() == nil || c.Call.StaticCallee().String() != "(*encoding/xml.Encoder).EncodeToken" || len(c.Call.Args) != 2 {
					continue
				}
				mi, isMI := c.Call.Args[1].(*ssa.MakeInterface)
				if !isMI || !strings.HasSuffix(mi.X.Type().String(), "xml.StartElement") {
					continue
				}
				l, inLoop := outermostLoopOf(fn, b)
				if !inLoop {
					continue
				}
				n++
				why := ""
				for _, a := range sym.PathCond(l.Header, b, nil).atoms() {
					switch {
					case pcIsIter(a):
					case a.op == token.LSS && a.x != nil && isRangeIndex(a.x):
					case a.op == token.LSS && a.y != nil && func() bool { _, isLen := isLenCall(a.y); return isLen }():
						// a counted loop over the values
					default:
						if ex, isEx := a.v.(*ssa.Extract); isEx && ex.Index == 1 {
							if _, isTA := ex.Tuple.(*ssa.TypeAssert); isTA {
								continue
							}
						}
						why = a.key
					}
				}
				r.Check(why == "", rule, fmt.Sprintf("%s: element #%d", funcKey(fn), n), c.Pos(), "written for every child of that schema kind", "whether the element is written also depends on `"+why+"`: some present nodes (an empty presence container, say) are left out of the XML text although the other encodings write them, so the text does not decode to the same tree")
			}
		}
	}
	if n == 0 {
		panic(undecided{"data/encoding: no element is written inside a loop"})
	}
}

// outermostLoopOf: the outermost natural loop of f that contains b.
func outermostLoopOf(f *ssa.Function, b *ssa.BasicBlock) (ssaLoop, bool) {
	var best ssaLoop
	found := false
	bestN := 0
	for _, l := range ssaLoops(f) {
		body := l.body()
		if body[b] && (!found || len(body) > bestN) {
			best, found, bestN = l, true, len(body)
		}
	}
	return best, found
}

// r8ChoiceRegistered (R20.12): addChoiceToChoices registers the child exactly
// when it is a Choice.
func r8ChoiceRegistered(w *World, r *Report, rule string) {
	f := w.SSAFunc(w.Func("schema", "addChoiceToChoices"))
	if f == nil {
		panic(undecided{"schema.addChoiceToChoices"})
	}
	sym := NewSym(w)
	sym.Expand = true // the type test may be asked through a predicate of the package
	n, why := 0, ""
	for _, b := range f.Blocks {
		for _, in := range b.Instrs {
			c, ok := in.(*ssa.Call)
			if !ok || c.Call.StaticCallee() == nil || nm(c.Call.StaticCallee()) != "addChoice" {
				continue
			}
			n++
			saw := false
			msg := pcCompare(sym.PathCond(f.Blocks[0], b, nil), func(a *pcAtom) string {
				if ex, isEx := a.v.(*ssa.Extract); isEx && ex.Index == 1 {
					if ta, isTA := ex.Tuple.(*ssa.TypeAssert); isTA && strings.HasSuffix(ta.AssertedType.String(), "Choice") {
						saw = true
						return "choice"
					}
				}
				return ""
			}, func(env map[string]bool) bool { return env["choice"] })
			if msg != "" || !saw {
				why = "registering depends on more than the child being a Choice (" + msg + ")"
			}
		}
	}
	if n == 0 {
		why = "addChoice is not called"
	}
	r.Check(why == "", rule, "addChoiceToChoices registers every choice", f.Pos(), "addChoice(child) ⇔ child is a Choice", why+": under a filter that removes the nodes inside a choice's cases the choice itself vanishes from its parent, although the pruned unfiltered schema keeps it")
}

// waysPassOrExcused: every way from the entry of f to block b passes one of
// the blocks in through, or is taken only under a condition excuse() accepts
// ("" = accepted).  A join (the single exit of a function written with one
// return) is decided predecessor by predecessor.  "" when that holds, else the
// reason for the first way that neither passes nor is excused.
func waysPassOrExcused(sym *Sym, f *ssa.Function, b *ssa.BasicBlock, through []*ssa.BasicBlock, excuse func(*pcF) string, depth int) string {
	for _, tb := range through {
		if tb == b || tb.Dominates(b) {
			return ""
		}
	}
	whole := excuse(sym.PathCond(f.Blocks[0], b, nil))
	if whole == "" || len(b.Preds) < 2 || depth > 4 {
		return whole
	}
	for _, p := range b.Preds {
		passed := false
		for _, tb := range through {
			passed = passed || tb == p || tb.Dominates(p)
		}
		if passed {
			continue
		}
		if msg := excuse(pcAndF(sym.PathCond(f.Blocks[0], p, nil), sym.edgeCond(p, b, nil))); msg != "" {
			// the predecessor may itself be a join
			if len(p.Preds) >= 2 {
				if inner := waysPassOrExcused(sym, f, p, through, excuse, depth+1); inner == "" {
					continue
				}
			}
			return msg
		}
	}
	return ""
}

// E14: mechref applies one mechanical, behaviour-preserving rewrite to every
// non-test, non-generated Go file below a directory (a scratch copy of the
// repository, never /repo itself).  It is used to measure how the checks react
// to refactorings: after any of these rewrites every check must stay silent.
//
//	yvcheck -mechref <transformation> -repo <dir>
//
//	invert: if c { A } else { B }        ->  if !(c) { B } else { A }
//	nest:   if a && b { S } (no else)    ->  if a { if b { S } }
//	chain:  switch { case c1: A ... }    ->  if c1 { A } else if ... (no break/fallthrough inside)
//	incdec: x += 1 / x -= 1 / x = x + 1  ->  x++ / x--
//	merge:  if a { if b { S } }          ->  if a && b { S }
//	tagswitch: switch x { case c: A }    ->  if x == c { A } else ... (x an identifier or selector chain)
//	unelse: if c { ...return } else { T } ->  if c { ...return }; T
//	elseify: if c { ...return }; rest    ->  if c { ...return } else { rest }   (last such if of a function body)
//	orsplit: if a || b { ...return }     ->  if a { ...return }; if b { ...return }
//	rename: every local variable, parameter and receiver x -> xZ
//	reorderdecls: the function declarations of each file in reverse order
//	vardecl: x := e                        ->  var x = e
//	elseflat: else { if c {A} else {B} }   ->  else if c {A} else {B}
//	contguard: loop body ending in if c {S} -> if !(c) { continue }; S
//	wrapcont: if c { continue }; rest       -> if !(c) { rest }   (first statement pair of a loop body)
package main

import (
	"bytes"
	"fmt"
	"go/ast"
	"go/format"
	"go/parser"
	"go/token"
	"os"
	"path/filepath"
	"strings"
)

var nChanged int

// mechRewrite applies transformation t below root and returns the number of
// rewritten statements.
func mechRewrite(t0 string, root string) int {
	t := &t0
	nChanged = 0
	renamed = map[*ast.Ident]bool{}
	filepath.Walk(root, func(path string, info os.FileInfo, err error) error {
		if err != nil || info.IsDir() || !strings.HasSuffix(path, ".go") || strings.HasSuffix(path, "_test.go") {
			return nil
		}
		if strings.Contains(path, "/vendor/") || strings.Contains(path, "/.git/") {
			return nil
		}
		src, err := os.ReadFile(path)
		if err != nil {
			return nil
		}
		if bytes.Contains(src[:mrMin(len(src), 400)], []byte("Code generated")) || bytes.Contains(src[:mrMin(len(src), 400)], []byte("DO NOT EDIT")) {
			return nil
		}
		fset := token.NewFileSet()
		f, err := parser.ParseFile(fset, path, src, parser.ParseComments)
		if err != nil {
			return nil
		}
		before := nChanged
		switch *t {
		case "invert":
			rewriteStmts(f, mrInvert)
		case "nest":
			rewriteStmts(f, mrNest)
		case "chain":
			rewriteStmts(f, mrChain)
		case "incdec":
			rewriteStmts(f, incdec)
		case "merge":
			rewriteStmts(f, mrMerge)
		case "tagswitch":
			rewriteStmts(f, tagswitch)
		case "unelse":
			rewriteLists(f, unelse)
		case "elseify":
			rewriteLists(f, elseify)
		case "orsplit":
			rewriteLists(f, orsplit)
		case "rename":
			renameLocals(f)
		case "reorderdecls":
			reorderDecls(f)
		case "vardecl":
			rewriteStmts(f, vardecl)
		case "elseflat":
			rewriteStmts(f, elseflat)
		case "contguard":
			loopBodies(f, contguard)
		case "wrapcont":
			loopBodies(f, wrapcont)
		}
		if nChanged == before {
			return nil
		}
		// comments inside moved blocks would be misplaced by the printer: drop
		// free-floating comments of rewritten files (behaviour is what matters)
		var keep []*ast.CommentGroup
		for _, cg := range f.Comments {
			if cg.End() < f.Package { // build constraints, licence
				keep = append(keep, cg)
			}
		}
		f.Comments = keep
		var buf bytes.Buffer
		if err := format.Node(&buf, fset, f); err != nil {
			fmt.Fprintln(os.Stderr, path, err)
			return nil
		}
		os.WriteFile(path, buf.Bytes(), info.Mode())
		return nil
	})
	return nChanged
}

func mrMin(a, b int) int {
	if a < b {
		return a
	}
	return b
}

// rewriteStmts applies fn to every statement in every statement list.
func rewriteStmts(f *ast.File, fn func(ast.Stmt) ast.Stmt) {
	var lists func(n ast.Node)
	lists = func(n ast.Node) {
		ast.Inspect(n, func(x ast.Node) bool {
			switch b := x.(type) {
			case *ast.BlockStmt:
				for i, s := range b.List {
					b.List[i] = fn(s)
				}
			case *ast.CaseClause:
				for i, s := range b.Body {
					b.Body[i] = fn(s)
				}
			case *ast.CommClause:
				for i, s := range b.Body {
					b.Body[i] = fn(s)
				}
			}
			return true
		})
	}
	lists(f)
}

func mrNot(e ast.Expr) ast.Expr {
	return &ast.UnaryExpr{Op: token.NOT, X: &ast.ParenExpr{X: e}}
}

func mrInvert(s ast.Stmt) ast.Stmt {
	is, ok := s.(*ast.IfStmt)
	if !ok || is.Else == nil {
		return s
	}
	eb, ok := is.Else.(*ast.BlockStmt)
	if !ok {
		return s
	}
	nChanged++
	return &ast.IfStmt{Init: is.Init, Cond: mrNot(is.Cond), Body: eb, Else: is.Body}
}

func mrNest(s ast.Stmt) ast.Stmt {
	is, ok := s.(*ast.IfStmt)
	if !ok || is.Else != nil || is.Init != nil {
		return s
	}
	be, ok := is.Cond.(*ast.BinaryExpr)
	if !ok || be.Op != token.LAND {
		return s
	}
	nChanged++
	inner := &ast.IfStmt{Cond: be.Y, Body: is.Body}
	return &ast.IfStmt{Cond: be.X, Body: &ast.BlockStmt{List: []ast.Stmt{inner}}}
}

// hasBreak: an unlabelled break or a fallthrough that would refer to the switch.
func hasBreak(stmts []ast.Stmt) bool {
	found := false
	var walk func(n ast.Node, inner bool)
	walk = func(n ast.Node, inner bool) {
		ast.Inspect(n, func(x ast.Node) bool {
			switch y := x.(type) {
			case *ast.ForStmt, *ast.RangeStmt, *ast.SwitchStmt, *ast.TypeSwitchStmt, *ast.SelectStmt:
				if x != n {
					// breaks inside belong to the inner statement; fallthrough cannot cross
					return false
				}
			case *ast.FuncLit:
				return false
			case *ast.BranchStmt:
				if (y.Tok == token.BREAK && y.Label == nil) || y.Tok == token.FALLTHROUGH {
					found = true
				}
			}
			return true
		})
	}
	for _, s := range stmts {
		walk(s, false)
	}
	return found
}

func mrChain(s ast.Stmt) ast.Stmt {
	sw, ok := s.(*ast.SwitchStmt)
	if !ok || sw.Tag != nil || sw.Init != nil || len(sw.Body.List) == 0 {
		return s
	}
	var def *ast.CaseClause
	var cases []*ast.CaseClause
	for i, c := range sw.Body.List {
		cc := c.(*ast.CaseClause)
		if hasBreak(cc.Body) {
			return s
		}
		if cc.List == nil {
			if i != len(sw.Body.List)-1 {
				return s // default not last: order of evaluation would need care
			}
			def = cc
			continue
		}
		cases = append(cases, cc)
	}
	if len(cases) == 0 {
		return s
	}
	var build func(i int) ast.Stmt
	build = func(i int) ast.Stmt {
		cc := cases[i]
		var cond ast.Expr
		for _, e := range cc.List {
			if cond == nil {
				cond = e
			} else {
				cond = &ast.BinaryExpr{X: cond, Op: token.LOR, Y: e}
			}
		}
		is := &ast.IfStmt{Cond: cond, Body: &ast.BlockStmt{List: cc.Body}}
		if i+1 < len(cases) {
			is.Else = build(i + 1)
		} else if def != nil {
			is.Else = &ast.BlockStmt{List: def.Body}
		}
		return is
	}
	nChanged++
	return build(0)
}

func incdec(s ast.Stmt) ast.Stmt {
	as, ok := s.(*ast.AssignStmt)
	if !ok || len(as.Lhs) != 1 || len(as.Rhs) != 1 {
		return s
	}
	one := func(e ast.Expr) bool {
		bl, ok := e.(*ast.BasicLit)
		return ok && bl.Kind == token.INT && bl.Value == "1"
	}
	switch as.Tok {
	case token.ADD_ASSIGN:
		if one(as.Rhs[0]) {
			nChanged++
			return &ast.IncDecStmt{X: as.Lhs[0], Tok: token.INC}
		}
	case token.SUB_ASSIGN:
		if one(as.Rhs[0]) {
			nChanged++
			return &ast.IncDecStmt{X: as.Lhs[0], Tok: token.DEC}
		}
	case token.ASSIGN:
		if be, ok := as.Rhs[0].(*ast.BinaryExpr); ok && one(be.Y) && (be.Op == token.ADD || be.Op == token.SUB) {
			if fmt.Sprint(be.X) == fmt.Sprint(as.Lhs[0]) {
				if _, isIdent := as.Lhs[0].(*ast.Ident); isIdent {
					nChanged++
					tok := token.INC
					if be.Op == token.SUB {
						tok = token.DEC
					}
					return &ast.IncDecStmt{X: as.Lhs[0], Tok: tok}
				}
			}
		}
	}
	return s
}

// rewriteLists applies fn to every statement list (it may change its length).
func rewriteLists(f *ast.File, fn func([]ast.Stmt) []ast.Stmt) {
	ast.Inspect(f, func(x ast.Node) bool {
		switch b := x.(type) {
		case *ast.BlockStmt:
			b.List = fn(b.List)
		case *ast.CaseClause:
			b.Body = fn(b.Body)
		case *ast.CommClause:
			b.Body = fn(b.Body)
		}
		return true
	})
}

func mrMerge(s ast.Stmt) ast.Stmt {
	is, ok := s.(*ast.IfStmt)
	if !ok || is.Else != nil || is.Init != nil || len(is.Body.List) != 1 {
		return s
	}
	in, ok := is.Body.List[0].(*ast.IfStmt)
	if !ok || in.Else != nil || in.Init != nil {
		return s
	}
	nChanged++
	return &ast.IfStmt{Cond: &ast.BinaryExpr{X: &ast.ParenExpr{X: is.Cond}, Op: token.LAND, Y: &ast.ParenExpr{X: in.Cond}}, Body: in.Body}
}

func pureOperand(e ast.Expr) bool {
	switch x := e.(type) {
	case *ast.Ident:
		return true
	case *ast.SelectorExpr:
		return pureOperand(x.X)
	case *ast.ParenExpr:
		return pureOperand(x.X)
	}
	return false
}

func tagswitch(s ast.Stmt) ast.Stmt {
	sw, ok := s.(*ast.SwitchStmt)
	if !ok || sw.Tag == nil || sw.Init != nil || !pureOperand(sw.Tag) || len(sw.Body.List) == 0 {
		return s
	}
	var def *ast.CaseClause
	var cases []*ast.CaseClause
	for i, c := range sw.Body.List {
		cc := c.(*ast.CaseClause)
		if hasBreak(cc.Body) {
			return s
		}
		if cc.List == nil {
			if i != len(sw.Body.List)-1 {
				return s
			}
			def = cc
			continue
		}
		cases = append(cases, cc)
	}
	if len(cases) == 0 {
		return s
	}
	var build func(i int) ast.Stmt
	build = func(i int) ast.Stmt {
		cc := cases[i]
		var cond ast.Expr
		for _, e := range cc.List {
			t := &ast.BinaryExpr{X: sw.Tag, Op: token.EQL, Y: e}
			if cond == nil {
				cond = t
			} else {
				cond = &ast.BinaryExpr{X: cond, Op: token.LOR, Y: t}
			}
		}
		is := &ast.IfStmt{Cond: cond, Body: &ast.BlockStmt{List: cc.Body}}
		if i+1 < len(cases) {
			is.Else = build(i + 1)
		} else if def != nil {
			is.Else = &ast.BlockStmt{List: def.Body}
		}
		return is
	}
	nChanged++
	return build(0)
}

func endsInReturn(list []ast.Stmt) bool {
	if len(list) == 0 {
		return false
	}
	switch x := list[len(list)-1].(type) {
	case *ast.ReturnStmt:
		return true
	case *ast.BranchStmt:
		return x.Tok == token.CONTINUE || x.Tok == token.GOTO
	case *ast.ExprStmt:
		if ce, ok := x.X.(*ast.CallExpr); ok {
			if id, ok := ce.Fun.(*ast.Ident); ok && id.Name == "panic" {
				return true
			}
		}
	}
	return false
}

// declares: the list declares a name that later statements could see.
func mrDeclares(list []ast.Stmt) bool {
	for _, s := range list {
		switch x := s.(type) {
		case *ast.AssignStmt:
			if x.Tok == token.DEFINE {
				return true
			}
		case *ast.DeclStmt:
			return true
		case *ast.LabeledStmt:
			return true
		}
	}
	return false
}

func unelse(list []ast.Stmt) []ast.Stmt {
	var out []ast.Stmt
	for _, s := range list {
		is, ok := s.(*ast.IfStmt)
		if ok && is.Else != nil && is.Init == nil && endsInReturn(is.Body.List) {
			if eb, ok := is.Else.(*ast.BlockStmt); ok && !mrDeclares(eb.List) {
				nChanged++
				out = append(out, &ast.IfStmt{Cond: is.Cond, Body: is.Body})
				out = append(out, eb.List...)
				continue
			}
		}
		out = append(out, s)
	}
	return out
}

func elseify(list []ast.Stmt) []ast.Stmt {
	// the last `if c { ...return }` (no else, no init) that is followed by something
	for i := len(list) - 2; i >= 0; i-- {
		is, ok := list[i].(*ast.IfStmt)
		if !ok || is.Else != nil || is.Init != nil {
			continue
		}
		if len(is.Body.List) == 0 {
			continue
		}
		if _, ok := is.Body.List[len(is.Body.List)-1].(*ast.ReturnStmt); !ok {
			continue
		}
		rest := list[i+1:]
		if !endsInReturnOnly(rest) {
			continue
		}
		nChanged++
		n := &ast.IfStmt{Cond: is.Cond, Body: is.Body, Else: &ast.BlockStmt{List: append([]ast.Stmt{}, rest...)}}
		return append(append([]ast.Stmt{}, list[:i]...), n)
	}
	return list
}

// endsInReturnOnly: the statements end with a return (so that moving them
// into an else block leaves no fall-through to a missing final return).
func endsInReturnOnly(list []ast.Stmt) bool {
	if len(list) == 0 {
		return false
	}
	_, ok := list[len(list)-1].(*ast.ReturnStmt)
	return ok
}

func orsplit(list []ast.Stmt) []ast.Stmt {
	var out []ast.Stmt
	for _, s := range list {
		is, ok := s.(*ast.IfStmt)
		if ok && is.Else == nil && is.Init == nil && endsInReturn(is.Body.List) {
			if be, ok := is.Cond.(*ast.BinaryExpr); ok && be.Op == token.LOR {
				nChanged++
				out = append(out, &ast.IfStmt{Cond: be.X, Body: is.Body})
				out = append(out, &ast.IfStmt{Cond: be.Y, Body: is.Body})
				continue
			}
		}
		out = append(out, s)
	}
	return out
}

// renameLocals appends Z to every identifier that the parser resolved to a
// variable declared inside a function (parameters, results, receivers,
// := and var declarations, range variables).
func renameLocals(f *ast.File) {
	// declaration nodes that stand inside a function
	inFunc := map[interface{}]bool{}
	mark := func(fl *ast.FieldList) {
		if fl == nil {
			return
		}
		for _, fd := range fl.List {
			inFunc[fd] = true
		}
	}
	ast.Inspect(f, func(n ast.Node) bool {
		switch x := n.(type) {
		case *ast.FuncDecl:
			mark(x.Recv)
			mark(x.Type.Params)
			mark(x.Type.Results)
			if x.Body != nil {
				ast.Inspect(x.Body, func(y ast.Node) bool {
					switch z := y.(type) {
					case *ast.AssignStmt:
						inFunc[z] = true
					case *ast.ValueSpec:
						inFunc[z] = true
					case *ast.RangeStmt:
						inFunc[z] = true
					case *ast.FuncLit:
						mark(z.Type.Params)
						mark(z.Type.Results)
					case *ast.TypeSwitchStmt:
						inFunc[z] = true
						if a, ok := z.Assign.(*ast.AssignStmt); ok {
							inFunc[a] = true
						}
					}
					return true
				})
			}
		}
		return true
	})
	// keys of struct literals look like variables to the parser's resolver
	skip := map[*ast.Ident]bool{}
	ast.Inspect(f, func(n ast.Node) bool {
		cl, ok := n.(*ast.CompositeLit)
		if !ok {
			return true
		}
		switch cl.Type.(type) {
		case *ast.MapType, *ast.ArrayType:
			return true
		}
		for _, e := range cl.Elts {
			if kv, ok := e.(*ast.KeyValueExpr); ok {
				if id, ok := kv.Key.(*ast.Ident); ok {
					skip[id] = true
				}
			}
		}
		return true
	})
	ast.Inspect(f, func(n ast.Node) bool {
		id, ok := n.(*ast.Ident)
		if !ok || id.Obj == nil || id.Obj.Kind != ast.Var || id.Name == "_" || skip[id] {
			return true
		}
		if inFunc[id.Obj.Decl] {
			if !strings.HasSuffix(id.Name, "Z") || true {
				// rename once per identifier node
				if _, done := renamed[id]; !done {
					renamed[id] = true
					id.Name += "Z"
					nChanged++
				}
			}
		}
		return true
	})
}

var renamed = map[*ast.Ident]bool{}

func reorderDecls(f *ast.File) {
	var idx []int
	var fns []ast.Decl
	for i, d := range f.Decls {
		if fd, ok := d.(*ast.FuncDecl); ok && fd.Name.Name != "init" {
			idx = append(idx, i)
			fns = append(fns, d)
		}
	}
	if len(fns) < 2 {
		return
	}
	for k, i := range idx {
		f.Decls[i] = fns[len(fns)-1-k]
	}
	nChanged += len(fns)
}

func vardecl(s ast.Stmt) ast.Stmt {
	as, ok := s.(*ast.AssignStmt)
	if !ok || as.Tok != token.DEFINE || len(as.Lhs) != 1 || len(as.Rhs) != 1 {
		return s
	}
	id, ok := as.Lhs[0].(*ast.Ident)
	if !ok || id.Name == "_" {
		return s
	}
	nChanged++
	return &ast.DeclStmt{Decl: &ast.GenDecl{Tok: token.VAR, Specs: []ast.Spec{&ast.ValueSpec{Names: []*ast.Ident{id}, Values: []ast.Expr{as.Rhs[0]}}}}}
}

func elseflat(s ast.Stmt) ast.Stmt {
	is, ok := s.(*ast.IfStmt)
	if !ok {
		return s
	}
	for cur := is; cur != nil; {
		eb, ok := cur.Else.(*ast.BlockStmt)
		if ok && len(eb.List) == 1 {
			if inner, ok := eb.List[0].(*ast.IfStmt); ok {
				cur.Else = inner
				nChanged++
				cur = inner
				continue
			}
		}
		next, _ := cur.Else.(*ast.IfStmt)
		cur = next
	}
	return s
}

func loopBodies(f *ast.File, fn func([]ast.Stmt) []ast.Stmt) {
	ast.Inspect(f, func(x ast.Node) bool {
		switch l := x.(type) {
		case *ast.ForStmt:
			l.Body.List = fn(l.Body.List)
		case *ast.RangeStmt:
			l.Body.List = fn(l.Body.List)
		}
		return true
	})
}

func contguard(list []ast.Stmt) []ast.Stmt {
	if len(list) == 0 {
		return list
	}
	is, ok := list[len(list)-1].(*ast.IfStmt)
	if !ok || is.Else != nil || is.Init != nil || mrDeclares(is.Body.List) || hasBreak(is.Body.List) && false {
		return list
	}
	nChanged++
	out := append([]ast.Stmt{}, list[:len(list)-1]...)
	out = append(out, &ast.IfStmt{Cond: mrNot(is.Cond), Body: &ast.BlockStmt{List: []ast.Stmt{&ast.BranchStmt{Tok: token.CONTINUE}}}})
	return append(out, is.Body.List...)
}

func wrapcont(list []ast.Stmt) []ast.Stmt {
	for i, s := range list {
		is, ok := s.(*ast.IfStmt)
		if !ok || is.Else != nil || is.Init != nil || len(is.Body.List) != 1 || i == len(list)-1 {
			continue
		}
		br, ok := is.Body.List[0].(*ast.BranchStmt)
		if !ok || br.Tok != token.CONTINUE || br.Label != nil {
			continue
		}
		nChanged++
		out := append([]ast.Stmt{}, list[:i]...)
		return append(out, &ast.IfStmt{Cond: mrNot(is.Cond), Body: &ast.BlockStmt{List: append([]ast.Stmt{}, list[i+1:]...)}})
	}
	return list
}

package main

import (
	"fmt"
	"go/ast"
	"go/constant"
	"go/token"
	"go/types"
	"strings"

	"golang.org/x/tools/go/packages"
	"golang.org/x/tools/go/ssa"
)

func init() { register("C02", checkC02) }

// closuresIn returns the func literals of a method body.
// closuresIn lists the function values a builder creates: its func literals
// and — read the same way, as a literal that captures nothing — the named
// functions of its package that it mentions as values (a closure that was
// given a name and moved to package level).
func closuresIn(fd *ast.FuncDecl) []*ast.FuncLit {
	var out []*ast.FuncLit
	callee := map[*ast.Ident]bool{}
	ast.Inspect(fd.Body, func(n ast.Node) bool {
		switch x := n.(type) {
		case *ast.FuncLit:
			out = append(out, x)
		case *ast.CallExpr:
			if id, ok := x.Fun.(*ast.Ident); ok {
				callee[id] = true
			}
		}
		return true
	})
	w := theWorld
	if w == nil {
		return out
	}
	var pk *packages.Package
	for _, p := range w.All {
		for _, f := range p.Syntax {
			if f.Pos() <= fd.Pos() && fd.End() <= f.End() {
				pk = p
			}
		}
	}
	if pk == nil {
		return out
	}
	seen := map[types.Object]bool{}
	inspectNoLit(fd.Body, func(n ast.Node) bool {
		id, ok := n.(*ast.Ident)
		if !ok || callee[id] {
			return true
		}
		fn, ok := pk.TypesInfo.Uses[id].(*types.Func)
		if !ok || fn.Pkg() != pk.Types || seen[fn] {
			return true
		}
		if sig, ok := fn.Type().(*types.Signature); !ok || sig.Recv() != nil {
			return true
		}
		seen[fn] = true
		for _, d := range funcDecls(pk) {
			if pk.TypesInfo.Defs[d.Name] == types.Object(fn) && d.Body != nil {
				out = append(out, &ast.FuncLit{Type: d.Type, Body: d.Body})
			}
		}
		return true
	})
	return out
}

func checkC02(w *World, r *Report) {
	r.NotDecided = []string{
		"the run-time interplay of the predicate counters over whole instruction sequences (only the bracket structure — what each bracketing instruction sets and resets — is decided)",
		"what a data tree answers for a path; nested predicate operands",
		"sdcpb.Path/PathElem methods (AddPathElem, AddKey, DeepCopy) are outside the module and trusted",
	}
	r.Assumptions = []string{"paths are built only through PathStack methods and the sdcpb API"}

	r.Rule("R02.1", "a prefix never changes the node: the step instruction reads only the local part of the lexed name", 2)
	r.guard("R02.1", func() { c02Prefix(w, r) })

	r.Rule("R02.2", "root-based iff absolute: SetIsRootBased(true) is reached only from the '/' arm of CodePathOper, CodePathOper('/') only from the Root production, Root only begins absolute paths; current() and NewPathFromCurrent install a fresh relative path; NewPathFromActual deep-copies", 7)
	r.guard("R02.2", func() { c02Root(w, r) })

	r.Rule("R02.3", "one element per step in source order: each name step calls CodeNameTest once, '..' pushes one \"..\" element, '.' emits nothing, path productions are left-recursive", 6)
	r.guard("R02.3", func() { c02Steps(w, r) })

	r.Rule("R02.4", "predicates become keys of the step they follow, independent of their order: PredicatesEnd sorts the collected key names before attaching them to the last element of the top path; in the predicate arm of '=' the key is the left operand's string value and the value the right one; each predicated step collects into a freshly made key map", 5)
	r.guard("R02.4", func() { c02Keys(w, r) })
	r.guard("R02.4", func() { c02FreshKeyMap(w, r) })

	r.Rule("R02.5", "the value is the tree's value: EvalLocPathInternal navigates with the path it just popped, asks exactly the entry Navigate returned for its value and pushes exactly that value; deref pushes the path of the entry FollowLeafRef returned", 4)
	r.guard("R02.5", func() { c02Value(w, r) })

	r.Rule("R02.8", "a path is used up by the instruction that resolves it: every question put to the data tree (Navigate, BreadthSearch) is about a path taken off the path stack with PopPath — a path that stays on the stack is extended by whatever follows in the same expression", 3)
	r.guard("R02.8", func() {
		sym := NewSym(w)
		sym.originStop = func(g *ssa.Function) bool { return nm(g) == "PopPath" || nm(g) == "PeakPath" }
		n := 0
		for _, f := range allFuncs(w.SSAPkg("xpath")) {
			if isTestFile(w, f.Pos()) {
				continue
			}
			for _, b := range f.Blocks {
				for _, in := range b.Instrs {
					c, ok := in.(*ssa.Call)
					if !ok || !c.Call.IsInvoke() || (nm(c.Call.Method) != "Navigate" && nm(c.Call.Method) != "BreadthSearch") || len(c.Call.Args) == 0 {
						continue
					}
					n++
					arg := c.Call.Args[len(c.Call.Args)-1]
					good := true
					from := ""
					var popped func(v ssa.Value, depth int)
					popped = func(v ssa.Value, depth int) {
						for _, o := range sym.Origins(v, nil, 0) {
							if pc, isCall := o.v.(*ssa.Call); isCall && pc.Call.StaticCallee() != nil && nm(pc.Call.StaticCallee()) == "PopPath" {
								continue
							}
							// a helper that is handed the path: what its callers hand it
							if prm, isP := o.v.(*ssa.Parameter); isP && depth < 2 {
								idx, sites := -1, 0
								for i, q := range prm.Parent().Params {
									if q == prm {
										idx = i
									}
								}
								for _, g := range allFuncs(w.SSAPkg("xpath")) {
									for _, gb := range g.Blocks {
										for _, gin := range gb.Instrs {
											if gc, isC := gin.(*ssa.Call); isC && gc.Call.StaticCallee() == prm.Parent() && idx >= 0 && idx < len(gc.Call.Args) {
												sites++
												popped(gc.Call.Args[idx], depth+1)
											}
										}
									}
								}
								if sites > 0 {
									continue
								}
							}
							good = false
							from = o.v.String()
						}
					}
					popped(arg, 0)
					r.Check(good, "R02.8", fmt.Sprintf("%s: %s #%d", funcKey(f), nm(c.Call.Method), n), c.Pos(), "the path asked about was popped", "the tree is asked about `"+from+"`, a path that is not taken off the stack: it stays underneath the result and the next relative path or predicate key of the expression is attached to it")
					r.StandsFor("R02.8", staticCallSites(allFuncs(w.SSAPkg("xpath")), f))
				}
			}
		}
	})

	r.Rule("R02.9", "every key the expression writes reaches the path: PredicatePathElemStack.TopSet records the (key, value) pair whatever the two strings are — an empty operand (the literal '', an empty leaf, a function result) is still a key", 1)
	r.guard("R02.9", func() {
		f := w.SSAFunc(w.Method("xpath", "PredicatePathElemStack", "TopSet"))
		if f == nil {
			panic(undecided{"PredicatePathElemStack.TopSet"})
		}
		sym := NewSym(w)
		n := 0
		for _, b := range f.Blocks {
			for _, in := range b.Instrs {
				mu, ok := in.(*ssa.MapUpdate)
				if !ok {
					continue
				}
				n++
				cond := sym.PathCond(f.Blocks[0], b, nil)
				uncond := !pcSat(pcNotF(cond))
				args := len(f.Params) == 3 && mu.Key == ssa.Value(f.Params[1]) && mu.Value == ssa.Value(f.Params[2])
				r.Check(uncond && args, "R02.9", "TopSet stores the pair", mu.Pos(), "top[key] = value, unconditionally", "the pair is stored only when `"+cond.String()+"` (or not as given): a predicate whose operand is empty is dropped and the step selects every entry")
			}
		}
		if n == 0 {
			panic(undecided{"TopSet: store into the top map"})
		}
	})

	r.Rule("R02.7", "paths are written only by the path-stack API: every call of a non-getter method of *sdcpb.Path / *sdcpb.PathElem, every store to one of their fields and every update of a key map in package xpath is one of the reviewed writers (push element, mark absolute, attach keys); whether a method writes is decided from its own body", 3)
	r.guard("R02.7", func() { c02PathWriters(w, r) })

	r.Rule("R02.6", "predicate brackets are balanced: PREDSTART opens a copy of the current path and increments the predicate depth; PREDEND decrements it, drops the copy and resets every piece of per-predicate state (the key-name/operand toggle), so consecutive predicates start from the same state; the toggle tests in the step instruction and in EvalLocPath are complementary", 5)
	r.guard("R02.6", func() { c02Brackets(w, r) })
	r.guard("R02.6", func() { c02PredicateFlags(w, r) })
}

func c02Prefix(w *World, r *Report) {
	for _, m := range []string{"CodeNameTest"} {
		f := w.Method("xpath", "ProgBuilder", m)
		fd, p := w.FuncDecl(f)
		nameParam := paramObj(p, fd, 0)
		cls := closuresIn(fd)
		if len(cls) != 1 {
			panic(undecided{m + ": expected one closure"})
		}
		var fields []string
		whole := false
		ast.Inspect(cls[0].Body, func(n ast.Node) bool {
			switch x := n.(type) {
			case *ast.SelectorExpr:
				if objOfIdent(p, x.X) == nameParam {
					fields = append(fields, x.Sel.Name)
					return false
				}
			case *ast.Ident:
				if p.TypesInfo.Uses[x] == nameParam {
					whole = true
				}
			}
			return true
		})
		ok := !whole && len(fields) > 0
		for _, f := range fields {
			if f != "Local" {
				ok = false
			}
		}
		r.Check(ok, "R02.1", "ProgBuilder."+m+" closure", cls[0].Pos(), fmt.Sprintf("reads name.%s only", strings.Join(fields, ",")),
			fmt.Sprintf("the step instruction uses %v of the lexed name (whole value used: %v): the namespace/prefix must not influence which node is addressed", fields, whole))
	}
	// the literal pushed for a key name and the element pushed for a step come from the same field
	f := w.Method("xpath", "ProgBuilder", "CodeNameTest")
	fd, p := w.FuncDecl(f)
	cl := closuresIn(fd)[0]
	nLit, nElem := 0, 0
	ast.Inspect(cl.Body, func(n ast.Node) bool {
		ce, ok := n.(*ast.CallExpr)
		if !ok {
			return true
		}
		c := calleeOf(p, ce)
		if c == nil || len(ce.Args) == 0 {
			return true
		}
		se, isSel := ast.Unparen(ce.Args[0]).(*ast.SelectorExpr)
		if !isSel || se.Sel.Name != "Local" {
			return true
		}
		switch nm(c) {
		case "NewLiteralDatum":
			nLit++
		case "NewPathElem":
			nElem++
		}
		return true
	})
	r.Check(nLit == 1 && nElem == 1, "R02.1", "CodeNameTest pushes name.Local as key name and as path element", cl.Pos(), "NewLiteralDatum(name.Local) / NewPathElem(name.Local, nil)", "the step instruction does not build both the key-name literal and the path element from the local name")
}

func c02Root(w *World, r *Report) {
	cpo := w.Method("xpath", "ProgBuilder", "CodePathOper")
	c02RootInstruction(w, r, cpo)
	// grammar: CodePathOper('/') only in Root productions; Root only first
	for _, gname := range []string{"expr", "leafref"} {
		g := w.Gram[gname]
		gi := w.GenInfo(gname)
		var slashProds []*Prod
		for _, p := range g.Prods {
			for _, bc := range gi.BuilderCalls(p.Num) {
				if bc.Callee == cpo {
					if v, ok := ConstInt(bc.Pkg, bc.Call.Args[0]); ok && v == '/' {
						slashProds = append(slashProds, p)
					}
				}
			}
		}
		ok := len(slashProds) == 1 && len(slashProds[0].RHS) == 1 && slashProds[0].RHS[0].Name == "'/'"
		lhs := ""
		if ok {
			lhs = slashProds[0].LHS
		}
		r.Check(ok, "R02.2", gname+": CodePathOper('/') production", token.NoPos, lhs+" → '/'", "CodePathOper('/') must be emitted by exactly one production X → '/'")
		if ok {
			bad := []string{}
			uses := 0
			for _, p := range g.Prods {
				for i, s := range p.RHS {
					if s.Name == lhs {
						uses++
						if i != 0 {
							bad = append(bad, p.String())
						}
					}
				}
			}
			r.Check(len(bad) == 0 && uses > 0, "R02.2", gname+": "+lhs+" only begins a path", token.NoPos, fmt.Sprintf("%d uses, all in first position", uses), "the root marker can occur inside a path: "+strings.Join(bad, "; "))
		}
	}
	// fresh relative path for current() / NewPathFromCurrent; deep copy for NewPathFromActual
	npc := w.Method("xpath", "PathStack", "NewPathFromCurrent")
	fd, p := w.FuncDecl(npc)
	fresh := false
	ast.Inspect(fd.Body, func(n ast.Node) bool {
		if u, ok := n.(*ast.UnaryExpr); ok && u.Op == token.AND {
			if cl, ok := u.X.(*ast.CompositeLit); ok && len(cl.Elts) == 0 {
				if t := p.TypesInfo.TypeOf(cl); t != nil && strings.HasSuffix(t.String(), "sdcpb.Path") {
					fresh = true
				}
			}
		}
		return true
	})
	r.Check(fresh, "R02.2", "PathStack.NewPathFromCurrent", fd.Pos(), "pushes &sdcpb.Path{} (empty, not root-based)", "the path installed for current()/context-relative evaluation is not a fresh empty path")
	npa := w.Method("xpath", "PathStack", "NewPathFromActual")
	afd, ap := w.FuncDecl(npa)
	deep := false
	_ = ap
	// what NewPathFromActual puts on the stack is a DeepCopy of the top path (or, for an empty stack, a fresh path)
	if af := w.SSAFunc(npa); af != nil {
		nPush := 0
		allOK := true
		var isCopyOrFresh func(v ssa.Value, d int) bool
		isCopyOrFresh = func(v ssa.Value, d int) bool {
			if d > 4 {
				return false
			}
			switch x := v.(type) {
			case *ssa.Call:
				if g := x.Call.StaticCallee(); g != nil && nm(g) == "DeepCopy" {
					deep = true
					return true
				}
				if x.Call.IsInvoke() && nm(x.Call.Method) == "DeepCopy" {
					deep = true
					return true
				}
			case *ssa.Alloc:
				return true
			case *ssa.Phi:
				for _, e := range x.Edges {
					if !isCopyOrFresh(e, d+1) {
						return false
					}
				}
				return true
			}
			return false
		}
		for _, ev := range pathStackPushes(w) {
			if ev.fn != af {
				continue
			}
			nPush++
			if !isCopyOrFresh(ev.val, 0) {
				allOK = false
			}
		}
		deep = deep && allOK && nPush > 0
	}
	r.Check(deep, "R02.2", "PathStack.NewPathFromActual", afd.Pos(), "pushes a DeepCopy of the top path", "the predicate/operand path aliases the path of the enclosing step: steps added for an operand would change the outer path")
	// current(): CodePathSetCurrent closure pops and installs a new relative path
	cur := w.Method("xpath", "ProgBuilder", "CodePathSetCurrent")
	cfd, _ := w.FuncDecl(cur)
	okCur := false
	if ins := builderInstrFuncs(w.SSAFunc(cur)); len(ins) == 1 {
		// PopPath once, then NewPathFromCurrent once — wherever the two calls were put
		pop, fresh := w.SSAFunc(w.Method("xpath", "PathStack", "PopPath")), w.SSAFunc(npc)
		var seq []*ssa.Function
		straight := true
		var walk func(f *ssa.Function, d int)
		walk = func(f *ssa.Function, d int) {
			if len(f.Blocks) != 1 {
				straight = false
			}
			for _, b := range f.Blocks {
				for _, in := range b.Instrs {
					c, ok := in.(*ssa.Call)
					if !ok || c.Call.StaticCallee() == nil {
						continue
					}
					g := c.Call.StaticCallee()
					switch {
					case g == pop || g == fresh:
						seq = append(seq, g)
					case d < 2 && g.Blocks != nil && strings.HasPrefix(pkgPathOf(g), modPath) && (calleesDeep(g, 2)[pop] || calleesDeep(g, 2)[fresh]):
						walk(g, d+1)
					}
				}
			}
		}
		walk(ins[0], 0)
		okCur = straight && len(seq) == 2 && seq[0] == pop && seq[1] == fresh
	}
	r.Check(okCur, "R02.2", "current() instruction", cfd.Pos(), "PopPath; NewPathFromCurrent", "current() does not replace the path under construction by a fresh context-relative one")
}

func c02Steps(w *World, r *Report) {
	cnt := w.Method("xpath", "ProgBuilder", "CodeNameTest")
	cpo := w.Method("xpath", "ProgBuilder", "CodePathOper")
	dotdot := xutilsTok(w, "DOTDOT")
	for _, gname := range []string{"expr", "leafref"} {
		g := w.Gram[gname]
		gi := w.GenInfo(gname)
		nName, nDD := 0, 0
		for _, p := range g.Prods {
			hasName := false
			for _, s := range p.RHS {
				if s.Name == "NAMETEST" {
					hasName = true
				}
			}
			if hasName {
				nName++
				k := 0
				for _, bc := range gi.BuilderCalls(p.Num) {
					if bc.Callee == cnt {
						k++
					}
				}
				r.Check(k == 1 && len(p.RHS) == 1, "R02.3", gname+": "+p.String(), token.NoPos, "one CodeNameTest($1)", fmt.Sprintf("a name step emits %d step instructions", k))
			}
			for _, s := range p.RHS {
				if s.Name == "DOTDOT" {
					nDD++
					k := 0
					for _, bc := range gi.BuilderCalls(p.Num) {
						if bc.Callee == cpo {
							if v, ok := ConstInt(bc.Pkg, bc.Call.Args[0]); ok && v == dotdot {
								k++
							}
						}
					}
					r.Check(k == 1, "R02.3", gname+": "+p.String(), token.NoPos, "one CodePathOper(DOTDOT)", fmt.Sprintf("'..' emits %d up-step instructions", k))
				}
			}
		}
		if nName == 0 || nDD == 0 {
			r.Fail("R02.3", gname+" step productions", token.NoPos, "no NAMETEST / DOTDOT production found")
		}
	}
	// left recursion of the relative path in the expr grammar
	g := w.Gram["expr"]
	left := false
	for _, p := range g.ProdsOf("RelativeLocationPath") {
		if len(p.RHS) == 3 && p.RHS[0].Name == "RelativeLocationPath" && p.RHS[1].Name == "'/'" && p.RHS[2].Name == "Step" && len(p.Actions) == 0 {
			left = true
		}
	}
	r.Check(left, "R02.3", "expr: RelativeLocationPath → RelativeLocationPath '/' Step", token.NoPos, "left-recursive, no action: steps are reduced (and emitted) in source order", "the step list is not left-recursive: instructions would be emitted in a different order than the steps are written")
	// CodePathOper: for '..' the instruction pushes exactly one ".." element; for '.' there is none
	fd, _ := w.FuncDecl(cpo)
	okDD, okDot := false, false
	if cf := w.SSAFunc(cpo); cf != nil && len(cf.Params) == 2 {
		instr := func(elem int64) (ssa.Value, bool) {
			return c02InstructionFor(w, cf, elem)
		}
		if v, ok := instr('.'); ok {
			okDot = v == nil
		}
		if v, ok := instr(dotdot); ok && v != nil {
			var fn *ssa.Function
			switch x := v.(type) {
			case *ssa.MakeClosure:
				fn = x.Fn.(*ssa.Function)
			case *ssa.Function:
				fn = x
			}
			if fn != nil {
				n, others := 0, 0
				for _, b := range fn.Blocks {
					for _, in := range b.Instrs {
						c, ok := in.(*ssa.Call)
						if !ok || c.Call.StaticCallee() == nil {
							continue
						}
						switch nm(c.Call.StaticCallee()) {
						case "NewPathElem":
							if k, ok := c.Call.Args[0].(*ssa.Const); ok && k.Value != nil && k.Value.Kind() == constant.String && constant.StringVal(k.Value) == ".." {
								n++
							} else {
								others++
							}
						}
					}
				}
				okDD = n == 1 && others == 0
			}
		}
	}
	r.Check(okDD, "R02.3", "CodePathOper '..' arm", fd.Pos(), "PushElem(NewPathElem(\"..\", nil))", "'..' does not push exactly one \"..\" element")
	r.Check(okDot, "R02.3", "CodePathOper '.' arm", fd.Pos(), "no instruction", "'.' emits an instruction (it must leave the path unchanged)")
}

func c02Keys(w *World, r *Report) {
	pe := w.Method("xpath", "ProgBuilder", "PredicatesEnd")
	fd, _ := w.FuncDecl(pe)
	cls := closuresIn(fd)
	if len(cls) != 1 {
		panic(undecided{"PredicatesEnd closure"})
	}
	cl := cls[0]
	// on SSA: AddKey(k, m[k]) on PeakPath().LastPathElem(), for every k of a list that holds the keys
	// of m and has been sorted before the loop that reads it
	attached, sorted := false, false
	if f := w.SSAFunc(pe); f != nil && len(builderInstrFuncs(f)) == 1 {
		cf := builderInstrFuncs(f)[0] // the instruction: a function literal or a named function handed to CodeFn
		full := func(c *ssa.Call) string {
			sc := c.Call.StaticCallee()
			if sc == nil {
				return ""
			}
			if o := sc.Object(); o != nil {
				if fn, ok := o.(*types.Func); ok {
					return fn.FullName()
				}
			}
			if sc.Origin() != nil && sc.Origin().Object() != nil {
				if fn, ok := sc.Origin().Object().(*types.Func); ok {
					return fn.FullName()
				}
			}
			return sc.String()
		}
		// keysOf: the map whose keys the list v holds (nil if not shown)
		var keysOf func(v ssa.Value, seen map[ssa.Value]bool) ssa.Value
		keysOf = func(v ssa.Value, seen map[ssa.Value]bool) ssa.Value {
			if seen[v] {
				return nil
			}
			seen[v] = true
			switch x := v.(type) {
			case *ssa.Call:
				// a helper of the module that is handed the map and returns the list of its keys
				if g := x.Call.StaticCallee(); g != nil && g.Blocks != nil && strings.HasPrefix(pkgPathOf(g), modPath) && g.Signature.Results().Len() == 1 {
					var m ssa.Value
					for _, gb := range g.Blocks {
						ret, ok := gb.Instrs[len(gb.Instrs)-1].(*ssa.Return)
						if !ok {
							continue
						}
						km := keysOf(ret.Results[0], seen)
						prm, isP := km.(*ssa.Parameter)
						if !isP {
							return nil
						}
						var arg ssa.Value
						for i, q := range g.Params {
							if q == prm && i < len(x.Call.Args) {
								arg = x.Call.Args[i]
							}
						}
						if arg == nil || (m != nil && m != arg) {
							return nil
						}
						m = arg
					}
					return m
				}
				if strings.HasPrefix(full(x), "slices.Sorted") || strings.HasPrefix(full(x), "slices.Collect") {
					if in, ok := x.Call.Args[0].(*ssa.Call); ok && strings.HasPrefix(full(in), "maps.Keys") {
						return in.Call.Args[0]
					}
					return nil
				}
				if b, ok := x.Call.Value.(*ssa.Builtin); ok && b.Name() == "append" && len(x.Call.Args) == 2 {
					// append(list, key...) : the appended slice is a one-element literal holding a key of the ranged map
					var m ssa.Value
					if sl, ok := x.Call.Args[1].(*ssa.Slice); ok {
						if al, ok := sl.X.(*ssa.Alloc); ok {
							for _, ref := range *al.Referrers() {
								if ia, ok := ref.(*ssa.IndexAddr); ok {
									for _, r2 := range *ia.Referrers() {
										if st, ok := r2.(*ssa.Store); ok {
											if ex, ok := st.Val.(*ssa.Extract); ok && ex.Index == 1 {
												if nx, ok := ex.Tuple.(*ssa.Next); ok {
													if rg, ok := nx.Iter.(*ssa.Range); ok {
														m = rg.X
													}
												}
											}
										}
									}
								}
							}
						}
					}
					if m == nil {
						return nil
					}
					if rest := keysOf(x.Call.Args[0], seen); rest != nil && rest != m {
						return nil
					}
					return m
				}
			case *ssa.Phi:
				var m ssa.Value
				for _, e := range x.Edges {
					em := keysOf(e, seen)
					if em == nil {
						if seen[e] {
							continue
						}
						if sl, ok := e.(*ssa.Slice); ok {
							_ = sl
							continue // the empty list the collection starts from
						}
						if mk, ok := e.(*ssa.MakeSlice); ok {
							_ = mk
							continue
						}
						if k, ok := e.(*ssa.Const); ok && k.IsNil() {
							continue
						}
						return nil
					}
					if m != nil && m != em {
						return nil
					}
					m = em
				}
				return m
			}
			return nil
		}
		for _, b := range cf.Blocks {
			for _, in := range b.Instrs {
				c, ok := in.(*ssa.Call)
				if !ok || c.Call.StaticCallee() == nil || nm(c.Call.StaticCallee()) != "AddKey" || len(c.Call.Args) != 3 {
					continue
				}
				// receiver chain PeakPath().LastPathElem()
				lp, ok := c.Call.Args[0].(*ssa.Call)
				if !ok || lp.Call.StaticCallee() == nil || nm(lp.Call.StaticCallee()) != "LastPathElem" {
					continue
				}
				pp, ok := lp.Call.Args[0].(*ssa.Call)
				if !ok || pp.Call.StaticCallee() == nil || nm(pp.Call.StaticCallee()) != "PeakPath" {
					continue
				}
				lk, ok := c.Call.Args[2].(*ssa.Lookup)
				if !ok || lk.Index != c.Call.Args[1] {
					continue
				}
				ld, ok := c.Call.Args[1].(*ssa.UnOp)
				if !ok || ld.Op != token.MUL {
					continue
				}
				ia, ok := ld.X.(*ssa.IndexAddr)
				if !ok {
					continue
				}
				list := ia.X
				if m := keysOf(list, map[ssa.Value]bool{}); m == nil || m != lk.X {
					continue
				}
				if pm, ok := lk.X.(*ssa.Call); !ok || pm.Call.StaticCallee() == nil || nm(pm.Call.StaticCallee()) != "PopMap" {
					continue
				}
				attached = true
				// sorted: the list is the result of slices.Sorted, or handed to a sort that dominates the place
				// it is read (or, in a helper that returns it, the return)
				var sortedAt func(list ssa.Value, use *ssa.BasicBlock, d int) bool
				sortedAt = func(list ssa.Value, use *ssa.BasicBlock, d int) bool {
					if lc, ok := list.(*ssa.Call); ok {
						if strings.HasPrefix(full(lc), "slices.Sorted") {
							return true
						}
						if g := lc.Call.StaticCallee(); g != nil && g.Blocks != nil && strings.HasPrefix(pkgPathOf(g), modPath) && d < 2 {
							all, n := true, 0
							for _, gb := range g.Blocks {
								if ret, ok := gb.Instrs[len(gb.Instrs)-1].(*ssa.Return); ok && len(ret.Results) == 1 {
									n++
									if !sortedAt(ret.Results[0], gb, d+1) {
										all = false
									}
								}
							}
							return all && n > 0
						}
					}
					if list.Referrers() == nil {
						return false
					}
					for _, ref := range *list.Referrers() {
						if sc, ok := ref.(*ssa.Call); ok && (full(sc) == "slices.Sort" || full(sc) == "sort.Strings" || strings.HasPrefix(full(sc), "slices.Sort[")) && len(sc.Call.Args) >= 1 && sc.Call.Args[0] == list {
							if sc.Block().Dominates(use) {
								return true
							}
						}
					}
					return false
				}
				if sortedAt(list, ia.Block(), 0) {
					sorted = true
				}
			}
		}
	}
	r.Check(attached, "R02.4", "PredicatesEnd attaches every collected key to the last element", cl.Pos(), "for k in keys(m): PeakPath().LastPathElem().AddKey(k, m[k]) with m = PopMap()", "the predicate keys are not attached to the last element of the path under construction")
	r.Check(attached && sorted, "R02.4", "PredicatesEnd sorts keys before attaching", cl.Pos(), "the key list is sorted before the attaching loop reads it", "keys collected from a map are attached without sorting: the key order of the requested path depends on map iteration order / predicate order")
	// Eq predicate arm: TopSet(left.Literal, right.Literal)
	eq := w.Method("xpath", "ProgBuilder", "Eq")
	efd, ep := w.FuncDecl(eq)
	popDatum := w.Method("xpath", "context", "popDatum")
	var popped []types.Object
	for _, s := range efd.Body.List {
		if as, ok := s.(*ast.AssignStmt); ok && len(as.Rhs) == 1 {
			if ce, ok := as.Rhs[0].(*ast.CallExpr); ok && calleeOf(ep, ce) == popDatum {
				popped = append(popped, objOfIdent(ep, as.Lhs[0]))
			}
		}
	}
	topSet := w.Method("xpath", "PredicatePathElemStack", "TopSet")
	calls := allCallsTo(ep, efd.Body, topSet)
	okTS := false
	if len(calls) == 1 && len(popped) == 2 {
		argObj := func(e ast.Expr) (types.Object, string) {
			ce, ok := ast.Unparen(e).(*ast.CallExpr)
			if !ok {
				return nil, ""
			}
			se, ok := ce.Fun.(*ast.SelectorExpr)
			if !ok {
				return nil, ""
			}
			return objOfIdent(ep, se.X), se.Sel.Name
		}
		k, km := argObj(calls[0].Args[0])
		v, vm := argObj(calls[0].Args[1])
		okTS = k == popped[1] && v == popped[0] && km == "Literal" && vm == "Literal"
	}
	r.Check(okTS, "R02.4", "Eq predicate arm", efd.Pos(), "TopSet(key = left operand's string value, value = right operand's string value)", "in [key = operand] the key name and the operand value are exchanged or not taken as string values")
	// the predicate arm applies only inside a predicate: whatever the arrangement of the
	// tests, control reaches TopSet only with predicateCount > 0
	pc := w.Field("xpath", "context", "predicateCount")
	guarded := false
	if ef := w.SSAFunc(eq); ef != nil {
		sym := NewSym(w)
		for _, b := range ef.Blocks {
			for _, in := range b.Instrs {
				c, ok := in.(*ssa.Call)
				if !ok || c.Call.StaticCallee() == nil || c.Call.StaticCallee().Object() != types.Object(topSet) {
					continue
				}
				cond := sym.PathCond(ef.Blocks[0], b, nil)
				subj := ""
				for _, a := range cond.atoms() {
					if bo, ok := a.v.(*ssa.BinOp); ok && a.subj != "" {
						for _, side := range []ssa.Value{bo.X, bo.Y} {
							if ld, ok := side.(*ssa.UnOp); ok && ld.Op == token.MUL {
								if fa, ok := ld.X.(*ssa.FieldAddr); ok && isFieldAddrOf(fa, pc) {
									subj = a.subj
								}
							}
						}
					}
				}
				if subj != "" {
					if vals, ok := pcValuesWhen(cond, subj); ok && len(vals.minus(ISet{{1, fullISet[0].hi}})) == 0 {
						guarded = true
					}
				}
			}
		}
	}
	r.Check(guarded, "R02.4", "Eq predicate arm guard", efd.Pos(), "only when predicateCount > 0", "the key-attaching arm of '=' is not restricted to predicates")
}

func c02Value(w *World, r *Report) {
	m := w.Method("xpath", "ProgBuilder", "EvalLocPathInternal")
	fd, p := w.FuncDecl(m)
	_ = p
	// what is pushed is GetValue() of the entry Navigate() returned for the path PopPath() returned —
	// followed through helpers of the module that hand these values on
	okNav, okVal, okPush := false, false, false
	if f := w.SSAFunc(m); f != nil {
		sym := NewSym(w)
		sym.originStop = func(g *ssa.Function) bool { return nm(g) == "PopPath" }
		invoke := func(v ssa.Value, name string) *ssa.Call {
			ex, ok := v.(*ssa.Extract)
			if !ok || ex.Index != 0 {
				return nil
			}
			c, ok := ex.Tuple.(*ssa.Call)
			if !ok || !c.Call.IsInvoke() || c.Call.Method.Name() != name {
				return nil
			}
			return c
		}
		for _, b := range f.Blocks {
			for _, in := range b.Instrs {
				c, ok := in.(*ssa.Call)
				if !ok || c.Call.StaticCallee() == nil || nm(c.Call.StaticCallee()) != "pushDatum" || len(c.Call.Args) != 2 {
					continue
				}
				okPush, okVal, okNav = true, true, true
				for _, o := range sym.Origins(c.Call.Args[1], nil, 0) {
					gv := invoke(o.v, "GetValue")
					if gv == nil {
						okPush = false
						continue
					}
					for _, e := range sym.Origins(gv.Call.Value, o.ctx, 0) {
						nv := invoke(e.v, "Navigate")
						if nv == nil || len(nv.Call.Args) != 1 {
							okVal = false
							continue
						}
						for _, pth := range sym.Origins(nv.Call.Args[0], e.ctx, 0) {
							pc, ok := pth.v.(*ssa.Call)
							if !ok || pc.Call.StaticCallee() == nil || nm(pc.Call.StaticCallee()) != "PopPath" {
								okNav = false
							}
						}
					}
				}
			}
		}
		if !okPush {
			okVal, okNav = false, false
		}
	}
	r.Check(okNav, "R02.5", "EvalLocPathInternal navigates the popped path", fd.Pos(), "Navigate(PopPath())", "the tree is asked for a path other than the one just completed")
	r.Check(okVal, "R02.5", "EvalLocPathInternal reads the navigated entry", fd.Pos(), "GetValue on Navigate's result", "the value is not read from the entry Navigate returned")
	r.Check(okPush, "R02.5", "EvalLocPathInternal pushes the tree's value", fd.Pos(), "pushDatum(GetValue's result)", "the pushed datum is not the value the tree reported")
	// deref: the instruction (wherever it is declared) that follows the leafref pushes the path of
	// the entry FollowLeafRef returned (a copy of it counts, R06.8 asks for the copy)
	d := w.Method("xpath", "ProgBuilder", "Deref")
	dfd, _ := w.FuncDecl(d)
	okD := false
	for _, g := range allFuncs(w.SSAPkg("xpath")) {
		if isTestFile(w, g.Pos()) {
			continue
		}
		var follow *ssa.Call
		for _, b := range g.Blocks {
			for _, in := range b.Instrs {
				if c, ok := in.(*ssa.Call); ok && c.Call.IsInvoke() && c.Call.Method.Name() == "FollowLeafRef" {
					follow = c
				}
			}
		}
		if follow == nil {
			continue
		}
		for _, b := range g.Blocks {
			for _, in := range b.Instrs {
				c, ok := in.(*ssa.Call)
				if !ok || c.Call.StaticCallee() == nil || nm(c.Call.StaticCallee()) != "PushPath" || len(c.Call.Args) != 2 {
					continue
				}
				v := c.Call.Args[1]
				if cp, ok := v.(*ssa.Call); ok && cp.Call.StaticCallee() != nil && cp.Call.StaticCallee().Name() == "DeepCopy" && len(cp.Call.Args) == 1 {
					v = cp.Call.Args[0]
				}
				if gp, ok := v.(*ssa.Call); ok && gp.Call.IsInvoke() && gp.Call.Method.Name() == "GetSdcpbPath" {
					if ex, ok := gp.Call.Value.(*ssa.Extract); ok && ex.Tuple == ssa.Value(follow) && ex.Index == 0 {
						okD = true
					}
				}
			}
		}
	}
	r.Check(okD, "R02.5", "deref pushes the referenced entry's path", dfd.Pos(), "PushPath(FollowLeafRef().GetSdcpbPath())", "deref() does not continue from the path of the node the leafref points to")
}

func c02Brackets(w *World, r *Report) {
	pc := w.Field("xpath", "context", "predicateCount")
	// the toggle: the field incremented in EvalLocPath under predicateCount > 0
	elp := w.Method("xpath", "ProgBuilder", "EvalLocPath")
	efd, ep := w.FuncDecl(elp)
	_, _ = efd, ep
	toggle, why := c02EvalLocPathGate(w)
	if toggle == nil {
		r.Fail("R02.6", "EvalLocPath toggle", efd.Pos(), why)
		return
	}
	r.Check(why == "", "R02.6", "EvalLocPath skips the key-name path", efd.Pos(), "inside a predicate: increment the toggle, resolve the path iff the toggle is then even (the key name is not resolved to a value); outside: iff the previous predicate asks for it", why)
	// step instruction: literal when predicateCount > 0 && toggle%2 == 0
	cnt := w.Method("xpath", "ProgBuilder", "CodeNameTest")
	cfd, _ := w.FuncDecl(cnt)
	stepWhy := c02StepKeyName(w, cnt, pc, toggle)
	r.Check(stepWhy == "", "R02.6", "step instruction key-name test", cfd.Pos(), "inside a predicate and toggle even ⇒ the name is the key name (literal); complementary to EvalLocPath's odd-skip", "the step instruction does not treat a name as key name exactly when it is the first path inside a predicate: "+stepWhy)
	// PREDSTART / PREDEND
	ps := w.Method("xpath", "ProgBuilder", "CodePredStart")
	pfd, _ := w.FuncDecl(ps)
	okStart := false
	isPC := func(fa *ssa.FieldAddr) bool { return isFieldAddrOf(fa, pc) }
	for _, c := range builderInstrFuncs(w.SSAFunc(ps)) {
		bodies := bodiesDeep(c, 2)
		copies := calleesDeep(c, 3)[w.SSAFunc(w.Method("xpath", "PathStack", "NewPathFromActual"))]
		if incrementsField(bodies, isPC, 1) && copies {
			okStart = true
		}
	}
	r.Check(okStart, "R02.6", "PREDSTART", pfd.Pos(), "copies the current path and increments the predicate depth", "PREDSTART does not open a copy of the current path and increment the depth by one")
	pe := w.Method("xpath", "ProgBuilder", "CodePredEnd")
	efd2, ep2 := w.FuncDecl(pe)
	okDec, okReset, okPop := false, false, false
	for _, c := range closuresIn(efd2) {
		for _, a := range assignsToField(ep2, c, pc) {
			switch x := a.(type) {
			case *ast.AssignStmt:
				if x.Tok == token.SUB_ASSIGN {
					if v, ok := ConstInt(ep2, x.Rhs[0]); ok && v == 1 {
						okDec = true
					}
				}
			case *ast.IncDecStmt:
				okDec = x.Tok == token.DEC
			}
		}
		for _, a := range assignsToField(ep2, c, toggle) {
			if x, ok := a.(*ast.AssignStmt); ok && x.Tok == token.ASSIGN {
				if v, ok := ConstInt(ep2, x.Rhs[0]); ok && v == 0 {
					okReset = true
				}
			}
		}
		okPop = okPop || len(allCallsTo(ep2, c, w.Method("xpath", "PathStack", "PopPath"))) == 1
	}
	r.Check(okDec && okPop, "R02.6", "PREDEND closes the bracket", efd2.Pos(), "depth − 1; PopPath", "PREDEND does not decrement the predicate depth and drop the operand path")
	r.Check(okReset, "R02.6", "PREDEND resets the key-name/operand toggle", efd2.Pos(), toggle.Name()+" = 0", "the per-predicate toggle "+toggle.Name()+" is not reset by the instruction that closes a predicate: a following predicate on the same step starts in the wrong state (its key name is taken for a path step), so the result depends on predicate order")
}

var _ = packages.NeedName

// c02PathWriters: who-may-write rule for the navigation paths. A path handed
// to Entry.Navigate is an *sdcpb.Path assembled by the path-stack API; any
// other code that calls a non-getter method of *sdcpb.Path / *sdcpb.PathElem,
// writes one of their fields or updates a key map changes which node (or
// which key value) is addressed.
var c02PathWriterAllowed = map[string]string{
	"PathStack.PushElem → Path.AddPathElem":          "one element per step, appended to the path on top of the stack (R02.3)",
	"ProgBuilder.CodePathOper → Path.SetIsRootBased": "the '/' arm marks the path absolute (R02.2)",
	"ProgBuilder.PredicatesEnd → PathElem.AddKey":    "attaches the collected predicate keys to the last element (R02.4)",
}

func c02PathWriters(w *World, r *Report) {
	sp := w.SSAPkg("xpath")
	isPathT := func(t types.Type) string {
		if p, ok := t.(*types.Pointer); ok {
			t = p.Elem()
		}
		n, ok := t.(*types.Named)
		if !ok || n.Obj().Pkg() == nil || !strings.HasSuffix(n.Obj().Pkg().Path(), "/schema-server") && !strings.Contains(n.Obj().Pkg().Path(), "sdcpb") {
			return ""
		}
		if nm(n.Obj()) == "Path" || nm(n.Obj()) == "PathElem" {
			return n.Obj().Name()
		}
		return ""
	}
	seen := map[string]bool{}
	for _, f := range allFuncs(sp) {
		// closures are named after the function that builds them, helpers
		// used by one function only after that function
		names := w.OwnerNames(f)
		report := func(what string, pos token.Pos) {
			key := names[0] + " → " + what
			for _, n := range names {
				if _, ok := c02PathWriterAllowed[n+" → "+what]; ok {
					key = n + " → " + what
					break
				}
			}
			if seen[key] {
				return
			}
			seen[key] = true
			if why, ok := c02PathWriterAllowed[key]; ok {
				r.Reviewed("R02.7", key, pos, why)
			} else {
				r.Fail("R02.7", key, pos, "a navigation path (or one of its elements/keys) is modified outside the path-stack API: the node or key value the data tree is asked for is no longer the one the expression designates")
			}
		}
		for _, b := range f.Blocks {
			for _, in := range b.Instrs {
				switch x := in.(type) {
				case ssa.CallInstruction:
					cc := x.Common()
					callee := cc.StaticCallee()
					if callee == nil || callee.Signature.Recv() == nil {
						continue
					}
					t := isPathT(callee.Signature.Recv().Type())
					if t == "" {
						continue
					}
					n := callee.Name()
					if !recvWrites(w, callee, 0) {
						continue // reads only (decided from the method's own body)
					}
					report(t+"."+n, in.Pos())
				case *ssa.Store:
					if fa, ok := x.Addr.(*ssa.FieldAddr); ok {
						if t := isPathT(fa.X.Type()); t != "" {
							if _, fresh := fa.X.(*ssa.Alloc); !fresh {
								st := fa.X.Type().(*types.Pointer).Elem().Underlying().(*types.Struct)
								report(t+"."+st.Field(fa.Field).Name(), in.Pos())
							}
						}
					}
				case *ssa.MapUpdate:
					// key maps: a map obtained from a PathElem (GetKey() or .Key)
					var from func(v ssa.Value, d int) string
					from = func(v ssa.Value, d int) string {
						if d > 4 {
							return ""
						}
						switch y := v.(type) {
						case *ssa.Call:
							if c := y.Call.StaticCallee(); c != nil && c.Signature.Recv() != nil && isPathT(c.Signature.Recv().Type()) == "PathElem" {
								return "PathElem.Key"
							}
						case *ssa.UnOp:
							if fa, ok := y.X.(*ssa.FieldAddr); ok && isPathT(fa.X.Type()) == "PathElem" {
								return "PathElem.Key"
							}
							return from(y.X, d+1)
						case *ssa.Phi:
							for _, e := range y.Edges {
								if s := from(e, d+1); s != "" {
									return s
								}
							}
						}
						return ""
					}
					if s := from(x.Map, 0); s != "" {
						report(s, in.Pos())
					}
				}
			}
		}
	}
}

// recvWrites decides from a method's own SSA body (the dependency's source is
// loaded too) whether it may write through parameter idx: a store or map
// update rooted at it, or passing it on to a method that does. A body that is
// not available counts as writing.
func recvWrites(w *World, f *ssa.Function, idx int) bool {
	e := NewEffects(w)
	e.FollowCallResults = true
	return recvWritesD(e, f, idx, 0, map[*ssa.Function]bool{})
}

func recvWritesD(e *Effects, f *ssa.Function, idx int, depth int, busy map[*ssa.Function]bool) bool {
	if f.Blocks == nil {
		n := f.Name()
		return !(strings.HasPrefix(n, "Get") || n == "String")
	}
	if depth > 4 || busy[f] {
		return false
	}
	busy[f] = true
	defer delete(busy, f)
	s := slot{fn: f, idx: idx}
	for _, b := range f.Blocks {
		for _, in := range b.Instrs {
			switch x := in.(type) {
			case *ssa.Store:
				if e.rootsOf(x.Addr).has(s) && !isLocalCell(x.Addr) {
					return true
				}
			case *ssa.MapUpdate:
				if e.rootsOf(x.Map).has(s) {
					return true
				}
			case ssa.CallInstruction:
				cc := x.Common()
				if b, ok := cc.Value.(*ssa.Builtin); ok {
					if (nm(b) == "delete" || nm(b) == "copy" || nm(b) == "clear") && len(cc.Args) > 0 && e.rootsOf(cc.Args[0]).has(s) {
						return true
					}
					continue
				}
				callee := cc.StaticCallee()
				args := cc.Args
				for i, a := range args {
					if !pointerLike(a.Type()) || !e.rootsOf(a).has(s) {
						continue
					}
					if callee == nil {
						if cc.IsInvoke() {
							continue // interface getters on messages (proto reflection) — not followed
						}
						return true
					}
					if i < len(callee.Params) && recvWritesD(e, callee, i, depth+1, busy) {
						return true
					}
				}
			}
		}
	}
	return false
}

// c02FreshKeyMap: the key map a predicated step collects into starts empty.
// Every write to PredicatePathElemStack.stack in AddEmptyMap is an append of
// a freshly made map (no re-slicing that would resurrect a released slot and
// the keys of an earlier step with it).
func c02FreshKeyMap(w *World, r *Report) {
	f := w.SSAFunc(w.Method("xpath", "PredicatePathElemStack", "AddEmptyMap"))
	if f == nil {
		panic(undecided{"PredicatePathElemStack.AddEmptyMap"})
	}
	stack := w.Field("xpath", "PredicatePathElemStack", "stack")
	n := 0
	for _, b := range f.Blocks {
		for _, in := range b.Instrs {
			st, ok := in.(*ssa.Store)
			if !ok {
				continue
			}
			fa, ok := st.Addr.(*ssa.FieldAddr)
			if !ok || !isFieldAddrOf(fa, stack) {
				continue
			}
			n++
			fresh := false
			if c, ok := st.Val.(*ssa.Call); ok {
				if bi, ok := c.Call.Value.(*ssa.Builtin); ok && nm(bi) == "append" && len(c.Call.Args) == 2 {
					// the variadic slice holds one element: a MakeMap
					if sl, ok := c.Call.Args[1].(*ssa.Slice); ok {
						if al, ok := sl.X.(*ssa.Alloc); ok {
							for _, ref := range *al.Referrers() {
								if ia, ok := ref.(*ssa.IndexAddr); ok {
									for _, r2 := range *ia.Referrers() {
										if s2, ok := r2.(*ssa.Store); ok {
											if _, isMk := s2.Val.(*ssa.MakeMap); isMk {
												fresh = true
											}
										}
									}
								}
							}
						}
					}
				}
			}
			r.Check(fresh, "R02.4", fmt.Sprintf("AddEmptyMap: write #%d to the key-map stack", n), st.Pos(), "append(stack, freshly made map)", "the stack of predicate key maps is extended by something other than a freshly made map (e.g. by re-slicing over a released slot): keys collected for an earlier step are still there and are attached to a later step as well")
		}
	}
	if n == 0 {
		r.Fail("R02.4", "AddEmptyMap", f.Pos(), "no write to the key-map stack found")
	}
}

// c02PredicateFlags (R02.6): the branch '=' takes inside a predicate (attach a
// key, or compare) is selected by boolean flags of the context that earlier
// instructions may have left set. Every boolean context field that Eq reads to
// select its branch is cleared by both the PREDSTART and the PREDEND
// instruction, so a predicate never starts with a stale flag.
func c02PredicateFlags(w *World, r *Report) {
	eq := w.SSAFunc(w.Method("xpath", "ProgBuilder", "Eq"))
	if eq == nil {
		panic(undecided{"ProgBuilder.Eq"})
	}
	ctxT := w.Field("xpath", "context", "predicateCount") // any field, to find the struct
	_ = ctxT
	flags := map[string]bool{}
	for _, b := range eq.Blocks {
		for _, in := range b.Instrs {
			u, ok := in.(*ssa.UnOp)
			if !ok || u.Op != token.MUL {
				continue
			}
			fa, ok := u.X.(*ssa.FieldAddr)
			if !ok || namedStructOf(fa.X.Type()) != "context" {
				continue
			}
			st := fa.X.Type().(*types.Pointer).Elem().Underlying().(*types.Struct)
			fld := st.Field(fa.Field)
			if bt, ok := fld.Type().Underlying().(*types.Basic); !ok || bt.Kind() != types.Bool {
				continue
			}
			// used as a branch condition (directly or through && / ||)
			for _, ref := range *u.Referrers() {
				if _, isIf := ref.(*ssa.If); isIf {
					flags[nm(fld)] = true
				}
			}
		}
	}
	if len(flags) == 0 {
		panic(undecided{"Eq selects its branch on no boolean context flag"})
	}
	var names []string
	for n := range flags {
		names = append(names, n)
	}
	sortStrings(names)
	for _, builder := range []string{"CodePredStart", "CodePredEnd"} {
		bf := w.SSAFunc(w.Method("xpath", "ProgBuilder", builder))
		if bf == nil {
			panic(undecided{"ProgBuilder." + builder})
		}
		cleared := map[string]bool{}
		// the instruction(s) the builder emits: function literals or named functions handed to CodeFn
		instrs := append([]*ssa.Function{bf}, bf.AnonFuncs...)
		for _, g := range builderInstrFuncs(bf) {
			dup := false
			for _, h := range instrs {
				dup = dup || h == g
			}
			if !dup {
				instrs = append(instrs, g)
			}
		}
		for _, f := range instrs {
			for _, b := range f.Blocks {
				for _, in := range b.Instrs {
					st, ok := in.(*ssa.Store)
					if !ok {
						continue
					}
					fa, ok := st.Addr.(*ssa.FieldAddr)
					if !ok || namedStructOf(fa.X.Type()) != "context" {
						continue
					}
					c, ok := st.Val.(*ssa.Const)
					if !ok || c.Value == nil || c.Value.Kind() != constant.Bool || constant.BoolVal(c.Value) {
						continue
					}
					s2 := fa.X.Type().(*types.Pointer).Elem().Underlying().(*types.Struct)
					// unconditional: in the closure's entry block
					if b.Index == 0 {
						cleared[s2.Field(fa.Field).Name()] = true
					}
				}
			}
		}
		for _, n := range names {
			r.Check(cleared[n], "R02.6", builder+" clears context."+n, bf.Pos(), "flag = false, unconditionally", "the flag "+n+", which '=' reads to decide between attaching a key and comparing, is not cleared by "+builder+": set by an earlier comparison in the same expression (e.g. a leaf-list on the left of '='), it sends the first predicate that follows down the comparison branch, and the key is never attached")
		}
	}
}

func sortStrings(s []string) {
	for i := 1; i < len(s); i++ {
		for j := i; j > 0 && s[j] < s[j-1]; j-- {
			s[j], s[j-1] = s[j-1], s[j]
		}
	}
}

// c02RootInstruction (R02.2): SetIsRootBased is called with true only, only
// inside functions that become an instruction in CodePathOper, and such a
// function is selected there exactly for elem == '/'; the function replaces
// the path on top of the stack by a fresh one marked root-based.
func c02RootInstruction(w *World, r *Report, cpo *types.Func) {
	sp := w.SSAPkg("xpath")
	cpoF := w.SSAFunc(cpo)
	if cpoF == nil {
		panic(undecided{"ProgBuilder.CodePathOper"})
	}
	sym := NewSym(w)
	n := 0
	for _, f := range allFuncs(sp) {
		if isTestFile(w, f.Pos()) {
			continue
		}
		var pops, pushes int
		var recv, pushed ssa.Value
		var setPos token.Pos
		isTrue := true
		for _, b := range f.Blocks {
			for _, in := range b.Instrs {
				c, ok := in.(*ssa.Call)
				if !ok || c.Call.StaticCallee() == nil {
					continue
				}
				switch nm(c.Call.StaticCallee()) {
				case "SetIsRootBased":
					recv = c.Call.Args[0]
					setPos = c.Pos()
					if k, ok := c.Call.Args[1].(*ssa.Const); !ok || k.Value == nil || k.Value.ExactString() != "true" {
						isTrue = false
					}
				case "PopPath":
					pops++
				case "PushPath":
					pushes++
					pushed = c.Call.Args[1]
				}
			}
		}
		if recv == nil {
			continue
		}
		n++
		inst := "SetIsRootBased call in " + w.OwnerChain(f)[0].Name()
		// where does f become an instruction?
		why := ""
		if !isTrue {
			why = "called with something other than true"
		}
		uses := 0
		for _, g := range allFuncs(sp) {
			if isTestFile(w, g.Pos()) {
				continue
			}
			for _, b := range g.Blocks {
				for _, in := range b.Instrs {
					for _, op := range in.Operands(nil) {
						v := *op
						if mc, ok := v.(*ssa.MakeClosure); ok {
							v = mc.Fn
						}
						if v != ssa.Value(f) {
							continue
						}
						if _, isMC := in.(*ssa.MakeClosure); isMC {
							continue // counted where the closure value is used
						}
						uses++
						if g != cpoF {
							why = "used in " + g.Name() + ", outside CodePathOper"
							continue
						}
						blk := in.Block()
						if phi, ok := in.(*ssa.Phi); ok {
							for i, e := range phi.Edges {
								ev := e
								if mc, ok := ev.(*ssa.MakeClosure); ok {
									ev = mc.Fn
								}
								if ev == ssa.Value(f) {
									blk = phi.Block().Preds[i]
								}
							}
						}
						vals, ok := pcValuesWhen(sym.PathCond(g.Blocks[0], blk, nil), "p1")
						if !ok || !vals.equal(isetOf('/')) {
							why = "selected for elem ∈ " + vals.String() + ", not exactly for '/'"
						}
					}
				}
			}
		}
		if uses == 0 && why == "" {
			why = "never becomes an instruction"
		}
		r.Check(why == "", "R02.2", inst, setPos, "only in the instruction CodePathOper emits for '/', with true",
			"a path is marked root-based outside the '/' arm of CodePathOper ("+why+"): relative paths would be resolved from the root (or absolute ones from the context node)")
		_, okFresh := recv.(*ssa.Alloc)
		okSwap := false
		if okFresh && pops == 1 && pushes == 1 && pushed != nil {
			if pushed == recv {
				okSwap = true
			} else if pc, ok := pushed.(*ssa.Call); ok && pc.Call.StaticCallee() != nil && nm(pc.Call.StaticCallee()) == "SetIsRootBased" && pc.Call.Args[0] == recv {
				okSwap = true
			}
		}
		r.Check(okFresh && okSwap, "R02.2", "the '/' instruction starts an empty root-based path", setPos, "PopPath; PushPath(fresh path marked root-based)",
			"the '/' instruction marks the path under construction as root-based instead of replacing it by an empty one: inside a predicate that is a copy of the path so far, so /a/b[k = /x/y] asks the tree for /a/b/x/y")
	}
	if n == 0 {
		r.Fail("R02.2", "SetIsRootBased", token.NoPos, "no call found: absolute paths are never marked root-based")
	}
}

// c02EvalLocPathGate (R02.6): the toggle is the context field EvalLocPath
// increments exactly when it runs inside a predicate; EvalLocPathInternal is
// reached exactly when (inside a predicate and the toggle is even after the
// increment) or (outside and previousPredicateRequiresELP).
func c02EvalLocPathGate(w *World) (*types.Var, string) {
	f := w.SSAFunc(w.Method("xpath", "ProgBuilder", "EvalLocPath"))
	inner := w.Method("xpath", "ProgBuilder", "EvalLocPathInternal")
	if f == nil {
		panic(undecided{"ProgBuilder.EvalLocPath"})
	}
	sym := NewSym(w)
	ctxKey := sym.Key(f.Params[1], nil)
	var toggle *types.Var
	var incr *ssa.Store
	// the run's context: the parameter of that type, here or in a helper of the package that is handed it
	isCtxParam := func(v ssa.Value) bool {
		prm, ok := v.(*ssa.Parameter)
		return ok && types.Identical(prm.Type(), f.Params[1].Type())
	}
	var cone []*ssa.Function
	for _, g := range bodiesDeep(f, 1) {
		if g == f || (g.Pkg == f.Pkg && g.Parent() == nil && g.Object() != types.Object(inner)) {
			cone = append(cone, g)
		}
	}
	for _, g := range cone {
		for _, b := range g.Blocks {
			for _, in := range b.Instrs {
				st, ok := in.(*ssa.Store)
				if !ok {
					continue
				}
				fa, ok := st.Addr.(*ssa.FieldAddr)
				if !ok || !isCtxParam(fa.X) {
					continue
				}
				bo, ok := st.Val.(*ssa.BinOp)
				if !ok || bo.Op != token.ADD {
					continue
				}
				if one, ok := intConstOf(bo.Y); !ok || one != 1 {
					continue
				}
				if ld, ok := bo.X.(*ssa.UnOp); ok && ld.Op == token.MUL {
					if fa2, ok := ld.X.(*ssa.FieldAddr); ok && fa2.X == fa.X && fa2.Field == fa.Field {
						stt := fa.X.Type().Underlying().(*types.Pointer).Elem().Underlying().(*types.Struct)
						if toggle != nil {
							return nil, "two counters are incremented in EvalLocPath — not decided"
						}
						toggle = stt.Field(fa.Field)
						incr = st
					}
				}
			}
		}
	}
	if toggle == nil {
		return nil, "no per-predicate counter incremented in EvalLocPath found"
	}
	// the path is resolved: the call sites of EvalLocPathInternal, joined
	resolved := pcZ
	ncalls := 0
	for _, b := range f.Blocks {
		for _, in := range b.Instrs {
			if c, ok := in.(*ssa.Call); ok && c.Call.StaticCallee() != nil && c.Call.StaticCallee().Object() == inner {
				ncalls++
				resolved = pcOrF(resolved, sym.PathCond(f.Blocks[0], b, nil))
			}
		}
	}
	if ncalls == 0 {
		return toggle, "EvalLocPath never resolves a path (no call of EvalLocPathInternal)"
	}
	depthSubj := ctxKey + ".predicateCount"
	// toggle % 2 compared with a constant
	isParity := func(a *pcAtom) bool {
		cmp, ok := a.v.(*ssa.BinOp)
		if !ok || a.subj == "" {
			return false
		}
		for _, side := range []ssa.Value{cmp.X, cmp.Y} {
			rem, ok := side.(*ssa.BinOp)
			if !ok || rem.Op != token.REM {
				continue
			}
			if two, ok := intConstOf(rem.Y); !ok || two != 2 {
				continue
			}
			if ld, ok := rem.X.(*ssa.UnOp); ok && ld.Op == token.MUL {
				if fa, ok := ld.X.(*ssa.FieldAddr); ok && isCtxParam(fa.X) {
					st := fa.X.Type().Underlying().(*types.Pointer).Elem().Underlying().(*types.Struct)
					if st.Field(fa.Field) == toggle {
						return true
					}
				}
			}
		}
		return false
	}
	pos := ISet{{1, fullISet[0].hi}}
	classify := func(a *pcAtom) string {
		if a.subj == depthSubj {
			if a.set.equal(pos) {
				return "inpred"
			}
			if a.set.equal(pos.complement()) {
				return "!inpred"
			}
		}
		if isParity(a) {
			// the parity test must look at the incremented counter
			if bo, ok := a.v.(ssa.Instruction); ok && !(incr.Block().Dominates(bo.Block())) {
				return ""
			}
			if a.set.equal(isetOf(1)) {
				return "odd"
			}
			if a.set.equal(isetOf(0)) {
				return "!odd"
			}
		}
		if a.key == ctxKey+".previousPredicateRequiresELP" {
			return "elp"
		}
		return ""
	}
	// the increment happens exactly inside a predicate
	if msg := pcCompare(sym.PathCond(f.Blocks[0], incr.Block(), nil), classify, func(env map[string]bool) bool { return env["inpred"] }); msg != "" {
		return toggle, "the toggle " + toggle.Name() + " is not incremented exactly when EvalLocPath runs inside a predicate: " + msg
	}
	if msg := pcCompare(resolved, classify, func(env map[string]bool) bool {
		if env["inpred"] {
			return !env["odd"]
		}
		return env["elp"]
	}); msg != "" {
		return toggle, "EvalLocPath does not skip exactly the first path of a predicate (the key name): " + msg
	}
	return toggle, ""
}

// c02StepKeyName: in the step instruction (the closure CodeNameTest builds, or
// a function only it uses) the name is pushed as a literal exactly when
// predicateCount > 0 and the toggle is even, and appended to the path
// otherwise.
func c02StepKeyName(w *World, cnt *types.Func, pc, toggle *types.Var) string {
	root := w.SSAFunc(cnt)
	if root == nil {
		return "CodeNameTest not found"
	}
	newLit := w.Func("xpath", "NewLiteralDatum")
	pushElem := w.Method("xpath", "PathStack", "PushElem")
	sym := NewSym(w)
	for _, g := range allFuncs(w.SSAPkg("xpath")) {
		if !w.OwnedBy(g, root) || len(g.Params) == 0 {
			continue
		}
		var lit, elem []*ssa.BasicBlock
		for _, b := range g.Blocks {
			for _, in := range b.Instrs {
				if c, ok := in.(*ssa.Call); ok && c.Call.StaticCallee() != nil {
					switch c.Call.StaticCallee().Object() {
					case types.Object(newLit):
						lit = append(lit, b)
					case types.Object(pushElem):
						elem = append(elem, b)
					}
				}
			}
		}
		if lit == nil || elem == nil {
			continue
		}
		join := func(bs []*ssa.BasicBlock) *pcF {
			out := pcZ
			for _, b := range bs {
				out = pcOrF(out, sym.PathCond(g.Blocks[0], b, nil))
			}
			return out
		}
		isLoadOf := func(v ssa.Value, fld *types.Var) bool {
			ld, ok := v.(*ssa.UnOp)
			if !ok || ld.Op != token.MUL {
				return false
			}
			fa, ok := ld.X.(*ssa.FieldAddr)
			return ok && isFieldAddrOf(fa, fld)
		}
		classify := func(a *pcAtom) string {
			bo, ok := a.v.(*ssa.BinOp)
			if !ok || a.subj == "" {
				return ""
			}
			for _, side := range []ssa.Value{bo.X, bo.Y} {
				if isLoadOf(side, pc) {
					if a.set.equal(ISet{{1, fullISet[0].hi}}) {
						return "inpred"
					}
					if a.set.equal(ISet{{fullISet[0].lo, 0}}) {
						return "!inpred"
					}
				}
				if rem, ok := side.(*ssa.BinOp); ok && rem.Op == token.REM && isLoadOf(rem.X, toggle) {
					if two, ok := intConstOf(rem.Y); ok && two == 2 {
						if a.set.equal(isetOf(0)) {
							return "even"
						}
						if a.set.equal(isetOf(1)) {
							return "!even"
						}
					}
				}
			}
			return ""
		}
		if msg := pcCompare(join(lit), classify, func(env map[string]bool) bool { return env["inpred"] && env["even"] }); msg != "" {
			return "the literal is pushed under another condition: " + msg
		}
		if msg := pcCompare(join(elem), classify, func(env map[string]bool) bool { return !(env["inpred"] && env["even"]) }); msg != "" {
			return "the path element is appended under another condition: " + msg
		}
		return ""
	}
	return "no function of CodeNameTest both pushes a literal and appends a path element"
}

// c02InstructionFor: the function value CodePathOper hands to CodeFn when
// called with elem (nil: no instruction is emitted), decided by evaluating the
// conditions of the control flow for that value of the parameter (outside an
// ignored predicate).  ok=false: not decided.
func c02InstructionFor(w *World, cf *ssa.Function, elem int64) (ssa.Value, bool) {
	sym := NewSym(w)
	model := func(a *pcAtom) (bool, bool) {
		if a.subj == "p1" {
			return a.set.contains(elem), true
		}
		if bo, ok := a.v.(*ssa.BinOp); ok && a.subj != "" {
			for _, side := range []ssa.Value{bo.X, bo.Y} {
				if loadedFieldName(side) == "ignoreInsidePred" {
					return a.set.contains(0), true // not inside an ignored predicate
				}
			}
		}
		return false, false
	}
	var resolve func(v ssa.Value, d int) (ssa.Value, bool)
	resolve = func(v ssa.Value, d int) (ssa.Value, bool) {
		for {
			if ct, ok := v.(*ssa.ChangeType); ok {
				v = ct.X
				continue
			}
			break
		}
		phi, ok := v.(*ssa.Phi)
		if !ok || d > 6 {
			if k, isK := v.(*ssa.Const); isK && k.IsNil() {
				return nil, true
			}
			return v, true
		}
		var picked ssa.Value
		n := 0
		for i, e := range phi.Edges {
			pred := phi.Block().Preds[i]
			cond := pcAndF(sym.PathCond(cf.Blocks[0], pred, nil), sym.edgeCond(pred, phi.Block(), nil))
			// conditions that test the very phi being resolved (pathOperPush != nil) do not decide the edge
			val, ok, _ := pcEvalUnder(cond, model)
			if !ok {
				return nil, false
			}
			if val {
				n++
				picked = e
			}
		}
		if n != 1 {
			return nil, false
		}
		return resolve(picked, d+1)
	}
	var emitted []ssa.Value
	ncalls := 0
	for _, b := range cf.Blocks {
		for _, in := range b.Instrs {
			c, ok := in.(*ssa.Call)
			if !ok || c.Call.StaticCallee() == nil {
				continue
			}
			fnArg := -1
			if nm(c.Call.StaticCallee()) == "CodeFn" && len(c.Call.Args) >= 2 {
				fnArg = 1
			} else if h := c.Call.StaticCallee(); h.Blocks != nil && h.Pkg == cf.Pkg && len(ssaLoops(h)) == 0 {
				// a helper of the package that emits, through CodeFn, the function it is handed
				for _, hb := range h.Blocks {
					for _, hin := range hb.Instrs {
						hc, isC := hin.(*ssa.Call)
						if !isC || hc.Call.StaticCallee() == nil || nm(hc.Call.StaticCallee()) != "CodeFn" || len(hc.Call.Args) < 2 {
							continue
						}
						for i, prm := range h.Params {
							if hc.Call.Args[1] == ssa.Value(prm) && i < len(c.Call.Args) && hb == h.Blocks[0] {
								fnArg = i
							}
						}
					}
				}
			}
			if fnArg < 0 {
				continue
			}
			ncalls++
			// an emitting call that this operator does not reach
			if reached, decided, _ := pcEvalUnder(sym.PathCond(cf.Blocks[0], b, nil), model); decided && !reached {
				continue
			}
			v, ok := resolve(c.Call.Args[fnArg], 0)
			if !ok {
				return nil, false
			}
			if v != nil {
				emitted = append(emitted, v)
			}
		}
	}
	switch {
	case ncalls == 0 || len(emitted) > 1:
		return nil, false
	case len(emitted) == 1:
		return emitted[0], true
	}
	return nil, true
}

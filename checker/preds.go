package main

import (
	"fmt"
	"go/ast"
	"go/constant"
	"go/token"
	"go/types"
	"math"
	"sort"
	"strings"

	"golang.org/x/tools/go/packages"
	"golang.org/x/tools/go/types/typeutil"
)

// E2/E3 (finite domains): exact evaluation of small pure predicate functions
// over one integer or string subject into a set, by abstract interpretation
// over interval sets / finite-cofinite string sets. Anything outside the
// recognised subset makes the function *undecided* (panic(undecided)).

// ---------- integer interval sets ----------

type ival struct{ lo, hi int64 } // inclusive
type ISet []ival                 // sorted, disjoint, non-adjacent

var fullISet = ISet{{math.MinInt64, math.MaxInt64}}

func (s ISet) norm() ISet {
	if len(s) == 0 {
		return nil
	}
	sort.Slice(s, func(i, j int) bool { return s[i].lo < s[j].lo })
	out := ISet{s[0]}
	for _, v := range s[1:] {
		last := &out[len(out)-1]
		if last.hi == math.MaxInt64 || v.lo <= last.hi+1 {
			if v.hi > last.hi {
				last.hi = v.hi
			}
		} else {
			out = append(out, v)
		}
	}
	return out
}
func (s ISet) union(t ISet) ISet {
	return append(append(ISet{}, s...), t...).norm()
}
func (s ISet) complement() ISet {
	var out ISet
	next := int64(math.MinInt64)
	done := false
	for _, v := range s {
		if v.lo > next {
			out = append(out, ival{next, v.lo - 1})
		}
		if v.hi == math.MaxInt64 {
			done = true
			break
		}
		next = v.hi + 1
	}
	if !done {
		out = append(out, ival{next, math.MaxInt64})
	}
	return out
}
func (s ISet) intersect(t ISet) ISet {
	return s.complement().union(t.complement()).complement()
}
func (s ISet) minus(t ISet) ISet { return s.intersect(t.complement()) }
func (s ISet) equal(t ISet) bool {
	if len(s) != len(t) {
		return false
	}
	for i := range s {
		if s[i] != t[i] {
			return false
		}
	}
	return true
}
func (s ISet) contains(x int64) bool {
	for _, v := range s {
		if x >= v.lo && x <= v.hi {
			return true
		}
	}
	return false
}
func (s ISet) String() string {
	var parts []string
	for _, v := range s {
		f := func(x int64) string {
			switch {
			case x == math.MinInt64:
				return "-inf"
			case x == math.MaxInt64:
				return "+inf"
			case x >= 32 && x < 127:
				return fmt.Sprintf("%q", rune(x))
			}
			return fmt.Sprintf("%#x", x)
		}
		if v.lo == v.hi {
			parts = append(parts, f(v.lo))
		} else {
			parts = append(parts, f(v.lo)+".."+f(v.hi))
		}
	}
	return "{" + strings.Join(parts, ",") + "}"
}
func isetOf(vals ...int64) ISet {
	var s ISet
	for _, v := range vals {
		s = append(s, ival{v, v})
	}
	return s.norm()
}
func isetRange(lo, hi int64) ISet { return ISet{{lo, hi}} }

// ---------- string sets (finite or cofinite) ----------

type SSet struct {
	neg  bool // complement of elems
	elem map[string]bool
}

func ssetOf(xs ...string) SSet {
	m := map[string]bool{}
	for _, x := range xs {
		m[x] = true
	}
	return SSet{elem: m}
}

var fullSSet = SSet{neg: true, elem: map[string]bool{}}

func (s SSet) complement() SSet { return SSet{neg: !s.neg, elem: s.elem} }
func (s SSet) union(t SSet) SSet {
	m := map[string]bool{}
	switch {
	case !s.neg && !t.neg:
		for k := range s.elem {
			m[k] = true
		}
		for k := range t.elem {
			m[k] = true
		}
		return SSet{elem: m}
	case s.neg && t.neg: // ~A ∪ ~B = ~(A∩B)
		for k := range s.elem {
			if t.elem[k] {
				m[k] = true
			}
		}
		return SSet{neg: true, elem: m}
	case s.neg: // ~A ∪ B = ~(A \ B)
		for k := range s.elem {
			if !t.elem[k] {
				m[k] = true
			}
		}
		return SSet{neg: true, elem: m}
	default:
		return t.union(s)
	}
}
func (s SSet) intersect(t SSet) SSet {
	return s.complement().union(t.complement()).complement()
}
func (s SSet) minus(t SSet) SSet { return s.intersect(t.complement()) }
func (s SSet) list() []string {
	var l []string
	for k := range s.elem {
		l = append(l, k)
	}
	sort.Strings(l)
	return l
}
func (s SSet) String() string {
	p := ""
	if s.neg {
		p = "all except "
	}
	return p + fmt.Sprintf("%q", s.list())
}
func (s SSet) equal(t SSet) bool {
	if s.neg != t.neg || len(s.elem) != len(t.elem) {
		return false
	}
	for k := range s.elem {
		if !t.elem[k] {
			return false
		}
	}
	return true
}

// ---------- generic predicate evaluation ----------

// A domain abstracts ISet / SSet so one evaluator serves both.
type dom interface {
	full() any
	empty() any
	union(a, b any) any
	inter(a, b any) any
	compl(a any) any
	isEmpty(a any) bool
	fromCmp(op token.Token, v constant.Value, subjectLeft bool) (any, bool)
}

type intDom struct{}

func (intDom) full() any          { return fullISet }
func (intDom) empty() any         { return ISet(nil) }
func (intDom) union(a, b any) any { return a.(ISet).union(b.(ISet)) }
func (intDom) inter(a, b any) any { return a.(ISet).intersect(b.(ISet)) }
func (intDom) compl(a any) any    { return a.(ISet).complement() }
func (intDom) isEmpty(a any) bool { return len(a.(ISet)) == 0 }
func (intDom) fromCmp(op token.Token, v constant.Value, subjLeft bool) (any, bool) {
	if v.Kind() != constant.Int {
		return nil, false
	}
	k, ok := constant.Int64Val(v)
	if !ok {
		return nil, false
	}
	if !subjLeft { // K op c  ==  c op' K
		switch op {
		case token.LSS:
			op = token.GTR
		case token.GTR:
			op = token.LSS
		case token.LEQ:
			op = token.GEQ
		case token.GEQ:
			op = token.LEQ
		}
	}
	switch op {
	case token.EQL:
		return isetOf(k), true
	case token.NEQ:
		return isetOf(k).complement(), true
	case token.LSS:
		if k == math.MinInt64 {
			return ISet(nil), true
		}
		return isetRange(math.MinInt64, k-1), true
	case token.LEQ:
		return isetRange(math.MinInt64, k), true
	case token.GTR:
		if k == math.MaxInt64 {
			return ISet(nil), true
		}
		return isetRange(k+1, math.MaxInt64), true
	case token.GEQ:
		return isetRange(k, math.MaxInt64), true
	}
	return nil, false
}

type strDom struct{}

func (strDom) full() any          { return fullSSet }
func (strDom) empty() any         { return ssetOf() }
func (strDom) union(a, b any) any { return a.(SSet).union(b.(SSet)) }
func (strDom) inter(a, b any) any { return a.(SSet).intersect(b.(SSet)) }
func (strDom) compl(a any) any    { return a.(SSet).complement() }
func (strDom) isEmpty(a any) bool { s := a.(SSet); return !s.neg && len(s.elem) == 0 }
func (strDom) fromCmp(op token.Token, v constant.Value, _ bool) (any, bool) {
	if v.Kind() != constant.String {
		return nil, false
	}
	switch op {
	case token.EQL:
		return ssetOf(constant.StringVal(v)), true
	case token.NEQ:
		return ssetOf(constant.StringVal(v)).complement(), true
	}
	return nil, false
}

// PredEval evaluates pure predicate functions of one subject.
type PredEval struct {
	W     *World
	D     dom
	Depth int
	// Subject decides whether e denotes the subject value in function fd.
	// Default: the first parameter of the function.
	Subject func(p *packages.Package, fd *ast.FuncDecl, e ast.Expr) bool
	cache   map[*types.Func]any
	// locals: boolean locals bound once to a condition over the subject
	// (ok of `_, ok := table[subject]`, or `hit := cond`)
	locals map[types.Object]any
}

func NewPredEval(w *World, d dom) *PredEval {
	return &PredEval{W: w, D: d, cache: map[*types.Func]any{}}
}

func firstParamSubject(p *packages.Package, fd *ast.FuncDecl, e ast.Expr) bool {
	id, ok := ast.Unparen(e).(*ast.Ident)
	if !ok || fd.Type.Params == nil || len(fd.Type.Params.List) == 0 || len(fd.Type.Params.List[0].Names) == 0 {
		return false
	}
	return p.TypesInfo.Uses[id] == p.TypesInfo.Defs[fd.Type.Params.List[0].Names[0]]
}

// TrueSet returns the set of subject values for which f returns true.
func (pe *PredEval) TrueSet(f *types.Func) any {
	if v, ok := pe.cache[f]; ok {
		return v
	}
	if pe.Depth > 6 {
		panic(undecided{"predicate nesting too deep at " + f.Name()})
	}
	fd, p := pe.W.FuncDecl(f)
	pe.Depth++
	defer func() { pe.Depth-- }()
	t, _, rest := pe.block(p, fd, fd.Body.List, pe.D.full())
	if !pe.D.isEmpty(rest) {
		panic(undecided{"predicate " + f.Name() + " can fall off the end"})
	}
	pe.cache[f] = t
	return t
}

func (pe *PredEval) isSubject(p *packages.Package, fd *ast.FuncDecl, e ast.Expr) bool {
	if pe.Subject != nil {
		return pe.Subject(p, fd, e)
	}
	return firstParamSubject(p, fd, e)
}

// block evaluates statements for subject values in `reach`; returns the sets
// returning true, returning false, and falling through.
func (pe *PredEval) block(p *packages.Package, fd *ast.FuncDecl, stmts []ast.Stmt, reach any) (t, f, rest any) {
	D := pe.D
	t, f = D.empty(), D.empty()
	for _, s := range stmts {
		if D.isEmpty(reach) {
			break
		}
		switch s := s.(type) {
		case *ast.ReturnStmt:
			if len(s.Results) != 1 {
				panic(undecided{"return shape in " + fd.Name.Name})
			}
			c := pe.cond(p, fd, s.Results[0])
			t = D.union(t, D.inter(reach, c))
			f = D.union(f, D.inter(reach, D.compl(c)))
			return t, f, D.empty()
		case *ast.AssignStmt:
			pe.bind(p, fd, s)
		case *ast.IfStmt:
			if s.Init != nil {
				as, ok := s.Init.(*ast.AssignStmt)
				if !ok {
					panic(undecided{"if-init in " + fd.Name.Name})
				}
				pe.bind(p, fd, as)
			}
			c := pe.cond(p, fd, s.Cond)
			t1, f1, r1 := pe.block(p, fd, s.Body.List, D.inter(reach, c))
			t, f = D.union(t, t1), D.union(f, f1)
			elseReach := D.inter(reach, D.compl(c))
			r2 := elseReach
			if s.Else != nil {
				var es []ast.Stmt
				switch e := s.Else.(type) {
				case *ast.BlockStmt:
					es = e.List
				default:
					es = []ast.Stmt{e}
				}
				var t2, f2 any
				t2, f2, r2 = pe.block(p, fd, es, elseReach)
				t, f = D.union(t, t2), D.union(f, f2)
			}
			reach = D.union(r1, r2)
		case *ast.SwitchStmt:
			if s.Init != nil {
				panic(undecided{"switch-init in " + fd.Name.Name})
			}
			tagged := s.Tag != nil
			if tagged && !pe.isSubject(p, fd, s.Tag) {
				panic(undecided{"switch tag is not the subject in " + fd.Name.Name})
			}
			remaining := reach
			after := D.empty()
			var def *ast.CaseClause
			for _, c := range s.Body.List {
				cc := c.(*ast.CaseClause)
				if cc.List == nil {
					def = cc
					continue
				}
				m := D.empty()
				for _, e := range cc.List {
					if tagged {
						v := ConstOf(p, e)
						if v == nil {
							panic(undecided{"non-constant case in " + fd.Name.Name})
						}
						x, ok := D.fromCmp(token.EQL, v, true)
						if !ok {
							panic(undecided{"case constant kind in " + fd.Name.Name})
						}
						m = D.union(m, x)
					} else {
						m = D.union(m, pe.cond(p, fd, e))
					}
				}
				hit := D.inter(remaining, m)
				remaining = D.inter(remaining, D.compl(m))
				t1, f1, r1 := pe.block(p, fd, cc.Body, hit)
				t, f, after = D.union(t, t1), D.union(f, f1), D.union(after, r1)
			}
			if def != nil {
				t1, f1, r1 := pe.block(p, fd, def.Body, remaining)
				t, f, after = D.union(t, t1), D.union(f, f1), D.union(after, r1)
			} else {
				after = D.union(after, remaining)
			}
			reach = after
		case *ast.BlockStmt:
			t1, f1, r1 := pe.block(p, fd, s.List, reach)
			t, f, reach = D.union(t, t1), D.union(f, f1), r1
		case *ast.EmptyStmt:
		case *ast.BranchStmt:
			if s.Tok == token.BREAK && s.Label == nil {
				// break inside a switch arm: falls to after the switch
				return t, f, reach
			}
			panic(undecided{"branch statement in " + fd.Name.Name})
		default:
			panic(undecided{fmt.Sprintf("statement %T in predicate %s", s, fd.Name.Name)})
		}
	}
	return t, f, reach
}

func (pe *PredEval) cond(p *packages.Package, fd *ast.FuncDecl, e ast.Expr) any {
	D := pe.D
	e = ast.Unparen(e)
	if v := ConstOf(p, e); v != nil && v.Kind() == constant.Bool {
		if constant.BoolVal(v) {
			return D.full()
		}
		return D.empty()
	}
	switch e := e.(type) {
	case *ast.Ident:
		if o := p.TypesInfo.Uses[e]; o != nil {
			if c, ok := pe.locals[o]; ok {
				return c
			}
		}
	case *ast.IndexExpr:
		// table[subject] of a read-only map[K]bool whose entries are all true
		if pe.isSubject(p, fd, e.Index) {
			if keys, ok := pe.tableKeys(p, e.X, true); ok {
				return keys
			}
		}
	case *ast.UnaryExpr:
		if e.Op == token.NOT {
			return D.compl(pe.cond(p, fd, e.X))
		}
	case *ast.BinaryExpr:
		switch e.Op {
		case token.LAND:
			return D.inter(pe.cond(p, fd, e.X), pe.cond(p, fd, e.Y))
		case token.LOR:
			return D.union(pe.cond(p, fd, e.X), pe.cond(p, fd, e.Y))
		case token.EQL, token.NEQ, token.LSS, token.LEQ, token.GTR, token.GEQ:
			if pe.isSubject(p, fd, e.X) {
				if v := ConstOf(p, e.Y); v != nil {
					if s, ok := D.fromCmp(e.Op, v, true); ok {
						return s
					}
				}
			}
			if pe.isSubject(p, fd, e.Y) {
				if v := ConstOf(p, e.X); v != nil {
					if s, ok := D.fromCmp(e.Op, v, false); ok {
						return s
					}
				}
			}
			// bool == true idiom: (pred(c)) == true
			if v := ConstOf(p, e.Y); v != nil && v.Kind() == constant.Bool && (e.Op == token.EQL || e.Op == token.NEQ) {
				c := pe.cond(p, fd, e.X)
				if constant.BoolVal(v) == (e.Op == token.EQL) {
					return c
				}
				return D.compl(c)
			}
		}
	case *ast.CallExpr:
		if callee, ok := typeutil.Callee(p.TypesInfo, e).(*types.Func); ok && len(e.Args) == 1 && pe.isSubject(p, fd, e.Args[0]) {
			if pe.W.InRepoObj(callee) {
				// nested predicate over the same subject (first parameter)
				sub := &PredEval{W: pe.W, D: pe.D, Depth: pe.Depth, cache: pe.cache}
				return sub.TrueSet(callee)
			}
			if s, ok := stdlibPred(pe.D, callee); ok {
				return s
			}
		}
		// slices.Contains(table, subject) over a read-only list
		if callee, ok := typeutil.Callee(p.TypesInfo, e).(*types.Func); ok && callee.FullName() == "slices.Contains" && len(e.Args) == 2 && pe.isSubject(p, fd, e.Args[1]) {
			if keys, ok := pe.tableKeys(p, e.Args[0], false); ok {
				return keys
			}
		}
	}
	panic(undecided{"condition not in the predicate subset in " + fd.Name.Name + ": " + types.ExprString(e)})
}

// bind records `_, ok := table[subject]` and `b := cond` (defining
// assignments of a local that is not assigned again).
func (pe *PredEval) bind(p *packages.Package, fd *ast.FuncDecl, as *ast.AssignStmt) {
	if as.Tok != token.DEFINE || len(as.Rhs) != 1 {
		panic(undecided{"assignment in predicate " + fd.Name.Name})
	}
	if pe.locals == nil {
		pe.locals = map[types.Object]any{}
	}
	var target *ast.Ident
	var val any
	switch {
	case len(as.Lhs) == 2:
		ix, ok := ast.Unparen(as.Rhs[0]).(*ast.IndexExpr)
		v0, _ := as.Lhs[0].(*ast.Ident)
		if !ok || v0 == nil || v0.Name != "_" || !pe.isSubject(p, fd, ix.Index) {
			panic(undecided{"assignment in predicate " + fd.Name.Name})
		}
		keys, ok := pe.tableKeys(p, ix.X, false)
		if !ok {
			panic(undecided{"lookup in a table that is not a read-only literal in " + fd.Name.Name})
		}
		target, _ = as.Lhs[1].(*ast.Ident)
		val = keys
	case len(as.Lhs) == 1:
		target, _ = as.Lhs[0].(*ast.Ident)
		val = pe.cond(p, fd, as.Rhs[0])
	}
	if target == nil || p.TypesInfo.Defs[target] == nil {
		panic(undecided{"assignment in predicate " + fd.Name.Name})
	}
	obj := p.TypesInfo.Defs[target]
	// assigned once
	ast.Inspect(fd.Body, func(n ast.Node) bool {
		switch x := n.(type) {
		case *ast.AssignStmt:
			for _, l := range x.Lhs {
				if id, ok := l.(*ast.Ident); ok && p.TypesInfo.Uses[id] == obj {
					panic(undecided{"local reassigned in predicate " + fd.Name.Name})
				}
			}
		case *ast.UnaryExpr:
			if id, ok := x.X.(*ast.Ident); ok && x.Op == token.AND && p.TypesInfo.Uses[id] == obj {
				panic(undecided{"local's address taken in predicate " + fd.Name.Name})
			}
		}
		return true
	})
	pe.locals[obj] = val
}

// tableKeys: e names a package-level table (map or list literal with constant
// keys/elements) that the module only ever reads; the set of its keys in the
// domain.  wantTrue: a map[K]bool all of whose values are the constant true.
func (pe *PredEval) tableKeys(p *packages.Package, e ast.Expr, wantTrue bool) (any, bool) {
	id, ok := ast.Unparen(e).(*ast.Ident)
	if !ok {
		return nil, false
	}
	v, ok := p.TypesInfo.Uses[id].(*types.Var)
	if !ok || v.Parent() != v.Pkg().Scope() || !pe.W.InRepoObj(v) {
		return nil, false
	}
	init, ip := pe.W.VarInit(v)
	cl, ok := ast.Unparen(init).(*ast.CompositeLit)
	if !ok {
		return nil, false
	}
	_, isMap := v.Type().Underlying().(*types.Map)
	keys := pe.D.empty()
	for _, el := range cl.Elts {
		k := el
		if kv, isKV := el.(*ast.KeyValueExpr); isKV {
			if !isMap {
				return nil, false
			}
			k = kv.Key
			if wantTrue {
				if c := ConstOf(ip, kv.Value); c == nil || c.Kind() != constant.Bool || !constant.BoolVal(c) {
					return nil, false
				}
			}
		} else if isMap {
			return nil, false
		}
		c := ConstOf(ip, k)
		if c == nil {
			return nil, false
		}
		x, ok := pe.D.fromCmp(token.EQL, c, true)
		if !ok {
			return nil, false
		}
		keys = pe.D.union(keys, x)
	}
	if wantTrue && !isMap {
		return nil, false
	}
	if !pe.W.readOnlyTable(v) {
		return nil, false
	}
	return keys, true
}

// readOnlyTable: every mention of the package-level variable v in the module
// reads it: v[k] outside an assignment target, range v, len(v), or an
// argument of slices.Contains / slices.Index.
func (w *World) readOnlyTable(v *types.Var) bool {
	ok := true
	for _, p := range w.All {
		if p.Types != v.Pkg() && !v.Exported() {
			continue
		}
		for _, file := range p.Syntax {
			var stack []ast.Node
			ast.Inspect(file, func(n ast.Node) bool {
				if n == nil {
					stack = stack[:len(stack)-1]
					return true
				}
				stack = append(stack, n)
				id, isId := n.(*ast.Ident)
				if !isId || p.TypesInfo.Uses[id] != types.Object(v) {
					return true
				}
				if len(stack) < 2 {
					ok = false
					return true
				}
				switch par := stack[len(stack)-2].(type) {
				case *ast.IndexExpr:
					if par.X != ast.Expr(id) {
						return true // used as an index of something else: a read of... not of v
					}
					// v[k]: must not be an assignment target, inc/dec operand or delete argument
					if len(stack) >= 3 {
						switch gp := stack[len(stack)-3].(type) {
						case *ast.AssignStmt:
							for _, l := range gp.Lhs {
								if l == ast.Expr(par) {
									ok = false
								}
							}
						case *ast.IncDecStmt:
							ok = false
						case *ast.UnaryExpr:
							if gp.Op == token.AND {
								ok = false
							}
						}
					}
				case *ast.RangeStmt:
					if par.X != ast.Expr(id) {
						ok = false
					}
				case *ast.CallExpr:
					switch f := typeutil.Callee(p.TypesInfo, par).(type) {
					case *types.Builtin:
						if f.Name() != "len" {
							ok = false
						}
					case *types.Func:
						if fn := f.FullName(); fn != "slices.Contains" && fn != "slices.Index" {
							ok = false
						}
					default:
						ok = false
					}
				default:
					ok = false
				}
				return true
			})
		}
	}
	return ok
}

func (w *World) InRepoObj(o types.Object) bool {
	return o.Pkg() != nil && strings.HasPrefix(o.Pkg().Path(), modPath)
}

// stdlibPred: exact sets for a few pure stdlib predicates (none needed for
// integers yet; unicode.IsLetter etc. are *not* modelled on purpose: a rule
// that meets them reports "language is a superset").
func stdlibPred(d dom, f *types.Func) (any, bool) {
	return nil, false
}

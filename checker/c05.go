package main

import (
	"fmt"
	"go/ast"
	"go/constant"
	"go/parser"
	"go/token"
	"go/types"
	"golang.org/x/tools/go/ssa"
	"math"
	"os"
	"sort"
	"strings"

	"golang.org/x/tools/go/packages"
)

func init() { register("C05", checkC05) }

func checkC05(w *World, r *Report) {
	r.NotDecided = []string{
		"termination and internal indexing of the goyacc-generated driver (trusted, generated files are excluded from the panic obligations)",
		"nil dereferences (no sound nilness analysis in reach)",
		"that a well-formed program always leaves exactly one value for store (stack discipline of emitted programs)",
		"behaviour of Entry implementations (opaque)",
	}
	r.Assumptions = []string{"Go run-time panics inside an instruction are converted by the deferred recover in context.Run (R05.1)"}

	r.Rule("R05.1", "every call through an Inst.fn value happens inside context.Run, which defers a closure that recovers, stores an error in the result and assigns the named result", 2)
	r.guard("R05.1", func() { c05Recover(w, r) })

	r.Rule("R05.2", "first error wins: once an instruction has stored an error in Result.runErr no later store can replace it — the instruction loop leaves on runErr != nil, or every other store is guarded by runErr == nil", 1)
	r.guard("R05.2", func() { c05FirstError(w, r) })

	r.Rule("R05.3", "data-tree errors propagate: at every call of an Entry method that returns an error the error is tested, and its non-nil arm stores it in runErr or raises execError/panic and leaves before the other result is used", 5)
	r.guard("R05.3", func() { c05TreeErrors(w, r) })

	r.Rule("R05.4", "result accessors return the run error first, then 'no result', then the conversion", 3)
	r.guard("R05.4", func() { resultAccessors(w, r, "R05.4") })

	r.Rule("R05.5", "compile side cannot panic: in the functions reachable from the machine constructors (generated parser excluded) every index/slice expression, unchecked type assertion and explicit panic is discharged by a recognised guard pattern or a reviewed entry", 10)
	r.guard("R05.5", func() { c05CompilePanics(w, r) })

	r.Rule("R05.9", "building a machine terminates whatever was built before: the function-table mutex taken during name lookup is released on every path", 3)
	r.guard("R05.9", func() {
		if lockPairing(w, r, "R05.9", []string{"xpath", "xpath/grammars/expr", "xpath/grammars/leafref", "xpath/grammars/path_eval"}, "after one build that leaves through that path, every later build whose expression contains a function call blocks forever in mu.Lock()") == 0 {
			panic(undecided{"no function takes a lock"})
		}
	})

	r.Rule("R05.10", "the accessors of a finished run cannot panic in the caller: in everything reachable from Result.GetBoolResult / GetNumResult / GetLiteralResult (the conversions of every datum kind; they run outside Run's recover) each index/slice expression, unchecked type assertion and explicit panic is discharged by a guard that is still present or a reviewed entry", 3)
	r.guard("R05.10", func() {
		var roots []*types.Func
		for _, n := range []string{"GetBoolResult", "GetNumResult", "GetLiteralResult"} {
			roots = append(roots, w.Method("xpath", "Result", n))
		}
		cone := staticCone(w, []string{"xpath", "xpath/xutils"}, roots, false)
		scanPanicObligations(w, r, "R05.10", cone, c05AccessorReviewed, false, "reachable from a result accessor", "a finished run whose value is of that kind panics in the caller instead of yielding a value or an error")
		// the fact the invalidDatum entries rest on
		xp := w.Pkg("xpath")
		execErr := w.Method("xpath", "context", "execError")
		mk := w.Func("xpath", "NewInvalidDatum")
		efd, _ := w.FuncDecl(execErr)
		// no way out of execError but the panic: no block of it returns
		always := false
		if ef := w.SSAFunc(execErr); ef != nil {
			always = true
			panics := 0
			for _, b := range ef.Blocks {
				switch b.Instrs[len(b.Instrs)-1].(type) {
				case *ssa.Return:
					if b != ef.Recover {
						always = false
					}
				case *ssa.Panic:
					panics++
				}
			}
			always = always && panics > 0 && ef.Recover == nil
		}
		r.Check(always, "R05.10", "context.execError always panics", efd.Pos(), "every way out is a panic", "execError can return: the invalidDatum its callers return afterwards may become the result of a run")
		for _, fd := range funcDecls(xp) {
			if fd.Body == nil || isTestFile(w, fd.Pos()) {
				continue
			}
			k := 0
			ast.Inspect(fd.Body, func(n ast.Node) bool {
				bs, ok := n.(*ast.BlockStmt)
				if !ok {
					return true
				}
				for i, st := range bs.List {
					ret, ok := st.(*ast.ReturnStmt)
					if !ok || len(ret.Results) != 1 {
						continue
					}
					ce, ok := ret.Results[0].(*ast.CallExpr)
					if !ok || calleeOf(xp, ce) != mk {
						continue
					}
					k++
					prev := false
					if i > 0 {
						if es, ok := bs.List[i-1].(*ast.ExprStmt); ok {
							if pc, ok := es.X.(*ast.CallExpr); ok && calleeOf(xp, pc) == execErr {
								prev = true
							}
						}
					}
					r.Check(prev, "R05.10", fmt.Sprintf("%s: return NewInvalidDatum() #%d", funcDeclName(fd), k), ret.Pos(), "directly after execError(…)", "an invalidDatum is returned without the run having been failed first: its conversions panic in the caller's accessor")
				}
				return true
			})
		}
	})

	r.Rule("R05.11", "only the empty string gets the bare 'empty expression' error: each internal machine constructor returns it under exactly `len(expr) == 0`; every other input — blanks only, included — goes on to CreateProgram, whose error quotes the expression and marks a position (R05.6)", 3)
	r.guard("R05.11", func() { c04EmptyRule(w, r, "R05.11") })

	r.Rule("R05.12", "the reviewed slice in startsWithXML (ToLower(name)[0:3] after a length test on name) presupposes ASCII names, for which lower-casing keeps the length: the leafref lexer's name classes accept ASCII only", 2)
	r.guard("R05.12", func() {
		pe := NewPredEval(w, intDom{})
		for _, m := range []string{"IsNameStartChar", "IsNameChar"} {
			set := pe.TrueSet(w.Method("xpath/grammars/leafref", "leafrefLex", m)).(ISet)
			ascii := true
			for _, iv := range set {
				if iv.lo < 0 || iv.hi > 127 {
					ascii = false
				}
			}
			r.Check(ascii, "R05.12", "leafrefLex."+m+" is ASCII-only", token.NoPos, set.String(), "the leafref lexer accepts non-ASCII name characters ("+set.String()+"): strings.ToLower can shorten such a name (U+212A KELVIN SIGN → k), and startsWithXML then slices [0:3] of a shorter string — NewLeafrefMachine panics")
		}
	})

	r.Rule("R05.13", "what an error says is data, never a format: in the xpath packages every format string handed to fmt.Sprintf / Errorf / Fprintf is a constant (or the function's own format parameter handed on with its own arguments) — an error text from the data tree or a piece of the expression that contains '%' must reach the caller unchanged", 5)
	r.guard("R05.13", func() {
		constFormats(w, r, "R05.13", []string{"xpath", "xpath/grammars/expr", "xpath/grammars/leafref", "xpath/grammars/path_eval", "xpath/xutils"},
			"a '%' in a data-tree error, a name or the expression text is read as a verb: the message that reaches the caller is garbled and its real arguments are lost")
	})

	r.Rule("R05.8", "no error is forgotten on the XPath side: in the xpath packages every error result bound to a variable is examined", 1)
	r.guard("R05.8", func() {
		errRule(w, r, "R05.8", []string{"xpath", "xpath/xutils", "xpath/grammars/expr", "xpath/grammars/leafref", "xpath/grammars/path_eval"}, nil)
	})

	r.Rule("R05.6", "the compile error quotes and locates: CreateProgram's message is built with constant format strings from the expr parameter and from a split of expr", 3)
	r.guard("R05.6", func() { c05Message(w, r) })

	r.Rule("R05.7", "lexer loops terminate: every loop of the XPath lexers reads a rune on each iteration and leaves when that rune is EOF", 4)
	r.guard("R05.7", func() { c05LexerLoops(w, r) })
}

func c05Recover(w *World, r *Report) {
	run := w.Method("xpath", "context", "Run")
	f := w.SSAFunc(run)
	if f == nil {
		panic(undecided{"context.Run"})
	}
	runErr := w.Field("xpath", "Result", "runErr")
	sym := NewSym(w)
	// a deferred function, installed before anything else can panic, that
	// stores the error and the result exactly when recover() returned non-nil
	why := "no deferred function that recovers"
	var deferAt *ssa.Defer
	for _, in := range f.Blocks[0].Instrs {
		d, ok := in.(*ssa.Defer)
		if !ok {
			if c, isCall := in.(*ssa.Call); isCall {
				if _, builtin := c.Call.Value.(*ssa.Builtin); !builtin && deferAt == nil {
					why = "Run calls " + pcCalleeName(c.Common()) + " before the recovering function is deferred"
				}
			}
			continue
		}
		// the deferred function: a function literal (the named result is captured) or a function or
		// method that is handed the address of the named result
		isResCell := func(v ssa.Value) bool {
			al, ok := v.(*ssa.Alloc)
			return ok && (strings.HasPrefix(al.Comment, "res") || f.Signature.Results().Len() == 1 && al.Comment == f.Signature.Results().At(0).Name())
		}
		var h *ssa.Function
		isResAddr := func(addr ssa.Value) bool { return false }
		if mc, ok := d.Call.Value.(*ssa.MakeClosure); ok {
			h = mc.Fn.(*ssa.Function)
			isResAddr = func(addr ssa.Value) bool {
				fv, ok := addr.(*ssa.FreeVar)
				if !ok {
					return false
				}
				for i, x := range h.FreeVars {
					if x == fv && isResCell(mc.Bindings[i]) {
						return true
					}
				}
				return false
			}
		} else if sc := d.Call.StaticCallee(); sc != nil && sc.Blocks != nil {
			h = sc
			isResAddr = func(addr ssa.Value) bool {
				prm, ok := addr.(*ssa.Parameter)
				if !ok {
					return false
				}
				for i, q := range h.Params {
					if q == prm && i < len(d.Call.Args) && isResCell(d.Call.Args[i]) {
						return true
					}
				}
				return false
			}
		}
		if h == nil {
			continue
		}
		var rec *ssa.Call
		for _, b := range h.Blocks {
			for _, in2 := range b.Instrs {
				if c, ok := in2.(*ssa.Call); ok {
					if bi, ok := c.Call.Value.(*ssa.Builtin); ok && nm(bi) == "recover" {
						rec = c
					}
				}
			}
		}
		if rec == nil {
			continue
		}
		deferAt = d
		classify := func(a *pcAtom) string {
			if a.op == token.EQL && (a.x == ssa.Value(rec) && isNilConst(a.y) || a.y == ssa.Value(rec) && isNilConst(a.x)) {
				return "nopanic"
			}
			return ""
		}
		okErr, okRes := "no store to runErr", "no store to Run's result"
		for _, b := range h.Blocks {
			for _, in2 := range b.Instrs {
				st, ok := in2.(*ssa.Store)
				if !ok {
					continue
				}
				cond := sym.PathCond(h.Blocks[0], b, nil)
				msg := pcCompare(cond, classify, func(env map[string]bool) bool { return !env["nopanic"] })
				if fa, ok := st.Addr.(*ssa.FieldAddr); ok && isFieldAddrOf(fa, runErr) {
					okErr = msg
				}
				if isResAddr(st.Addr) {
					// the named result of Run, captured by reference or handed over by address
					okRes = msg
				}
			}
		}
		why = ""
		if okErr != "" {
			why = "the error is not stored exactly when a panic was recovered: " + okErr
		} else if okRes != "" {
			why = "the result is not set exactly when a panic was recovered: " + okRes
		}
	}
	r.Check(why == "", "R05.1", "context.Run deferred recover", f.Pos(), "recover() ≠ nil ⇔ runErr set and result returned", "Run no longer converts a panic of an instruction into an error result: "+why)
	// who calls Inst.fn: Run, or a helper nobody but Run uses
	n := 0
	for _, key := range []string{"xpath", "xpath/grammars/expr", "xpath/grammars/leafref", "xpath/grammars/path_eval", "xpath/xutils"} {
		for _, g := range allFuncs(w.SSAPkg(key)) {
			if isTestFile(w, g.Pos()) {
				continue
			}
			for _, c := range c05InstCalls(w, g) {
				n++
				r.Check(w.OwnedBy(g, f), "R05.1", "Inst.fn called in "+funcKey(g), c.Pos(), "inside Run (or a helper only Run uses)", "an instruction is executed outside context.Run: its panics are not converted into errors")
			}
		}
	}
	if n == 0 {
		r.Fail("R05.1", "Inst.fn call sites", f.Pos(), "no call through Inst.fn found")
	}
}

// c05InstCalls: the calls in g whose callee is loaded from Inst.fn.
func c05InstCalls(w *World, g *ssa.Function) []*ssa.Call {
	fnField := w.Field("xpath", "Inst", "fn")
	var out []*ssa.Call
	for _, b := range g.Blocks {
		for _, in := range b.Instrs {
			c, ok := in.(*ssa.Call)
			if !ok || c.Call.IsInvoke() || c.Call.StaticCallee() != nil {
				continue
			}
			v := c.Call.Value
			switch x := v.(type) {
			case *ssa.Field:
				st := x.X.Type().Underlying().(*types.Struct)
				if st.Field(x.Field) == fnField {
					out = append(out, c)
				}
			case *ssa.UnOp:
				if fa, ok := x.X.(*ssa.FieldAddr); ok && isFieldAddrOf(fa, fnField) {
					out = append(out, c)
				}
			}
		}
	}
	return out
}

// c05FirstError (R05.2): once an instruction has recorded an error no further
// instruction runs: in the loop that executes instructions every way back to
// the loop head passes a test that runErr is still nil (or the recovering
// handler only stores when runErr is nil).
func c05FirstError(w *World, r *Report) {
	run := w.SSAFunc(w.Method("xpath", "context", "Run"))
	if run == nil {
		panic(undecided{"context.Run"})
	}
	runErr := w.Field("xpath", "Result", "runErr")
	sym := NewSym(w)
	isErrNil := func(a *pcAtom) string {
		if a.op != token.EQL || a.x == nil {
			return ""
		}
		for _, pair := range [][2]ssa.Value{{a.x, a.y}, {a.y, a.x}} {
			if !isNilConst(pair[1]) {
				continue
			}
			if ld, ok := pair[0].(*ssa.UnOp); ok && ld.Op == token.MUL {
				if fa, ok := ld.X.(*ssa.FieldAddr); ok && isFieldAddrOf(fa, runErr) {
					return "errnil"
				}
			}
		}
		return ""
	}
	why := "no loop that executes instructions found"
	loopLeaves := false
	var at token.Pos = run.Pos()
	for _, key := range []string{"xpath"} {
		for _, g := range allFuncs(w.SSAPkg(key)) {
			for _, c := range c05InstCalls(w, g) {
				l, ok := loopOf(g, c.Block())
				if !ok {
					why = "instructions are not executed in a loop"
					continue
				}
				at = c.Pos()
				why = ""
				loopLeaves = true
				for _, latch := range l.Latches {
					if !c.Block().Dominates(latch) {
						// a way round the loop that does not execute an instruction
						continue
					}
					cond := pcAndF(sym.PathCond(c.Block(), latch, nil), sym.edgeCond(latch, l.Header, nil))
					if msg := pcImplies(cond, isErrNil, func(env map[string]bool) bool { return env["errnil"] }); msg != "" {
						loopLeaves = false
						why = msg
					}
				}
			}
		}
	}
	// alternatively: the handler's store is guarded
	guarded := false
	for _, in := range run.Blocks[0].Instrs {
		d, ok := in.(*ssa.Defer)
		if !ok {
			continue
		}
		mc, ok := d.Call.Value.(*ssa.MakeClosure)
		if !ok {
			continue
		}
		h := mc.Fn.(*ssa.Function)
		n, okAll := 0, true
		for _, b := range h.Blocks {
			for _, in2 := range b.Instrs {
				if st, ok := in2.(*ssa.Store); ok {
					if fa, ok := st.Addr.(*ssa.FieldAddr); ok && isFieldAddrOf(fa, runErr) {
						n++
						if pcImplies(sym.PathCond(h.Blocks[0], b, nil), isErrNil, func(env map[string]bool) bool { return env["errnil"] }) != "" {
							okAll = false
						}
					}
				}
			}
		}
		if n > 0 && okAll {
			guarded = true
		}
	}
	r.Check(loopLeaves || guarded, "R05.2", "context.Run error latch", at, fmt.Sprintf("loop leaves on runErr != nil: %v; handler store guarded: %v", loopLeaves, guarded),
		"after an instruction records the data tree's error the loop keeps executing and the recover handler overwrites runErr unconditionally: the caller sees an unrelated internal error (e.g. \"Stack underflow\") instead of the tree's ("+why+")")
}

func c05TreeErrors(w *World, r *Report) {
	p := w.Pkg("xpath")
	entry, ok := scopeLookup(p.Types.Scope(), "Entry").(*types.TypeName)
	if !ok {
		panic(undecided{"xpath.Entry"})
	}
	it := entry.Type().Underlying().(*types.Interface)
	errMeth := map[*types.Func]bool{}
	for i := 0; i < it.NumMethods(); i++ {
		m := it.Method(i)
		sig := m.Type().(*types.Signature)
		if sig.Results().Len() == 2 && sig.Results().At(1).Type().String() == "error" {
			errMeth[m] = true
		}
	}
	runErr := w.Field("xpath", "Result", "runErr")
	execError := w.SSAFunc(w.Method("xpath", "context", "execError"))
	var all []*ssa.Function
	for _, fd := range funcDecls(p) {
		if isTestFile(w, fd.Pos()) {
			continue
		}
		obj, _ := p.TypesInfo.Defs[fd.Name].(*types.Func)
		if f := w.SSAFunc(obj); f != nil {
			all = append(all, f)
			var anon func(g *ssa.Function)
			anon = func(g *ssa.Function) {
				for _, a := range g.AnonFuncs {
					all = append(all, a)
					anon(a)
				}
			}
			anon(f)
		}
	}
	h := &c05ErrFlow{all: all, runErr: runErr, execError: execError}
	ord := map[string]int{}
	for _, f := range all {
		for _, b := range f.Blocks {
			for _, in := range b.Instrs {
				c, ok := in.(*ssa.Call)
				if !ok || !c.Call.IsInvoke() || !errMeth[c.Call.Method] {
					continue
				}
				owner := f
				for owner.Parent() != nil {
					owner = owner.Parent()
				}
				k := funcKey(owner) + ": " + c.Call.Method.Name()
				ord[k]++
				why := h.handled(c, 1, 0)
				r.Check(why == "", "R05.3", fmt.Sprintf("%s error #%d", k, ord[k]), c.Pos(), "tested; stored, raised or handed to callers that do; value unused on the error arm", why+": the tree's error is lost or a fabricated value is used")
				r.StandsFor("R05.3", staticCallSites(all, f))
			}
		}
	}
}

// c05ErrFlow follows one (value, error) call result: the error is tested
// against nil, and the arm it is non-nil on stores it in runErr and leaves,
// raises execError, or returns it from a helper all of whose callers do one
// of these in turn; no other result of the call is used on that arm.
type c05ErrFlow struct {
	all       []*ssa.Function
	runErr    *types.Var
	execError *ssa.Function
}

func (h *c05ErrFlow) handled(c *ssa.Call, errIdx, depth int) string {
	if depth > 3 {
		return "the error is handed on through more than three helpers"
	}
	f := c.Parent()
	var e ssa.Value
	var vals []ssa.Value
	for _, ref := range *c.Referrers() {
		if ex, ok := ref.(*ssa.Extract); ok {
			if ex.Index == errIdx {
				e = ex
			} else {
				vals = append(vals, ex)
			}
		}
	}
	if e == nil {
		return "the error result is discarded"
	}
	tested := false
	for _, ref := range *e.Referrers() {
		switch x := ref.(type) {
		case *ssa.BinOp:
			if (x.Op != token.NEQ && x.Op != token.EQL) || !(isNilConst(x.X) || isNilConst(x.Y)) {
				continue
			}
			for _, u := range *x.Referrers() {
				br, ok := u.(*ssa.If)
				if !ok {
					return "the nil test of the error is not branched on directly"
				}
				arm := br.Block().Succs[0]
				if x.Op == token.EQL {
					arm = br.Block().Succs[1]
				}
				tested = true
				if why := h.arm(f, arm, e, vals, depth); why != "" {
					return why
				}
			}
		case *ssa.Return:
			// handed on untested together with the value: the callers decide
			k := -1
			for i, rv := range x.Results {
				if unspill(rv) == e {
					k = i
				}
			}
			if k < 0 {
				continue
			}
			tested = true
			if why := h.callers(f, k, depth); why != "" {
				return why
			}
		}
	}
	if !tested {
		return "the error result is not tested after the call"
	}
	return ""
}

func fieldAddrVar(fa *ssa.FieldAddr) *types.Var {
	if pt, ok := fa.X.Type().Underlying().(*types.Pointer); ok {
		if st, ok := pt.Elem().Underlying().(*types.Struct); ok {
			return st.Field(fa.Field)
		}
	}
	return nil
}

func (h *c05ErrFlow) arm(f *ssa.Function, arm *ssa.BasicBlock, e ssa.Value, vals []ssa.Value, depth int) string {
	if len(arm.Preds) != 1 {
		return "the non-nil arm is shared with the normal path"
	}
	stores, raises, leaves := false, false, true
	retIdx, retAll, rets := -1, true, 0
	// what runs once the arm is entered: its own blocks, and a tail shared with other paths
	// that does nothing any more (joins, the return)
	reach := map[*ssa.BasicBlock]bool{}
	var walk func(b *ssa.BasicBlock)
	walk = func(b *ssa.BasicBlock) {
		if reach[b] {
			return
		}
		reach[b] = true
		for _, sc := range b.Succs {
			walk(sc)
		}
	}
	walk(arm)
	// the error is dealt with whenever it is non-nil: from the arm's entry the store / raise / return is
	// reached without a further test
	isSink := func(in ssa.Instruction) bool {
		switch x := in.(type) {
		case *ssa.Call:
			return h.execError != nil && x.Call.StaticCallee() == h.execError
		case *ssa.Store:
			fa, ok := x.Addr.(*ssa.FieldAddr)
			return ok && fieldAddrVar(fa) == h.runErr && x.Val == e
		case *ssa.Return:
			for _, rv := range x.Results {
				if unspill(rv) == e {
					return true
				}
			}
		}
		return false
	}
	for cur, steps := arm, 0; ; steps++ {
		found := false
		for _, in := range cur.Instrs {
			if isSink(in) {
				found = true
			}
		}
		if found {
			break
		}
		if len(cur.Succs) != 1 || steps > 8 {
			return "the error is dealt with only under a further condition"
		}
		cur = cur.Succs[0]
	}
	// execError panics: nothing after it runs
	for _, b := range f.Blocks {
		if !arm.Dominates(b) {
			continue
		}
		for _, in := range b.Instrs {
			if c, ok := in.(*ssa.Call); ok && h.execError != nil && c.Call.StaticCallee() == h.execError {
				return ""
			}
		}
	}
	for _, b := range f.Blocks {
		if !reach[b] {
			continue
		}
		if !arm.Dominates(b) {
			for _, in := range b.Instrs {
				switch in.(type) {
				case *ssa.Phi, *ssa.Jump, *ssa.Return, *ssa.RunDefers, *ssa.DebugRef:
				default:
					leaves = false
				}
			}
		}
		for _, in := range b.Instrs {
			for _, op := range in.Operands(nil) {
				for _, v := range vals {
					if *op == v {
						return "the value result is used on the error arm"
					}
				}
			}
			switch x := in.(type) {
			case *ssa.Store:
				if fa, ok := x.Addr.(*ssa.FieldAddr); ok && fieldAddrVar(fa) == h.runErr && x.Val == e {
					stores = true
				}
			case *ssa.Call:
				if x.Call.StaticCallee() == h.execError && h.execError != nil {
					raises = true
				}
			case *ssa.Return:
				rets++
				k := -1
				for i, rv := range x.Results {
					if unspill(rv) == e {
						k = i
					}
				}
				if k < 0 || (retIdx >= 0 && retIdx != k) {
					retAll = false
				}
				retIdx = k
			}
		}
	}
	switch {
	case raises:
		return "" // execError panics: nothing after it runs
	case stores && leaves:
		return ""
	case leaves && rets > 0 && retAll && retIdx >= 0:
		return h.callers(f, retIdx, depth)
	}
	return "the non-nil arm neither stores the error in runErr and returns, nor raises execError, nor returns it to callers that do"
}

func (h *c05ErrFlow) callers(f *ssa.Function, idx, depth int) string {
	if f.Parent() != nil {
		return "the error is returned from a function literal"
	}
	for _, g := range h.all {
		for _, b := range g.Blocks {
			for _, in := range b.Instrs {
				for _, op := range in.Operands(nil) {
					if *op != ssa.Value(f) {
						continue
					}
					c, ok := in.(*ssa.Call)
					if !ok || c.Call.StaticCallee() != f {
						return "the helper returning the error is used as a value in " + funcKey(g)
					}
					if f.Signature.Results().Len() == 1 {
						return "the helper returns the error alone; its callers are not followed"
					}
					if why := h.handled(c, idx, depth+1); why != "" {
						return why + " (in " + funcKey(g) + ", which receives it from " + funcKey(f) + ")"
					}
				}
			}
		}
	}
	return ""
}

// ---------------- R05.5 ----------------

type reviewedEntry struct {
	Func, Expr, Reason, Requires string
}

// reviewed obligations of the compile-side cone; keyed by function and
// expression (local variable names are part of the expression text; fields,
// parameters and functions are resolved objects). Requires names a guard
// fact that must still be present in the function.
var c05AccessorReviewed = []reviewedEntry{
	{"GetStringValue", "‹[]xutils.XpathNode›[0]", "guarded by len(nodes) == 0 ⇒ return", "lenguard"},
	{"invalidDatum.Boolean", "panic(fmt.Errorf(\"%s: Unable to convert datum to a boolean.\", ‹string›))", "an invalidDatum never reaches a result: every NewInvalidDatum() follows an execError call, which always panics (checked as a separate R05.10 obligation)", ""},
	{"invalidDatum.Literal", "panic(fmt.Errorf(\"%s: Unable to convert datum to a string.\", ‹string›))", "see invalidDatum.Boolean", ""},
	{"invalidDatum.Number", "panic(fmt.Errorf(\"%s: Unable to convert datum to a number.\", ‹string›))", "see invalidDatum.Boolean", ""},
}

var c05Reviewed = []reviewedEntry{
	{"CommonLex.CreateProgram", "string(‹string›)[:‹int›]", "position = len(expr) - len(lineAtErr) ≤ len(expr); clamped to ≥ 0", "clamp"},
	{"CommonLex.CreateProgram", "string(‹string›)[‹int›:]", "same position", "clamp"},
	{"CommonLex.Next", "‹*xpath.CommonLex›.line[‹int›:]", "size from utf8.DecodeRune on a non-empty slice is in 1..len", "decode"},
	{"next", "‹[]byte›[‹int›:]", "size from utf8.DecodeRune on a non-empty slice is in 1..len", "decode"},
	{"CommonLex.NextNonWhitespaceStringIs", "‹string›[0]", "guarded by len(expr) == 0 ⇒ return", "lenguard"},
	{"CommonLex.NextNonWhitespaceStringIs", "‹string›[1:]", "guarded by len(expr) == 1 ⇒ return", "lenguard"},
	{"ProgStack.Peek", "‹xpath.ProgStack›[len(‹xpath.ProgStack›) - 1]", "the builder stack holds exactly one program outside predicates: NewProgBuilder pushes one, Update pops and pushes", ""},
	{"ProgStack.Pop", "(*‹*xpath.ProgStack›)[len(*‹*xpath.ProgStack›) - 1]", "guarded by len(*ps) < 1 ⇒ panic", "lenguard"},
	{"ProgStack.Pop", "(*‹*xpath.ProgStack›)[:len(*‹*xpath.ProgStack›) - 1]", "guarded by len(*ps) < 1 ⇒ panic", "lenguard"},
	{"ProgStack.Pop", "panic(fmt.Errorf(\"Encoding PredicateEnd before PredicateStart!\"))", "unreachable: Update is the only caller and the stack never becomes empty (NewProgBuilder pushes one program, nothing else pops)", ""},
	{"getProgBldr", "‹expr.exprLexer›.(*exprLex)", "the generated parser is only ever handed the lexer that exprLex.Parse passes in", ""},
	{"getProgBldr", "‹leafref.leafrefLexer›.(*leafrefLex)", "the generated parser is only ever handed the lexer that leafrefLex.Parse passes in", ""},
	{"getProgBldr", "‹path_eval.pathEvalLexer›.(*pathEvalLex)", "the generated parser is only ever handed the lexer that pathEvalLex.Parse passes in", ""},
	{"CommonLex.Parse", "panic(\"CommonLex doesn't implement Parse()\")", "never called: each concrete lexer overrides Parse and the constructors call it on the concrete type", ""},
	{"startsWithXML", "strings.ToLower(‹string›)[0:3]", "guarded by len(name) < 3 ⇒ return", "lenguard"},
	{"validateName", "‹string›[0]", "guarded by len(name) == 0 ⇒ return", "lenguard"},
	{"openPlugins", "", "", ""},
}

func normExpr(e ast.Expr) string { return types.ExprString(e) }

// revEq: two rendered accesses are the same up to conversions of a value to
// the type it already has (`string(‹string›)` is `‹string›`).
func revEq(a, b string) bool {
	return a == b || dropIdConv(a) == dropIdConv(b)
}

func dropIdConv(s string) string {
	for {
		changed := false
		for i := 0; i < len(s); i++ {
			if !strings.HasPrefix(s[i:], "(‹") {
				continue
			}
			j := strings.Index(s[i:], "›)")
			if j < 0 {
				break
			}
			inner := s[i+len("(‹") : i+j]
			if strings.ContainsAny(inner, "‹(") {
				continue
			}
			// the type name written before the parenthesis
			k := i
			for k > 0 && (s[k-1] == '.' || s[k-1] == '_' || s[k-1] >= '0' && s[k-1] <= '9' || s[k-1] >= 'a' && s[k-1] <= 'z' || s[k-1] >= 'A' && s[k-1] <= 'Z') {
				k--
			}
			if s[k:i] == inner && inner != "" {
				s = s[:k] + "‹" + inner + "›" + s[i+j+len("›)"):]
				changed = true
				break
			}
		}
		if !changed {
			return s
		}
	}
}

// compileCone: functions statically reachable (through resolved static calls
// and interface methods implemented in the lexer packages) from the machine
// constructors. Closures are included only if called directly.
func compileCone(w *World) map[*types.Func]*ast.FuncDecl {
	var roots []*types.Func
	for _, c := range []struct{ pkg, fn string }{
		{"xpath/grammars/expr", "NewExprMachine"}, {"xpath/grammars/expr", "NewExprMachineWithCustomFunctions"},
		{"xpath/grammars/leafref", "NewLeafrefMachine"},
		{"xpath/grammars/path_eval", "NewPathEvalMachine"}, {"xpath/grammars/path_eval", "NewPathEvalMachineWithCustomFns"},
	} {
		roots = append(roots, w.Func(c.pkg, c.fn))
	}
	return staticCone(w, []string{"xpath", "xpath/grammars/expr", "xpath/grammars/leafref", "xpath/grammars/path_eval", "xpath/xutils"}, roots, false)
}

// staticCone: functions reachable from roots through resolved static calls,
// interface methods implemented in the given packages, `go` statements and
// (when withValues) functions referenced as values (state functions).
// Function literals are part of their enclosing function only when
// withValues is set; otherwise only directly executed code is followed.
// coneStopAt: functions a cone computation must not enter (set around a call of staticCone, e.g. the entry of
// another goroutine).
var coneStopAt map[*types.Func]bool

func staticCone(w *World, keys []string, roots []*types.Func, withValues bool) map[*types.Func]*ast.FuncDecl {
	decls := map[*types.Func]*ast.FuncDecl{}
	pkgOf := map[*types.Func]*packages.Package{}
	for _, k := range keys {
		p := w.Pkg(k)
		for _, fd := range funcDecls(p) {
			if f, ok := p.TypesInfo.Defs[fd.Name].(*types.Func); ok && !isTestFile(w, fd.Pos()) {
				decls[f] = fd
				pkgOf[f] = p
			}
		}
	}
	impls := func(m *types.Func) []*types.Func {
		var out []*types.Func
		it, ok := m.Type().(*types.Signature).Recv().Type().Underlying().(*types.Interface)
		if !ok {
			return nil
		}
		for f := range decls {
			if f.Name() != m.Name() {
				continue
			}
			sig := f.Type().(*types.Signature)
			if sig.Recv() == nil {
				continue
			}
			recv := sig.Recv().Type()
			if types.Implements(recv, it) || types.Implements(types.NewPointer(recv), it) {
				out = append(out, f)
			}
		}
		// a method the implementing type gets from a type it embeds (the grammar lexers embed
		// CommonLex: the parser's lexer.Error is CommonLex.Error)
		for _, k := range keys {
			scope := w.Pkg(k).Types.Scope()
			for _, n := range scope.Names() {
				tn, isT := scope.Lookup(n).(*types.TypeName)
				if !isT {
					continue
				}
				pt := types.NewPointer(tn.Type())
				if _, isIface := tn.Type().Underlying().(*types.Interface); isIface || !types.Implements(pt, it) {
					continue
				}
				if sel := types.NewMethodSet(pt).Lookup(m.Pkg(), m.Name()); sel != nil {
					if f, isF := sel.Obj().(*types.Func); isF && decls[f] != nil {
						dup := false
						for _, o := range out {
							dup = dup || o == f
						}
						if !dup {
							out = append(out, f)
						}
					}
				}
			}
		}
		return out
	}
	cone := map[*types.Func]*ast.FuncDecl{}
	var work []*types.Func
	add := func(f *types.Func) {
		if f == nil || decls[f] == nil || cone[f] != nil || coneStopAt[f] {
			return
		}
		cone[f] = decls[f]
		work = append(work, f)
	}
	for _, f := range roots {
		add(f)
	}
	for len(work) > 0 {
		f := work[len(work)-1]
		work = work[:len(work)-1]
		p := pkgOf[f]
		visit := func(n ast.Node) bool {
			switch x := n.(type) {
			case *ast.CallExpr:
				c := calleeOf(p, x)
				if c == nil {
					return true
				}
				if sig, ok := c.Type().(*types.Signature); ok && sig.Recv() != nil {
					if _, isI := sig.Recv().Type().Underlying().(*types.Interface); isI {
						for _, im := range impls(c) {
							add(im)
						}
						return true
					}
				}
				add(c)
			case *ast.Ident:
				if withValues {
					if fo, ok := p.TypesInfo.Uses[x].(*types.Func); ok {
						add(fo)
					}
				}
			case *ast.SelectorExpr:
				if withValues {
					if fo, ok := p.TypesInfo.Uses[x.Sel].(*types.Func); ok {
						if sig, ok := fo.Type().(*types.Signature); ok && sig.Recv() != nil {
							if _, isI := sig.Recv().Type().Underlying().(*types.Interface); isI {
								for _, im := range impls(fo) {
									add(im)
								}
								return true
							}
						}
						add(fo)
					}
				}
			}
			return true
		}
		if withValues {
			ast.Inspect(decls[f].Body, visit)
		} else {
			inspectNoLit(decls[f].Body, visit)
		}
	}
	return cone
}

func isGeneratedFile(w *World, p *packages.Package, pos token.Pos) bool {
	for _, f := range p.Syntax {
		if f.Pos() <= pos && pos <= f.End() {
			for _, cg := range f.Comments {
				if cg.Pos() < f.Package && strings.Contains(cg.Text(), "Code generated") {
					return true
				}
			}
		}
	}
	return false
}

// tableBoundedIndex: a[i] with a an array (or a read-only package-level list
// literal) and i a local variable every assignment of which gives it a
// constant or an entry of a read-only package-level table of constants, all
// of them (and the zero value a missing key yields) within the bounds of a.
func tableBoundedIndex(w *World, p *packages.Package, fd *ast.FuncDecl, ix *ast.IndexExpr) bool {
	id, ok := ast.Unparen(ix.Index).(*ast.Ident)
	if !ok {
		return false
	}
	v, ok := p.TypesInfo.Uses[id].(*types.Var)
	if !ok || v.Parent() == nil || v.Parent() == v.Pkg().Scope() || v.IsField() {
		return false
	}
	// length of what is indexed
	n := int64(-1)
	switch t := p.TypesInfo.TypeOf(ix.X).Underlying().(type) {
	case *types.Array:
		n = t.Len()
	case *types.Slice:
		if xid, isId := ast.Unparen(ix.X).(*ast.Ident); isId {
			if xv, isV := p.TypesInfo.Uses[xid].(*types.Var); isV && xv.Parent() == xv.Pkg().Scope() && w.readOnlyTable(xv) {
				if init, _ := w.VarInit(xv); init != nil {
					if cl, isLit := ast.Unparen(init).(*ast.CompositeLit); isLit {
						n = int64(len(cl.Elts))
						for _, el := range cl.Elts {
							if _, keyed := el.(*ast.KeyValueExpr); keyed {
								n = -1
							}
						}
					}
				}
			}
		}
	}
	if n < 0 {
		return false
	}
	inRange := func(c constant.Value) bool {
		if c == nil {
			return false
		}
		iv, exact := constant.Int64Val(constant.ToInt(c))
		return exact && iv >= 0 && iv < n
	}
	valueOK := func(e ast.Expr) bool {
		if c := ConstOf(p, e); c != nil {
			return inRange(c)
		}
		tix, isIx := ast.Unparen(e).(*ast.IndexExpr)
		if !isIx {
			return false
		}
		tid, isId := ast.Unparen(tix.X).(*ast.Ident)
		if !isId {
			return false
		}
		tv, isV := p.TypesInfo.Uses[tid].(*types.Var)
		if !isV || tv.Parent() != tv.Pkg().Scope() || !w.readOnlyTable(tv) {
			return false
		}
		if _, isMap := tv.Type().Underlying().(*types.Map); !isMap {
			return false
		}
		init, ip := w.VarInit(tv)
		cl, isLit := ast.Unparen(init).(*ast.CompositeLit)
		if !isLit || n < 1 { // a missing key yields 0
			return false
		}
		for _, el := range cl.Elts {
			kv, isKV := el.(*ast.KeyValueExpr)
			if !isKV || !inRange(ConstOf(ip, kv.Value)) {
				return false
			}
		}
		return true
	}
	defs, ok2 := 0, true
	ast.Inspect(fd.Body, func(x ast.Node) bool {
		switch y := x.(type) {
		case *ast.AssignStmt:
			for i, l := range y.Lhs {
				lid, isId := l.(*ast.Ident)
				if !isId || (p.TypesInfo.Defs[lid] != types.Object(v) && p.TypesInfo.Uses[lid] != types.Object(v)) {
					continue
				}
				defs++
				switch {
				case y.Tok != token.ASSIGN && y.Tok != token.DEFINE:
					ok2 = false
				case len(y.Rhs) == len(y.Lhs):
					if !valueOK(y.Rhs[i]) {
						ok2 = false
					}
				case len(y.Rhs) == 1 && i == 0:
					if !valueOK(y.Rhs[0]) { // v, ok := table[k]
						ok2 = false
					}
				default:
					ok2 = false
				}
			}
		case *ast.IncDecStmt:
			if lid, isId := y.X.(*ast.Ident); isId && p.TypesInfo.Uses[lid] == types.Object(v) {
				ok2 = false
			}
		case *ast.UnaryExpr:
			if lid, isId := y.X.(*ast.Ident); isId && y.Op == token.AND && p.TypesInfo.Uses[lid] == types.Object(v) {
				ok2 = false
			}
		case *ast.RangeStmt:
			for _, e := range []ast.Expr{y.Key, y.Value} {
				if lid, isId := e.(*ast.Ident); isId && (p.TypesInfo.Defs[lid] == types.Object(v) || p.TypesInfo.Uses[lid] == types.Object(v)) {
					ok2 = false
				}
			}
		}
		return true
	})
	return ok2 && defs > 0
}

// constFormats: every fmt formatting call in the given packages (generated
// and test files left out) takes a constant format, or hands on the
// enclosing function's own (format, args...) pair.
func constFormats(w *World, r *Report, rule string, pkgKeys []string, consequence string) {
	fmtIdx := map[string]int{"fmt.Sprintf": 0, "fmt.Errorf": 0, "fmt.Printf": 0, "fmt.Fprintf": 1, "fmt.Appendf": 1, "log.Printf": 0, "log.Fatalf": 0, "log.Panicf": 0}
	for _, key := range pkgKeys {
		sp := w.SSAPkg(key)
		p := w.Pkg(key)
		n, bad := 0, 0
		for _, f := range allFuncs(sp) {
			if isTestFile(w, f.Pos()) || isGeneratedFile(w, p, f.Pos()) {
				continue
			}
			for _, b := range f.Blocks {
				for _, in := range b.Instrs {
					c, ok := in.(ssa.CallInstruction)
					if !ok || c.Common().StaticCallee() == nil {
						continue
					}
					name := c.Common().StaticCallee().String()
					idx, isFmt := fmtIdx[name]
					if !isFmt || idx >= len(c.Common().Args) {
						continue
					}
					n++
					fa := c.Common().Args[idx]
					if _, isConst := fa.(*ssa.Const); isConst {
						continue
					}
					// the function's own format parameter, with its own variadic arguments
					if prm, isP := fa.(*ssa.Parameter); isP && idx+1 < len(c.Common().Args) {
						if rest, isR := c.Common().Args[idx+1].(*ssa.Parameter); isR && rest.Parent() == prm.Parent() && prm.Parent().Signature.Variadic() {
							continue
						}
					}
					bad++
					r.Fail(rule, fmt.Sprintf("%s: %s #%d", funcKey(f), name, bad), in.Pos(), "the format handed to "+name+" is computed from data (`"+fa.String()+"`): "+consequence)
				}
			}
		}
		if bad == 0 {
			r.OK(rule, key+": formatting calls", token.NoPos, fmt.Sprintf("%d calls, every format a constant", n))
		}
	}
}

func c05CompilePanics(w *World, r *Report) {
	scanPanicObligations(w, r, "R05.5", compileCone(w), c05Reviewed, false, "reachable from a machine constructor", "a crafted expression may panic the compiler")
}

// scanPanicObligations: every index/slice expression, unchecked type
// assertion and explicit panic (unless panicsOK) in the cone is an obligation.
func scanPanicObligations(w *World, r *Report, rule string, cone map[*types.Func]*ast.FuncDecl, reviewed []reviewedEntry, withLits bool, where, consequence string) {
	var fs []*types.Func
	for f := range cone {
		fs = append(fs, f)
	}
	sort.Slice(fs, func(i, j int) bool { return fs[i].FullName() < fs[j].FullName() })
	r.Count("functions in the cone of "+rule, len(fs))
	pkgByTypes := map[*types.Package]*packages.Package{}
	for _, p := range w.All {
		pkgByTypes[p.Types] = p
	}
	for _, f := range fs {
		fd := cone[f]
		p := pkgByTypes[f.Pkg()]
		if isGeneratedFile(w, p, fd.Pos()) {
			continue
		}
		name := funcDeclName(fd)
		// a helper used by one function only speaks for that function: its
		// accesses may take the reviewed entries of the function it was split off
		ownerNames := w.OwnerNamesOf(f)[1:]
		insp := inspectNoLit
		if withLits {
			insp = func(n ast.Node, f func(ast.Node) bool) { ast.Inspect(n, f) }
		}
		// rename-tolerant fallback: an access that has no exact reviewed entry may take an entry of the same
		// function whose expression is equal up to the names of locals, provided the number of such orphan
		// accesses equals the number of such orphan entries (a new access changes the count and stays open)
		alphaPairs := alphaFallback(w, fd, insp, name, reviewed)
		for _, on := range ownerNames {
			if len(alphaPairs) == 0 {
				alphaPairs = alphaFallback(w, fd, insp, on, reviewed)
			}
		}
		insp(fd.Body, func(n ast.Node) bool {
			var expr ast.Expr
			kind := ""
			switch x := n.(type) {
			case *ast.IndexExpr:
				t := p.TypesInfo.TypeOf(x.X)
				if t == nil {
					return true
				}
				switch u := t.Underlying().(type) {
				case *types.Map:
					return true
				case *types.Signature:
					return true
				case *types.Array:
					if v, ok := ConstInt(p, x.Index); ok && v >= 0 && v < u.Len() {
						return true
					}
				case *types.Pointer:
					if a, ok := u.Elem().Underlying().(*types.Array); ok {
						if v, ok := ConstInt(p, x.Index); ok && v >= 0 && v < a.Len() {
							return true
						}
					}
				}
				if tv, ok := p.TypesInfo.Types[x.X]; ok && tv.IsType() {
					return true // generic instantiation
				}
				expr, kind = x, "index"
			case *ast.SliceExpr:
				if x.Low == nil && x.High == nil {
					return true
				}
				expr, kind = x, "slice"
			case *ast.TypeAssertExpr:
				if x.Type == nil {
					return true // type switch
				}
				if commaOk(fd, x) {
					return true
				}
				expr, kind = x, "type assertion"
			case *ast.CallExpr:
				if id, ok := x.Fun.(*ast.Ident); ok && id.Name == "panic" {
					if _, isB := p.TypesInfo.Uses[id].(*types.Builtin); isB && !skipExplicitPanics {
						expr, kind = x, "explicit panic"
					}
				}
			}
			if expr == nil {
				return true
			}
			es := normExpr(expr)
			// for matching: locals rendered as their types (a renamed local is the same access)
			en := localFreeExpr(p, expr)
			if os.Getenv("YV_DUMP_REVIEWED") != "" {
				fmt.Printf("REVIEWEDSITE\t%s\t%s\t%s\n", name, es, en)
			}
			c := name + ": " + es
			// the compiler's own bounds-check elimination
			switch x := expr.(type) {
			case *ast.IndexExpr:
				if w.InBoundsProven(x.Lbrack) {
					r.OK(rule, c, expr.Pos(), kind+": in bounds on every path (bounds check eliminated by the compiler's prove pass)")
					return true
				}
			case *ast.SliceExpr:
				if w.InBoundsProven(x.Lbrack) {
					r.OK(rule, c, expr.Pos(), kind+": in bounds on every path (bounds check eliminated by the compiler's prove pass)")
					return true
				}
			}
			// an index that only ever holds constants and values of read-only literal tables, all within the array
			if kind == "index" && tableBoundedIndex(w, p, fd, expr.(*ast.IndexExpr)) {
				r.OK(rule, c, expr.Pos(), kind+": the index variable only takes constants and entries of a read-only table, all within the array's length")
				return true
			}
			// range-loop index pattern
			if kind == "index" && rangeIndexSafe(p, fd, expr.(*ast.IndexExpr)) {
				r.OK(rule, c, expr.Pos(), kind+": index is the key of a range over the same slice")
				return true
			}
			var rev *reviewedEntry
			// a reviewed access whose operands now arrive as parameters of an unexported helper with one call site
			ep := paramInstantiatedExpr(p, fd, expr)
			for i := range reviewed {
				if reviewed[i].Func == name && (revEq(reviewed[i].Expr, es) || revEq(reviewed[i].Expr, en) || (ep != "" && revEq(reviewed[i].Expr, ep))) {
					rev = &reviewed[i]
				}
			}
			for _, on := range ownerNames {
				for i := range reviewed {
					if rev == nil && reviewed[i].Func == on && (revEq(reviewed[i].Expr, es) || revEq(reviewed[i].Expr, en)) {
						rev = &reviewed[i]
					}
				}
			}
			// a fragment shared out of several reviewed functions: every caller of this (unexported) function
			// has a reviewed entry for the same expression
			if rev == nil {
				if fnObj, _ := p.TypesInfo.Defs[fd.Name].(*types.Func); fnObj != nil && !fnObj.Exported() {
					var callers []string
					for _, fd2 := range funcDecls(p) {
						if fd2 != fd && fd2.Body != nil && len(allCallsTo(p, fd2.Body, fnObj)) > 0 {
							callers = append(callers, funcDeclName(fd2))
						}
					}
					var first *reviewedEntry
					all := len(callers) > 0
					for _, cn := range callers {
						var hit *reviewedEntry
						for i := range reviewed {
							if reviewed[i].Func == cn && (revEq(reviewed[i].Expr, es) || revEq(reviewed[i].Expr, en) || (ep != "" && revEq(reviewed[i].Expr, ep))) {
								hit = &reviewed[i]
							}
						}
						if hit == nil {
							all = false
						} else if first == nil {
							first = hit
						}
					}
					if all {
						rev = first
					}
				}
			}
			// the entry of a function that was inlined here (it exists no more): same expression
			if rev == nil {
				for i := range reviewed {
					if rev == nil && vanished[reviewed[i].Func] && (reviewed[i].Expr == es || reviewed[i].Expr == en || alphaNorm(reviewed[i].Expr, nil) == alphaNorm(es, nil)) {
						rev = &reviewed[i]
					}
				}
			}
			if rev == nil {
				if e2, ok := alphaPairs[es]; ok {
					rev = e2
				}
			}
			// the same refusal raised from a sibling method: an explicit panic with the very value of a reviewed
			// one, in another method of the same type, standing under a condition (the reviewed state of the type
			// — "the stack is never empty" — is what makes either unreachable)
			if rev == nil && kind == "explicit panic" && fd.Recv != nil && panicIsConditional(fd, expr) {
				if dot := strings.IndexByte(name, '.'); dot > 0 {
					for i := range reviewed {
						if rev == nil && strings.HasPrefix(reviewed[i].Func, name[:dot+1]) && reviewed[i].Func != name && reviewed[i].Requires == "" && reviewed[i].Expr == es {
							rev = &reviewed[i]
						}
					}
				}
			}
			if rev == nil {
				r.Fail(rule, c, expr.Pos(), kind+" "+where+" is neither guarded by a recognised pattern nor reviewed: "+consequence)
				return true
			}
			if rev.Requires != "" && !guardFact(p, fd, expr, rev.Requires) {
				r.Fail(rule, c, expr.Pos(), kind+": the guard this access relies on ("+rev.Requires+": "+rev.Reason+") is no longer present in the function")
				return true
			}
			r.Reviewed(rule, c, expr.Pos(), kind+": "+rev.Reason)
			return true
		})
	}
}

func commaOk(fd *ast.FuncDecl, ta *ast.TypeAssertExpr) bool {
	ok := false
	ast.Inspect(fd.Body, func(n ast.Node) bool {
		switch x := n.(type) {
		case *ast.AssignStmt:
			if len(x.Lhs) == 2 && len(x.Rhs) == 1 && ast.Unparen(x.Rhs[0]) == ast.Expr(ta) {
				ok = true
			}
		case *ast.ValueSpec:
			if len(x.Names) == 2 && len(x.Values) == 1 && ast.Unparen(x.Values[0]) == ast.Expr(ta) {
				ok = true
			}
		}
		return true
	})
	return ok
}

func rangeIndexSafe(p *packages.Package, fd *ast.FuncDecl, ix *ast.IndexExpr) bool {
	safe := false
	ast.Inspect(fd.Body, func(n ast.Node) bool {
		rs, ok := n.(*ast.RangeStmt)
		if !ok || rs.Key == nil || !(rs.Body.Pos() <= ix.Pos() && ix.End() <= rs.Body.End()) {
			return true
		}
		if objOfIdent(p, rs.Key) != nil && objOfIdent(p, rs.Key) == objOfIdent(p, ix.Index) && types.ExprString(rs.X) == types.ExprString(ix.X) {
			safe = true
		}
		return true
	})
	return safe
}

// guardFact checks that the named guard still exists before the access.
func guardFact(p *packages.Package, fd *ast.FuncDecl, access ast.Expr, kind string) bool {
	found := false
	baseOf := func(e ast.Expr) string {
		switch x := e.(type) {
		case *ast.IndexExpr:
			return types.ExprString(x.X)
		case *ast.SliceExpr:
			return types.ExprString(x.X)
		}
		return ""
	}
	base := baseOf(access)
	ast.Inspect(fd.Body, func(n ast.Node) bool {
		if n == nil || n.Pos() >= access.Pos() {
			return true
		}
		switch kind {
		case "lenguard":
			// short-circuit form anywhere (a return expression, an assignment): `len(x) >= k && x[…] …`
			if be, isB := n.(*ast.BinaryExpr); isB && be.Op == token.LAND && be.Pos() <= access.Pos() && access.End() <= be.End() {
				conj := flattenAnd(be)
				for i, c := range conj {
					if !(c.Pos() <= access.Pos() && access.End() <= c.End()) {
						continue
					}
					for _, prev := range conj[:i] {
						ast.Inspect(prev, func(x ast.Node) bool {
							if ce, ok := x.(*ast.CallExpr); ok {
								if id, ok := ce.Fun.(*ast.Ident); ok && id.Name == "len" && len(ce.Args) == 1 {
									if a := types.ExprString(ce.Args[0]); a == base || strings.Contains(base, a) {
										found = true
									}
								}
							}
							return true
						})
					}
				}
			}
			is, ok := n.(*ast.IfStmt)
			if !ok || is.End() > access.Pos() && !(is.Body.Pos() <= access.Pos() && access.End() <= is.Body.End()) && is.Else == nil {
				// an if statement that ends before the access (early exit) or encloses it
			}
			if !ok {
				return true
			}
			mentionsLen := false
			ast.Inspect(is.Cond, func(x ast.Node) bool {
				if ce, ok := x.(*ast.CallExpr); ok {
					if id, ok := ce.Fun.(*ast.Ident); ok && id.Name == "len" && len(ce.Args) == 1 {
						a := types.ExprString(ce.Args[0])
						if a == base || strings.Contains(base, a) {
							mentionsLen = true
						}
					}
				}
				return true
			})
			if !mentionsLen {
				return true
			}
			encloses := is.Body.Pos() <= access.Pos() && access.End() <= is.Body.End()
			if is.Else != nil && is.Else.Pos() <= access.Pos() && access.End() <= is.Else.End() {
				encloses = true // the other branch of the length test
			}
			exits := false
			if k := len(is.Body.List); k > 0 {
				switch l := is.Body.List[k-1].(type) {
				case *ast.ReturnStmt:
					exits = true
				case *ast.BranchStmt:
					exits = l.Tok == token.CONTINUE || l.Tok == token.BREAK
				case *ast.ExprStmt:
					if ce, ok := l.X.(*ast.CallExpr); ok {
						if id, ok := ce.Fun.(*ast.Ident); ok && id.Name == "panic" {
							exits = true
						}
					}
				}
			}
			if encloses || (exits && is.End() <= access.Pos()) {
				found = true
			}
			// short-circuit form: if len(x) > 0 && x[len(x)-1] == … — the access is a later conjunct of the condition
			if is.Cond.Pos() <= access.Pos() && access.End() <= is.Cond.End() {
				conj := flattenAnd(is.Cond)
				for i, c := range conj {
					if !(c.Pos() <= access.Pos() && access.End() <= c.End()) {
						continue
					}
					for _, prev := range conj[:i] {
						ast.Inspect(prev, func(x ast.Node) bool {
							if ce, ok := x.(*ast.CallExpr); ok {
								if id, ok := ce.Fun.(*ast.Ident); ok && id.Name == "len" && len(ce.Args) == 1 && types.ExprString(ce.Args[0]) == base {
									found = true
								}
							}
							return true
						})
					}
				}
			}
		case "clamp":
			is, ok := n.(*ast.IfStmt)
			if !ok || is.End() > access.Pos() {
				return true
			}
			be, ok := ast.Unparen(is.Cond).(*ast.BinaryExpr)
			if !ok || be.Op != token.LSS {
				return true
			}
			if v, ok := ConstInt(p, be.Y); !ok || v != 0 {
				return true
			}
			idx := objOfIdent(p, be.X)
			for _, s := range is.Body.List {
				if as, ok := s.(*ast.AssignStmt); ok && len(as.Lhs) == 1 && objOfIdent(p, as.Lhs[0]) == idx {
					if v, ok := ConstInt(p, as.Rhs[0]); ok && v == 0 {
						// the clamped variable is the slice bound
						se := access.(*ast.SliceExpr)
						for _, b := range []ast.Expr{se.Low, se.High} {
							if b != nil && objOfIdent(p, b) == idx {
								found = true
							}
						}
					}
				}
			}
		case "decode":
			as, ok := n.(*ast.AssignStmt)
			if !ok || len(as.Rhs) != 1 || len(as.Lhs) != 2 {
				return true
			}
			ce, ok := as.Rhs[0].(*ast.CallExpr)
			if !ok || calleeOf(p, ce) == nil || calleeOf(p, ce).FullName() != "unicode/utf8.DecodeRune" {
				return true
			}
			se, ok := access.(*ast.SliceExpr)
			if ok && se.Low != nil && objOfIdent(p, se.Low) == objOfIdent(p, as.Lhs[1]) && types.ExprString(ce.Args[0]) == base {
				found = true
			}
		}
		return true
	})
	return found
}

func c05Message(w *World, r *Report) {
	cp := w.Method("xpath", "CommonLex", "CreateProgram")
	fd, p := w.FuncDecl(cp)
	exprObj := paramObj(p, fd, 0)
	nfmt, nconst, quotes := 0, 0, false
	ast.Inspect(fd.Body, func(n ast.Node) bool {
		ce, ok := n.(*ast.CallExpr)
		if !ok {
			return true
		}
		f := calleeOf(p, ce)
		if f == nil || f.Pkg() == nil || f.Pkg().Path() != "fmt" || !(strings.HasSuffix(f.Name(), "f")) {
			return true
		}
		nfmt++
		// the format is the parameter before the variadic operands (Sprintf, Errorf: 0; Fprintf: 1)
		fi := 0
		if sig, ok := f.Type().(*types.Signature); ok && sig.Variadic() && sig.Params().Len() >= 2 {
			fi = sig.Params().Len() - 2
		}
		if fi >= len(ce.Args) {
			return true
		}
		if s, ok := ConstStr(p, ce.Args[fi]); ok {
			nconst++
			for _, a := range ce.Args[fi+1:] {
				if objOfIdent(p, a) == exprObj && strings.Contains(s, "'%s'") {
					quotes = true
				}
			}
		}
		return true
	})
	r.Check(nfmt > 0 && nfmt == nconst, "R05.6", "CreateProgram format strings", fd.Pos(), fmt.Sprintf("%d printf-style calls, all with constant formats", nfmt), fmt.Sprintf("%d of %d printf-style calls use a non-constant format: a '%%' in the user's expression would be interpreted as a verb and garble the message", nfmt-nconst, nfmt))
	r.Check(quotes, "R05.6", "CreateProgram quotes the expression", fd.Pos(), "'%s' ← expr", "the message no longer quotes the expression parameter")
	// the position marker: the message with "[X]" gets two different values computed from expr
	okLoc := false
	if sf := w.SSAFunc(cp); sf != nil {
		for _, b := range sf.Blocks {
			for _, in := range b.Instrs {
				c, ok := in.(*ssa.Call)
				if !ok || c.Call.StaticCallee() == nil || c.Call.StaticCallee().String() != "fmt.Errorf" || len(c.Call.Args) != 2 {
					continue
				}
				k, ok := c.Call.Args[0].(*ssa.Const)
				if !ok || k.Value == nil || !strings.Contains(constant.StringVal(k.Value), "[X]") {
					continue
				}
				sl, ok := c.Call.Args[1].(*ssa.Slice)
				if !ok {
					continue
				}
				lits := sliceLiteral(sl)
				n := 0
				seen := map[ssa.Value]bool{}
				for _, l := range lits {
					v := stripIface(l)
					if rootParams(v, sf)[1] && !seen[v] {
						if _, isParam := v.(*ssa.Parameter); !isParam {
							n++
						}
					}
					seen[v] = true
				}
				if n >= 2 {
					okLoc = true
				}
			}
		}
	}
	r.Check(okLoc, "R05.6", "CreateProgram position marker", fd.Pos(), "'<parsed> [X] <unparsed>' from two slices of expr", "the error no longer marks a position inside the expression")
}

// lexLoop: what one loop of a lexer function does with the input: whether it
// reads a rune on every way round, and for which values of that rune it goes
// round again (nil when that cannot be read off).
type lexLoop struct {
	pos      token.Pos
	consumes bool
	rounds   []ISet // per rune read in the loop (where it can be read off): the values it has when the loop goes round again
}

// leavesAt: some rune read in the loop never has value v when the loop goes round.
func (l lexLoop) leavesAt(v int64) bool {
	for _, r := range l.rounds {
		if !r.contains(v) {
			return true
		}
	}
	return false
}

// roundsExactlyFor: the loop goes round exactly for the values in set of some rune it reads.
func (l lexLoop) roundsExactlyFor(set ISet) bool {
	for _, r := range l.rounds {
		if r.equal(set) {
			return true
		}
	}
	return false
}

// lexLoops reads the loops of f that are not driven by a range clause (XPath lexers).
func lexLoops(w *World, f *ssa.Function) []lexLoop {
	nextM := w.SSAFunc(w.Method("xpath", "CommonLex", "Next"))
	nextF := w.SSAFunc(w.Func("xpath", "next"))
	// the rune a call reads: x.Next() (method or through the lexer interface), or the first result of next(line)
	runeOf := func(v ssa.Value) (*ssa.Call, bool) {
		if ex, ok := v.(*ssa.Extract); ok && ex.Index == 0 {
			if c, ok := ex.Tuple.(*ssa.Call); ok && c.Call.StaticCallee() == nextF {
				return c, true
			}
			return nil, false
		}
		c, ok := v.(*ssa.Call)
		if !ok {
			return nil, false
		}
		if c.Call.StaticCallee() == nextM || (c.Call.IsInvoke() && nm(c.Call.Method) == "Next" && c.Call.Signature().Results().Len() == 1 && c.Call.Signature().Params().Len() == 0) {
			return c, true
		}
		return nil, false
	}
	return runeLoops(w, f, nil, runeOf)
}

// runeLoops: runeOf tells whether a value is a rune read from the input, by
// which call, and whether that call consumes it (a look-ahead does not).
func runeLoops(w *World, f *ssa.Function, ctx *symCtx, runeOf func(v ssa.Value) (*ssa.Call, bool)) []lexLoop {
	var out []lexLoop
	sym := NewSym(w)
	sym.Expand = true
	for _, l := range ssaLoops(f) {
		body := l.body()
		// a loop over a string, slice or count ends by itself
		ranged := false
		for _, in := range l.Header.Instrs {
			switch x := in.(type) {
			case *ssa.Next:
				ranged = true
			case *ssa.Phi:
				if isRangeIndexPhi(x) {
					ranged = true
				}
			}
		}
		if ranged || countedLoop(l) {
			continue
		}
		// candidates for "the rune of this iteration"
		var cands []ssa.Value
		var readers []*ssa.BasicBlock
		for b := range body {
			for _, in := range b.Instrs {
				if v, ok := in.(ssa.Value); ok {
					if rc, consumes := runeOf(v); rc != nil {
						cands = append(cands, v)
						if consumes {
							readers = append(readers, rc.Block())
						}
					}
				}
			}
		}
		for _, in := range l.Header.Instrs {
			phi, ok := in.(*ssa.Phi)
			if !ok {
				continue
			}
			fed := len(l.Latches) > 0
			for _, lt := range l.Latches {
				if rc, _ := runeOf(phiEdge(phi, lt)); rc == nil || !body[rc.Block()] {
					fed = false
				}
			}
			if fed {
				cands = append(cands, phi)
			}
		}
		// the rune kept in a field of a small state struct: tested as state.f, read by a method of the
		// package that stores what it read into that very field (`la.advance()` for `lc, line = next(line)`)
		for b := range body {
			for _, in := range b.Instrs {
				ld, ok := in.(*ssa.UnOp)
				if !ok || ld.Op != token.MUL {
					continue
				}
				fa, ok := ld.X.(*ssa.FieldAddr)
				if !ok {
					continue
				}
				var stepBlocks []*ssa.BasicBlock
				for sb := range body {
					for _, sin := range sb.Instrs {
						c, isC := sin.(*ssa.Call)
						if !isC {
							continue
						}
						h := c.Call.StaticCallee()
						if h == nil || h.Blocks == nil || h.Pkg != f.Pkg {
							continue
						}
						for i, a := range c.Call.Args {
							if a != fa.X || i >= len(h.Params) {
								continue
							}
							for _, hb := range h.Blocks {
								for _, hin := range hb.Instrs {
									st, isSt := hin.(*ssa.Store)
									if !isSt {
										continue
									}
									hfa, isFA := st.Addr.(*ssa.FieldAddr)
									if !isFA || hfa.X != ssa.Value(h.Params[i]) || hfa.Field != fa.Field || hb != h.Blocks[0] {
										continue
									}
									if rc, consumes := runeOf(st.Val); rc != nil && consumes {
										stepBlocks = append(stepBlocks, sb)
									}
								}
							}
						}
					}
				}
				fed := len(stepBlocks) > 0 && len(l.Latches) > 0
				for _, lt := range l.Latches {
					dom := false
					for _, sb := range stepBlocks {
						dom = dom || sb == lt || sb.Dominates(lt)
					}
					fed = fed && dom
				}
				if fed {
					cands = append(cands, ld)
					readers = append(readers, stepBlocks...)
				}
			}
		}
		ll := lexLoop{pos: l.Header.Instrs[0].Pos(), consumes: len(l.Latches) > 0}
		for _, lt := range l.Latches {
			dom := false
			for _, rb := range readers {
				if rb == lt || rb.Dominates(lt) {
					dom = true
				}
			}
			if !dom {
				ll.consumes = false
			}
		}
		for _, v := range cands {
			var round ISet
			all := true
			for _, lt := range l.Latches {
				rc := sym.RoundCond(l.Header, lt, ctx)
				// strings.IndexRune(valid, r) >= 0 never holds for a rune that is not a code point (the end marker)
				rc = indexRuneHint(sym, rc, v, ctx)
				vals, decided := pcValuesWhen(rc, sym.Key(v, ctx))
				if !decided {
					all = false
					break
				}
				round = round.union(vals)
			}
			if all {
				ll.rounds = append(ll.rounds, round)
			}
		}
		out = append(out, ll)
	}
	return out
}

// indexRuneHint adds what is known about strings.IndexRune(s, v) ≥ 0: a hit
// needs v to be a code point (v ≥ 0), so the test fails for the end marker.
func indexRuneHint(s *Sym, f *pcF, v ssa.Value, ctx *symCtx) *pcF {
	for _, a := range f.atoms() {
		bo, ok := a.v.(*ssa.BinOp)
		if !ok || a.subj == "" {
			continue
		}
		for _, side := range []ssa.Value{bo.X, bo.Y} {
			c, ok := side.(*ssa.Call)
			if !ok || c.Call.StaticCallee() == nil || c.Call.StaticCallee().String() != "strings.IndexRune" || len(c.Call.Args) != 2 || c.Call.Args[1] != v {
				continue
			}
			valid := s.intAtom(s.Key(v, ctx), ISet{{0, math.MaxInt64}}, false, a.v, ctx)
			neg := ISet{{math.MinInt64, -1}}
			at := &pcF{k: pcAtomK, atom: a}
			switch {
			case len(a.set.intersect(neg)) == 0: // the atom holds only on a hit
				f = pcAndF(f, pcOrF(pcNotF(at), valid))
			case len(neg.minus(a.set)) == 0: // the atom fails only on a hit
				f = pcAndF(f, pcOrF(at, valid))
			}
		}
	}
	return f
}

func c05LexerLoops(w *World, r *Report) {
	eof := int64(0)
	if v, ok := pkgConstInt(w, "xpath/xutils", "EOF"); ok {
		eof = v
	}
	for _, key := range []string{"xpath", "xpath/grammars/expr", "xpath/grammars/leafref", "xpath/grammars/path_eval"} {
		p := w.Pkg(key)
		for _, fd := range funcDecls(p) {
			if isTestFile(w, fd.Pos()) || isGeneratedFile(w, p, fd.Pos()) {
				continue
			}
			file := w.Fset.Position(fd.Pos()).Filename
			if !strings.HasSuffix(file, "lexer.go") {
				continue
			}
			obj, _ := p.TypesInfo.Defs[fd.Name].(*types.Func)
			top := w.SSAFunc(obj)
			if top == nil {
				continue
			}
			fns := []*ssa.Function{top}
			for i := 0; i < len(fns); i++ {
				fns = append(fns, fns[i].AnonFuncs...)
			}
			n := 0
			for _, f := range fns {
				for _, ll := range lexLoops(w, f) {
					n++
					c := fmt.Sprintf("%s.%s loop #%d", key, funcDeclName(fd), n)
					exits := ll.leavesAt(eof)
					r.Check(ll.consumes && exits, "R05.7", c, ll.pos, "reads a rune per iteration; the loop goes round only when the rune read is not EOF",
						fmt.Sprintf("loop may not terminate: reads a rune per iteration=%v, leaves at EOF=%v", ll.consumes, exits))
				}
			}
		}
	}
}

// alphaNorm renders an expression with every identifier that is not a
// selected field/method name, a builtin or an imported package name replaced
// by $1, $2 … in order of first occurrence (purely syntactic, so that it can
// be applied to the reviewed tables' text and to the code alike).
func alphaNorm(src string, pkgNames map[string]bool) string {
	e, err := parser.ParseExpr(src)
	if err != nil {
		return src
	}
	names := map[string]string{}
	var visit func(n ast.Node)
	visit = func(n ast.Node) {
		ast.Inspect(n, func(x ast.Node) bool {
			switch y := x.(type) {
			case *ast.SelectorExpr:
				visit(y.X)
				return false
			case *ast.KeyValueExpr:
				visit(y.Value)
				return false
			case *ast.Ident:
				if pkgNames[y.Name] || types.Universe.Lookup(y.Name) != nil || y.Name == "_" {
					return true
				}
				nn, ok := names[y.Name]
				if !ok {
					nn = fmt.Sprintf("$%d", len(names)+1)
					names[y.Name] = nn
				}
				y.Name = nn
			}
			return true
		})
	}
	visit(e)
	return types.ExprString(e)
}

func alphaFallback(w *World, fd *ast.FuncDecl, insp func(ast.Node, func(ast.Node) bool), name string, reviewed []reviewedEntry) map[string]*reviewedEntry {
	pkgNames := map[string]bool{}
	for _, p := range w.All {
		for _, f := range p.Syntax {
			for _, im := range f.Imports {
				path := strings.Trim(im.Path.Value, "\"")
				if im.Name != nil {
					pkgNames[im.Name.Name] = true
				} else {
					pkgNames[path[strings.LastIndex(path, "/")+1:]] = true
				}
			}
		}
	}
	exact := map[string]bool{}
	for i := range reviewed {
		if reviewed[i].Func == name {
			exact[reviewed[i].Expr] = true
		}
	}
	// every index/slice/assertion/panic expression text of the function
	var texts []string
	seen := map[string]bool{}
	insp(fd.Body, func(n ast.Node) bool {
		switch x := n.(type) {
		case *ast.IndexExpr, *ast.SliceExpr, *ast.TypeAssertExpr:
			t := normExpr(x.(ast.Expr))
			if !seen[t] {
				seen[t] = true
				texts = append(texts, t)
			}
		case *ast.CallExpr:
			if id, ok := x.Fun.(*ast.Ident); ok && id.Name == "panic" {
				t := normExpr(x)
				if !seen[t] {
					seen[t] = true
					texts = append(texts, t)
				}
			}
		}
		return true
	})
	orphanAcc := map[string][]string{} // alpha form -> access texts without an exact entry
	for _, t := range texts {
		if !exact[t] {
			a := alphaNorm(t, pkgNames)
			orphanAcc[a] = append(orphanAcc[a], t)
		}
	}
	orphanRev := map[string][]*reviewedEntry{}
	for i := range reviewed {
		if reviewed[i].Func == name && reviewed[i].Expr != "" && !seen[reviewed[i].Expr] {
			a := alphaNorm(reviewed[i].Expr, pkgNames)
			orphanRev[a] = append(orphanRev[a], &reviewed[i])
		}
	}
	out := map[string]*reviewedEntry{}
	for a, accs := range orphanAcc {
		revs := orphanRev[a]
		if len(revs) == len(accs) && len(accs) > 0 {
			for i := range accs {
				out[accs[i]] = revs[i]
			}
		}
	}
	return out
}

// countedLoop: `for i := a; i < n; i++` — the header leaves the loop on a test
// of a counter against a bound computed outside the loop, and every way round
// adds a positive constant to the counter.  Such a loop ends by itself.
func countedLoop(l ssaLoop) bool {
	body := l.body()
	iff, ok := l.Header.Instrs[len(l.Header.Instrs)-1].(*ssa.If)
	if !ok {
		return false
	}
	cmp, ok := iff.Cond.(*ssa.BinOp)
	if !ok || (cmp.Op != token.LSS && cmp.Op != token.LEQ && cmp.Op != token.GTR && cmp.Op != token.GEQ && cmp.Op != token.NEQ) {
		return false
	}
	var outside func(v ssa.Value) bool
	outside = func(v ssa.Value) bool {
		switch x := v.(type) {
		case *ssa.Const, *ssa.Parameter:
			return true
		case *ssa.Call:
			// len(x) of something fixed before the loop (strings and arrays do not change; a slice header is a value)
			if bi, ok := x.Call.Value.(*ssa.Builtin); ok && bi.Name() == "len" && len(x.Call.Args) == 1 && outside(x.Call.Args[0]) {
				return true
			}
			return !body[x.Block()]
		case ssa.Instruction:
			return !body[x.Block()]
		}
		return false
	}
	for _, pair := range [][2]ssa.Value{{cmp.X, cmp.Y}, {cmp.Y, cmp.X}} {
		phi, ok := pair[0].(*ssa.Phi)
		if !ok || phi.Block() != l.Header || !outside(pair[1]) {
			continue
		}
		stepped := true
		for i, e := range phi.Edges {
			if !body[phi.Block().Preds[i]] {
				continue
			}
			bo, ok := e.(*ssa.BinOp)
			if !ok || bo.Op != token.ADD || bo.X != ssa.Value(phi) {
				stepped = false
				break
			}
			if k, ok := intConstOf(bo.Y); !ok || k <= 0 {
				stepped = false
			}
		}
		if stepped && (cmp.Op == token.LSS || cmp.Op == token.LEQ) && pair[0] == cmp.X {
			return true
		}
		if stepped && (cmp.Op == token.GTR || cmp.Op == token.GEQ) && pair[0] == cmp.Y {
			return true
		}
	}
	return false
}

// panicIsConditional: the panic call stands inside an if statement or a case
// clause of fd (it is not raised on every run of the function).
func panicIsConditional(fd *ast.FuncDecl, call ast.Node) bool {
	cond := false
	ast.Inspect(fd.Body, func(n ast.Node) bool {
		switch x := n.(type) {
		case *ast.IfStmt:
			if x.Body.Pos() <= call.Pos() && call.End() <= x.Body.End() {
				cond = true
			}
			if x.Else != nil && x.Else.Pos() <= call.Pos() && call.End() <= x.Else.End() {
				cond = true
			}
		case *ast.CaseClause:
			if x.Pos() <= call.Pos() && call.End() <= x.End() {
				cond = true
			}
		}
		return true
	})
	return cond
}

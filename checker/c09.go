package main

import (
	"fmt"
	"go/ast"
	"go/constant"
	"go/token"
	"go/types"
	"os"
	"sort"
	"strings"

	"golang.org/x/tools/go/ssa"
)

func init() { register("C09", checkC09) }

func isVendorKw(k string) bool {
	return strings.Contains(k, ":") || strings.Contains(k, " ")
}

func checkC09(w *World, r *Report) {
	r.NotDecided = []string{
		"semantic checks RFC 6020 places outside the substatement tables and the ABNF (e.g. key required for config lists)",
		"leading zeros and an explicit '+' accepted by base-10 strconv integer parsing",
		"the uri, pattern, range-boundary and schema-node-id sub-languages beyond the shapes listed in R09.4",
	}
	r.Assumptions = []string{"the RFC 6020 tables transcribed in checker/spec_rfc6020.go (each row cites its section)"}
	r.Extra["exhaustive"] = true

	rfc := rfcCard()
	r.Rule("R09.1", "parse.cardinalities restricted to RFC 6020 keywords equals the RFC 6020 substatement tables cell by cell (presence, lower bound, upper bound); vendor rows/columns and the data-definition pseudo cell are ignored", 300)
	r.guard("R09.1", func() {
		tbl, pos := cardinalityTable(w)
		kwset := map[string]bool{}
		for _, k := range rfcKeywords {
			kwset[k] = true
		}
		for _, k := range deviateKinds {
			kwset[k] = true
		}
		var parents []string
		for p := range rfc {
			parents = append(parents, p)
		}
		sort.Strings(parents)
		cells := 0
		for _, parent := range parents {
			want := rfc[parent]
			got, ok := tbl[parent]
			if !ok {
				if len(want) == 0 {
					r.OK("R09.1", "cardinalities["+parent+"]", token.NoPos, "no row, no substatements")
					continue
				}
				r.Fail("R09.1", "cardinalities["+parent+"]", token.NoPos, "row missing: every substatement of '"+parent+"' would be rejected")
				continue
			}
			// deviation: the implementation keys deviate by kind
			if parent == "deviation" {
				want = map[string]Card{}
				for k, v := range rfc[parent] {
					want[k] = v
				}
				dv := want["deviate"]
				delete(want, "deviate")
				for _, k := range append([]string{"deviate"}, deviateKinds...) {
					want[k] = Card{"0", dv.Max} // per-kind lower bound cannot be 1; the 1..n total is R09.1b
				}
			}
			keys := map[string]bool{}
			for k := range want {
				keys[k] = true
			}
			for k := range got {
				if kwset[k] && !isVendorKw(k) {
					keys[k] = true
				}
			}
			var ks []string
			for k := range keys {
				ks = append(ks, k)
			}
			sort.Strings(ks)
			for _, child := range ks {
				cells++
				c := "cardinalities[" + parent + "][" + child + "]"
				wv, wok := want[child]
				gv, gok := got[child]
				var at token.Pos
				if n := pos[parent+"/"+child]; n != nil {
					at = n.Pos()
				} else if n := pos[parent]; n != nil {
					at = n.Pos()
				}
				switch {
				case wok && !gok:
					r.Fail("R09.1", c, at, "RFC 6020 allows '"+child+"' ("+wv.String()+") under '"+parent+"', the table has no such cell: a valid module is rejected")
				case !wok && gok:
					r.Fail("R09.1", c, at, "table allows '"+child+"' ("+gv.String()+") under '"+parent+"', RFC 6020 does not: an invalid module is accepted")
				default:
					r.Check(wv == gv, "R09.1", c, at, gv.String(), "table says "+gv.String()+", RFC 6020 says "+wv.String())
				}
			}
		}
		// RFC-keyword rows that the RFC does not have
		for p := range tbl {
			if kwset[p] && !isVendorKw(p) {
				if _, ok := rfc[p]; !ok && len(tbl[p]) > 0 {
					hasRfcChild := false
					for c := range tbl[p] {
						if kwset[c] {
							hasRfcChild = true
						}
					}
					if hasRfcChild {
						r.Fail("R09.1", "cardinalities["+p+"]", pos[p].Pos(), "RFC 6020 defines no substatements for '"+p+"' but the table has a row with RFC keywords")
					}
				}
			}
		}
		// deviation needs at least one deviate (RFC 1..n) — not expressible per kind
		r.Fail("R09.1", "cardinalities[deviation][deviate] lower bound", token.NoPos, "RFC 6020 §7.18.3.1 requires 1..n deviate statements; the per-kind cells are all 0..n and nothing else enforces the total")
		r.Count("table cells compared", cells)
	})

	r.Rule("R09.2", "every RFC 6020 keyword is the name of exactly one NodeType; no two NodeTypes share a keyword", 65)
	r.guard("R09.2", func() {
		_, byName := nodeTypeNames(w)
		cn := nodeTypeConstNames(w)
		for _, kw := range rfcKeywords {
			ids := byName[kw]
			var names []string
			for _, id := range ids {
				names = append(names, cn[id])
			}
			r.Check(len(ids) == 1, "R09.2", "keyword "+kw, token.NoPos, "↔ "+strings.Join(names, ","),
				fmt.Sprintf("keyword '%s' is the name of %d node types %v: the statement would be parsed as an unknown extension statement (or ambiguously)", kw, len(ids), names))
		}
		for name, ids := range byName {
			if len(ids) > 1 {
				r.Fail("R09.2", "duplicate name "+name, token.NoPos, "two node types share one keyword")
			}
		}
	})

	r.Rule("R09.3", "getArgByType gives every RFC 6020 statement the argument class of the ABNF", 60)
	r.guard("R09.3", func() { c09ArgByType(w, r) })

	r.Rule("R09.11", "argument validation is stateless: in every *Arg.Parse method that validates at all, no success return is reachable without passing a validation call — the verdict never comes from state an earlier call left in the (interned, shared) argument object", 10)
	r.guard("R09.11", func() { c09StatelessParse(w, r) })

	r.Rule("R09.12", "revision dates strictly descending: checkRevisionOrder compares every revision date with the date of the revision statement before it (the remembered date is updated on every revision iteration and only there)", 1)
	r.guard("R09.12", func() { c09RevisionChain(w, r) })

	r.Rule("R09.4", "argument parsers use no stdlib recogniser whose language strictly contains the ABNF production (ParseBool, base-0 integers, Atoi on signed text, unicode.IsLetter/IsDigit, Unicode-whitespace splitters such as strings.Fields/TrimSpace)", 1)
	r.guard("R09.4", func() { c09ArgLanguage(w, r) })

	r.Rule("R09.5", "checkModule: the four case groups are the RFC's header/linkage/meta/revision sets, default is body, each arm rejects when a later section was already seen, ranks strictly increase", 5)
	r.guard("R09.5", func() { c09CheckModule(w, r) })

	r.Rule("R09.6", "checkRevisionOrder rejects a later-or-equal revision date (strictly descending)", 2)
	r.guard("R09.6", func() { c09RevisionOrder(w, r) })

	r.Rule("R09.7", "checkCardinality contains the three tests (required missing, at-most-one exceeded, unknown substatement), skips exactly {unknown, refine, deviate*}; check() runs argument, cardinality and module checks; stmt() checks every node it builds and turns the error into a located panic", 6)
	r.guard("R09.7", func() { c09CheckCardinality(w, r) })

	r.Rule("R09.9", "identifiers of every length >= 3 that start with xml (any case) are rejected (RFC 6020 section 12: an identifier MUST NOT start with xml)", 1)
	r.guard("R09.9", func() { c09XmlPrefix(w, r) })

	r.Rule("R09.10", "no parse error is forgotten: in package parse every error result that is bound to a variable is examined before it is overwritten or goes out of scope (e.g. the two boundaries of a range/length part are checked separately)", 1)
	r.guard("R09.10", func() { errRule(w, r, "R09.10", []string{"parse"}, nil) })

	r.Rule("R09.8", "the shared RFC table parse.cardinalities is read-only: no map update can reach it or one of its rows (every node gets a private copy)", 1)
	r.guard("R09.8", func() { c09TableReadOnly(w, r) })
}

func c09ArgByType(w *World, r *Report) {
	f := w.Func("parse", "getArgByType")
	fd, p := w.FuncDecl(f)
	names, _ := nodeTypeNames(w)
	_ = p
	// the dispatch as a decision table: for every node type, which exit is taken and what it returns
	got := map[string]string{}
	sf := w.SSAFunc(f)
	if sf == nil || len(ssaLoops(sf)) > 0 {
		panic(undecided{"getArgByType: switch on the node type"})
	}
	sym := NewSym(w)
	rows := sym.retTable(sf, 0)
	kindParam := sf.Params[0]
	if len(rows) < 10 {
		// the dispatch moved into a helper of the package that is handed the kind
		for g := range calleesDeep(sf, 1) {
			if g.Pkg != sf.Pkg || g.Blocks == nil || g == sf || len(ssaLoops(g)) > 0 {
				continue
			}
			var kp *ssa.Parameter
			for _, prm := range g.Params {
				if types.Identical(prm.Type(), sf.Params[0].Type()) {
					kp = prm
				}
			}
			if kp == nil {
				continue
			}
			if gr := sym.retTable(g, 0); len(gr) > len(rows) {
				rows, kindParam = gr, kp
			}
		}
	}
	argTypeOf := func(v ssa.Value) string {
		set := map[string]bool{}
		seen := map[ssa.Value]bool{}
		var walk func(v ssa.Value)
		walk = func(v ssa.Value) {
			if v == nil || seen[v] {
				return
			}
			seen[v] = true
			switch x := v.(type) {
			case *ssa.Phi:
				for _, e := range x.Edges {
					walk(e)
				}
				return
			case *ssa.MakeInterface:
				walk(x.X)
				return
			case *ssa.ChangeInterface:
				walk(x.X)
				return
			}
			t := v.Type()
			if pt, ok := t.(*types.Pointer); ok {
				t = pt.Elem()
			}
			if nt, ok := t.(*types.Named); ok && strings.HasSuffix(nt.Obj().Name(), "Arg") {
				if _, isIface := nt.Underlying().(*types.Interface); !isIface {
					set[nt.Obj().Name()] = true
				}
			}
		}
		walk(v)
		var ts []string
		for t := range set {
			ts = append(ts, t)
		}
		sort.Strings(ts)
		return strings.Join(ts, "|")
	}
	for v, name := range names {
		for _, row := range rows {
			hit, ok := pcEvalFree(row.cond, func(a *pcAtom) (bool, bool) {
				if bo, ok := a.v.(*ssa.BinOp); ok && a.subj != "" && (readsParam(bo.X, kindParam) || readsParam(bo.Y, kindParam)) {
					return a.set.contains(v), true
				}
				return false, false
			})
			if ok && hit {
				if t := argTypeOf(row.val); t != "" {
					got[name] = t
				}
			}
		}
	}
	if len(got) == 0 {
		panic(undecided{"getArgByType: switch on the node type"})
	}
	var kws []string
	for k := range rfcArgClass {
		kws = append(kws, k)
	}
	sort.Strings(kws)
	for _, kw := range kws {
		class := rfcArgClass[kw]
		want := argClassImpl[class]
		g, ok := got[kw]
		c := "getArgByType(" + kw + ")"
		if !ok {
			r.Fail("R09.3", c, fd.Pos(), "no case for statement '"+kw+"': building the node panics")
			continue
		}
		r.Check(g == want, "R09.3", c, fd.Pos(), class+" → "+g, "statement '"+kw+"' takes a "+class+" ("+want+") but is parsed as "+g)
	}
	for _, k := range deviateKinds {
		r.Check(got[k] == "DeviateArg", "R09.3", "getArgByType("+k+")", fd.Pos(), "deviate → DeviateArg", "deviate kind parsed as "+got[k])
	}
	// the closed-set argument classes accept exactly the RFC's words
	sets := map[string][]string{
		"StatusArg":      {"current", "deprecated", "obsolete"},
		"OrdByArg":       {"system", "user"},
		"DeviateArg":     {"add", "delete", "not-supported", "replace"},
		"YangVersionArg": {"1"},
	}
	var tn []string
	for k := range sets {
		tn = append(tn, k)
	}
	sort.Strings(tn)
	for _, t := range tn {
		m := w.Method("parse", t, "Parse")
		mfd, _ := w.FuncDecl(m)
		acc := acceptedStrings(w, w.SSAFunc(m), func(k string) bool { return strings.Contains(k, "arg") })
		sort.Strings(acc)
		r.Check(strings.Join(acc, ",") == strings.Join(sets[t], ","), "R09.3", t+".Parse accepted words", mfd.Pos(), strings.Join(acc, ","),
			"accepts {"+strings.Join(acc, ",")+"}, RFC 6020 allows {"+strings.Join(sets[t], ",")+"}")
	}
}

// acceptedStrings: the words for which a Parse method returns nil, from the
// condition of its nil exits: every string the argument is compared with is
// tried, and one more that equals none of them.
func acceptedStrings(w *World, f *ssa.Function, subjOK func(key string) bool) []string {
	if len(ssaLoops(f)) > 0 {
		panic(undecided{funcKey(f) + ": loop in a closed-set Parse"})
	}
	sym := NewSym(w)
	sym.Expand = true
	accept := pcZ
	for _, row := range sym.retTable(f, 0) {
		if isNilConst(row.val) {
			accept = pcOrF(accept, row.cond)
		}
	}
	subj := ""
	words := map[string]bool{}
	constOf := func(a *pcAtom) (string, string, bool) {
		if a.op != token.EQL || a.x == nil || a.y == nil {
			return "", "", false
		}
		for _, pr := range [][2]ssa.Value{{a.x, a.y}, {a.y, a.x}} {
			if c, ok := pr[0].(*ssa.Const); ok && c.Value != nil && c.Value.Kind() == constant.String {
				k := a.yk
				if pr[0] == a.y {
					k = a.xk
				}
				return constant.StringVal(c.Value), k, true
			}
		}
		return "", "", false
	}
	for _, a := range accept.atoms() {
		if word, k, ok := constOf(a); ok {
			if subj != "" && subj != k {
				panic(undecided{funcKey(f) + ": words compared with more than one value"})
			}
			subj = k
			words[word] = true
		}
	}
	if !subjOK(subj) {
		panic(undecided{funcKey(f) + ": the words are not compared with the value to be judged (" + subj + ")"})
	}
	var out []string
	try := func(word string, other bool) bool {
		res, ok := pcEvalFree(accept, func(a *pcAtom) (bool, bool) {
			if c, _, isC := constOf(a); isC {
				return !other && c == word, true
			}
			if a.subj == "len("+subj+")" {
				n := int64(len(word))
				if other {
					n = 1 << 20
				}
				return a.set.contains(n), true
			}
			return false, false
		})
		if !ok {
			panic(undecided{funcKey(f) + ": acceptance depends on more than the argument's text"})
		}
		return res
	}
	for wd := range words {
		if try(wd, false) {
			out = append(out, wd)
		}
	}
	if try("", true) {
		out = append(out, "‹any other word›")
	}
	if !words[""] && try("", false) {
		out = append(out, "‹empty›")
	}
	return out
}

func c09ArgLanguage(w *World, r *Report) {
	p := w.Pkg("parse")
	// scope: the Parse/split methods of the *Arg types and every function of
	// package parse they (transitively) call
	decls := map[*types.Func]*ast.FuncDecl{}
	for _, fd := range funcDecls(p) {
		if f, ok := p.TypesInfo.Defs[fd.Name].(*types.Func); ok && !isTestFile(w, fd.Pos()) {
			decls[f] = fd
		}
	}
	scope := map[*types.Func]bool{}
	var work []*types.Func
	for f, fd := range decls {
		name := funcDeclName(fd)
		if strings.HasSuffix(name, "Arg.Parse") || strings.HasSuffix(name, "Arg.split") {
			scope[f] = true
			work = append(work, f)
		}
	}
	for len(work) > 0 {
		f := work[len(work)-1]
		work = work[:len(work)-1]
		ast.Inspect(decls[f].Body, func(x ast.Node) bool {
			if ce, ok := x.(*ast.CallExpr); ok {
				if c := calleeOf(p, ce); c != nil && decls[c] != nil && !scope[c] {
					scope[c] = true
					work = append(work, c)
				}
			}
			return true
		})
	}
	var fs []*types.Func
	for f := range scope {
		fs = append(fs, f)
	}
	sort.Slice(fs, func(i, j int) bool { return funcDeclName(decls[fs[i]]) < funcDeclName(decls[fs[j]]) })
	for _, fn := range fs {
		fd := decls[fn]
		name := funcDeclName(fd)
		k := 0
		ast.Inspect(fd.Body, func(x ast.Node) bool {
			ce, ok := x.(*ast.CallExpr)
			if !ok {
				return true
			}
			f := calleeOf(p, ce)
			if f == nil || f.Pkg() == nil {
				return true
			}
			why := ""
			switch f.FullName() {
			case "strconv.ParseBool":
				why = "strconv.ParseBool also accepts 1, t, T, TRUE, True, 0, f, F, FALSE, False; the ABNF allows only true|false"
			case "strconv.ParseInt", "strconv.ParseUint":
				if b, ok := ConstInt(p, ce.Args[1]); !ok || b != 10 {
					why = "base-0 parsing also accepts 0x.., 0b.., 0o.. and '_' separators; the ABNF allows decimal digits only"
				}
			case "strconv.Atoi":
				why = "strconv.Atoi also accepts a leading '+' or '-' where the ABNF requires DIGITs"
			case "strings.Fields", "strings.TrimSpace", "unicode.IsSpace", "strings.FieldsFunc":
				if f.FullName() != "strings.FieldsFunc" {
					why = f.FullName() + " uses Unicode White_Space (NBSP, form feed, U+2009, U+3000 …); the ABNF separators are SP, HTAB, CR and LF only, so text the grammar rejects as one malformed token is split/trimmed into valid ones"
				}
			case "unicode.IsLetter", "unicode.IsDigit", "unicode.IsNumber":
				why = f.FullName() + " on a byte widened to a rune accepts non-ASCII letters/digits; the ABNF ALPHA/DIGIT are ASCII"
			}
			if why != "" {
				k++
				r.Fail("R09.4", fmt.Sprintf("%s calls %s", name, f.FullName()), ce.Pos(), why)
			}
			return true
		})
		if k == 0 {
			r.OK("R09.4", name, fd.Pos(), "no over-accepting stdlib recogniser")
		}
	}
	if len(fs) < 20 {
		r.Fail("R09.4", "argument parsers", token.NoPos, fmt.Sprintf("only %d argument parser functions found", len(fs)))
	}
}

// c09CheckModule (R09.5).  checkModule walks the substatements with one
// remembered integer, the section reached so far.  Whatever the spelling — a
// switch with one arm per section, or a table from statement kind to section
// — one iteration is a function of (statement kind, section so far) to
// (rejected?, section afterwards).  That function is read off the loop for
// every statement kind and every section value by evaluating the exit and
// go-round conditions under the finite model (kind = v, section = p), and
// compared with RFC 6020 §7.1: a statement of section S is rejected iff a
// later section was reached, and otherwise S becomes the section reached;
// sections are ordered header < linkage < meta < revision < body; statements
// of unknown (prefixed) kind are accepted anywhere and change nothing.
func c09CheckModule(w *World, r *Report) {
	fn := w.Func("parse", "checkModule")
	fd, _ := w.FuncDecl(fn)
	f := w.SSAFunc(fn)
	names, byName := nodeTypeNames(w)
	if f == nil {
		panic(undecided{"parse.checkModule"})
	}
	sym := NewSym(w)
	var loop *ssaLoop
	var prev *ssa.Phi
	loops := ssaLoops(f)
	for i := range loops {
		for _, in := range loops[i].Header.Instrs {
			if phi, ok := in.(*ssa.Phi); ok && isIntegerType(phi.Type()) && !isRangeIndexPhi(phi) {
				loop, prev = &loops[i], phi
			}
		}
	}
	if loop == nil {
		panic(undecided{"checkModule switch"})
	}
	body := loop.body()
	// the section before the first statement
	var initial int64
	okInit := false
	for i, e := range prev.Edges {
		if !body[prev.Block().Preds[i]] {
			initial, okInit = intConstOf(e)
		}
	}
	if !okInit {
		panic(undecided{"checkModule: initial section"})
	}
	isKind := func(v ssa.Value) bool { // the statement's kind: x.Type() of the loop element
		c, ok := v.(*ssa.Call)
		return ok && c.Call.IsInvoke() && nm(c.Call.Method) == "Type" && len(c.Call.Args) == 0
	}
	type verdict struct {
		rejected bool
		next     int64
	}
	step := func(kind, sect int64) (verdict, string) {
		var constUnder func(v ssa.Value, d int) (int64, bool)
		var model func(a *pcAtom) (bool, bool)
		busy := map[*ssa.Phi]bool{}
		constUnder = func(v ssa.Value, d int) (int64, bool) {
			for {
				switch x := v.(type) {
				case *ssa.ChangeType:
					v = x.X
					continue
				case *ssa.Convert:
					v = x.X
					continue
				}
				break
			}
			if d > 6 {
				return 0, false
			}
			if c, ok := intConstOf(v); ok {
				return c, true
			}
			if v == ssa.Value(prev) {
				return sect, true
			}
			if isKind(v) {
				return kind, true
			}
			if keys, vals, idx, ok := pcTableEntries(w, v, true); ok && isKind(idx) {
				for i, k := range keys {
					if kv, isInt := constant.Int64Val(constant.ToInt(k)); isInt && kv == kind && vals[i] != nil {
						return constant.Int64Val(constant.ToInt(vals[i]))
					}
				}
				return 0, true // absent key: the zero value
			}
			// a result of a helper of the module (kind ↦ section): the exit taken under the model
			{
				var call *ssa.Call
				idx := 0
				switch x := v.(type) {
				case *ssa.Call:
					call = x
				case *ssa.Extract:
					call, _ = x.Tuple.(*ssa.Call)
					idx = x.Index
				}
				if call != nil && call.Call.StaticCallee() != nil && call.Call.StaticCallee().Blocks != nil && strings.HasPrefix(pkgPathOf(call.Call.StaticCallee()), modPath) && len(ssaLoops(call.Call.StaticCallee())) == 0 && d < 4 {
					h := call.Call.StaticCallee()
					hctx := &symCtx{call: call}
					var got *int64
					for _, row := range sym.retTableCtx(h, idx, hctx, 0) {
						hit, decided := pcEvalFree(row.cond, model)
						if !decided {
							return 0, false
						}
						if !hit {
							continue
						}
						rv := row.val
						if row.ctx != nil {
							rv = sym.Resolve(rv, row.ctx)
						} else {
							rv = sym.Resolve(rv, hctx)
						}
						c, ok := constUnder(rv, d+1)
						if !ok || (got != nil && *got != c) {
							return 0, false
						}
						got = &c
					}
					if got != nil {
						return *got, true
					}
					return 0, false
				}
			}
			if phi, ok := v.(*ssa.Phi); ok && phi != prev {
				if busy[phi] {
					return 0, false
				}
				busy[phi] = true
				defer delete(busy, phi)
				tv, decided := sym.ValueUnder(f, phi, model, 0)
				if !decided || tv == ssa.Value(phi) {
					return 0, false
				}
				return constUnder(tv, d+1)
			}
			return 0, false
		}
		model = func(a *pcAtom) (bool, bool) {
			if pcIsIter(a) {
				return true, true
			}
			if bo, ok := a.v.(*ssa.BinOp); ok && a.subj != "" {
				for _, side := range []ssa.Value{bo.X, bo.Y} {
					if _, isC := side.(*ssa.Const); isC {
						continue
					}
					if c, ok := constUnder(sym.Resolve(side, a.ctx), 0); ok {
						return a.set.contains(c), true
					}
				}
			}
			if keys, _, idx, ok := pcTableEntries(w, a.v, false); ok && isKind(sym.Resolve(idx, a.ctx)) {
				for _, k := range keys {
					if kv, isInt := constant.Int64Val(constant.ToInt(k)); isInt && kv == kind {
						return true, true
					}
				}
				return false, true
			}
			if (a.op == token.EQL || a.op == token.LSS) && a.x != nil && a.y != nil && isIntegerType(a.x.Type()) {
				x, okx := constUnder(sym.Resolve(a.x, a.ctx), 0)
				y, oky := constUnder(sym.Resolve(a.y, a.ctx), 0)
				if okx && oky {
					if a.op == token.EQL {
						return x == y, true
					}
					return x < y, true
				}
			}
			return false, false
		}
		// rejected: an exit of the iteration that returns an error
		rejected, nOut := false, 0
		for _, b := range f.Blocks {
			ret, ok := b.Instrs[len(b.Instrs)-1].(*ssa.Return)
			if !ok || len(ret.Results) != 1 || isNilConst(ret.Results[0]) {
				continue
			}
			if !(body[b] || (loop.Header.Dominates(b) && reachesLatchFree(b, *loop))) {
				continue
			}
			hit, decided := pcEvalFree(sym.PathCond(loop.Header, b, nil), model)
			if !decided && os.Getenv("YV_DEBUG") != "" {
				for _, a := range sym.PathCond(loop.Header, b, nil).atoms() {
					if _, known := model(a); !known {
						fmt.Printf("DEBUG R09.5 unknown atom: %s %T %v\n", a.key, a.v, a.v)
					}
				}
			}
			if !decided {
				return verdict{}, "whether the statement is rejected depends on more than its kind and the section reached"
			}
			if hit {
				rejected = true
				nOut++
			}
		}
		var next int64
		for _, lt := range loop.Latches {
			hit, decided := pcEvalFree(sym.RoundCond(loop.Header, lt, nil), model)
			if !decided {
				return verdict{}, "whether the scan goes on depends on more than the statement's kind and the section reached"
			}
			if !hit {
				continue
			}
			nOut++
			nv, ok := constUnder(phiEdge(prev, lt), 0)
			if !ok {
				return verdict{}, "the section remembered afterwards is not a function of the statement's kind and the section reached"
			}
			next = nv
		}
		if nOut != 1 {
			return verdict{}, fmt.Sprintf("%d ways out of one iteration are taken at once", nOut)
		}
		return verdict{rejected, next}, ""
	}
	// the section of every statement kind, as RFC 6020 has it
	sectionOf := map[int64]string{}
	for sec, kws := range rfcSections {
		for _, kw := range kws {
			for _, v := range byName[kw] {
				sectionOf[v] = sec
			}
		}
	}
	var kinds []int64
	for v := range names {
		kinds = append(kinds, v)
	}
	sort.Slice(kinds, func(i, j int) bool { return kinds[i] < kinds[j] })
	unknown := byName["unknown"]
	isUnknown := func(v int64) bool {
		for _, u := range unknown {
			if u == v {
				return true
			}
		}
		return false
	}
	// the rank each section gets: the section remembered after one of its statements is met first
	order := []string{"header", "linkage", "meta", "revision", "body"}
	rank := map[string]int64{}
	problems := map[string]string{}
	for _, v := range kinds {
		if isUnknown(v) {
			continue
		}
		sec := sectionOf[v]
		if sec == "" {
			sec = "body"
		}
		vd, why := step(v, initial)
		switch {
		case why != "":
			problems[sec] = "'" + names[v] + "': " + why
		case vd.rejected:
			problems[sec] = "'" + names[v] + "' is rejected as the first statement of a module"
		default:
			if old, seen := rank[sec]; seen && old != vd.next {
				problems[sec] = "'" + names[v] + "' does not lead to the same section as the other " + sec + " statements"
			}
			rank[sec] = vd.next
		}
	}
	for i, sec := range order {
		if i > 0 && problems[sec] == "" && problems[order[i-1]] == "" && rank[sec] <= rank[order[i-1]] {
			problems[sec] = "the " + sec + " section does not rank above the " + order[i-1] + " section"
		}
	}
	if rank["header"] != initial && problems["header"] == "" {
		problems["header"] = "a header statement moves the section on"
	}
	// every statement kind against every section reached
	for _, v := range kinds {
		sec := sectionOf[v]
		if sec == "" {
			sec = "body"
		}
		for _, from := range order {
			p := rank[from]
			vd, why := step(v, p)
			switch {
			case why != "":
				if isUnknown(v) {
					problems["extension"] = why
				} else if problems[sec] == "" {
					problems[sec] = "'" + names[v] + "': " + why
				}
			case isUnknown(v):
				if vd.rejected || vd.next != p {
					problems["extension"] = "an extension statement is rejected or moves the section (after " + from + ")"
				}
			case problems[sec] != "":
			case vd.rejected != (p > rank[sec]):
				problems[sec] = fmt.Sprintf("'%s' after a %s statement: rejected=%v, RFC 6020 says %v", names[v], from, vd.rejected, p > rank[sec])
			case !vd.rejected && vd.next != rank[sec]:
				problems[sec] = fmt.Sprintf("'%s' after a %s statement does not leave the section at %s", names[v], from, sec)
			}
		}
	}
	r.Check(problems["header"] == "", "R09.5", "checkModule header arm", fd.Pos(),
		"{yang-version,namespace,prefix,belongs-to}: rejected unless still in the header", "header statements are not exactly {yang-version,namespace,prefix,belongs-to}, or are no longer rejected after another section has started: "+problems["header"])
	for _, sec := range []string{"linkage", "meta", "revision"} {
		r.Check(problems[sec] == "", "R09.5", "checkModule "+sec+" arm", fd.Pos(), fmt.Sprintf("{%s}: reject if prev > own rank, then prev = own rank", strings.Join(rfcSections[sec], ",")),
			"section '"+sec+"' must be exactly {"+strings.Join(rfcSections[sec], ",")+"}, reject when a later section was seen (prev > rank) and then raise prev to its own, strictly larger, rank: "+problems[sec])
	}
	r.Check(problems["body"] == "", "R09.5", "checkModule body arm", fd.Pos(), "default arm is the body section with the highest rank", "the default (body) arm must set the highest rank: "+problems["body"])
	r.Check(problems["extension"] == "", "R09.5", "checkModule extension arm", fd.Pos(), "prefixed extension statements do not move the section", "extension statements must be accepted anywhere without affecting the section state: "+problems["extension"])
}

func c09RevisionOrder(w *World, r *Report) {
	fs := c09RevisionFacts(w)
	r.Check(fs.afterWhy == "", "R09.6", "checkRevisionOrder later date", fs.pos, "thisRev.After(prev) ⇒ error", "a revision later than its predecessor is no longer rejected"+fs.afterWhy)
	r.Check(fs.equalWhy == "", "R09.6", "checkRevisionOrder equal date", fs.pos, "thisRev == prev ⇒ error", "two revisions with the same date are no longer rejected (order must be strictly descending)"+fs.equalWhy)
}

func c09CheckCardinality(w *World, r *Report) {
	m := w.Method("parse", "node", "checkCardinality")
	fd, p := w.FuncDecl(m)
	_ = p
	// skip set: for which node types the function answers nil before it has counted anything
	names, _ := nodeTypeNames(w)
	skip := map[string]bool{}
	isDev := w.Method("parse", "NodeType", "IsDeviateNode")
	if f := w.SSAFunc(m); f != nil {
		sym := NewSym(w)
		sym.Expand = false
		pe0 := NewPredEval(w, intDom{})
		pe0.Subject = func(pp *packagesPackage, fdd *ast.FuncDecl, e ast.Expr) bool {
			return fdd.Recv != nil && len(fdd.Recv.List[0].Names) == 1 && objOfIdent(pp, e) == pp.TypesInfo.Defs[fdd.Recv.List[0].Names[0]]
		}
		devSet0 := pe0.TrueSet(isDev).(ISet)
		var firstLoop *ssa.BasicBlock
		for _, l := range ssaLoops(f) {
			if firstLoop == nil || l.Header.Index < firstLoop.Index {
				firstLoop = l.Header
			}
		}
		early := pcZ
		for _, b := range f.Blocks {
			ret, ok := b.Instrs[len(b.Instrs)-1].(*ssa.Return)
			if !ok || len(ret.Results) != 1 || !isNilConst(ret.Results[0]) {
				continue
			}
			if firstLoop != nil && firstLoop.Dominates(b) {
				continue
			}
			early = pcOrF(early, sym.PathCond(f.Blocks[0], b, nil))
		}
		isTypeCall := func(v ssa.Value) bool {
			c, ok := v.(*ssa.Call)
			if !ok {
				return false
			}
			n := ""
			if c.Call.IsInvoke() {
				n = c.Call.Method.Name()
			} else if sc := c.Call.StaticCallee(); sc != nil {
				n = nm(sc)
			}
			return n == "Type"
		}
		for v, name := range names {
			got, ok, und := pcEvalUnder(early, func(a *pcAtom) (bool, bool) {
				if bo, ok := a.v.(*ssa.BinOp); ok && a.subj != "" && (isTypeCall(bo.X) || isTypeCall(bo.Y)) {
					return a.set.contains(v), true
				}
				if c, ok := a.v.(*ssa.Call); ok {
					cn := ""
					if c.Call.IsInvoke() {
						cn = c.Call.Method.Name()
					} else if sc := c.Call.StaticCallee(); sc != nil {
						cn = nm(sc)
					}
					if cn == "IsDeviateNode" {
						return devSet0.contains(v), true
					}
				}
				return false, false
			})
			if !ok {
				skip["?"+und] = true
				continue
			}
			if got {
				if devSet0.contains(v) {
					skip["deviate*"] = true
				} else {
					skip[name] = true
				}
			}
		}
	}
	var sk []string
	for k := range skip {
		sk = append(sk, k)
	}
	sort.Strings(sk)
	r.Check(strings.Join(sk, ",") == "deviate*,refine,unknown", "R09.7", "checkCardinality skip set", fd.Pos(), strings.Join(sk, ","), "cardinality is skipped for {"+strings.Join(sk, ",")+"}; only unknown, refine and deviate kinds may be exempt")
	// deviate range
	pe := NewPredEval(w, intDom{})
	pe.Subject = func(pp *packagesPackage, f *ast.FuncDecl, e ast.Expr) bool {
		return f.Recv != nil && len(f.Recv.List[0].Names) == 1 && objOfIdent(pp, e) == pp.TypesInfo.Defs[f.Recv.List[0].Names[0]]
	}
	devSet := pe.TrueSet(isDev).(ISet)
	var dn []string
	for v, n := range names {
		if devSet.contains(v) {
			dn = append(dn, n)
		}
	}
	sort.Strings(dn)
	r.Check(strings.Join(dn, ",") == "deviate-add,deviate-delete,deviate-not-supported,deviate-replace", "R09.7", "NodeType.IsDeviateNode", token.NoPos, strings.Join(dn, ","), "IsDeviateNode covers {"+strings.Join(dn, ",")+"}")

	// the table loop as a decision: for a cell (Start, End) and a count, an error exit is taken
	// within the iteration exactly when a required statement is missing or an at-most-one
	// statement occurs twice
	missingWhy, tooManyWhy := c09CardinalityDecision(w)
	var invalid int
	ast.Inspect(fd.Body, func(n ast.Node) bool {
		if x, ok := n.(*ast.IfStmt); ok {
			// `_, ok := n.card[k]; k != unknown && k != datadef && !ok`
			if x.Init != nil && len(returnsIn(x.Body)) == 1 {
				hasNot := false
				ast.Inspect(x.Cond, func(y ast.Node) bool {
					if u, ok := y.(*ast.UnaryExpr); ok && u.Op == token.NOT {
						hasNot = true
					}
					return true
				})
				if hasNot {
					invalid++
				}
			}
		}
		return true
	})
	r.Check(missingWhy == "", "R09.7", "checkCardinality required-missing test", fd.Pos(), "Start=='1' && count<1 ⇒ error (1..1 and 1..n)", "a required (min 1) substatement that is absent is no longer rejected for both 1..1 and 1..n cells: "+missingWhy)
	r.Check(tooManyWhy == "", "R09.7", "checkCardinality at-most-one test", fd.Pos(), "End=='1' && count>1 ⇒ error", "a second occurrence of an at-most-one substatement is no longer rejected: "+tooManyWhy)
	r.Check(invalid >= 1, "R09.7", "checkCardinality unknown-substatement test", fd.Pos(), "child type not in the row ⇒ error", "a substatement that has no cell in the parent's row is no longer rejected")

	// check() calls checkArgument and checkCardinality, and checkModule/checkRevisionOrder
	cm := w.Method("parse", "node", "check")
	cfd, cp := w.FuncDecl(cm)
	need := []*types.Func{w.Method("parse", "hasArgument", "checkArgument"), m, w.Func("parse", "checkModule"), w.Func("parse", "checkRevisionOrder")}
	okAll := true
	for _, f := range need {
		found := false
		for _, ce := range callsIn(cp, cfd.Body) {
			if c := calleeOf(cp, ce); c == f || (c != nil && c.Name() == f.Name()) {
				found = true
			}
		}
		if !found {
			okAll = false
		}
	}
	// each error is returned: every `if e != nil` returns e
	r.Check(okAll, "R09.7", "node.check", cfd.Pos(), "argument, cardinality, section and revision checks all run", "node.check no longer runs all of checkArgument, checkCardinality, checkModule, checkRevisionOrder")
	// stmt(): the node built is checked and the error becomes a panic with context
	st := w.Method("parse", "Tree", "stmt")
	sfd, sp := w.FuncDecl(st)
	checkI := w.interfaceMethod("parse", "Node", "check")
	hasCheck := false
	for _, cfd := range localHelperDecls(w, sp, st) {
		ast.Inspect(cfd.Body, func(n ast.Node) bool {
			if ce, ok := n.(*ast.CallExpr); ok {
				if c := calleeOf(sp, ce); c == cm || c == checkI {
					hasCheck = true
				}
			}
			return true
		})
	}
	r.Check(hasCheck, "R09.7", "Tree.stmt checks the node", sfd.Pos(), "calls check() on the node it builds", "Tree.stmt no longer validates the statement it has built")
}

// c09TableReadOnly: SSA who-writes query on the global table.
func c09TableReadOnly(w *World, r *Report) {
	prog := w.SSA()
	pk := w.SSAPkg("parse")
	g, ok := ssaMember(pk, "cardinalities").(*ssa.Global)
	if !ok {
		panic(undecided{"parse.cardinalities global"})
	}
	_ = prog
	// values that may be the table or one of its rows: loads of g, lookups on those, and
	// anything they flow to through phi / field stores into node.card
	n := 0
	bad := 0
	cardField := w.Field("parse", "node", "card")
	for _, key := range []string{"parse", "compile", "schema"} {
		sp := w.SSAPkg(key)
		for _, fn := range allFuncs(sp) {
			if isTestFile(w, fn.Pos()) {
				continue
			}
			tainted := map[ssa.Value]bool{}
			changed := true
			for changed {
				changed = false
				for _, b := range fn.Blocks {
					for _, in := range b.Instrs {
						v, isVal := in.(ssa.Value)
						if !isVal || tainted[v] {
							continue
						}
						t := false
						switch x := in.(type) {
						case *ssa.UnOp:
							if x.Op == token.MUL && x.X == ssa.Value(g) {
								t = true
							}
							// load of a field that holds an aliased row
							if fa, ok := x.X.(*ssa.FieldAddr); ok && x.Op == token.MUL && isFieldAddrOf(fa, cardField) && fieldAliased[fn] {
								t = true
							}
						case *ssa.Lookup:
							t = tainted[x.X]
						case *ssa.Extract:
							t = tainted[x.Tuple]
						case *ssa.Phi:
							for _, e := range x.Edges {
								if tainted[e] {
									t = true
								}
							}
						case *ssa.Call:
							if c := x.Call.StaticCallee(); c != nil && c.Pkg == pk && nm(c) == "yangCardinality" {
								t = true
							}
						case *ssa.ChangeType:
							t = tainted[x.X]
						case *ssa.MakeInterface:
							t = tainted[x.X]
						}
						if t {
							tainted[v] = true
							changed = true
						}
					}
				}
			}
			for _, b := range fn.Blocks {
				for _, in := range b.Instrs {
					switch x := in.(type) {
					case *ssa.MapUpdate:
						n++
						if tainted[x.Map] {
							bad++
							r.Fail("R09.8", "map update in "+funcKey(fn), x.Pos(), "writes into parse.cardinalities (or one of its rows) through an alias: one parse changes the RFC table for every later parse")
						}
					case *ssa.Store:
						// storing a tainted row into node.card makes later updates through the field writes to the table
						if fa, ok := x.Addr.(*ssa.FieldAddr); ok && isFieldAddrOf(fa, cardField) && tainted[x.Val] {
							// look for a map update on a load of the same field in this function
							for _, b2 := range fn.Blocks {
								for _, in2 := range b2.Instrs {
									if mu, ok := in2.(*ssa.MapUpdate); ok {
										if ld, ok := mu.Map.(*ssa.UnOp); ok {
											if fa2, ok := ld.X.(*ssa.FieldAddr); ok && isFieldAddrOf(fa2, cardField) {
												bad++
												r.Fail("R09.8", "aliased row updated in "+funcKey(fn), mu.Pos(), "a row of parse.cardinalities is stored in node.card without copying and then updated: the shared RFC table is modified")
											}
										}
									}
								}
							}
						}
					}
				}
			}
		}
	}
	if bad == 0 {
		r.OK("R09.8", "parse.cardinalities writers", token.NoPos, fmt.Sprintf("%d map updates inspected, none can reach the table", n))
	}
	r.Count("map updates inspected", n)
}

var fieldAliased = map[*ssa.Function]bool{}

func isFieldAddrOf(fa *ssa.FieldAddr, fv *types.Var) bool {
	t := fa.X.Type()
	if p, ok := t.Underlying().(*types.Pointer); ok {
		t = p.Elem()
	}
	st, ok := t.Underlying().(*types.Struct)
	if !ok || fa.Field >= st.NumFields() {
		return false
	}
	return st.Field(fa.Field) == fv
}

// allFuncs lists the source functions of an SSA package, including methods
// and anonymous functions.
func allFuncs(p *ssa.Package) []*ssa.Function {
	var out []*ssa.Function
	seen := map[*ssa.Function]bool{}
	var add func(f *ssa.Function)
	add = func(f *ssa.Function) {
		if f == nil || seen[f] || f.Blocks == nil {
			return
		}
		seen[f] = true
		out = append(out, f)
		for _, a := range f.AnonFuncs {
			add(a)
		}
	}
	for _, m := range p.Members {
		switch x := m.(type) {
		case *ssa.Function:
			add(x)
		case *ssa.Type:
			for _, t := range []types.Type{x.Type(), types.NewPointer(x.Type())} {
				ms := p.Prog.MethodSets.MethodSet(t)
				for i := 0; i < ms.Len(); i++ {
					f := p.Prog.MethodValue(ms.At(i))
					if f != nil && f.Pkg == p {
						add(f)
					}
				}
			}
		}
	}
	sort.Slice(out, func(i, j int) bool { return out[i].String() < out[j].String() })
	return out
}

var _ = constant.MakeBool

// c09XmlPrefix: the set of identifier lengths for which the xml-prefix test
// is evaluated must be [3, +inf), and the test must lead to an error.
func c09XmlPrefix(w *World, r *Report) {
	m := w.Method("parse", "IdArg", "Parse")
	fd, p := w.FuncDecl(m)
	isLenCall := func(pp *packagesPackage, _ *ast.FuncDecl, e ast.Expr) bool {
		ce, ok := ast.Unparen(e).(*ast.CallExpr)
		if !ok || len(ce.Args) != 1 {
			return false
		}
		id, ok := ce.Fun.(*ast.Ident)
		if !ok || id.Name != "len" {
			return false
		}
		_, isB := pp.TypesInfo.Uses[id].(*types.Builtin)
		t := pp.TypesInfo.TypeOf(ce.Args[0])
		return isB && t != nil && types.Identical(t.Underlying(), types.Typ[types.String])
	}
	pe := NewPredEval(w, intDom{})
	pe.Subject = isLenCall
	isXmlTest := func(e ast.Expr) bool {
		found := false
		ast.Inspect(e, func(n ast.Node) bool {
			if v := ConstOf(p, asExpr(n)); v != nil && v.Kind() == constant.String && strings.EqualFold(constant.StringVal(v), "xml") {
				found = true
			}
			return true
		})
		return found
	}
	lenCond := func(e ast.Expr) (set ISet, ok bool) {
		defer func() {
			if x := recover(); x != nil {
				if _, isU := x.(undecided); isU {
					ok = false
					return
				}
				panic(x)
			}
		}()
		return pe.cond(p, fd, e).(ISet), true
	}
	var testReach ISet
	found, errBody := false, false
	var walk func(list []ast.Stmt, reach ISet) ISet
	walk = func(list []ast.Stmt, reach ISet) ISet {
		for _, s := range list {
			is, ok := s.(*ast.IfStmt)
			if !ok {
				continue
			}
			cur := reach
			xml := false
			for _, c := range flattenAnd(is.Cond) {
				if isXmlTest(c) {
					xml = true
					continue
				}
				if set, ok := lenCond(c); ok && !xml {
					cur = cur.intersect(set)
				}
			}
			if xml {
				found = true
				testReach = testReach.union(cur)
				rets := returnsIn(is.Body)
				errBody = len(rets) == 1 && len(rets[0].Results) == 1 && !isNilIdent(p, rets[0].Results[0])
				continue
			}
			walk(is.Body.List, cur)
			// early exit narrows what follows
			if n := len(is.Body.List); n > 0 {
				if _, isRet := is.Body.List[n-1].(*ast.ReturnStmt); isRet {
					if set, ok := lenCond(is.Cond); ok {
						reach = reach.minus(set)
					}
				}
			}
		}
		return reach
	}
	walk(fd.Body.List, isetRange(0, 1<<40))
	want := isetRange(3, 1<<40)
	if !found {
		r.Fail("R09.9", "IdArg.Parse xml-prefix test", fd.Pos(), "no test against the reserved prefix xml found")
		return
	}
	r.Check(errBody && testReach.intersect(want).equal(want), "R09.9", "IdArg.Parse xml-prefix test", fd.Pos(),
		"evaluated for every length >= 3 and leads to an error",
		fmt.Sprintf("the reserved-prefix test is evaluated only for identifier lengths %s (must cover every length >= 3) or does not reject", testReach.intersect(want)))
}

func asExpr(n ast.Node) ast.Expr {
	if e, ok := n.(ast.Expr); ok {
		return e
	}
	return nil
}

// c09StatelessParse (R09.11): an argument parser's verdict comes from
// validating the text, not from what an earlier call left in the object
// (arguments are interned and shared). In every Parse method that validates
// at all (contains a call), no success return is reachable from the entry
// without passing at least one call.
func c09StatelessParse(w *World, r *Report) {
	sp := w.SSAPkg("parse")
	n := 0
	// does v derive from the receiver's text field `arg` (or from any call result)?
	var dependsOnText func(v ssa.Value, d int) bool
	dependsOnText = func(v ssa.Value, d int) bool {
		if d > 8 || v == nil {
			return false
		}
		switch x := v.(type) {
		case *ssa.FieldAddr:
			st, ok := x.X.Type().(*types.Pointer)
			if ok {
				if s2, ok := st.Elem().Underlying().(*types.Struct); ok && nm(s2.Field(x.Field)) == "arg" {
					return true
				}
			}
			return dependsOnText(x.X, d+1)
		case *ssa.Field:
			if s2, ok := x.X.Type().Underlying().(*types.Struct); ok && nm(s2.Field(x.Field)) == "arg" {
				return true
			}
			return dependsOnText(x.X, d+1)
		case *ssa.Call:
			return true
		case *ssa.Parameter, *ssa.Const, *ssa.Alloc, *ssa.Global:
			return false
		}
		if in, ok := v.(ssa.Instruction); ok {
			for _, op := range in.Operands(nil) {
				if *op != nil && dependsOnText(*op, d+1) {
					return true
				}
			}
		}
		return false
	}
	for _, f := range allFuncs(sp) {
		if nm(f) != "Parse" || f.Signature.Recv() == nil || f.Parent() != nil {
			continue
		}
		if f.Signature.Results().Len() != 1 || f.Signature.Results().At(0).Type().String() != "error" {
			continue
		}
		isCall := func(in ssa.Instruction) bool {
			c, ok := in.(ssa.CallInstruction)
			if !ok {
				return false
			}
			if _, isB := c.Common().Value.(*ssa.Builtin); isB {
				return false
			}
			return true
		}
		has := false
		for _, b := range f.Blocks {
			for _, in := range b.Instrs {
				if isCall(in) {
					has = true
				}
			}
		}
		if !has {
			continue
		}
		n++
		// blocks reachable from entry without executing a call
		bad := false
		var pos token.Pos
		seen := map[*ssa.BasicBlock]bool{}
		work := []*ssa.BasicBlock{f.Blocks[0]}
		for len(work) > 0 {
			b := work[len(work)-1]
			work = work[:len(work)-1]
			if seen[b] {
				continue
			}
			seen[b] = true
			called := false
			for _, in := range b.Instrs {
				if isCall(in) {
					called = true
					break
				}
				if ret, ok := in.(*ssa.Return); ok && len(ret.Results) == 1 {
					if c, ok := ret.Results[0].(*ssa.Const); ok && c.IsNil() {
						bad = true
						pos = ret.Pos()
					}
				}
			}
			if !called {
				// a branch on the argument text itself is a validation step as well
				if iff, ok := b.Instrs[len(b.Instrs)-1].(*ssa.If); ok && dependsOnText(iff.Cond, 0) {
					continue
				}
				work = append(work, b.Succs...)
			}
		}
		recv := strings.TrimPrefix(types.TypeString(f.Signature.Recv().Type(), func(*types.Package) string { return "" }), "*")
		r.Check(!bad, "R09.11", recv+".Parse validates before it accepts", pos, "every success return follows a validation call", "there is a path on which "+recv+".Parse returns nil without having validated anything (e.g. because a field left by an earlier call is set): interned arguments are shared, so a text rejected once is accepted the next time")
	}
	if n < 10 {
		panic(undecided{"fewer validating Parse methods than expected"})
	}
}

// c09RevisionChain (R09.12): revision dates are strictly descending means each
// revision is compared with its predecessor. In checkRevisionOrder the value
// the current date is compared with is a loop-carried variable that, at the
// end of every iteration which parsed a revision date, holds that date; on
// other iterations it is carried over unchanged.
func c09RevisionChain(w *World, r *Report) {
	fs := c09RevisionFacts(w)
	r.Check(fs.chainWhy == "", "R09.12", "checkRevisionOrder compares each revision with its predecessor", fs.phiPos, "remembered date = the date just parsed, on every revision iteration", fs.chainWhy+": order violations and duplicates among later revisions are accepted (e.g. 2020-06-01 / 2018-01-15 / 2019-03-01)")
}

type c09RevFacts struct {
	pos, phiPos        token.Pos
	chainWhy           string // R09.12
	afterWhy, equalWhy string // R09.6 ("" = holds; else a reason, appended to the message)
}

// c09RevisionFacts reads checkRevisionOrder (and the loop-free helpers it
// hands the work to) as: a loop with a remembered date; on every iteration
// that parses a revision date, the path that goes on to the next iteration
// remembers exactly that date (R09.12) and is only taken when the date is
// neither after nor equal to the remembered one (R09.6).
func c09RevisionFacts(w *World) c09RevFacts {
	f := w.SSAFunc(w.Func("parse", "checkRevisionOrder"))
	if f == nil {
		panic(undecided{"parse.checkRevisionOrder"})
	}
	out := c09RevFacts{pos: f.Pos(), phiPos: f.Pos()}
	sym := NewSym(w)
	sym.Expand = true
	isParse0 := func(v ssa.Value) bool {
		ex, ok := v.(*ssa.Extract)
		if !ok || ex.Index != 0 {
			return false
		}
		c, ok := ex.Tuple.(*ssa.Call)
		return ok && c.Call.StaticCallee() != nil && c.Call.StaticCallee().String() == "time.Parse"
	}
	var reachesParse func(fn *ssa.Function, depth int) bool
	reachesParse = func(fn *ssa.Function, depth int) bool {
		if fn == nil {
			return false
		}
		if fn.String() == "time.Parse" {
			return true
		}
		if depth > 3 || fn.Blocks == nil || !strings.HasPrefix(pkgPathOf(fn), modPath) {
			return false
		}
		for _, b := range fn.Blocks {
			for _, in := range b.Instrs {
				if c, ok := in.(*ssa.Call); ok && reachesParse(c.Call.StaticCallee(), depth+1) {
					return true
				}
			}
		}
		return false
	}
	mkOrderAtom := func(isThis, isPrev func(ssa.Value, *symCtx) bool) func(a *pcAtom, ord int) (val, known bool) {
		return func(a *pcAtom, ord int) (val, known bool) {
			rel := func(x, y ssa.Value) int { // +1: (this, prev); -1: (prev, this); 0: something else
				switch {
				case isThis(x, a.ctx) && isPrev(y, a.ctx):
					return 1
				case isPrev(x, a.ctx) && isThis(y, a.ctx):
					return -1
				}
				return 0
			}
			timeCall := func(v ssa.Value) (string, int) {
				c, ok := v.(*ssa.Call)
				if !ok || c.Call.StaticCallee() == nil || len(c.Call.Args) != 2 {
					return "", 0
				}
				return c.Call.StaticCallee().String(), rel(c.Call.Args[0], c.Call.Args[1])
			}
			if a.op == token.ILLEGAL && a.subj == "" {
				if name, d := timeCall(a.v); d != 0 {
					switch name {
					case "(time.Time).After":
						return ord*d > 0, true
					case "(time.Time).Before":
						return ord*d < 0, true
					case "(time.Time).Equal":
						return ord == 0, true
					}
				}
			}
			if a.op == token.EQL && a.x != nil && a.y != nil && a.x.Type().String() == "time.Time" && rel(a.x, a.y) != 0 {
				return ord == 0, true
			}
			if bo, ok := a.v.(*ssa.BinOp); ok && a.subj != "" {
				for _, side := range []ssa.Value{bo.X, bo.Y} {
					if name, d := timeCall(side); d != 0 && name == "(time.Time).Compare" {
						return a.set.contains(int64(ord * d)), true
					}
				}
			}
			return false, false
		}
	}
	checked := false
	for _, l := range ssaLoops(f) {
		body := l.body()
		var parseBlock *ssa.BasicBlock
		for b := range body {
			for _, in := range b.Instrs {
				if c, ok := in.(*ssa.Call); ok && reachesParse(c.Call.StaticCallee(), 0) {
					parseBlock = b
				}
			}
		}
		if parseBlock == nil {
			continue
		}
		for _, in := range l.Header.Instrs {
			phi, ok := in.(*ssa.Phi)
			if !ok || phi.Type().String() != "time.Time" {
				continue
			}
			checked = true
			out.phiPos = phi.Pos()
			isThis := func(v ssa.Value, ctx *symCtx) bool {
				os := sym.Origins(v, ctx, 0)
				for _, o := range os {
					if !isParse0(o.v) {
						return false
					}
				}
				return len(os) > 0
			}
			isPrev := func(v ssa.Value, ctx *symCtx) bool {
				for _, o := range sym.Origins(v, ctx, 0) {
					if o.v != ssa.Value(phi) {
						return false
					}
				}
				return true
			}
			// an atom that compares this date with the remembered one: its truth value when
			// this date is later (ord = 1), the same (0) or earlier (-1)
			orderAtom := mkOrderAtom(isThis, isPrev)
			for _, lt := range l.Latches {
				v := phiEdge(phi, lt)
				if !parseBlock.Dominates(lt) {
					if v != ssa.Value(phi) {
						out.chainWhy = "an iteration without a revision statement changes the remembered date"
					}
					continue
				}
				latchCond := sym.RoundCond(l.Header, lt, nil)
				for _, o := range sym.Origins(v, nil, 0) {
					full := pcAndF(latchCond, o.cond)
					if !pcSat(full) {
						continue
					}
					if !isParse0(o.v) {
						out.chainWhy = "after an iteration that parsed a revision date the remembered date is `" + o.v.String() + "`, not that date"
						continue
					}
					for _, ord := range []int{1, 0} {
						reached, decided := pcEvalFree(full, func(a *pcAtom) (bool, bool) { return orderAtom(a, ord) })
						if decided && !reached {
							continue
						}
						why := ": the loop can go on to the next revision although this date is not earlier than the remembered one"
						if ord == 1 {
							out.afterWhy = why
						} else {
							out.equalWhy = why
						}
					}
				}
			}
		}
	}
	if !checked {
		checked = c09RevisionStateStruct(w, f, sym, isParse0, reachesParse, mkOrderAtom, &out)
	}
	if !checked {
		panic(undecided{"checkRevisionOrder: loop-carried revision date not found"})
	}
	return out
}

// c09RevisionStateStruct: the remembered date lives in a field of a small
// state object and one loop-free function of the package, called in the loop
// for each revision, compares and updates it: every exit of that function
// that reports no error has stored the date just parsed into the field and is
// reached only when that date is earlier than the remembered one; the loop
// goes on only after such an exit, and nothing else writes the field.
func c09RevisionStateStruct(w *World, f *ssa.Function, sym *Sym, isParse0 func(ssa.Value) bool, reachesParse func(*ssa.Function, int) bool,
	mkOrderAtom func(isThis, isPrev func(ssa.Value, *symCtx) bool) func(*pcAtom, int) (bool, bool), out *c09RevFacts) bool {
	for _, l := range ssaLoops(f) {
		body := l.body()
		for b := range body {
			for _, in := range b.Instrs {
				c, ok := in.(*ssa.Call)
				if !ok {
					continue
				}
				h := c.Call.StaticCallee()
				if h == nil || h.Blocks == nil || h.Pkg != f.Pkg || len(ssaLoops(h)) > 0 || !reachesParse(h, 0) || h.Signature.Results().Len() != 1 {
					continue
				}
				// the field of time.Time that h reads and writes through one of its pointer parameters
				var state *ssa.Parameter
				field := -1
				var stores []*ssa.Store
				for _, hb := range h.Blocks {
					for _, hin := range hb.Instrs {
						st, isSt := hin.(*ssa.Store)
						if !isSt {
							continue
						}
						fa, isFA := st.Addr.(*ssa.FieldAddr)
						if !isFA || st.Val.Type().String() != "time.Time" {
							continue
						}
						prm, isP := fa.X.(*ssa.Parameter)
						if !isP {
							continue
						}
						if state != nil && (state != prm || field != fa.Field) {
							return false
						}
						state, field = prm, fa.Field
						stores = append(stores, st)
					}
				}
				if state == nil {
					continue
				}
				out.phiPos = h.Pos()
				isPrevLoad := func(v ssa.Value) bool {
					ld, isLd := v.(*ssa.UnOp)
					if !isLd || ld.Op != token.MUL {
						return false
					}
					fa, isFA := ld.X.(*ssa.FieldAddr)
					if !isFA || fa.X != ssa.Value(state) || fa.Field != field {
						return false
					}
					// read before any update
					for _, st := range stores {
						if st.Block() == ld.Block() {
							for _, x := range ld.Block().Instrs {
								if x == ssa.Instruction(st) {
									return false
								}
								if x == ssa.Instruction(ld) {
									break
								}
							}
						} else if st.Block().Dominates(ld.Block()) {
							return false
						}
					}
					return true
				}
				isThis := func(v ssa.Value, ctx *symCtx) bool {
					os := sym.Origins(v, ctx, 0)
					for _, o := range os {
						if !isParse0(o.v) {
							return false
						}
					}
					return len(os) > 0
				}
				isPrev := func(v ssa.Value, ctx *symCtx) bool {
					os := sym.Origins(v, ctx, 0)
					for _, o := range os {
						if !isPrevLoad(o.v) {
							return false
						}
					}
					return len(os) > 0
				}
				orderAtom := mkOrderAtom(isThis, isPrev)
				for _, hb := range h.Blocks {
					ret, isRet := hb.Instrs[len(hb.Instrs)-1].(*ssa.Return)
					if !isRet || len(ret.Results) != 1 {
						continue
					}
					stored := false
					for _, st := range stores {
						if st.Block() == hb || st.Block().Dominates(hb) {
							stored = true
							if !isThis(st.Val, nil) {
								out.chainWhy = "after a revision was accepted the remembered date is `" + st.Val.String() + "`, not that revision's date"
							}
						}
					}
					if !isNilConst(ret.Results[0]) {
						continue // a refusal: the walk ends
					}
					if !stored {
						out.chainWhy = "a revision is accepted without its date being remembered"
					}
					cond := sym.PathCond(h.Blocks[0], hb, nil)
					for _, ord := range []int{1, 0} {
						reached, decided := pcEvalFree(cond, func(a *pcAtom) (bool, bool) { return orderAtom(a, ord) })
						if decided && !reached {
							continue
						}
						why := ": the loop can go on to the next revision although this date is not earlier than the remembered one"
						if ord == 1 {
							out.afterWhy = why
						} else {
							out.equalWhy = why
						}
					}
				}
				// the loop goes on only when h reported no error, and nothing else writes the field
				for _, lt := range l.Latches {
					if !(c.Block() == lt || c.Block().Dominates(lt)) {
						continue
					}
					plain := NewSym(w)
					plain.Expand = false // the verdict of h as one test, not read through
					latchCond := plain.RoundCond(l.Header, lt, nil)
					sawErr := false
					msg := pcImplies(latchCond, func(a *pcAtom) string {
						if (a.op == token.EQL) && a.x != nil && a.y != nil && ((a.x == ssa.Value(c) && isNilConst(a.y)) || (a.y == ssa.Value(c) && isNilConst(a.x))) {
							sawErr = true
							return "noerr"
						}
						return ""
					}, func(env map[string]bool) bool { return env["noerr"] })
					if msg != "" || !sawErr {
						out.afterWhy, out.equalWhy = ": the walk goes on after a revision was refused", ": the walk goes on after a revision was refused"
					}
				}
				for _, fb := range f.Blocks {
					for _, fin := range fb.Instrs {
						if st, isSt := fin.(*ssa.Store); isSt {
							if fa, isFA := st.Addr.(*ssa.FieldAddr); isFA && fa.Field == field && st.Val.Type().String() == "time.Time" {
								out.chainWhy = "the remembered date is also written outside " + h.Name()
							}
						}
					}
				}
				return true
			}
		}
	}
	return false
}

// c09CardinalityDecision evaluates the loop of checkCardinality that walks the
// substatement table as a decision over (Start, End, count).
func c09CardinalityDecision(w *World) (missing, tooMany string) {
	f := w.SSAFunc(w.Method("parse", "node", "checkCardinality"))
	if f == nil {
		return "checkCardinality not found", "checkCardinality not found"
	}
	sym := NewSym(w)
	fieldOfAtom := func(a *pcAtom) string {
		bo, ok := a.v.(*ssa.BinOp)
		if !ok || a.subj == "" {
			return ""
		}
		for _, side := range []ssa.Value{bo.X, bo.Y} {
			if n := loadedFieldName(side); n == "Start" || n == "End" {
				return n
			}
			side = sym.Resolve(side, a.ctx) // the count handed to a helper
			if ex, ok := side.(*ssa.Lookup); ok && isIntegerType(ex.Type()) {
				return "count"
			}
			if ex, ok := side.(*ssa.Extract); ok {
				if l, ok := ex.Tuple.(*ssa.Lookup); ok && ex.Index == 0 && isIntegerType(ex.Type()) {
					_ = l
					return "count"
				}
			}
		}
		return ""
	}
	// the walk over the table: in checkCardinality, or in a function of the package it hands that part to
	type tableLoop struct {
		g *ssa.Function
		l ssaLoop
	}
	var walks []tableLoop
	for _, g := range bodiesDeep(f, 0) {
		if g.Pkg != f.Pkg {
			continue
		}
		for _, l := range ssaLoops(g) {
			walks = append(walks, tableLoop{g, l})
		}
	}
	for _, tl := range walks {
		f, l := tl.g, tl.l
		errCond := pcZ
		body := l.body()
		for _, b := range f.Blocks {
			ret, ok := b.Instrs[len(b.Instrs)-1].(*ssa.Return)
			if !ok || len(ret.Results) != 1 || isNilConst(ret.Results[0]) {
				continue
			}
			if !(body[b] || l.Header.Dominates(b) && reachesLatchFree(b, l)) {
				continue
			}
			errCond = pcOrF(errCond, sym.PathCond(l.Header, b, nil))
		}
		isTable := false
		for _, a := range errCond.atoms() {
			if n := fieldOfAtom(a); n == "Start" || n == "End" {
				isTable = true
			}
		}
		if !isTable {
			continue
		}
		for _, start := range []int64{'0', '1'} {
			for _, end := range []int64{'1', 'n'} {
				for _, count := range []int64{0, 1, 2, 5} {
					got, ok, und := pcEvalUnder(errCond, func(a *pcAtom) (bool, bool) {
						switch fieldOfAtom(a) {
						case "Start":
							return a.set.contains(start), true
						case "End":
							return a.set.contains(end), true
						case "count":
							return a.set.contains(count), true
						}
						if ex, ok := a.v.(*ssa.Extract); ok && ex.Index == 0 {
							if _, isNext := ex.Tuple.(*ssa.Next); isNext {
								return true, true // another table cell to look at
							}
						}
						return false, false
					})
					if !ok {
						return "depends on " + und, "depends on " + und
					}
					want := (start == '1' && count == 0) || (end == '1' && count > 1)
					if got != want {
						msg := fmt.Sprintf("cell %c..%c with %d occurrence(s): error=%v", rune(start), rune(end), count, got)
						if count == 0 {
							missing = msg
						} else {
							tooMany = msg
						}
					}
				}
			}
		}
		return missing, tooMany
	}
	return "no loop over the substatement table raises an error", "no loop over the substatement table raises an error"
}

package main

import (
	"bufio"
	"encoding/json"
	"fmt"
	"os"
	"os/exec"
	"path/filepath"
	"regexp"
	"sort"
	"strings"
)

// Thorough tier: sensitivity self-test. Every stored seeded change of the
// property (a real, independently written, test-passing defect) is applied as
// an in-memory overlay of the *current* tree and the property's rules are
// re-run in a subprocess: they must fire. A patch that no longer applies is
// counted as skipped, never failed. Nothing under /repo is touched.

type selfVariant struct {
	ID     string   `json:"id"`
	Status string   `json:"status"` // fired | missed | skipped | neutralised
	Rules  []string `json:"rules,omitempty"`
	Note   string   `json:"note,omitempty"`
}

var plusRe = regexp.MustCompile(`(?m)^\+\+\+ b/(\S+)`)
var openRe = regexp.MustCompile(`open: \[(R[\d.]+[a-z]?)\]`)

// mechanical rewrites applied to a scratch copy of the whole tree; the
// property's rules must stay silent on each (tagswitch turns every switch
// over constants into an if-chain: the loader folds such chains back, §7.3).
// exthelper is the typed rewrite (mechhelper.go): the second half of every eligible function moved into a new
// helper that is handed the locals it uses; the loader folds such helpers back (foldtail.go).
var mechKinds = []string{"invert", "nest", "merge", "chain", "tagswitch", "unelse", "elseify", "elseflat", "orsplit", "contguard", "wrapcont", "incdec", "vardecl", "rename", "reorderdecls", "exthelper"}

func runMechanical(prop, repo, verifd string) []selfVariant {
	var out []selfVariant
	for _, t := range mechKinds {
		v := selfVariant{ID: "mechanical/" + t, Status: "neutralised", Note: "mechanical behaviour-preserving rewrite of every file; must NOT fire"}
		tmp, err := os.MkdirTemp("", "yvmech")
		if err != nil {
			continue
		}
		// copy the tree (sources and module files; no .git)
		copyErr := filepath.Walk(repo, func(path string, info os.FileInfo, err error) error {
			if err != nil {
				return err
			}
			rel, _ := filepath.Rel(repo, path)
			if info.IsDir() {
				if info.Name() == ".git" {
					return filepath.SkipDir
				}
				return os.MkdirAll(filepath.Join(tmp, rel), 0o755)
			}
			if !info.Mode().IsRegular() {
				return nil
			}
			data, err := os.ReadFile(path)
			if err != nil {
				return err
			}
			return os.WriteFile(filepath.Join(tmp, rel), data, 0o644)
		})
		if copyErr != nil {
			v.Status, v.Note = "skipped", "scratch copy failed: "+copyErr.Error()
			out = append(out, v)
			os.RemoveAll(tmp)
			continue
		}
		n := 0
		if t == "exthelper" {
			n = mechExtractHelper(tmp, verifd)
			skipNormalise = false
		} else {
			n = mechRewrite(t, tmp)
		}
		v.Note += fmt.Sprintf(" (%d statements rewritten)", n)
		if n == 0 {
			// nothing was rewritten: staying silent would prove nothing
			v.Status = "skipped"
			v.Note += "; the rewrite changed nothing on this tree"
			out = append(out, v)
			os.RemoveAll(tmp)
			continue
		}
		cmd := exec.Command(os.Args[0], "-prop", prop, "-tier", "quick", "-repo", tmp, "-verif", verifd)
		cmd.Env = append(os.Environ(), "YV_SELFTEST=1")
		o, _ := cmd.CombinedOutput()
		code := cmd.ProcessState.ExitCode()
		rules := map[string]bool{}
		sc := bufio.NewScanner(strings.NewReader(string(o)))
		for sc.Scan() {
			for _, m := range openRe.FindAllStringSubmatch(sc.Text(), -1) {
				rules[m[1]] = true
			}
		}
		for r := range rules {
			v.Rules = append(v.Rules, r)
		}
		sort.Strings(v.Rules)
		switch {
		case code == 0:
			v.Note += "; silent as required"
		case code == 1:
			v.Status = "false-alarm"
		default:
			v.Status = "skipped"
			v.Note = fmt.Sprintf("rewritten copy could not be analysed (exit %d)", code)
		}
		out = append(out, v)
		os.RemoveAll(tmp)
	}
	return out
}

func runSelfTest(prop, repo, verifd string) []selfVariant {
	var out []selfVariant
	dirs, _ := filepath.Glob(filepath.Join(verifd, "seeded", prop+"*"))
	sort.Strings(dirs)
	// behaviour-preserving refactorings (benign/): the property's own, and those
	// that once raised an alarm of this property although written for another
	benign := map[string]bool{}
	own, _ := filepath.Glob(filepath.Join(verifd, "benign", prop+"-*"))
	sort.Strings(own)
	var bdirs []string
	bdirs = append(bdirs, own...)
	if data, err := os.ReadFile(filepath.Join(verifd, "benign", "CROSS.json")); err == nil {
		var cross map[string][]string
		if json.Unmarshal(data, &cross) == nil {
			for _, id := range cross[prop] {
				d := filepath.Join(verifd, "benign", id)
				dup := false
				for _, x := range bdirs {
					if x == d {
						dup = true
					}
				}
				if !dup {
					bdirs = append(bdirs, d)
				}
			}
		}
	}
	for _, d := range bdirs {
		benign[d] = true
	}
	dirs = append(dirs, bdirs...)
	for _, d := range dirs {
		id := filepath.Base(d)
		patch := filepath.Join(d, "patch.rebased.diff")
		if _, err := os.Stat(patch); err != nil {
			patch = filepath.Join(d, "patch.diff")
		}
		b, err := os.ReadFile(patch)
		if err != nil {
			continue
		}
		v := selfVariant{ID: id}
		if benign[d] {
			v.ID = "benign/" + id
			v.Status = "neutralised"
			v.Note = "behaviour-preserving refactoring; must NOT fire"
		}
		if meta, err := os.ReadFile(filepath.Join(d, "meta.json")); err == nil && strings.Contains(string(meta), "\"status_on_fixed_tree\": \"neutralised") {
			v.Status = "neutralised"
			v.Note = "no longer breaks the property on the repaired tree (see meta.json); must NOT fire"
		}
		tmp, err := os.MkdirTemp("", "yvself")
		if err != nil {
			continue
		}
		ok := true
		for _, m := range plusRe.FindAllStringSubmatch(string(b), -1) {
			src := filepath.Join(repo, m[1])
			dst := filepath.Join(tmp, m[1])
			os.MkdirAll(filepath.Dir(dst), 0o755)
			data, err := os.ReadFile(src)
			if err != nil {
				if strings.Contains(string(b), "--- /dev/null\n+++ b/"+m[1]+"\n") {
					continue // a file the change adds
				}
				ok = false
				break
			}
			os.WriteFile(dst, data, 0o644)
		}
		if ok {
			cmd := exec.Command("git", "apply", patch)
			cmd.Dir = tmp
			if err := cmd.Run(); err != nil {
				ok = false
			}
		}
		if !ok {
			v.Status = "skipped"
			v.Note = "patch does not apply to the current tree"
			out = append(out, v)
			os.RemoveAll(tmp)
			continue
		}
		cmd := exec.Command(os.Args[0], "-prop", prop, "-tier", "quick", "-repo", repo, "-verif", verifd)
		cmd.Env = append(os.Environ(), "YV_OVERLAY_DIR="+tmp, "YV_SELFTEST=1")
		o, _ := cmd.CombinedOutput()
		code := cmd.ProcessState.ExitCode()
		rules := map[string]bool{}
		sc := bufio.NewScanner(strings.NewReader(string(o)))
		for sc.Scan() {
			for _, m := range openRe.FindAllStringSubmatch(sc.Text(), -1) {
				rules[m[1]] = true
			}
		}
		for r := range rules {
			v.Rules = append(v.Rules, r)
		}
		sort.Strings(v.Rules)
		switch {
		case v.Status == "neutralised" && code == 0:
			v.Note += "; silent as required"
		case v.Status == "neutralised":
			v.Status = "false-alarm"
		case code == 1 && len(v.Rules) > 0:
			v.Status = "fired"
		case code == 0:
			v.Status = "missed"
		default:
			v.Status = "missed"
			v.Note = fmt.Sprintf("checker exit %d", code)
		}
		out = append(out, v)
		os.RemoveAll(tmp)
	}
	out = append(out, runMechanical(prop, repo, verifd)...)
	return out
}

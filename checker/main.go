// yvcheck: repository-specific static checker for sdcio/yang-parser.
// One sub-command per property: yvcheck -prop C03 -tier quick|thorough
package main

import (
	"flag"
	"fmt"
	"os"
	"runtime/debug"
	"sort"
	"strings"
)

type propFn func(w *World, r *Report)

var props = map[string]propFn{}

func register(id string, f propFn) {
	props[id] = func(w *World, r *Report) {
		f(w, r)
		round6(w, r, id)
		round7(w, r, id)
	}
}

func main() {
	prop := flag.String("prop", "", "property id (C01..C20)")
	tier := flag.String("tier", "", "quick|thorough")
	repo := flag.String("repo", "/repo", "repository root")
	verifd := flag.String("verif", "/verif", "verif root")
	list := flag.Bool("list", false, "list properties")
	dumpAnchors := flag.String("dump-anchors", "", "write the anchor record of the current tree to this file and exit")
	mech := flag.String("mechref", "", "apply this mechanical behaviour-preserving rewrite to the Go files below -repo (a scratch copy, never /repo) and exit")
	flag.Parse()
	os.Unsetenv("GOWORK")
	// go/packages resolves "go" through this process's PATH: put the pinned
	// analysis toolchain first (it satisfies /repo's go directive offline).
	{
		goroot := os.Getenv("YV_GOROOT")
		if goroot == "" {
			goroot = "/opt/veriftools/go1.26.8"
		}
		os.Setenv("PATH", goroot+"/bin:"+os.Getenv("PATH"))
	}
	if *mech != "" {
		if *repo == "/repo" {
			fmt.Fprintln(os.Stderr, "-mechref rewrites files in place: give a scratch copy with -repo")
			os.Exit(2)
		}
		if *mech == "exthelper" {
			fmt.Println("functions split:", mechExtractHelper(*repo, *verifd))
			return
		}
		fmt.Println("rewritten statements:", mechRewrite(*mech, *repo))
		return
	}
	if *list {
		var ids []string
		for k := range props {
			ids = append(ids, k)
		}
		sort.Strings(ids)
		for _, k := range ids {
			fmt.Println(k)
		}
		return
	}
	if *tier == "" {
		*tier = os.Getenv("VERIF_TIER")
	}
	if *tier == "" {
		*tier = "quick"
	}
	if *prop == "all" {
		// development aid: every property on one loaded program (the registered checks run one property per process)
		os.Unsetenv("GOWORK")
		goroot := os.Getenv("YV_GOROOT")
		if goroot == "" {
			goroot = "/opt/veriftools/go1.26.8"
		}
		os.Setenv("PATH", goroot+"/bin:"+os.Getenv("PATH"))
		os.Exit(runAll(*tier, *repo, *verifd))
	}
	f := props[*prop]
	if f == nil {
		fmt.Fprintf(os.Stderr, "unknown property %q\n", *prop)
		os.Exit(2)
	}
	os.Unsetenv("GOWORK")
	// go/packages resolves "go" through this process's PATH: put the pinned
	// analysis toolchain first (it satisfies /repo's go directive offline).
	goroot := os.Getenv("YV_GOROOT")
	if goroot == "" {
		goroot = "/opt/veriftools/go1.26.8"
	}
	os.Setenv("PATH", goroot+"/bin:"+os.Getenv("PATH"))
	if *dumpAnchors != "" {
		w, err := NewWorld(*repo, *verifd, false)
		if err != nil {
			fmt.Fprintln(os.Stderr, err)
			os.Exit(2)
		}
		defer w.Close()
		if err := w.DumpAnchors(*dumpAnchors); err != nil {
			fmt.Fprintln(os.Stderr, err)
			os.Exit(2)
		}
		return
	}
	code := run(*prop, *tier, *repo, *verifd, f)
	os.Exit(code)
}

func run(prop, tier, repo, verifd string, f propFn) (code int) {
	var w *World
	defer func() {
		if w != nil {
			w.Close()
		}
		if x := recover(); x != nil {
			// the checker itself failed: nothing was decided
			fmt.Fprintf(os.Stderr, "yvcheck %s: internal error: %v\n%s\n", prop, x, debug.Stack())
			code = 2
		}
	}()
	var err error
	w, err = NewWorld(repo, verifd, false)
	if err != nil {
		fmt.Fprintf(os.Stderr, "yvcheck %s: cannot analyse %s: %v\n", prop, repo, err)
		return 2
	}
	r := NewReport(prop, tier, w)
	if len(renameNotes) > 0 {
		r.Extra["anchors_located_after_rename"] = renameNotes
	}
	if len(foldedHelpers) > 0 {
		r.Extra["new_tail_helpers_folded_into_their_caller"] = foldedHelpers
	}
	f(w, r)
	if tier == "thorough" && os.Getenv("YV_SELFTEST") == "" {
		vs := runSelfTest(prop, repo, verifd)
		r.Extra["sensitivity_selftest"] = vs
		fired, missed, skipped, silent := 0, 0, 0, 0
		for _, v := range vs {
			switch v.Status {
			case "neutralised":
				silent++
			case "fired":
				fired++
			case "missed", "false-alarm":
				missed++
				fmt.Printf("SELFTEST-%s: property=%s seeded change %s %s\n", strings.ToUpper(v.Status), prop, v.ID, v.Note)
			case "skipped":
				skipped++
			}
		}
		r.Analysed["selftest: seeded changes fired"] = fired
		r.Analysed["selftest: seeded changes missed"] = missed
		r.Analysed["selftest: seeded changes skipped (patch no longer applies)"] = skipped
		r.Analysed["selftest: behaviour-preserving refactorings (and neutralised changes) that stayed silent"] = silent
		fmt.Printf("%s selftest: %d stored changes re-applied as overlays: %d seeded fired, %d missed or false alarm, %d skipped, %d refactorings silent\n", prop, len(vs), fired, missed, skipped, silent)
	}
	return r.Finish(verifd)
}

func runAll(tier, repo, verifd string) int {
	w, err := NewWorld(repo, verifd, false)
	if err != nil {
		fmt.Fprintf(os.Stderr, "yvcheck: cannot analyse %s: %v\n", repo, err)
		return 2
	}
	defer w.Close()
	var ids []string
	for k := range props {
		ids = append(ids, k)
	}
	sort.Strings(ids)
	worst := 0
	for _, id := range ids {
		code := func() (code int) {
			defer func() {
				if x := recover(); x != nil {
					fmt.Printf("PROPERTY %s internal error: %v\n", id, x)
					code = 2
				}
			}()
			fmt.Printf("PROPERTY %s\n", id)
			r := NewReport(id, tier, w)
			props[id](w, r)
			return r.Finish(verifd)
		}()
		if code > worst {
			worst = code
		}
	}
	return worst
}

package main

import (
	"fmt"
	"go/ast"
	"go/constant"
	"go/token"
	"go/types"
	"sort"
	"strings"

	"golang.org/x/tools/go/ssa"
)

// R04.12  token-adjacency language of the must/when grammar.
//
// Which token may directly follow which in an accepted expression is a
// property of the language (refactoring productions does not change it). The
// table below is transcribed from the XPath 1.0 grammar (productions [1]-[39])
// at token-class level; the grammar's bigram set, computed from xpath.y on
// every run, has to be a subset of it (a pair the table allows but the grammar
// never produces is a construct the repository does not support, which is fine).

// token classes of the expr / path_eval grammars
func xpTokClass(t string) string {
	switch t {
	case "OR", "AND", "EQ", "NE", "LT", "GT", "LE", "GE", "'+'", "'*'", "DIV", "MOD", "'|'":
		return "binop"
	case "FUNC", "CURRENTFUNC", "DEREFFUNC", "COUNTFUNC", "TEXTFUNC":
		return "func"
	}
	return t
}

// xpAllowed: may class b directly follow class a in an XPath 1.0 expression?
// startsOperand: tokens that can begin a UnaryExpr; endsOperand: tokens that
// can end one.
func xpAllowed(a, b string) (bool, string) {
	startsOperand := map[string]bool{"'('": true, "'-'": true, "'/'": true, "DBLSLASH": true, "'.'": true, "DOTDOT": true, "'@'": true,
		"NAMETEST": true, "AXISNAME": true, "LITERAL": true, "NUM": true, "NODETYPE": true, "func": true}
	endsOperand := map[string]bool{"')'": true, "']'": true, "'.'": true, "DOTDOT": true, "NAMETEST": true, "LITERAL": true, "NUM": true, "NODETYPE": true, "'/'": true}
	afterOperand := map[string]bool{"binop": true, "'-'": true, "')'": true, "']'": true, "','": true, "$": true}
	switch a {
	case "^", "binop", "'-'", "'['", "','":
		return startsOperand[b], "[14]-[27]: an operator, '[' , ',' or the start is followed by an operand"
	case "'('":
		return startsOperand[b] || b == "')'", "[15],[16]: '(' Expr ')' or an empty argument list"
	case "func":
		return b == "'('", "[16] FunctionCall: FunctionName '('"
	case "AXISNAME":
		return b == "DBLCOLON", "[5] AxisSpecifier: AxisName '::'"
	case "DBLCOLON", "'@'":
		return b == "NAMETEST" || b == "NODETYPE", "[4] Step: AxisSpecifier NodeTest"
	case "DBLSLASH":
		return b == "'.'" || b == "DOTDOT" || b == "'@'" || b == "NAMETEST" || b == "AXISNAME" || b == "NODETYPE", "[10],[11]: '//' is followed by a Step"
	case "'/'":
		// '/' alone is a complete path ([2]), otherwise a Step follows
		return b == "'.'" || b == "DOTDOT" || b == "'@'" || b == "NAMETEST" || b == "AXISNAME" || b == "NODETYPE" || afterOperand[b], "[2],[3]: '/' ends a path or is followed by a Step"
	case "'.'", "DOTDOT":
		// [4] Step ::= … | AbbreviatedStep — no predicates on an abbreviated step
		return afterOperand[b] || b == "'/'" || b == "DBLSLASH", "[4],[12]: an abbreviated step takes no predicate"
	case "NAMETEST", "NODETYPE", "')'", "']'", "LITERAL", "NUM":
		return afterOperand[b] || b == "'/'" || b == "DBLSLASH" || b == "'['", "[4],[19],[20]: a node test, a primary expression or a predicate may be followed by a predicate or a path continuation"
	}
	_ = endsOperand
	return false, "no XPath production has this token before another"
}

func c04Bigrams(w *World, r *Report) {
	for _, gname := range []string{"expr", "path_eval"} {
		g := w.Gram[gname]
		if g == nil {
			panic(undecided{"grammar " + gname})
		}
		grams := g.KGrams(2)
		classPairs := map[string][]string{}
		for x := range grams {
			ts := ksplit(x)
			if len(ts) != 2 {
				continue
			}
			key := xpTokClass(ts[0]) + " " + xpTokClass(ts[1])
			classPairs[key] = append(classPairs[key], ts[0]+" "+ts[1])
		}
		var keys []string
		for k := range classPairs {
			keys = append(keys, k)
		}
		sort.Strings(keys)
		r.Count(gname+": token bigrams", len(grams))
		for _, k := range keys {
			ab := strings.Split(k, " ")
			ok, why := xpAllowed(ab[0], ab[1])
			sort.Strings(classPairs[k])
			if dev, isDev := xpBigramDeviations[gname+": "+k]; isDev {
				r.Reviewed("R04.12", gname+": "+k, token.NoPos, dev)
				continue
			}
			r.Check(ok, "R04.12", gname+": "+k, token.NoPos, why, fmt.Sprintf("the grammar accepts %s directly after %s (%s), which no XPath 1.0 production allows — %s", ab[1], ab[0], strings.Join(classPairs[k], "; "), why))
		}
	}
}

// deviations of the repository's grammars from XPath 1.0 that are part of the
// supported subset as documented in the grammar files
var xpBigramDeviations = map[string]string{}

// R04.13  the leafref path compiler accepts exactly RFC 6020 path-arg at token
// level: the k-gram sets (k = 2, 3, 4) of leafref.y equal those of the
// path-arg ABNF of RFC 6020 section 12, transcribed below as a grammar over
// the same tokens (NAMETEST = node-identifier, FUNC = "current").
const rfc6020PathArg = `
%token NAMETEST DOTDOT EQ FUNC
%%
PathArg:	AbsolutePath | RelativePath ;
AbsolutePath:	AbsStep | AbsolutePath AbsStep ;
AbsStep:	'/' NAMETEST Preds ;
Preds:		| Preds Pred ;
RelativePath:	Ups DescendantPath ;
Ups:		DOTDOT '/' | Ups DOTDOT '/' ;
DescendantPath:	NAMETEST | NAMETEST Preds AbsolutePath ;
Pred:		'[' NAMETEST EQ KeyExpr ']' ;
KeyExpr:	FUNC '(' ')' '/' RelKey ;
RelKey:		Ups Nodes NAMETEST ;
Nodes:		| Nodes NAMETEST '/' ;
%%
`

func c04LeafrefLanguage(w *World, r *Report) {
	g := w.Gram["leafref"]
	if g == nil {
		panic(undecided{"grammar leafref"})
	}
	spec, err := ParseYacc("rfc6020-path-arg", "spec", rfc6020PathArg)
	if err != nil {
		panic(fmt.Sprintf("spec grammar: %v", err))
	}
	for k := 2; k <= 4; k++ {
		got, want := g.KGrams(k), spec.KGrams(k)
		var extra, missing []string
		for x := range got {
			if !want[x] {
				extra = append(extra, strings.ReplaceAll(x, "\x00", " "))
			}
		}
		for x := range want {
			if !got[x] {
				missing = append(missing, strings.ReplaceAll(x, "\x00", " "))
			}
		}
		sort.Strings(extra)
		sort.Strings(missing)
		r.Count(fmt.Sprintf("leafref %d-grams", k), len(got))
		r.Check(len(extra) == 0, "R04.13", fmt.Sprintf("leafref %d-grams ⊆ path-arg", k), token.NoPos, fmt.Sprintf("%d token %d-grams, all derivable from the RFC 6020 ABNF", len(got), k),
			"the leafref grammar accepts token sequences RFC 6020 path-arg does not have: "+strings.Join(firstN(extra, 6), "; "))
		r.Check(len(missing) == 0, "R04.13", fmt.Sprintf("path-arg %d-grams ⊆ leafref", k), token.NoPos, "every shape of the ABNF is accepted",
			"the leafref grammar rejects token sequences RFC 6020 path-arg has: "+strings.Join(firstN(missing, 6), "; "))
	}
}

func firstN(s []string, n int) []string {
	if len(s) > n {
		return append(append([]string{}, s[:n]...), fmt.Sprintf("… (%d more)", len(s)-n))
	}
	return s
}

// R04.14  the must/when grammars accept only XPath 1.0 token shapes: the 3-gram
// and 4-gram sets of xpath.y / path_eval.y, read at token-class level, are
// subsets of those of the XPath 1.0 grammar (productions [1]-[27] of the
// Recommendation, transcribed below over the same token classes). Shapes XPath
// has and the repository does not (variables, functions of more than three
// arguments, …) are unsupported constructs and not an obligation.
const xpath10Grammar = `
%token NAMETEST NODETYPE AXISNAME DBLCOLON DBLSLASH DOTDOT LITERAL NUM func binop
%%
Expr:		OrExpr ;
OrExpr:		UnaryExpr | OrExpr binop UnaryExpr | OrExpr '-' UnaryExpr ;
UnaryExpr:	PathExpr | '-' UnaryExpr ;
PathExpr:	LocationPath | FilterExpr | FilterExpr '/' RelativeLocationPath | FilterExpr DBLSLASH RelativeLocationPath ;
FilterExpr:	PrimaryExpr | FilterExpr Predicate ;
PrimaryExpr:	'(' Expr ')' | LITERAL | NUM | FunctionCall | NODETYPE ;
FunctionCall:	func '(' ')' | func '(' Args ')' ;
Args:		Expr | Args ',' Expr ;
LocationPath:	RelativeLocationPath | AbsoluteLocationPath ;
AbsoluteLocationPath:	'/' | '/' RelativeLocationPath | DBLSLASH RelativeLocationPath ;
RelativeLocationPath:	Step | RelativeLocationPath '/' Step | RelativeLocationPath DBLSLASH Step ;
Step:		AxisSpecifier NodeTest Predicates | '.' | DOTDOT ;
Predicates:	| Predicates Predicate ;
AxisSpecifier:	| AXISNAME DBLCOLON | '@' ;
NodeTest:	NAMETEST | NODETYPE ;
Predicate:	'[' Expr ']' ;
%%
`

// Adaptations of the transcription to the repository's token alphabet, read
// and accepted (they are part of the supported language as the grammar files
// document it):
var xpSpecAdaptations = []struct{ what, why string }{
	{"NODETYPE stands for NodeType '(' ')'", "the lexer delivers a node-type test such as node() as the single token NODETYPE (the parentheses are consumed by the lexer); the grammar reports it as unsupported. Because the lexer cannot tell a node test from a call, it is also accepted where a primary expression stands"},
	{"func-class tokens", "FUNC, CURRENTFUNC, DEREFFUNC, COUNTFUNC and TEXTFUNC are all FunctionName tokens of XPath; current()/…, deref(…)/… and count(…)/… have the shape FilterExpr '/' RelativeLocationPath"},
}

func c04XPathShapes(w *World, r *Report) {
	spec, err := ParseYacc("xpath10", "spec", xpath10Grammar)
	if err != nil {
		panic(fmt.Sprintf("spec grammar: %v", err))
	}
	for _, gname := range []string{"expr", "path_eval"} {
		g := w.Gram[gname]
		if g == nil {
			panic(undecided{"grammar " + gname})
		}
		kmax := 3
		if r.Tier == "thorough" {
			kmax = 4
		}
		for k := 3; k <= kmax; k++ {
			want := spec.KGrams(k)
			got := map[string]bool{}
			for x := range g.KGrams(k) {
				ts := ksplit(x)
				for i := range ts {
					ts[i] = xpTokClass(ts[i])
				}
				got[strings.Join(ts, " ")] = true
			}
			var extra []string
			for x := range got {
				if want[strings.ReplaceAll(x, " ", "\x00")] {
					continue
				}
				extra = append(extra, x)
			}
			sort.Strings(extra)
			r.Count(fmt.Sprintf("%s class-level %d-grams", gname, k), len(got))
			r.Check(len(extra) == 0, "R04.14", fmt.Sprintf("%s: %d-grams ⊆ XPath 1.0", gname, k), token.NoPos,
				fmt.Sprintf("%d class-level %d-grams, all derivable from the XPath 1.0 grammar (with %d documented adaptations)", len(got), k, len(xpSpecAdaptations)),
				"the grammar accepts token shapes XPath 1.0 does not have: "+strings.Join(firstN(extra, 8), "; "))
		}
	}
	for _, d := range xpSpecAdaptations {
		r.Reviewed("R04.14", "adaptation: "+d.what, token.NoPos, d.why)
	}
}

// R04.15  stray characters are rejected: the only characters the tokeniser
// consumes silently are XPath ExprWhitespace (S ::= #x20 | #x9 | #xD | #xA).
// Both places that skip characters are evaluated: the skip arm of LexCommon
// and the look-ahead helper isWhitespace used while assembling QNames.
func c04Whitespace(w *World, r *Report) {
	fd, p, sw := lexCommonSkipSwitch(w)
	var s ISet
	n := 0
	for _, a := range switchArms(p, sw) {
		if len(a.Clause.Body) == 1 {
			if b, ok := a.Clause.Body[0].(*ast.BranchStmt); ok && b.Tok == token.CONTINUE {
				n++
				for _, c := range a.Consts {
					if v, ok := intConst(c); ok {
						s = s.union(isetOf(v))
					}
				}
			}
		}
	}
	r.Check(n == 1 && s.equal(wsSet), "R04.15", "LexCommon skip arm", fd.Pos(), "skips "+s.String(), "the tokeniser silently skips "+s.String()+"; XPath ExprWhitespace is "+wsSet.String()+": other characters between tokens must be reported as stray")
	pe := NewPredEval(w, intDom{})
	ws := pe.TrueSet(w.Method("xpath", "CommonLex", "isWhitespace")).(ISet)
	r.Check(ws.equal(wsSet), "R04.15", "CommonLex.isWhitespace", token.NoPos, ws.String(), "the look-ahead helper treats "+ws.String()+" as whitespace, XPath ExprWhitespace is "+wsSet.String()+": e.g. U+00A0 or form feed between a prefix and ':' is swallowed instead of rejected")
}

// R04.16  the leafref lexer hands the parser a name or function token only
// from its own LexName. The common lexer's methods are inherited by embedding;
// any of them that can return a value-carrying token the path-arg grammar
// accepts (NAMETEST, FUNC) must be overridden by the leafref lexer, otherwise
// e.g. '*' arrives as a wildcard NAMETEST and "/a/*" is accepted as a path.
func c04LeafrefOverrides(w *World, r *Report) {
	xp := w.Pkg("xpath")
	lp := w.Pkg("xpath/grammars/leafref")
	carrying := map[int64]string{xutilsTok(w, "NAMETEST"): "NAMETEST", xutilsTok(w, "FUNC"): "FUNC"}
	overridden := map[string]bool{}
	for _, fd := range funcDecls(lp) {
		if fd.Recv != nil && len(fd.Recv.List) == 1 && strings.Contains(types.ExprString(fd.Recv.List[0].Type), "leafrefLex") {
			overridden[fd.Name.Name] = true
		}
	}
	n := 0
	for _, fd := range funcDecls(xp) {
		if fd.Recv == nil || !strings.Contains(types.ExprString(fd.Recv.List[0].Type), "CommonLex") || !strings.HasPrefix(fd.Name.Name, "Lex") {
			continue
		}
		var toks []string
		for _, ret := range returnsIn(fd.Body) {
			if len(ret.Results) == 0 {
				continue
			}
			if v, ok := ConstInt(xp, ret.Results[0]); ok {
				if name, is := carrying[v]; is {
					toks = append(toks, name)
				}
			}
		}
		if len(toks) == 0 {
			continue
		}
		n++
		r.Check(overridden[fd.Name.Name], "R04.16", "leafref lexer overrides CommonLex."+fd.Name.Name, fd.Pos(), "returns "+strings.Join(toks, ",")+" in the common lexer; the leafref lexer has its own",
			"CommonLex."+fd.Name.Name+" can return "+strings.Join(toks, ",")+" and is inherited unchanged by the leafref lexer: the path-arg compiler accepts what that method lexes (e.g. '*' as a node identifier), which RFC 6020 path-arg does not have")
	}
	if n == 0 {
		panic(undecided{"no CommonLex method returns NAMETEST/FUNC"})
	}
}

// R04.17  a QName's local part is an NCName: wherever a lexer builds a name
// token with ConstructToken from a character it fetched itself (the local part
// after ':'), that character has passed IsNameStartChar; the first character
// of a name is tested by LexCommon before LexName is called.
func c04LocalPartStart(w *World, r *Report) {
	n := 0
	sym := NewSym(w)
	sym.Expand = false
	for _, key := range []string{"xpath", "xpath/grammars/leafref"} {
		p := w.Pkg(key)
		for _, fd := range funcDecls(p) {
			if fd.Name.Name != "LexName" || fd.Body == nil {
				continue
			}
			tf, _ := p.TypesInfo.Defs[fd.Name].(*types.Func)
			lf := w.SSAFunc(tf)
			if lf == nil || len(lf.Params) < 2 {
				continue
			}
			k := 0
			// the token may be built in LexName or in a helper it hands the work to
			callsWithCtx(lf, 2, func(c *ssa.Call, ctx *symCtx) {
				name := ""
				if c.Call.IsInvoke() {
					name = nm(c.Call.Method)
				} else if g := c.Call.StaticCallee(); g != nil {
					name = g.Name()
				}
				if name != "ConstructToken" || len(c.Call.Args) < 1 {
					return
				}
				args := c.Call.Args
				if !c.Call.IsInvoke() {
					args = args[1:] // receiver
				}
				first := sym.Resolve(args[0], ctx)
				k++
				what := fmt.Sprintf("%s.%s: ConstructToken #%d", key, funcDeclName(fd), k)
				n++
				if first == ssa.Value(lf.Params[1]) {
					r.OK("R04.17", what, c.Pos(), "first character is LexName's parameter, tested by LexCommon")
					return
				}
				// a character fetched here: the call is reached only if it passed IsNameStartChar
				pc := sym.PathCond(c.Parent().Blocks[0], c.Block(), ctx)
				for cx := ctx; cx != nil && cx.call != nil; cx = cx.parent {
					site := cx.call.(*ssa.Call)
					pc = pcAndF(pc, sym.PathCond(site.Parent().Blocks[0], site.Block(), cx.parent))
				}
				why := pcImplies(pc, func(a *pcAtom) string {
					tc, ok := a.v.(*ssa.Call)
					if !ok || a.x != nil {
						return ""
					}
					tn, targs := "", tc.Call.Args
					if tc.Call.IsInvoke() {
						tn = nm(tc.Call.Method)
					} else if g := tc.Call.StaticCallee(); g != nil {
						tn = g.Name()
						if g.Signature.Recv() != nil && len(targs) > 0 {
							targs = targs[1:]
						}
					}
					if tn == "IsNameStartChar" && len(targs) == 1 && sym.Resolve(targs[0], a.ctx) == first {
						return "start"
					}
					return ""
				}, func(env map[string]bool) bool { return env["start"] })
				r.Check(why == "", "R04.17", what, c.Pos(), "character tested with IsNameStartChar before the token is built", "the local part of a prefixed name is collected without testing its first character: pfx:1, pfx:-a and pfx:.a are accepted as name tests")
			})
		}
	}
	// LexCommon tests the first character
	fd, p, _ := lexCommonSwitch(w)
	okFirst := false
	ast.Inspect(fd.Body, func(x ast.Node) bool {
		is, ok := x.(*ast.IfStmt)
		if !ok {
			return true
		}
		c, ok := ast.Unparen(is.Cond).(*ast.CallExpr)
		if !ok {
			return true
		}
		if se, ok := c.Fun.(*ast.SelectorExpr); ok && se.Sel.Name == "IsNameStartChar" {
			for _, ce := range callsIn(p, is.Body) {
				if s2, ok := ce.Fun.(*ast.SelectorExpr); ok && s2.Sel.Name == "LexName" {
					okFirst = true
				}
			}
		}
		return true
	})
	r.Check(okFirst, "R04.17", "LexCommon tests the first character of a name", fd.Pos(), "LexName is called only under IsNameStartChar(c)", "LexName is reached without the name-start test")
	if n < 3 {
		panic(undecided{"fewer ConstructToken calls in LexName than expected"})
	}
}

// R04.18  no whitespace inside a token. The whitespace-skipping look-ahead
// helpers exist for the §3.7 disambiguation of names ("possibly after
// intervening ExprWhitespace") and are called from the LexName methods only;
// every other token-forming method reads the next character with Next(), so
// ">" " " "=" is never glued into ">=".
func c04NoGluedTokens(w *World, r *Report) {
	helpers := map[*types.Func]bool{
		w.Method("xpath", "CommonLex", "NextNonWhitespace"):         true,
		w.Method("xpath", "CommonLex", "NextNonWhitespaceStringIs"): true,
	}
	n := 0
	for _, key := range []string{"xpath", "xpath/grammars/expr", "xpath/grammars/leafref", "xpath/grammars/path_eval"} {
		p := w.Pkg(key)
		// a function works for name disambiguation when it is a LexName, the
		// look-ahead itself, or an unexported function of the package that is
		// only ever called (never taken as a value) and only from such functions
		memo := map[*ast.FuncDecl]int{}
		var forNames func(fd *ast.FuncDecl, depth int) bool
		forNames = func(fd *ast.FuncDecl, depth int) bool {
			if fd.Name.Name == "LexName" || fd.Name.Name == "NextNonWhitespaceStringIs" {
				return true
			}
			if v, ok := memo[fd]; ok {
				return v == 1
			}
			memo[fd] = 0
			g, _ := p.TypesInfo.Defs[fd.Name].(*types.Func)
			if g == nil || g.Exported() || depth > 3 {
				return false
			}
			uses := 0
			for _, o := range p.TypesInfo.Uses {
				if o == types.Object(g) {
					uses++
				}
			}
			calls, ok := 0, true
			for _, fd2 := range funcDecls(p) {
				if fd2.Body == nil {
					continue
				}
				if k := len(allCallsTo(p, fd2.Body, g)); k > 0 {
					calls += k
					ok = ok && fd2 != fd && forNames(fd2, depth+1)
				}
			}
			if ok && calls > 0 && calls == uses {
				memo[fd] = 1
			}
			return memo[fd] == 1
		}
		for _, fd := range funcDecls(p) {
			if fd.Body == nil || isTestFile(w, fd.Pos()) {
				continue
			}
			for _, ce := range callsIn(p, fd.Body) {
				f := calleeOf(p, ce)
				if f == nil || !helpers[f] {
					// interface method of the same name
					if se, ok := ce.Fun.(*ast.SelectorExpr); !ok || (se.Sel.Name != "NextNonWhitespace" && se.Sel.Name != "NextNonWhitespaceStringIs") {
						continue
					}
				}
				n++
				name := funcDeclName(fd)
				ok := forNames(fd, 0)
				r.Check(ok, "R04.18", key+"."+name+" skips whitespace while looking ahead", ce.Pos(), "name disambiguation (§3.7)", "a token-forming function other than LexName looks past whitespace for the rest of its token: two tokens separated by blanks (e.g. '>' '=') are accepted as one, a string XPath rejects")
			}
		}
	}
	if n == 0 {
		panic(undecided{"no use of the whitespace-skipping look-ahead found"})
	}
}

// R04.19  a literal needs its closing quote. In LexLiteral the LITERAL return
// is reachable only through the branch on which the character after the
// opening quote *is* the quote (empty literal) or through ConstructToken,
// which records an error when the input ends before the quote.
func c04LiteralClosed(w *World, r *Report) {
	f := w.SSAFunc(w.Method("xpath", "CommonLex", "LexLiteral"))
	if f == nil {
		panic(undecided{"CommonLex.LexLiteral"})
	}
	lit := xutilsTok(w, "LITERAL")
	quote := f.Params[1] // receiver is Params[0]
	var target *ssa.BasicBlock
	for _, b := range f.Blocks {
		if ret, ok := b.Instrs[len(b.Instrs)-1].(*ssa.Return); ok && len(ret.Results) > 0 {
			if c, ok := ret.Results[0].(*ssa.Const); ok && c.Value != nil {
				if v, ok := constant.Int64Val(constant.ToInt(c.Value)); ok && v == lit {
					target = b
				}
			}
		}
	}
	if target == nil {
		panic(undecided{"LexLiteral: return of LITERAL not found"})
	}
	blocked := map[[2]*ssa.BasicBlock]bool{} // edges that establish "closing quote seen"
	stop := map[*ssa.BasicBlock]bool{}       // blocks that call ConstructToken
	for _, b := range f.Blocks {
		for _, in := range b.Instrs {
			if c, ok := in.(*ssa.Call); ok {
				if sc := c.Call.StaticCallee(); sc != nil && nm(sc) == "ConstructToken" {
					stop[b] = true
				}
			}
		}
		if iff, ok := b.Instrs[len(b.Instrs)-1].(*ssa.If); ok {
			isQuote := func(v ssa.Value) bool {
				if v == ssa.Value(quote) {
					return true
				}
				// the parameter spilled to a cell because a closure captures it
				if u, ok := v.(*ssa.UnOp); ok && u.Op == token.MUL {
					if a, ok := u.X.(*ssa.Alloc); ok {
						stores := 0
						fromParam := false
						for _, ref := range *a.Referrers() {
							if st, ok := ref.(*ssa.Store); ok && st.Addr == ssa.Value(a) {
								stores++
								fromParam = st.Val == ssa.Value(quote)
							}
						}
						return stores == 1 && fromParam
					}
				}
				return false
			}
			if bo, ok := iff.Cond.(*ssa.BinOp); ok && (isQuote(bo.X) || isQuote(bo.Y)) {
				switch bo.Op {
				case token.NEQ:
					blocked[[2]*ssa.BasicBlock{b, b.Succs[1]}] = true
				case token.EQL:
					blocked[[2]*ssa.BasicBlock{b, b.Succs[0]}] = true
				}
			}
		}
	}
	seen := map[*ssa.BasicBlock]bool{}
	work := []*ssa.BasicBlock{f.Blocks[0]}
	reach := false
	for len(work) > 0 {
		b := work[len(work)-1]
		work = work[:len(work)-1]
		if seen[b] || stop[b] {
			continue
		}
		seen[b] = true
		if b == target {
			reach = true
		}
		for _, s := range b.Succs {
			if !blocked[[2]*ssa.BasicBlock{b, s}] {
				work = append(work, s)
			}
		}
	}
	r.Check(!reach && len(stop) > 0 && len(blocked) > 0, "R04.19", "LexLiteral returns LITERAL only for a closed literal", target.Instrs[len(target.Instrs)-1].Pos(), "via `next == quote` or via ConstructToken (which reports a missing terminator)", "there is a path to the LITERAL return on which neither the closing quote was seen nor ConstructToken ran (e.g. input ends right after the opening quote): an unterminated literal is accepted as the empty string")
}

// R04.20  end of input is signalled only when the input is exhausted.
// xutils.EOF is the rune 0, so a NUL character decoded from the input must
// not be returned as such: in CommonLex.Next the decoded rune is returned
// only on a branch that has excluded the EOF value.
func c04NoFalseEOF(w *World, r *Report) {
	f := w.SSAFunc(w.Method("xpath", "CommonLex", "Next"))
	if f == nil {
		panic(undecided{"CommonLex.Next"})
	}
	eof := xutilsTok(w, "EOF")
	n := 0
	if len(ssaLoops(f)) > 0 {
		panic(undecided{"CommonLex.Next: loop"})
	}
	sym := NewSym(w)
	for _, row := range sym.retTable(f, 0) {
		ex, ok := row.val.(*ssa.Extract)
		if !ok || ex.Index != 0 {
			continue
		}
		if c, ok := ex.Tuple.(*ssa.Call); !ok || c.Call.StaticCallee() == nil || c.Call.StaticCallee().String() != "unicode/utf8.DecodeRune" {
			continue
		}
		n++
		// the values the decoded rune can have on this way out
		vals, decided := pcValuesWhen(row.cond, sym.Key(ex, nil))
		excluded := decided && !vals.contains(eof)
		r.Check(excluded, "R04.20", "CommonLex.Next returns the decoded rune", row.pos, "only after the rune was tested against the end marker", "a NUL character in the expression is returned as xutils.EOF: everything after it is ignored (or it silently vanishes from the look-ahead slot), so strings with a stray NUL are accepted")
	}
	if n == 0 {
		panic(undecided{"CommonLex.Next: return of the decoded rune not found"})
	}
}

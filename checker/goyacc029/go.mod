module goyacc029

go 1.22.0

require golang.org/x/tools v0.29.0

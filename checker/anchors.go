package main

import (
	"bytes"
	"crypto/sha1"
	"encoding/json"
	"fmt"
	"go/ast"
	"go/printer"
	"go/token"
	"go/types"
	"os"
	"path/filepath"
	"sort"
	"strings"

	"golang.org/x/tools/go/ssa"
)

// Anchors: the rules find their mechanisms by name (context.Run,
// CommonLex.tokenCanBeOperator, the mutex mu, the field lexer.items …), as the
// properties do.  A maintainer who renames an unexported function, method,
// field or package-level variable has not touched the mechanism.  anchors.json
// (committed; regenerate with `bin/yvcheck -dump-anchors checker/anchors.json`
// after a reviewed change of /repo) records, for every package of the module,
// the functions (receiver, name, signature, hash of the body up to names), the
// struct fields (struct, name, type, position) and the package-level objects
// (name, kind, type) of the tree the rules were written against.
//
// On every run the current tree is compared with it.  A recorded object that
// no longer exists is matched with an object that did not exist then, in the
// same package, of the same receiver/struct and the same signature/type —
// unique, or (functions) with the same body up to names.  A match is a rename:
// every lookup and every comparison of a name in the rules goes through nm(),
// which answers with the recorded name.  No verdict rests on the match itself:
// the rules analyse the renamed object exactly as they analysed the old one.
// Without a match the anchor is lost and the rule reports "not found".

type anchorFunc struct {
	Recv, Name, Sig, Hash string
}
type anchorField struct {
	Struct, Name, Type string
	Index              int
}
type anchorObj struct {
	Name, Kind, Type string
}
type anchorPkg struct {
	Funcs  []anchorFunc
	Fields []anchorField
	Objs   []anchorObj
}

// origName maps a current object to the name it had in the recorded tree.
var origName = map[types.Object]string{}

// origDeclName maps the position of a renamed function's identifier to the
// recorded name.
var origDeclName = map[token.Pos]string{}

// convertedFrom: a current function that the recorded tree had as a method of
// the named type ("method:T"), or a current method that was a plain function
// ("func") — same name, the receiver having become the first parameter or the
// reverse.
var convertedFrom = map[types.Object]string{}

// convertedDecl: the same, by position of the declaration's name.
var convertedDecl = map[token.Pos]string{}

var renameNotes []string

// vanished: recorded functions ("Recv.Name" or "Name") that exist no more
// under any name — inlined into their callers, or deleted.
var vanished = map[string]bool{}

// nm is Name() seen from the recorded tree.
func nm(x interface{ Name() string }) string {
	switch y := x.(type) {
	case *ssa.Function:
		if y == nil {
			return ""
		}
		if o := y.Object(); o != nil {
			if n, ok := origName[o]; ok {
				return n
			}
		}
		return y.Name()
	case *ssa.Global:
		if o := y.Object(); o != nil {
			if n, ok := origName[o]; ok {
				return n
			}
		}
		return y.Name()
	case types.Object:
		if y == nil {
			return ""
		}
		if n, ok := origName[y]; ok {
			return n
		}
		return y.Name()
	}
	return x.Name()
}

func typeStr(t types.Type) string {
	return types.TypeString(t, func(p *types.Package) string { return p.Name() })
}

func sigStr(sig *types.Signature) string {
	var b strings.Builder
	b.WriteString("(")
	for i := 0; i < sig.Params().Len(); i++ {
		if i > 0 {
			b.WriteString(",")
		}
		if sig.Variadic() && i == sig.Params().Len()-1 {
			b.WriteString("...")
		}
		b.WriteString(typeStr(sig.Params().At(i).Type()))
	}
	b.WriteString(")(")
	for i := 0; i < sig.Results().Len(); i++ {
		if i > 0 {
			b.WriteString(",")
		}
		b.WriteString(typeStr(sig.Results().At(i).Type()))
	}
	b.WriteString(")")
	return b.String()
}

func recvName(sig *types.Signature) string {
	if sig.Recv() == nil {
		return ""
	}
	t := sig.Recv().Type()
	if p, ok := t.(*types.Pointer); ok {
		t = p.Elem()
	}
	if n, ok := t.(*types.Named); ok {
		return n.Obj().Name()
	}
	return typeStr(t)
}

// bodyHash: the body printed with every identifier that is not a field
// selector, a universe name or a package name replaced by its order of first
// appearance.
func bodyHash(fset *token.FileSet, fd *ast.FuncDecl, info *types.Info) string {
	if fd.Body == nil {
		return ""
	}
	var buf bytes.Buffer
	printer.Fprint(&buf, fset, fd.Body)
	// renumber identifiers on a re-parsed copy would be cleaner; a token walk is enough
	names := map[string]string{}
	var out strings.Builder
	ast.Inspect(fd.Body, func(n ast.Node) bool {
		switch x := n.(type) {
		case *ast.SelectorExpr:
			out.WriteString("." + x.Sel.Name + ";")
		case *ast.Ident:
			o := info.Uses[x]
			if o == nil {
				o = info.Defs[x]
			}
			if _, isPkg := o.(*types.PkgName); isPkg || o == nil || o.Pkg() == nil {
				out.WriteString(x.Name + ";")
				return true
			}
			if v, ok := o.(*types.Var); ok && v.IsField() {
				return true
			}
			nn, ok := names[x.Name]
			if !ok {
				nn = fmt.Sprintf("$%d", len(names)+1)
				names[x.Name] = nn
			}
			out.WriteString(nn + ";")
		case *ast.BasicLit:
			out.WriteString(x.Value + ";")
		case ast.Stmt:
			out.WriteString(fmt.Sprintf("%T;", x))
		case *ast.BinaryExpr:
			out.WriteString(x.Op.String() + ";")
		case *ast.UnaryExpr:
			out.WriteString(x.Op.String() + ";")
		}
		return true
	})
	return fmt.Sprintf("%x", sha1.Sum([]byte(out.String())))[:16]
}

func (w *World) currentAnchors() map[string]*anchorPkg {
	out := map[string]*anchorPkg{}
	for key, p := range w.Pkgs {
		ap := &anchorPkg{}
		for _, fd := range funcDecls(p) {
			if isTestFile(w, fd.Pos()) {
				continue
			}
			f, ok := p.TypesInfo.Defs[fd.Name].(*types.Func)
			if !ok {
				continue
			}
			sig := f.Type().(*types.Signature)
			ap.Funcs = append(ap.Funcs, anchorFunc{recvName(sig), f.Name(), sigStr(sig), bodyHash(w.Fset, fd, p.TypesInfo)})
		}
		scope := p.Types.Scope()
		for _, n := range scope.Names() {
			o := scope.Lookup(n)
			if isTestFile(w, o.Pos()) {
				continue
			}
			switch x := o.(type) {
			case *types.Var:
				ap.Objs = append(ap.Objs, anchorObj{n, "var", typeStr(x.Type())})
			case *types.Const:
				ap.Objs = append(ap.Objs, anchorObj{n, "const", typeStr(x.Type())})
			case *types.TypeName:
				if st, ok := x.Type().Underlying().(*types.Struct); ok {
					for i := 0; i < st.NumFields(); i++ {
						ap.Fields = append(ap.Fields, anchorField{n, st.Field(i).Name(), typeStr(st.Field(i).Type()), i})
					}
				}
			}
		}
		sort.Slice(ap.Funcs, func(i, j int) bool {
			return ap.Funcs[i].Recv+"."+ap.Funcs[i].Name < ap.Funcs[j].Recv+"."+ap.Funcs[j].Name
		})
		out[key] = ap
	}
	return out
}

func (w *World) DumpAnchors(path string) error {
	js, err := json.MarshalIndent(w.currentAnchors(), "", " ")
	if err != nil {
		return err
	}
	return os.WriteFile(path, js, 0o644)
}

// resolveRenames compares the current tree with anchors.json.
func (w *World) resolveRenames() {
	origName = map[types.Object]string{}
	origDeclName = map[token.Pos]string{}
	renameNotes = nil
	vanished = map[string]bool{}
	convertedFrom = map[types.Object]string{}
	convertedDecl = map[token.Pos]string{}
	data, err := os.ReadFile(filepath.Join(w.VerifD, "checker", "anchors.json"))
	if err != nil {
		return
	}
	var rec map[string]*anchorPkg
	if json.Unmarshal(data, &rec) != nil {
		return
	}
	cur := w.currentAnchors()
	for key, rp := range rec {
		cp, ok := cur[key]
		p := w.Pkgs[key]
		if !ok || p == nil {
			continue
		}
		// functions
		type fk struct{ recv, name string }
		have := map[fk]anchorFunc{}
		for _, f := range cp.Funcs {
			have[fk{f.Recv, f.Name}] = f
		}
		was := map[fk]bool{}
		for _, f := range rp.Funcs {
			was[fk{f.Recv, f.Name}] = true
		}
		taken := map[fk]bool{}
		for _, old := range rp.Funcs {
			if _, ok := have[fk{old.Recv, old.Name}]; ok {
				continue
			}
			var cands []anchorFunc
			for _, c := range cp.Funcs {
				k := fk{c.Recv, c.Name}
				if was[k] || taken[k] || c.Recv != old.Recv || c.Sig != old.Sig {
					continue
				}
				cands = append(cands, c)
			}
			var pick *anchorFunc
			if len(cands) == 1 {
				pick = &cands[0]
			} else {
				for i := range cands {
					if cands[i].Hash == old.Hash && old.Hash != "" {
						if pick != nil {
							pick = nil
							break
						}
						pick = &cands[i]
					}
				}
			}
			if pick == nil {
				// a method turned into a function of the same name taking the receiver first, or the reverse
				conv := false
				for _, c := range cp.Funcs {
					k := fk{c.Recv, c.Name}
					if was[k] || taken[k] || c.Name != old.Name {
						continue
					}
					var how string
					switch {
					case old.Recv != "" && c.Recv == "" && (c.Sig == withFirstParam(old.Sig, "*"+old.Recv) || c.Sig == withFirstParam(old.Sig, old.Recv) || c.Sig == withFirstParam(old.Sig, key2pkg(key)+"."+old.Recv) || c.Sig == withFirstParam(old.Sig, "*"+key2pkg(key)+"."+old.Recv)):
						how = "method:" + old.Recv
					case old.Recv != "" && c.Recv == "" && c.Sig == old.Sig:
						how = "method-dropped-receiver:" + old.Recv // the receiver was never used
					case old.Recv == "" && c.Recv != "" && (old.Sig == withFirstParam(c.Sig, "*"+c.Recv) || old.Sig == withFirstParam(c.Sig, c.Recv) || old.Sig == withFirstParam(c.Sig, key2pkg(key)+"."+c.Recv) || old.Sig == withFirstParam(c.Sig, "*"+key2pkg(key)+"."+c.Recv)):
						how = "func"
					case old.Recv != "" && c.Recv == "":
						// the same name, now a plain function with another parameter list (unused parameters dropped with the receiver)
						how = "method-dropped-receiver:" + old.Recv
					}
					if how == "" {
						continue
					}
					obj := w.lookupFuncRaw(p.Types, c.Recv, c.Name)
					if obj == nil {
						continue
					}
					taken[k] = true
					convertedFrom[obj] = how
					for _, fd := range funcDecls(p) {
						if p.TypesInfo.Defs[fd.Name] == types.Object(obj) {
							convertedDecl[fd.Name.Pos()] = how
						}
					}
					renameNotes = append(renameNotes, fmt.Sprintf("%s: %s is the recorded %s.%s with the receiver as a parameter (or the reverse)", key, c.Name, old.Recv, old.Name))
					conv = true
					break
				}
				if conv {
					continue
				}
				if old.Recv != "" {
					vanished[old.Recv+"."+old.Name] = true
				} else {
					vanished[old.Name] = true
				}
				continue
			}
			taken[fk{pick.Recv, pick.Name}] = true
			obj := w.lookupFuncRaw(p.Types, pick.Recv, pick.Name)
			if obj == nil {
				continue
			}
			origName[obj] = old.Name
			for _, fd := range funcDecls(p) {
				if p.TypesInfo.Defs[fd.Name] == types.Object(obj) {
					origDeclName[fd.Name.Pos()] = old.Name
				}
			}
			renameNotes = append(renameNotes, fmt.Sprintf("%s: %s.%s is the recorded %s (same receiver and signature)", key, pick.Recv, pick.Name, old.Name))
		}
		// fields
		type sk struct{ st, name string }
		haveF := map[sk]bool{}
		for _, f := range cp.Fields {
			haveF[sk{f.Struct, f.Name}] = true
		}
		wasF := map[sk]bool{}
		for _, f := range rp.Fields {
			wasF[sk{f.Struct, f.Name}] = true
		}
		for _, old := range rp.Fields {
			if haveF[sk{old.Struct, old.Name}] {
				continue
			}
			var cands []anchorField
			for _, c := range cp.Fields {
				if c.Struct == old.Struct && c.Type == old.Type && !wasF[sk{c.Struct, c.Name}] {
					cands = append(cands, c)
				}
			}
			var pick *anchorField
			if len(cands) == 1 {
				pick = &cands[0]
			} else {
				for i := range cands {
					if cands[i].Index == old.Index {
						pick = &cands[i]
					}
				}
			}
			if pick == nil {
				continue
			}
			if tn, ok := p.Types.Scope().Lookup(old.Struct).(*types.TypeName); ok {
				if st, ok := tn.Type().Underlying().(*types.Struct); ok {
					for i := 0; i < st.NumFields(); i++ {
						if st.Field(i).Name() == pick.Name {
							origName[st.Field(i)] = old.Name
							renameNotes = append(renameNotes, fmt.Sprintf("%s: field %s.%s is the recorded %s", key, old.Struct, pick.Name, old.Name))
						}
					}
				}
			}
		}
		// package-level variables and constants
		haveO := map[string]bool{}
		for _, o := range cp.Objs {
			haveO[o.Name] = true
		}
		wasO := map[string]bool{}
		for _, o := range rp.Objs {
			wasO[o.Name] = true
		}
		for _, old := range rp.Objs {
			if haveO[old.Name] {
				continue
			}
			var cands []anchorObj
			for _, c := range cp.Objs {
				if c.Kind == old.Kind && c.Type == old.Type && !wasO[c.Name] {
					cands = append(cands, c)
				}
			}
			if len(cands) != 1 {
				continue
			}
			if o := p.Types.Scope().Lookup(cands[0].Name); o != nil {
				origName[o] = old.Name
				renameNotes = append(renameNotes, fmt.Sprintf("%s: %s %s is the recorded %s", key, old.Kind, cands[0].Name, old.Name))
			}
		}
	}
	sort.Strings(renameNotes)
}

func (w *World) lookupFuncRaw(pkg *types.Package, recv, name string) *types.Func {
	if recv == "" {
		f, _ := pkg.Scope().Lookup(name).(*types.Func)
		return f
	}
	tn, ok := pkg.Scope().Lookup(recv).(*types.TypeName)
	if !ok {
		return nil
	}
	named, ok := tn.Type().(*types.Named)
	if !ok {
		return nil
	}
	for i := 0; i < named.NumMethods(); i++ {
		if named.Method(i).Name() == name {
			return named.Method(i)
		}
	}
	return nil
}

// scopeLookup finds a package-level object by its recorded name.
func scopeLookup(scope *types.Scope, name string) types.Object {
	if o := scope.Lookup(name); o != nil {
		if _, renamedAway := origName[o]; !renamedAway {
			return o
		}
	}
	for _, n := range scope.Names() {
		o := scope.Lookup(n)
		if on, ok := origName[o]; ok && on == name {
			return o
		}
	}
	return scope.Lookup(name)
}

// ssaMember finds a package member by its recorded name.
func ssaMember(sp *ssa.Package, name string) ssa.Member {
	if m, ok := sp.Members[name]; ok {
		if o := m.Object(); o == nil || origName[o] == "" {
			return m
		}
	}
	for _, m := range sp.Members {
		if o := m.Object(); o != nil && origName[o] == name {
			return m
		}
	}
	return sp.Members[name]
}

func ssaFuncNamed(sp *ssa.Package, name string) *ssa.Function {
	f, _ := ssaMember(sp, name).(*ssa.Function)
	return f
}

// withFirstParam: signature string sig with one more parameter in front.
func withFirstParam(sig, typ string) string {
	if strings.HasPrefix(sig, "()") {
		return "(" + typ + ")" + sig[2:]
	}
	return "(" + typ + "," + sig[1:]
}

// key2pkg: the package name for a package key ("xpath/grammars/expr" → "expr").
func key2pkg(key string) string {
	if i := strings.LastIndex(key, "/"); i >= 0 {
		return key[i+1:]
	}
	if key == "" {
		return "yang"
	}
	return key
}

// recordedAnchors reads the anchor record of the reviewed tree.
func (w *World) recordedAnchors() map[string]*anchorPkg {
	data, err := os.ReadFile(filepath.Join(w.VerifD, "checker", "anchors.json"))
	if err != nil {
		return nil
	}
	var rec map[string]*anchorPkg
	if json.Unmarshal(data, &rec) != nil {
		return nil
	}
	return rec
}

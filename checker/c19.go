package main

import (
	"fmt"
	"go/ast"
	"go/constant"
	"go/token"
	"go/types"
	"os"
	"sort"
	"strings"

	"golang.org/x/tools/go/ssa"
)

func init() { register("C19", checkC19) }

var c19Reviewed = []reviewedEntry{
	{"getChildName", "‹schema.ListEntry›.Keys()[0]", "every list has a key (substatement table: list/key is 1..1, recorded C09 finding), so a list entry has at least one key name", ""},
	{"getChildName", "‹[]string›[0]", "guarded by len(vals) == 0 ⇒ return", "lenguard"},
	{"convertToDataNode", "‹schema.ListEntry›.Keys()[0]", "see getChildName: list entries have at least one key", ""},
	{"convertToDataNode", "‹[]string›[0]", "second operand of `len(values) != 1 || …` inside `len(values) > 0 && …`", ""},
	{"convertToDataNode", "‹[]datanode.DataNode›[‹int›]", "children is made with len(ukids) and i ranges over ukids", ""},
	{"JSONReader.name", "‹*encoding.JSONReader›.decodedName[‹int› + 1:]", "idx is a found index (idx != -1), so idx+1 ≤ len", ""},
}

func checkC19(w *World, r *Report) {
	r.NotDecided = []string{
		"round-trip equality encode→decode (a relation over runtime trees and byte strings); only escaping, bracket balance and value provenance are decided",
		"the XML reader/writer beyond the shared schema-directed conversion",
		"precision of JSON numbers beyond 2^53 (decoded through float64 by encoding/json)",
	}
	p := w.Pkg("data/encoding")

	r.Rule("R19.1", "decoding cannot panic on indexing: every index/slice expression and unchecked type assertion in the schema-directed conversion and the JSON reader is discharged by a guard that is still present or a reviewed entry", 4)
	r.guard("R19.1", func() {
		roots := []*types.Func{w.Func("data/encoding", "convertToDataNode"), w.Func("data/encoding", "getChildName")}
		for _, m := range []string{"name", "values", "unserializedChildren"} {
			roots = append(roots, w.Method("data/encoding", "JSONReader", m))
		}
		cone := staticCone(w, []string{"data/encoding"}, roots, true)
		// restrict to the files of the JSON / shared path
		for f, fd := range cone {
			file := w.Fset.Position(fd.Pos()).Filename
			if strings.HasSuffix(file, "/xml.go") {
				delete(cone, f)
			}
		}
		scanPanicObligationsOpt(w, r, "R19.1", cone, c19Reviewed, true, true, "reachable from Unmarshal", "crafted input bytes may crash the decoder (there is no recover on this side)")
	})

	r.Rule("R19.2", "no 'error dropped, value used': a call whose error result is discarded with _ must not have its other result indexed or dereferenced", 1)
	r.guard("R19.2", func() {
		n, bad := 0, 0
		for _, fd := range funcDecls(p) {
			if isTestFile(w, fd.Pos()) {
				continue
			}
			ast.Inspect(fd.Body, func(x ast.Node) bool {
				as, ok := x.(*ast.AssignStmt)
				if !ok || len(as.Lhs) != 2 || len(as.Rhs) != 1 {
					return true
				}
				ce, ok := as.Rhs[0].(*ast.CallExpr)
				if !ok {
					return true
				}
				id, ok := as.Lhs[1].(*ast.Ident)
				if !ok || id.Name != "_" {
					return true
				}
				t, ok := p.TypesInfo.TypeOf(ce).(*types.Tuple)
				if !ok || t.Len() != 2 || t.At(1).Type().String() != "error" {
					return true
				}
				n++
				val := objOfIdent(p, as.Lhs[0])
				used := false
				ast.Inspect(fd.Body, func(y ast.Node) bool {
					switch z := y.(type) {
					case *ast.IndexExpr:
						if val != nil && objOfIdent(p, z.X) == val {
							used = true
						}
					case *ast.StarExpr:
						if val != nil && objOfIdent(p, z.X) == val {
							used = true
						}
					}
					return true
				})
				c := fmt.Sprintf("%s: %s", funcDeclName(fd), types.ExprString(ce.Fun))
				if used {
					bad++
					r.Fail("R19.2", c, as.Pos(), "the error is discarded and the value then indexed: when the call fails the value is nil/empty and decoding panics")
				} else {
					r.OK("R19.2", c, as.Pos(), "value not indexed/dereferenced (e.g. json.Marshal of a string cannot fail)")
				}
				return true
			})
		}
		if n == 0 {
			r.OK("R19.2", "discarded errors", token.NoPos, "no call in data/encoding discards an error result")
		}
	})

	r.Rule("R19.3", "no lossy numeric conversion on a decoded value: a JSON number is not converted float64→integer before it is rendered for the schema type", 1)
	r.guard("R19.3", func() {
		fd, _ := w.FuncDecl(w.Func("data/encoding", "decodeValue"))
		lossy := false
		ast.Inspect(fd.Body, func(x ast.Node) bool {
			ce, ok := x.(*ast.CallExpr)
			if !ok || len(ce.Args) != 1 {
				return true
			}
			tv, ok := p.TypesInfo.Types[ce.Fun]
			if !ok || !tv.IsType() {
				return true
			}
			dst, ok := tv.Type.Underlying().(*types.Basic)
			src := p.TypesInfo.TypeOf(ce.Args[0])
			if ok && dst.Info()&types.IsInteger != 0 && src != nil {
				if sb, ok := src.Underlying().(*types.Basic); ok && sb.Info()&types.IsFloat != 0 {
					lossy = true
				}
			}
			return true
		})
		r.Check(!lossy, "R19.3", "decodeValue number rendering", fd.Pos(), "no float→integer conversion", "a JSON number is truncated to an integer before validation: 1.5 for a uint8 leaf is silently accepted as 1 and a decimal64 loses its fraction")
	})

	r.Rule("R19.13", "an integer written in JSON is kept digit for digit: in decodeValue the binary floating-point reading of a number (json.Number.Float64) is used only for texts with a fraction or an exponent ('.', 'e', 'E'); no fixed-width integer reading (Int64) stands in for the text — uint64 and decimal64 values beyond 2^63 or 2^53 must survive", 1)
	r.guard("R19.13", func() {
		f := w.SSAFunc(w.Func("data/encoding", "decodeValue"))
		if f == nil {
			panic(undecided{"encoding.decodeValue"})
		}
		sym := NewSym(w)
		why := ""
		n := 0
		top := f
		for _, f := range bodiesDeep(top, 2) { // the number arm may live in a helper of its own
			for _, b := range f.Blocks {
				for _, in := range b.Instrs {
					c, ok := in.(*ssa.Call)
					if !ok || c.Call.StaticCallee() == nil {
						continue
					}
					switch c.Call.StaticCallee().String() {
					case "(encoding/json.Number).Int64":
						n++
						why = "the number is read through Int64, which fails from 2^63 on"
					case "(encoding/json.Number).Float64":
						n++
						has := false
						msg := pcImplies(sym.PathCond(f.Blocks[0], b, nil), func(a *pcAtom) string {
							if cc, ok := a.v.(*ssa.Call); ok && cc.Call.StaticCallee() != nil && cc.Call.StaticCallee().String() == "strings.ContainsAny" {
								if k, isK := cc.Call.Args[1].(*ssa.Const); isK && k.Value != nil && constant.StringVal(k.Value) == ".eE" {
									has = true
									return "fractional"
								}
							}
							return ""
						}, func(env map[string]bool) bool { return env["fractional"] })
						if !has || msg != "" {
							why = "the binary floating-point reading is used for texts that are plain integers"
						}
					}
				}
			}
		}
		if n == 0 {
			panic(undecided{"decodeValue: reading of a JSON number"})
		}
		r.Check(why == "", "R19.13", "decodeValue keeps integer literals as text", f.Pos(), "Float64 only under strings.ContainsAny(text, \".eE\")", why+": 18446744073709551615 becomes 18446744073709552000 and is rejected (or a value above 2^63 is silently altered), so the encoder's own output no longer decodes")
	})

	r.Rule("R19.14", "XML is read strictly: the decoder of data/encoding never switches on the lenient modes of encoding/xml (Strict = false, AutoClose, Entity) — with HTML auto-closing an element named link, base, input, meta … is closed at once and what follows it is dropped without an error", 1)
	r.guard("R19.14", func() {
		var bad []string
		for _, f := range allFuncs(w.SSAPkg("data/encoding")) {
			if isTestFile(w, f.Pos()) {
				continue
			}
			for _, b := range f.Blocks {
				for _, in := range b.Instrs {
					st, ok := in.(*ssa.Store)
					if !ok {
						continue
					}
					fa, ok := st.Addr.(*ssa.FieldAddr)
					if !ok {
						continue
					}
					fv := fieldAddrVar(fa)
					if fv == nil || fv.Pkg() == nil || fv.Pkg().Path() != "encoding/xml" {
						continue
					}
					switch fv.Name() {
					case "Strict", "AutoClose", "Entity":
						bad = append(bad, funcKey(f)+" sets Decoder."+fv.Name())
					}
				}
			}
		}
		sort.Strings(bad)
		r.Check(len(bad) == 0, "R19.14", "data/encoding decodes XML strictly", token.NoPos, "no lenient decoder mode", strings.Join(bad, "; ")+": schema nodes named like HTML void elements lose their content and their later siblings when decoded from XML")
	})

	r.Rule("R19.4", "a decoded scalar is stored only if the schema accepted that very string: in convertToDataNode every value appended to the result passed sn.Validate, or is the identityref simple form that isIdentityrefSimpleFormValid re-validated", 2)
	r.guard("R19.4", func() {
		fd, _ := w.FuncDecl(w.Func("data/encoding", "convertToDataNode"))
		simple := w.Func("data/encoding", "isIdentityrefSimpleFormValid")
		ok := false
		why := ""
		if f := w.SSAFunc(w.Func("data/encoding", "convertToDataNode")); f != nil {
			sym := NewSym(w)
			sym.Expand = false // the verdicts of Validate and of the simple-form check are the atoms
			n := 0
			// the appends that build the value list handed to CreateDataNode
			valAppends := map[*ssa.Call]bool{}
			for _, b := range f.Blocks {
				for _, in := range b.Instrs {
					if c, isC := in.(*ssa.Call); isC && c.Call.StaticCallee() != nil && c.Call.StaticCallee().Name() == "CreateDataNode" && len(c.Call.Args) == 3 {
						seen := map[ssa.Value]bool{}
						var back func(v ssa.Value)
						back = func(v ssa.Value) {
							if v == nil || seen[v] {
								return
							}
							seen[v] = true
							switch x := v.(type) {
							case *ssa.Phi:
								for _, e := range x.Edges {
									back(e)
								}
							case *ssa.Call:
								if bi, ok := x.Call.Value.(*ssa.Builtin); ok && bi.Name() == "append" {
									valAppends[x] = true
									back(x.Call.Args[0])
								}
							case *ssa.Extract:
								// the list built by a helper of the package: what the helper returns there
								if hc, ok := x.Tuple.(*ssa.Call); ok {
									if h := hc.Call.StaticCallee(); h != nil && h.Pkg == f.Pkg && h.Blocks != nil {
										for _, hb := range h.Blocks {
											if ret, ok := hb.Instrs[len(hb.Instrs)-1].(*ssa.Return); ok && x.Index < len(ret.Results) {
												back(unspill(ret.Results[x.Index]))
											}
										}
									}
								}
							}
						}
						back(c.Call.Args[2])
					}
				}
			}
			var appendCalls []*ssa.Call
			for c := range valAppends {
				appendCalls = append(appendCalls, c)
			}
			sort.Slice(appendCalls, func(i, j int) bool { return appendCalls[i].Pos() < appendCalls[j].Pos() })
			for _, c := range appendCalls {
				{
					f, b := c.Parent(), c.Block()
					if len(c.Call.Args) != 2 {
						continue
					}
					lit, isL := c.Call.Args[1].(*ssa.Slice)
					if !isL {
						why = "a string list is appended as a whole at " + w.PosStr(c.Pos())
						continue
					}
					l, inLoop := loopOf(f, b)
					if !inLoop {
						why = "a value is stored outside the loop that validates at " + w.PosStr(c.Pos())
						continue
					}
					cond := sym.PathCond(l.Header, b, nil)
					for _, e := range sliceLiteral(lit) {
						n++
						switch x := e.(type) {
						case *ssa.UnOp:
							// the element under validation: the very value handed to Validate, accepted
							var val *ssa.Call
							for _, bb := range f.Blocks {
								for _, i2 := range bb.Instrs {
									if vc, ok := i2.(*ssa.Call); ok && vc.Call.IsInvoke() && vc.Call.Method.Name() == "Validate" && len(vc.Call.Args) == 3 {
										if vs, ok := vc.Call.Args[2].(*ssa.Slice); ok {
											for _, ve := range sliceLiteral(vs) {
												if ve == ssa.Value(x) {
													val = vc
												}
											}
										}
									}
								}
							}
							if val == nil {
								why = "a value that was not handed to Validate is stored at " + w.PosStr(c.Pos())
								continue
							}
							msg := pcImplies(cond, func(a *pcAtom) string {
								if a.op == token.EQL && (a.x == ssa.Value(val) && isNilConst(a.y) || a.y == ssa.Value(val) && isNilConst(a.x)) {
									return "accepted"
								}
								return ""
							}, func(env map[string]bool) bool { return env["accepted"] })
							if msg != "" {
								why = "the value is stored although Validate may have rejected it (" + msg + ")"
							}
						case *ssa.Extract:
							sc, isSimple := x.Tuple.(*ssa.Call)
							if !isSimple || x.Index != 0 || sc.Call.StaticCallee() == nil || sc.Call.StaticCallee().Object() != types.Object(simple) {
								why = "something other than the value or its re-validated simple form is stored at " + w.PosStr(c.Pos())
								continue
							}
							msg := pcImplies(cond, func(a *pcAtom) string {
								if ex, ok := a.v.(*ssa.Extract); ok && ex.Tuple == ssa.Value(sc) && ex.Index == 1 {
									return "valid"
								}
								return ""
							}, func(env map[string]bool) bool { return env["valid"] })
							if msg != "" {
								why = "the simple form is stored although it was not found valid (" + msg + ")"
							}
						default:
							why = "something other than the value or its re-validated simple form is stored at " + w.PosStr(c.Pos())
						}
					}
				}
			}
			ok = why == "" && n >= 2
		}
		if os.Getenv("YV_DEBUG") != "" {
			fmt.Println("DEBUG R19.4:", why)
		}
		r.Check(ok, "R19.4", "convertToDataNode stores validated strings only", fd.Pos(), "Validate(v) ok ⇒ append v; else only the re-validated identityref simple form", "a value is stored that the schema did not validate in that form")
		// simple form: requires module + ":" prefix and strips exactly that
		sfd, _ := w.FuncDecl(simple)
		var prefixObj types.Object
		ast.Inspect(sfd.Body, func(x ast.Node) bool {
			if as, ok := x.(*ast.AssignStmt); ok && len(as.Rhs) == 1 {
				if be, ok := ast.Unparen(as.Rhs[0]).(*ast.BinaryExpr); ok && be.Op == token.ADD {
					if s, ok := ConstStr(p, be.Y); ok && s == ":" {
						if ce, ok := ast.Unparen(be.X).(*ast.CallExpr); ok {
							if se, ok := ce.Fun.(*ast.SelectorExpr); ok && se.Sel.Name == "Module" {
								prefixObj = objOfIdent(p, as.Lhs[0])
							}
						}
					}
				}
			}
			return true
		})
		hasPrefix, trims, reval := false, false, false
		ast.Inspect(sfd.Body, func(x ast.Node) bool {
			if ce, ok := x.(*ast.CallExpr); ok {
				if c := calleeOf(p, ce); c != nil && prefixObj != nil {
					switch c.FullName() {
					case "strings.HasPrefix":
						if objOfIdent(p, ce.Args[1]) == prefixObj {
							hasPrefix = true
						}
					case "strings.TrimPrefix":
						if objOfIdent(p, ce.Args[1]) == prefixObj {
							trims = true
						}
					}
				}
				if calleeOf(p, ce) == w.Func("data/encoding", "matchIdentityref") {
					reval = true
				}
			}
			return true
		})
		r.Check(hasPrefix && trims && reval, "R19.4", "isIdentityrefSimpleFormValid", sfd.Pos(), "value must start with <module>: ; exactly that prefix is removed; the remainder is validated again", "the namespace-qualified form is accepted when the qualifier merely starts with the module name (or is not re-validated): a value naming a non-existent identity is rewritten into a valid one")
	})

	r.Rule("R19.6", "no error is forgotten while decoding or encoding: in data/encoding every error result bound to a variable is examined", 1)
	r.guard("R19.6", func() { errRule(w, r, "R19.6", []string{"data/encoding"}, nil) })

	r.Rule("R19.7", "readers store the identity spelling the validator compares: the field of schema.Identity that identityref.Validate compares with the value is the only Identity field a reader in data/encoding stores as a decoded value", 1)
	r.guard("R19.7", func() {
		vf := w.SSAFunc(w.Method("schema", "identityref", "Validate"))
		if vf == nil {
			panic(undecided{"schema.identityref.Validate"})
		}
		isIdentity := func(t types.Type) bool {
			if p, ok := t.(*types.Pointer); ok {
				t = p.Elem()
			}
			n, ok := t.(*types.Named)
			return ok && nm(n.Obj()) == "Identity" && n.Obj().Pkg() != nil && nm(n.Obj().Pkg()) == "schema"
		}
		fieldLoad := func(v ssa.Value) string {
			u, ok := v.(*ssa.UnOp)
			if !ok || u.Op != token.MUL {
				return ""
			}
			fa, ok := u.X.(*ssa.FieldAddr)
			if !ok || !isIdentity(fa.X.Type()) {
				return ""
			}
			return fa.X.Type().(*types.Pointer).Elem().Underlying().(*types.Struct).Field(fa.Field).Name()
		}
		cmpField := ""
		// the comparison may sit in a function literal of Validate (a test handed to slices.ContainsFunc)
		var vblocks []*ssa.BasicBlock
		var addFn func(fn *ssa.Function)
		addFn = func(fn *ssa.Function) {
			vblocks = append(vblocks, fn.Blocks...)
			for _, a := range fn.AnonFuncs {
				addFn(a)
			}
		}
		addFn(vf)
		for _, b := range vblocks {
			for _, in := range b.Instrs {
				if bo, ok := in.(*ssa.BinOp); ok && bo.Op == token.EQL {
					for _, side := range []ssa.Value{bo.X, bo.Y} {
						if f := fieldLoad(side); f != "" {
							cmpField = f
						}
					}
				}
			}
		}
		if cmpField == "" {
			panic(undecided{"identityref.Validate: compared Identity field"})
		}
		n := 0
		for _, f := range allFuncs(w.SSAPkg("data/encoding")) {
			for _, b := range f.Blocks {
				for _, in := range b.Instrs {
					st, ok := in.(*ssa.Store)
					if !ok {
						continue
					}
					fld := fieldLoad(st.Val)
					if fld != "Val" && fld != "Value" {
						continue // only the two spellings of the identity's name are at stake (module, namespace, … are other data)
					}
					n++
					r.Check(fld == cmpField, "R19.7", funcKey(f)+" stores Identity."+fld, st.Pos(), "the field identityref.Validate compares ("+cmpField+")", "the reader stores Identity."+fld+" as the decoded value, but validation (and the other readers) use Identity."+cmpField+": an identity of another module decodes to a value that is rejected or names a different identity")
				}
			}
		}
		if n == 0 {
			r.OK("R19.7", "no reader stores an Identity field", token.NoPos, "compared field is "+cmpField)
		}
	})

	r.Rule("R19.8", "writer state is balanced: in the JSON child encoder every PushName (module-name stack used for RFC 7951 qualified names) is matched by one PopName on every path of the iteration; in the XML encoders every StartElement token is followed by its EndElement", 3)
	r.guard("R19.8", func() {
		ep := w.Pkg("data/encoding")
		push, pop := w.Method("data/encoding", "JSONWriter", "PushName"), w.Method("data/encoding", "JSONWriter", "PopName")
		fd, _ := w.FuncDecl(w.Method("data/encoding", "JSONWriter", "encodeJsonChildren"))
		iss, o, c := pairCheck(ep, fd.Body, pairSpec{
			IsOpen:  func(ce *ast.CallExpr) bool { return calleeOf(ep, ce) == push },
			IsClose: func(ce *ast.CallExpr) bool { return calleeOf(ep, ce) == pop },
		})
		why := ""
		if len(iss) > 0 {
			why = iss[0].Why + " at " + w.PosStr(iss[0].Pos)
			// second view: pairing by path conditions (guard clauses, continue instead of nesting)
			ef := w.SSAFunc(w.Method("data/encoding", "JSONWriter", "encodeJsonChildren"))
			if ssaPairing(w, ef, func(c *ssa.Call) bool {
				return c.Call.StaticCallee() != nil && c.Call.StaticCallee().Object() == types.Object(push)
			},
				func(c *ssa.Call) bool {
					return c.Call.StaticCallee() != nil && c.Call.StaticCallee().Object() == types.Object(pop)
				}) == "" {
				iss = nil
			}
		}
		r.Check(len(iss) == 0 && o > 0 && c > 0, "R19.8", "encodeJsonChildren: PushName/PopName", fd.Pos(), fmt.Sprintf("%d push, %d pop, balanced on every path", o, c), "module-name stack unbalanced ("+why+"): later siblings are written with the wrong (or a missing) module qualifier, so the RFC 7951 text no longer decodes to the same tree")
		isTok := func(ce *ast.CallExpr, typ string) bool {
			if f := calleeOf(ep, ce); f == nil || f.FullName() != "(*encoding/xml.Encoder).EncodeToken" || len(ce.Args) != 1 {
				return false
			}
			t := ep.TypesInfo.TypeOf(ce.Args[0])
			return t != nil && t.String() == "encoding/xml."+typ
		}
		// every function of the package that writes element tokens (encodeXmlChildren and ToXML on the reviewed tree)
		for _, xfd := range funcDecls(ep) {
			if xfd.Body == nil || isTestFile(w, xfd.Pos()) {
				continue
			}
			writes := false
			for _, ce := range callsIn(ep, xfd.Body) {
				writes = writes || isTok(ce, "StartElement") || isTok(ce, "EndElement")
			}
			if !writes {
				continue
			}
			fn := funcDeclName(xfd)
			if dot := strings.LastIndexByte(fn, '.'); dot >= 0 && origDeclName[xfd.Name.Pos()] == "" && convertedDecl[xfd.Name.Pos()] == "" {
				fn = fn[dot+1:]
			}
			iss, o, c := pairCheck(ep, xfd.Body, pairSpec{
				IsOpen:  func(ce *ast.CallExpr) bool { return isTok(ce, "StartElement") },
				IsClose: func(ce *ast.CallExpr) bool { return isTok(ce, "EndElement") },
			})
			why := ""
			if len(iss) > 0 {
				why = iss[0].Why + " at " + w.PosStr(iss[0].Pos)
			}
			r.Check(len(iss) == 0 && o > 0 && o == c, "R19.8", fn+": StartElement/EndElement", xfd.Pos(), fmt.Sprintf("%d start, %d end, balanced on every path", o, c), "XML element tokens unbalanced ("+why+"): the encoder emits text that is not well-formed or nests siblings")
		}
	})

	r.Rule("R19.9", "encoders and decoders keep nothing between calls: the packages data/encoding and data/datanode declare no package-level variable that can hold mutable state (pools, caches, buffers, maps); the matcher is exercised on package xpath, which has some", 2)
	r.guard("R19.9", func() {
		count := func(key string, report bool) int {
			n := 0
			sp := w.SSAPkg(key)
			for name, m := range sp.Members {
				g, ok := m.(*ssa.Global)
				if !ok || strings.HasPrefix(name, "init$") || name == "_" {
					continue
				}
				t := g.Type().(*types.Pointer).Elem()
				mutable := pointerLike(t)
				if st, ok := t.Underlying().(*types.Struct); ok && st.NumFields() > 0 {
					mutable = true // sync.Pool, sync.Map, bytes.Buffer, sync.Mutex …
				}
				if _, isIface := t.Underlying().(*types.Interface); isIface && (name == "_" || strings.HasPrefix(name, "_")) {
					mutable = false
				}
				if !mutable {
					continue
				}
				// a table written as a literal and only ever read (indexed, ranged over, measured) holds no state
				if tv, isVar := g.Object().(*types.Var); isVar && report {
					if init, _ := w.VarInit(tv); init != nil {
						if _, isLit := ast.Unparen(init).(*ast.CompositeLit); isLit && w.readOnlyTable(tv) {
							r.OK("R19.9", key+"."+name, g.Pos(), "a literal table that is only read")
							continue
						}
					}
				}
				n++
				if report {
					r.Fail("R19.9", key+"."+name, g.Pos(), "package-level variable of a mutable kind ("+t.String()+"): bytes or trees handed to one caller can be changed by the next call (e.g. a pooled output buffer that the returned slice aliases)")
				}
			}
			return n
		}
		control := count("xpath", false)
		r.Check(control > 0, "R19.9", "matcher control: package xpath", token.NoPos, fmt.Sprintf("%d mutable package-level variables recognised", control), "the matcher recognises no package-level state at all")
		k := count("data/encoding", true) + count("data/datanode", true)
		if k == 0 {
			r.OK("R19.9", "data/encoding, data/datanode: no package-level state", token.NoPos, "no variable of a mutable kind")
		}
	})

	r.Rule("R19.10", "decoded text is stored verbatim: the XML reader's values are the elements' character data itself and the JSON reader's string case returns the decoded string itself — no trimming, case folding or other rewriting between the token and the value the schema validates", 3)
	r.guard("R19.10", func() {
		xf := w.SSAFunc(w.Method("data/encoding", "unmarshaledXML", "values"))
		if xf == nil {
			panic(undecided{"unmarshaledXML.values"})
		}
		chardata := w.Field("data/encoding", "unmarshaledXML", "Chardata")
		isChar := func(v ssa.Value) bool {
			for {
				switch x := v.(type) {
				case *ssa.Convert:
					v = x.X
					continue
				case *ssa.ChangeType:
					v = x.X
					continue
				}
				break
			}
			u, ok := v.(*ssa.UnOp)
			if !ok || u.Op != token.MUL {
				return false
			}
			fa, ok := u.X.(*ssa.FieldAddr)
			return ok && isFieldAddrOf(fa, chardata)
		}
		n := 0
		for _, b := range xf.Blocks {
			for _, in := range b.Instrs {
				st, ok := in.(*ssa.Store)
				if !ok {
					continue
				}
				ia, ok := st.Addr.(*ssa.IndexAddr)
				if !ok {
					continue
				}
				if bt, ok := st.Val.Type().Underlying().(*types.Basic); !ok || bt.Kind() != types.String {
					continue
				}
				_ = ia
				n++
				r.Check(isChar(st.Val), "R19.10", fmt.Sprintf("XML values(): stored value #%d", n), st.Pos(), "the element's Chardata itself", "the XML reader stores `"+st.Val.String()+"`, not the character data as read: leading/trailing blanks (or other rewritten characters) are lost, so XML does not round-trip and a value the type rejects is silently altered into an accepted one")
			}
		}
		if n < 2 {
			r.Fail("R19.10", "XML values()", xf.Pos(), "fewer value stores than expected")
		}
		// JSON: case string returns the asserted value itself
		df := w.SSAFunc(w.Func("data/encoding", "decodeValue"))
		okJ := false
		for _, b := range df.Blocks {
			if ret, ok := b.Instrs[len(b.Instrs)-1].(*ssa.Return); ok && len(ret.Results) == 2 {
				v := ret.Results[0]
				if ex, ok := v.(*ssa.Extract); ok {
					v = ex.Tuple
				}
				if ta, ok := v.(*ssa.TypeAssert); ok {
					if bt, ok := ta.AssertedType.Underlying().(*types.Basic); ok && bt.Kind() == types.String {
						okJ = true
					}
				}
			}
		}
		r.Check(okJ, "R19.10", "JSON decodeValue: string case", df.Pos(), "returns the decoded string itself", "the JSON reader rewrites string values before they are validated and stored")
	})

	r.Rule("R19.11", "numbers are decoded as written: no JSON text is unmarshalled into an untyped value with encoding/json's default number handling (float64 alters every integer above 2^53); a json.Decoder that fills an interface{} has UseNumber set", 1)
	r.guard("R19.11", func() {
		sp := w.SSAPkg("data/encoding")
		n := 0
		isEmptyIfacePtr := func(t types.Type) bool {
			p, ok := t.(*types.Pointer)
			if !ok {
				return false
			}
			it, ok := p.Elem().Underlying().(*types.Interface)
			return ok && it.NumMethods() == 0
		}
		for _, f := range allFuncs(sp) {
			useNumber := false
			for _, b := range f.Blocks {
				for _, in := range b.Instrs {
					if c, ok := in.(*ssa.Call); ok && c.Call.StaticCallee() != nil && c.Call.StaticCallee().String() == "(*encoding/json.Decoder).UseNumber" {
						useNumber = true
					}
				}
			}
			for _, b := range f.Blocks {
				for _, in := range b.Instrs {
					c, ok := in.(*ssa.Call)
					if !ok || c.Call.StaticCallee() == nil {
						continue
					}
					switch c.Call.StaticCallee().String() {
					case "encoding/json.Unmarshal":
						target := c.Call.Args[1]
						if mi, ok := target.(*ssa.MakeInterface); ok && isEmptyIfacePtr(mi.X.Type()) {
							n++
							r.Fail("R19.11", funcKey(f)+": json.Unmarshal into interface{}", c.Pos(), "numbers become float64: an int64/uint64 leaf above 2^53 written as a bare number (plain JSON encoding) decodes to a different value or is rejected — the encoding does not round-trip")
						}
					case "(*encoding/json.Decoder).Decode":
						target := c.Call.Args[1]
						if mi, ok := target.(*ssa.MakeInterface); ok && isEmptyIfacePtr(mi.X.Type()) {
							n++
							r.Check(useNumber, "R19.11", funcKey(f)+": Decoder.Decode into interface{}", c.Pos(), "UseNumber is set", "the decoder fills an untyped value without UseNumber: numbers become float64 and large integers are altered")
						}
					}
				}
			}
		}
		if n == 0 {
			panic(undecided{"no JSON decoding into an untyped value found"})
		}
	})

	r.Rule("R19.12", "XML elements of one leaf-list make one node wherever they stand among their siblings: in the reader's leaf-list arm a collecting node is created only when the per-name table has no entry for that name (`!ok` of fields[name]), is entered into the table, and every element is appended to the node the table gives", 1)
	r.guard("R19.12", func() {
		ep := w.Pkg("data/encoding")
		fd, _ := w.FuncDecl(w.Method("data/encoding", "unmarshaledXML", "unserializedChildren"))
		// the comma-ok lookup
		var okObj, vObj types.Object
		var tableExpr string
		ast.Inspect(fd.Body, func(n ast.Node) bool {
			as, ok := n.(*ast.AssignStmt)
			if !ok || len(as.Lhs) != 2 || len(as.Rhs) != 1 {
				return true
			}
			ix, ok := as.Rhs[0].(*ast.IndexExpr)
			if !ok {
				return true
			}
			if _, isMap := ep.TypesInfo.TypeOf(ix.X).Underlying().(*types.Map); isMap {
				vObj, okObj = objOfIdent(ep, as.Lhs[0]), objOfIdent(ep, as.Lhs[1])
				tableExpr = types.ExprString(ix)
			}
			return true
		})
		good := false
		ast.Inspect(fd.Body, func(n ast.Node) bool {
			cc, ok := n.(*ast.CaseClause)
			if !ok || len(cc.List) != 1 || !strings.HasSuffix(types.ExprString(cc.List[0]), "LeafList") {
				return true
			}
			creates, appendsAfter := false, false
			for _, st := range cc.Body {
				if is, ok := st.(*ast.IfStmt); ok {
					if u, ok := ast.Unparen(is.Cond).(*ast.UnaryExpr); ok && u.Op == token.NOT && objOfIdent(ep, u.X) == okObj && okObj != nil {
						enters := false
						for _, s2 := range is.Body.List {
							if as, ok := s2.(*ast.AssignStmt); ok && len(as.Lhs) == 1 && types.ExprString(as.Lhs[0]) == tableExpr {
								enters = true
							}
						}
						creates = enters
					}
				}
				if as, ok := st.(*ast.AssignStmt); ok && len(as.Lhs) == 1 {
					if se, ok := as.Lhs[0].(*ast.SelectorExpr); ok && se.Sel.Name == "Children" && objOfIdent(ep, se.X) == vObj {
						appendsAfter = creates
					}
				}
			}
			good = creates && appendsAfter
			return true
		})
		r.Check(good && okObj != nil, "R19.12", "XML reader: leaf-list entries are collected per name", fd.Pos(), "if !ok { v = new; fields[name] = v; … }; v.Children = append(v.Children, c)", "the collecting node of a leaf-list is not looked up by name in the table of children seen so far: entries of two leaf-lists that interleave in the document are split into several nodes, and the XML decoding differs from the JSON decodings of the same data")
	})

	r.Rule("R19.5", "the JSON writer emits well-formed, faithfully escaped text: every string-like value goes through json.Marshal (no hand-written quoting), and in every arm of the child encoder the '[' / '{' written are closed on every path", 6)
	r.guard("R19.5", func() {
		wv := w.Method("data/encoding", "JSONWriter", "writeValue")
		fd, _ := w.FuncDecl(wv)
		why := c19StringArm(w)
		r.Check(why == "", "R19.5", "JSONWriter.writeValue string arm", fd.Pos(), "json.Marshal(value) only", "string values can be written without JSON escaping (hand-written quoting or a raw fast path): "+why+": a backslash or quote in a value produces text that decodes to a different value or not at all")
		// bracket balance in encodeJsonChildren
		enc := w.Method("data/encoding", "JSONWriter", "encodeJsonChildren")
		efd, _ := w.FuncDecl(enc)
		n := 0
		ast.Inspect(efd.Body, func(x ast.Node) bool {
			ts, ok := x.(*ast.TypeSwitchStmt)
			if !ok {
				return true
			}
			for _, c := range ts.Body.List {
				cc := c.(*ast.CaseClause)
				var names []string
				for _, e := range cc.List {
					names = append(names, types.ExprString(e))
				}
				bal := bracketBalances(p, cc.Body)
				okB := true
				for _, b := range bal {
					if b != 0 {
						okB = false
					}
				}
				n++
				r.Check(okB, "R19.5", "encodeJsonChildren arm "+strings.Join(names, ","), cc.Pos(), "brackets balanced on every path", fmt.Sprintf("some path through this arm writes unbalanced brackets (net %v): the encoder emits malformed JSON (e.g. \"null]\" for an empty leaf-list)", bal))
			}
			return false
		})
		if n == 0 {
			r.Fail("R19.5", "encodeJsonChildren arms", efd.Pos(), "type switch not found")
		}
	})
}

// bracketBalances returns the possible net counts of opening minus closing
// '[' '{' bytes written by a statement list (loops must be balanced per
// iteration and contribute 0).
func bracketBalances(p *packagesPackage, stmts []ast.Stmt) []int {
	cur := map[int]bool{0: true}
	add := func(d int) {
		n := map[int]bool{}
		for k := range cur {
			n[k+d] = true
		}
		cur = n
	}
	for _, s := range stmts {
		switch x := s.(type) {
		case *ast.ExprStmt:
			if ce, ok := x.X.(*ast.CallExpr); ok {
				if c := calleeOf(p, ce); c != nil && len(ce.Args) == 1 {
					switch nm(c) {
					case "WriteByte":
						if v, ok := ConstInt(p, ce.Args[0]); ok {
							switch v {
							case '[', '{':
								add(1)
							case ']', '}':
								add(-1)
							}
						}
					case "WriteString":
						if sv, ok := ConstStr(p, ce.Args[0]); ok {
							add(strings.Count(sv, "[") + strings.Count(sv, "{") - strings.Count(sv, "]") - strings.Count(sv, "}"))
						}
					}
				}
			}
		case *ast.IfStmt:
			a := bracketBalances(p, x.Body.List)
			var b []int
			if x.Else != nil {
				switch e := x.Else.(type) {
				case *ast.BlockStmt:
					b = bracketBalances(p, e.List)
				case *ast.IfStmt:
					b = bracketBalances(p, []ast.Stmt{e})
				}
			} else {
				b = []int{0}
			}
			n := map[int]bool{}
			for k := range cur {
				for _, d := range append(a, b...) {
					n[k+d] = true
				}
			}
			cur = n
		case *ast.ForStmt:
			for _, d := range bracketBalances(p, x.Body.List) {
				if d != 0 {
					add(99)
				}
			}
		case *ast.RangeStmt:
			for _, d := range bracketBalances(p, x.Body.List) {
				if d != 0 {
					add(99)
				}
			}
		case *ast.BlockStmt:
			for _, d := range bracketBalances(p, x.List) {
				_ = d
			}
		}
	}
	var out []int
	for k := range cur {
		out = append(out, k)
	}
	return out
}

// c19StringArm (R19.5): in JSONWriter.writeValue — helpers it hands the value
// to included — the value reaches the output unescaped only under a test that
// the leaf's type is boolean or an integer; when the type is none of the
// kinds the switch names, the only thing written is json.Marshal(value); and
// nothing writes a quote character by hand.
func c19StringArm(w *World) string {
	f := w.SSAFunc(w.Method("data/encoding", "JSONWriter", "writeValue"))
	if f == nil || len(f.Params) != 3 {
		panic(undecided{"JSONWriter.writeValue"})
	}
	sym := NewSym(w)
	type site struct {
		cond *pcF
		pos  token.Pos
	}
	var raw, marshalled []site
	quote := token.NoPos
	isWrite := func(c *ssa.CallCommon) bool {
		n := ""
		if c.IsInvoke() {
			n = c.Method.Name()
		} else if g := c.StaticCallee(); g != nil {
			n = g.Name()
		}
		return n == "WriteString" || n == "Write" || n == "WriteByte" || n == "WriteRune"
	}
	// derivedRaw: v is the value itself (possibly converted), not a Marshal result
	var derived func(v ssa.Value, val ssa.Value, d int) string
	derived = func(v ssa.Value, val ssa.Value, d int) string {
		if d > 6 {
			return ""
		}
		if v == val {
			return "raw"
		}
		switch x := v.(type) {
		case *ssa.Convert:
			return derived(x.X, val, d+1)
		case *ssa.ChangeType:
			return derived(x.X, val, d+1)
		case *ssa.MakeInterface:
			return derived(x.X, val, d+1)
		case *ssa.BinOp:
			if derived(x.X, val, d+1) != "" || derived(x.Y, val, d+1) != "" {
				return "raw" // concatenation with hand-written text
			}
		case *ssa.Slice:
			return derived(x.X, val, d+1)
		case *ssa.Extract:
			if c, ok := x.Tuple.(*ssa.Call); ok && c.Call.StaticCallee() != nil && c.Call.StaticCallee().String() == "encoding/json.Marshal" {
				if len(c.Call.Args) == 1 && derived(c.Call.Args[0], val, d+1) == "raw" {
					return "marshal"
				}
			}
		case *ssa.Call:
			if g := x.Call.StaticCallee(); g != nil && (g.String() == "fmt.Sprintf" || g.String() == "strconv.Quote") {
				for _, a := range x.Call.Args {
					if derived(a, val, d+1) != "" {
						return "raw"
					}
				}
				if len(x.Call.Args) == 2 {
					if sl, ok := x.Call.Args[1].(*ssa.Slice); ok {
						for _, l := range sliceLiteral(sl) {
							if derived(l, val, d+1) != "" {
								return "raw"
							}
						}
					}
				}
			}
		}
		return ""
	}
	var scan func(g *ssa.Function, val ssa.Value, frames []*pcF, ctx *symCtx, depth int)
	scan = func(g *ssa.Function, val ssa.Value, frames []*pcF, ctx *symCtx, depth int) {
		for _, b := range g.Blocks {
			for _, in := range b.Instrs {
				c, ok := in.(ssa.CallInstruction)
				if !ok {
					continue
				}
				cc := c.Common()
				cond := sym.PathCond(g.Blocks[0], b, ctx)
				for _, fr := range frames {
					cond = pcAndF(cond, fr)
				}
				if isWrite(cc) {
					args := cc.Args
					for _, a := range args {
						if k, ok := intConstOf(a); ok && k == '"' {
							quote = in.Pos()
						}
						switch derived(a, val, 0) {
						case "raw":
							raw = append(raw, site{cond, in.Pos()})
						case "marshal":
							marshalled = append(marshalled, site{cond, in.Pos()})
						}
					}
					continue
				}
				// handed on to a function of the package
				if h := cc.StaticCallee(); h != nil && h.Pkg == f.Pkg && h.Blocks != nil && depth < 3 {
					for i, a := range cc.Args {
						if derived(a, val, 0) == "raw" && i < len(h.Params) {
							if call, ok := in.(*ssa.Call); ok {
								scan(h, h.Params[i], append(append([]*pcF{}, frames...), cond), &symCtx{call: call, parent: ctx}, depth+1)
							}
						}
					}
				}
			}
		}
	}
	scan(f, f.Params[2], nil, nil, 0)
	kindOf := func(a *pcAtom) string {
		if ex, ok := a.v.(*ssa.Extract); ok && ex.Index == 1 {
			if ta, ok := ex.Tuple.(*ssa.TypeAssert); ok && ta.CommaOk {
				if n, ok := ta.AssertedType.(*types.Named); ok {
					return n.Obj().Name()
				}
			}
		}
		return ""
	}
	if quote.IsValid() {
		return "a quote character is written by hand at " + w.PosStr(quote)
	}
	for _, s := range raw {
		msg := pcImplies(s.cond, kindOf, func(env map[string]bool) bool { return env["Boolean"] || env["Uinteger"] || env["Integer"] })
		if msg != "" {
			return "the raw value is written at " + w.PosStr(s.pos) + " for a type that is not boolean or integer (" + msg + ")"
		}
	}
	// the string arm: none of the named kinds
	reached := false
	for _, s := range marshalled {
		atoms := s.cond.atoms()
		var free []*pcAtom
		env := map[string]bool{}
		for _, a := range atoms {
			if kindOf(a) != "" {
				env[a.key] = false
			} else {
				free = append(free, a)
			}
		}
		if len(free) > 16 {
			continue
		}
		for m := 0; m < 1<<len(free); m++ {
			for i, a := range free {
				env[a.key] = m&(1<<i) != 0
			}
			if s.cond.eval(env, map[*pcF]bool{}) {
				reached = true
			}
		}
	}
	if !reached {
		return "for a type that is none of the kinds the switch names nothing writes json.Marshal(value)"
	}
	return ""
}

package main

import (
	"fmt"
	"go/constant"
	"go/token"
	"go/types"

	"golang.org/x/tools/go/ssa"
)

// R01.7  no implementation-dependent float -> integer conversion on a value
// path. XPath numbers are IEEE doubles; Go defines the conversion of a
// float64 to an integer type only when the value fits (NaN, the infinities
// and magnitudes >= 2^63 give a platform-specific result). Every such
// conversion in package xpath must be bounded on both sides by comparisons
// that hold on the path (true branches only: a false branch admits NaN), or
// be a reviewed site.

var c01ConvReviewed = map[string]string{
	"predicateIsTrue: int(xpos - 1)": "positional predicates [n] are outside the property (the supported grammar has [key = operand] predicates only); an out-of-range value yields a position that matches no entry",
}

func c01FloatToInt(w *World, r *Report) {
	sp := w.SSAPkg("xpath")
	n := 0
	isFloat := func(t types.Type) bool {
		b, ok := t.Underlying().(*types.Basic)
		return ok && b.Info()&types.IsFloat != 0
	}
	isInt := func(t types.Type) bool {
		b, ok := t.Underlying().(*types.Basic)
		return ok && b.Info()&types.IsInteger != 0
	}
	for _, f := range allFuncs(sp) {
		perFn := 0
		for _, b := range f.Blocks {
			for _, in := range b.Instrs {
				cv, ok := in.(*ssa.Convert)
				if !ok || !isFloat(cv.X.Type()) || !isInt(cv.Type()) {
					continue
				}
				if _, isConst := cv.X.(*ssa.Const); isConst {
					continue
				}
				n++
				perFn++
				name := f.Name()
				if f.Parent() != nil {
					name = f.Parent().Name() + "$" + name
				}
				src := w.ExprAt(cv.Pos())
				key := fmt.Sprintf("%s: %s", name, src)
				if why, ok := c01ConvReviewed[key]; ok {
					r.Reviewed("R01.7", key, cv.Pos(), why)
					continue
				}
				lo, hi := false, false
				// conditions on cv.X (or on the value it was derived from by Floor/Trunc/Ceil) that dominate the conversion
				cands := []ssa.Value{cv.X}
				if c, ok := cv.X.(*ssa.Call); ok {
					if sc := c.Call.StaticCallee(); sc != nil && sc.Pkg != nil && sc.Pkg.Pkg.Path() == "math" {
						switch sc.Name() {
						case "Floor", "Trunc", "Ceil", "Round", "RoundToEven":
							cands = append(cands, c.Call.Args[0])
						}
					}
				}
				for _, v := range cands {
					for _, ref := range *v.Referrers() {
						bo, ok := ref.(*ssa.BinOp)
						if !ok {
							continue
						}
						var other ssa.Value
						op := bo.Op
						if bo.X == v {
							other = bo.Y
						} else {
							other = bo.X
							switch op { // c OP v  ==  v OP' c
							case token.LSS:
								op = token.GTR
							case token.LEQ:
								op = token.GEQ
							case token.GTR:
								op = token.LSS
							case token.GEQ:
								op = token.LEQ
							}
						}
						c, isC := other.(*ssa.Const)
						if !isC || c.Value == nil || (c.Value.Kind() != constant.Float && c.Value.Kind() != constant.Int) {
							continue
						}
						cf, _ := constant.Float64Val(constant.ToFloat(c.Value))
						for _, r2 := range *bo.Referrers() {
							iff, ok := r2.(*ssa.If)
							if !ok {
								continue
							}
							ts := iff.Block().Succs[0]
							if len(ts.Preds) != 1 || !ts.Dominates(b) {
								continue
							}
							switch op {
							case token.LSS, token.LEQ:
								if cf <= 9.2e18 {
									hi = true
								}
							case token.GTR, token.GEQ:
								if cf >= -9.2e18 {
									lo = true
								}
							}
						}
					}
				}
				r.Check(lo && hi, "R01.7", key, cv.Pos(), "operand bounded on both sides on this path",
					"float64 converted to "+cv.Type().String()+" without a range guard: NaN, ±Infinity and magnitudes >= 2^63 give an implementation-dependent integer (e.g. string(1e19) printing -9223372036854775808)")
			}
		}
	}
	r.Count("float->int conversions in package xpath", n)
	if n == 0 {
		r.OK("R01.7", "package xpath: no float -> integer conversion", token.NoPos, "none present")
	}
}

package main

import (
	"fmt"
	"go/constant"
	"go/token"
	"go/types"

	"golang.org/x/tools/go/ssa"
)

// R01.7  no implementation-dependent float -> integer conversion on a value
// path. XPath numbers are IEEE doubles; Go defines the conversion of a
// float64 to an integer type only when the value fits (NaN, the infinities
// and magnitudes >= 2^63 give a platform-specific result). Every such
// conversion in package xpath must be bounded on both sides by comparisons
// that hold on the path (true branches only: a false branch admits NaN), or
// be a reviewed site.

var c01ConvReviewed = map[string]string{
	"predicateIsTrue: int(xpos - 1)": "positional predicates [n] are outside the property (the supported grammar has [key = operand] predicates only); an out-of-range value yields a position that matches no entry",
}

func c01FloatToInt(w *World, r *Report) {
	sp := w.SSAPkg("xpath")
	n := 0
	isFloat := func(t types.Type) bool {
		b, ok := t.Underlying().(*types.Basic)
		return ok && b.Info()&types.IsFloat != 0
	}
	isInt := func(t types.Type) bool {
		b, ok := t.Underlying().(*types.Basic)
		return ok && b.Info()&types.IsInteger != 0
	}
	for _, f := range allFuncs(sp) {
		perFn := 0
		for _, b := range f.Blocks {
			for _, in := range b.Instrs {
				cv, ok := in.(*ssa.Convert)
				if !ok || !isFloat(cv.X.Type()) || !isInt(cv.Type()) {
					continue
				}
				if _, isConst := cv.X.(*ssa.Const); isConst {
					continue
				}
				n++
				perFn++
				name := f.Name()
				if f.Parent() != nil {
					name = f.Parent().Name() + "$" + name
				}
				src := w.ExprAt(cv.Pos())
				key := fmt.Sprintf("%s: %s", name, src)
				if why, ok := c01ConvReviewed[key]; ok {
					r.Reviewed("R01.7", key, cv.Pos(), why)
					continue
				}
				lo, hi := false, false
				// conditions on cv.X (or on the value it was derived from by Floor/Trunc/Ceil) that dominate the conversion
				cands := []ssa.Value{cv.X}
				if c, ok := cv.X.(*ssa.Call); ok {
					if sc := c.Call.StaticCallee(); sc != nil && sc.Pkg != nil && sc.Pkg.Pkg.Path() == "math" {
						switch sc.Name() {
						case "Floor", "Trunc", "Ceil", "Round", "RoundToEven":
							cands = append(cands, c.Call.Args[0])
						}
					}
				}
				for _, v := range cands {
					for _, ref := range *v.Referrers() {
						bo, ok := ref.(*ssa.BinOp)
						if !ok {
							continue
						}
						var other ssa.Value
						op := bo.Op
						if bo.X == v {
							other = bo.Y
						} else {
							other = bo.X
							switch op { // c OP v  ==  v OP' c
							case token.LSS:
								op = token.GTR
							case token.LEQ:
								op = token.GEQ
							case token.GTR:
								op = token.LSS
							case token.GEQ:
								op = token.LEQ
							}
						}
						c, isC := other.(*ssa.Const)
						if !isC || c.Value == nil || (c.Value.Kind() != constant.Float && c.Value.Kind() != constant.Int) {
							continue
						}
						cf, _ := constant.Float64Val(constant.ToFloat(c.Value))
						for _, r2 := range *bo.Referrers() {
							iff, ok := r2.(*ssa.If)
							if !ok {
								continue
							}
							ts := iff.Block().Succs[0]
							if len(ts.Preds) != 1 || !ts.Dominates(b) {
								continue
							}
							switch op {
							case token.LSS, token.LEQ:
								if cf <= 9.2e18 {
									hi = true
								}
							case token.GTR, token.GEQ:
								if cf >= -9.2e18 {
									lo = true
								}
							}
						}
					}
				}
				r.Check(lo && hi, "R01.7", key, cv.Pos(), "operand bounded on both sides on this path",
					"float64 converted to "+cv.Type().String()+" without a range guard: NaN, ±Infinity and magnitudes >= 2^63 give an implementation-dependent integer (e.g. string(1e19) printing -9223372036854775808)")
			}
		}
	}
	r.Count("float->int conversions in package xpath", n)
	if n == 0 {
		r.OK("R01.7", "package xpath: no float -> integer conversion", token.NoPos, "none present")
	}
}

// R01.8  byte offsets and character counts are never mixed. Every integer in
// the string functions is either a byte quantity (strings.Index*, len(string),
// the key of a range over a string) or a character quantity
// (utf8.RuneCountInString, len([]rune), an index into a []rune). Adding,
// subtracting or comparing one with the other, slicing a string with a
// character quantity or a []rune with a byte quantity is a unit error that
// only shows on non-ASCII text.
type strUnit int

const (
	unitAny strUnit = iota
	unitBytes
	unitRunes
	unitClash
)

func (u strUnit) String() string { return [...]string{"any", "bytes", "characters", "mixed"}[u] }

func c01Units(w *World, r *Report) {
	sp := w.SSAPkg("xpath")
	isString := func(t types.Type) bool {
		b, ok := t.Underlying().(*types.Basic)
		return ok && b.Info()&types.IsString != 0
	}
	isRuneSlice := func(t types.Type) bool {
		s, ok := t.Underlying().(*types.Slice)
		if !ok {
			return false
		}
		b, ok := s.Elem().Underlying().(*types.Basic)
		return ok && b.Kind() == types.Int32
	}
	nFuncs, nOps := 0, 0
	for _, f := range allFuncs(sp) {
		memo := map[ssa.Value]strUnit{}
		var clashAt ssa.Value
		var unit func(v ssa.Value, d int) strUnit
		join := func(a, b strUnit) strUnit {
			switch {
			case a == unitAny:
				return b
			case b == unitAny:
				return a
			case a == b:
				return a
			}
			return unitClash
		}
		unit = func(v ssa.Value, d int) strUnit {
			if u, ok := memo[v]; ok {
				return u
			}
			if d > 12 {
				return unitAny
			}
			memo[v] = unitAny
			u := unitAny
			switch x := v.(type) {
			case *ssa.Call:
				if b, ok := x.Call.Value.(*ssa.Builtin); ok && b.Name() == "len" {
					if isString(x.Call.Args[0].Type()) {
						u = unitBytes
					} else if isRuneSlice(x.Call.Args[0].Type()) {
						u = unitRunes
					}
				} else if sc := x.Call.StaticCallee(); sc != nil {
					switch sc.String() {
					case "strings.Index", "strings.LastIndex", "strings.IndexByte", "strings.IndexRune", "strings.IndexAny", "strings.LastIndexByte", "strings.LastIndexAny", "strings.IndexFunc":
						u = unitBytes
					case "unicode/utf8.RuneCountInString", "unicode/utf8.RuneCount":
						u = unitRunes
					}
				}
			case *ssa.BinOp:
				switch x.Op {
				case token.ADD, token.SUB:
					u = join(unit(x.X, d+1), unit(x.Y, d+1))
					if u == unitClash && clashAt == nil {
						clashAt = x
					}
				}
			case *ssa.Phi:
				for _, e := range x.Edges {
					u = join(u, unit(e, d+1))
				}
				if u == unitClash {
					u = unitAny // different units on different paths: judged at the uses
				}
			case *ssa.Convert:
				u = unit(x.X, d+1)
			case *ssa.ChangeType:
				u = unit(x.X, d+1)
			case *ssa.Extract:
				// key of a range over a string: byte offset
				if nx, ok := x.Tuple.(*ssa.Next); ok && nx.IsString && x.Index == 1 {
					u = unitBytes
				}
			}
			memo[v] = u
			return u
		}
		used := false
		for _, b := range f.Blocks {
			for _, in := range b.Instrs {
				switch x := in.(type) {
				case *ssa.Slice:
					want := unitAny
					if isString(x.X.Type()) {
						want = unitBytes
					} else if isRuneSlice(x.X.Type()) {
						want = unitRunes
					} else {
						continue
					}
					for _, bound := range []ssa.Value{x.Low, x.High} {
						if bound == nil {
							continue
						}
						nOps++
						got := unit(bound, 0)
						if got != unitAny {
							used = true
						}
						if got == unitClash || (got != unitAny && got != want) {
							r.Fail("R01.8", funcKey(f)+": slice bound `"+w.ExprNear(x.Pos())+"`", x.Pos(), fmt.Sprintf("a %s is sliced with a bound counted in %s: wrong as soon as an argument holds a multi-byte character", map[strUnit]string{unitBytes: "string", unitRunes: "[]rune"}[want], got))
						}
					}
				case *ssa.BinOp:
					switch x.Op {
					case token.ADD, token.SUB, token.LSS, token.LEQ, token.GTR, token.GEQ, token.EQL, token.NEQ:
						a, c := unit(x.X, 0), unit(x.Y, 0)
						if a != unitAny || c != unitAny {
							nOps++
							used = true
						}
						if join(a, c) == unitClash {
							r.Fail("R01.8", funcKey(f)+": `"+x.String()+"`", x.Pos(), fmt.Sprintf("combines a quantity counted in %s with one counted in %s: e.g. a byte offset from strings.Index advanced by a character count lands inside (or before the end of) a multi-byte character", a, c))
						}
					}
				}
			}
		}
		if used {
			nFuncs++
		}
		_ = clashAt
	}
	r.Count("functions with byte/character quantities", nFuncs)
	r.Count("unit-checked operations", nOps)
	r.OK("R01.8", "package xpath: unit discipline", token.NoPos, fmt.Sprintf("%d operations in %d functions carry a unit; none mixes bytes and characters", nOps, nFuncs))
}

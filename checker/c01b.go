package main

import (
	"fmt"
	"go/constant"
	"go/token"
	"go/types"

	"golang.org/x/tools/go/ssa"
)

// R01.7  no implementation-dependent float -> integer conversion on a value
// path. XPath numbers are IEEE doubles; Go defines the conversion of a
// float64 to an integer type only when the value fits (NaN, the infinities
// and magnitudes >= 2^63 give a platform-specific result). Every such
// conversion in package xpath must be bounded on both sides by comparisons
// that hold on the path (true branches only: a false branch admits NaN), or
// be a reviewed site.

var c01ConvReviewed = map[string]string{
	// function → reason; covers the one conversion that function contains
	"predicateIsTrue": "positional predicates [n] are outside the property (the supported grammar has [key = operand] predicates only); an out-of-range value yields a position that matches no entry",
}

func c01FloatToInt(w *World, r *Report) {
	sp := w.SSAPkg("xpath")
	n := 0
	isFloat := func(t types.Type) bool {
		b, ok := t.Underlying().(*types.Basic)
		return ok && b.Info()&types.IsFloat != 0
	}
	isInt := func(t types.Type) bool {
		b, ok := t.Underlying().(*types.Basic)
		return ok && b.Info()&types.IsInteger != 0
	}
	for _, f := range allFuncs(sp) {
		perFn := 0
		for _, b := range f.Blocks {
			for _, in := range b.Instrs {
				cv, ok := in.(*ssa.Convert)
				if !ok || !isFloat(cv.X.Type()) || !isInt(cv.Type()) {
					continue
				}
				if _, isConst := cv.X.(*ssa.Const); isConst {
					continue
				}
				n++
				perFn++
				name := f.Name()
				if f.Parent() != nil {
					name = f.Parent().Name() + "$" + name
				}
				src := w.ExprAt(cv.Pos())
				key := fmt.Sprintf("%s: %s", name, src)
				if why, ok := c01ConvReviewed[nm(w.OwnerChain(f)[0])]; ok && perFn == 1 {
					r.Reviewed("R01.7", key, cv.Pos(), why)
					continue
				}
				lo, hi := false, false
				// conditions on cv.X (or on the value it was derived from by Floor/Trunc/Ceil) that dominate the conversion
				cands := []ssa.Value{cv.X}
				if c, ok := cv.X.(*ssa.Call); ok {
					if sc := c.Call.StaticCallee(); sc != nil && sc.Pkg != nil && sc.Pkg.Pkg.Path() == "math" {
						switch nm(sc) {
						case "Floor", "Trunc", "Ceil", "Round", "RoundToEven":
							cands = append(cands, c.Call.Args[0])
						}
					}
				}
				for _, v := range cands {
					for _, ref := range *v.Referrers() {
						bo, ok := ref.(*ssa.BinOp)
						if !ok {
							continue
						}
						var other ssa.Value
						op := bo.Op
						if bo.X == v {
							other = bo.Y
						} else {
							other = bo.X
							switch op { // c OP v  ==  v OP' c
							case token.LSS:
								op = token.GTR
							case token.LEQ:
								op = token.GEQ
							case token.GTR:
								op = token.LSS
							case token.GEQ:
								op = token.LEQ
							}
						}
						c, isC := other.(*ssa.Const)
						if !isC || c.Value == nil || (c.Value.Kind() != constant.Float && c.Value.Kind() != constant.Int) {
							continue
						}
						cf, _ := constant.Float64Val(constant.ToFloat(c.Value))
						for _, r2 := range *bo.Referrers() {
							iff, ok := r2.(*ssa.If)
							if !ok {
								continue
							}
							ts := iff.Block().Succs[0]
							if len(ts.Preds) != 1 || !ts.Dominates(b) {
								continue
							}
							switch op {
							case token.LSS, token.LEQ:
								if cf <= 9.2e18 {
									hi = true
								}
							case token.GTR, token.GEQ:
								if cf >= -9.2e18 {
									lo = true
								}
							}
						}
					}
				}
				r.Check(lo && hi, "R01.7", key, cv.Pos(), "operand bounded on both sides on this path",
					"float64 converted to "+cv.Type().String()+" without a range guard: NaN, ±Infinity and magnitudes >= 2^63 give an implementation-dependent integer (e.g. string(1e19) printing -9223372036854775808)")
			}
		}
	}
	r.Count("float->int conversions in package xpath", n)
	if n == 0 {
		r.OK("R01.7", "package xpath: no float -> integer conversion", token.NoPos, "none present")
	}
}

// R01.8  byte offsets and character counts are never mixed. Every integer in
// the string functions is either a byte quantity (strings.Index*, len(string),
// the key of a range over a string) or a character quantity
// (utf8.RuneCountInString, len([]rune), an index into a []rune). Adding,
// subtracting or comparing one with the other, slicing a string with a
// character quantity or a []rune with a byte quantity is a unit error that
// only shows on non-ASCII text.
type strUnit int

const (
	unitAny strUnit = iota
	unitBytes
	unitRunes
	unitClash
)

func (u strUnit) String() string { return [...]string{"any", "bytes", "characters", "mixed"}[u] }

func c01Units(w *World, r *Report) {
	sp := w.SSAPkg("xpath")
	isString := func(t types.Type) bool {
		b, ok := t.Underlying().(*types.Basic)
		return ok && b.Info()&types.IsString != 0
	}
	isRuneSlice := func(t types.Type) bool {
		s, ok := t.Underlying().(*types.Slice)
		if !ok {
			return false
		}
		b, ok := s.Elem().Underlying().(*types.Basic)
		return ok && b.Kind() == types.Int32
	}
	nFuncs, nOps := 0, 0
	for _, f := range allFuncs(sp) {
		memo := map[ssa.Value]strUnit{}
		var clashAt ssa.Value
		var unit func(v ssa.Value, d int) strUnit
		join := func(a, b strUnit) strUnit {
			switch {
			case a == unitAny:
				return b
			case b == unitAny:
				return a
			case a == b:
				return a
			}
			return unitClash
		}
		unit = func(v ssa.Value, d int) strUnit {
			if u, ok := memo[v]; ok {
				return u
			}
			if d > 12 {
				return unitAny
			}
			memo[v] = unitAny
			u := unitAny
			switch x := v.(type) {
			case *ssa.Call:
				if b, ok := x.Call.Value.(*ssa.Builtin); ok && nm(b) == "len" {
					if isString(x.Call.Args[0].Type()) {
						u = unitBytes
					} else if isRuneSlice(x.Call.Args[0].Type()) {
						u = unitRunes
					}
				} else if x.Call.IsInvoke() && nm(x.Call.Method) == "Number" && nm(f) == "substring" {
					// the position and length arguments of substring() count characters (XPath 1.0 §4.2)
					u = unitRunes
				} else if sc := x.Call.StaticCallee(); sc != nil {
					switch sc.String() {
					case "math.Floor", "math.Ceil", "math.Round", "math.Trunc", "math.RoundToEven":
						u = unit(x.Call.Args[0], d+1)
					}
					// a rounding helper of the package (float64 → float64, one argument): the unit goes through
					if sc.Pkg == f.Pkg && len(x.Call.Args) == 1 && sc.Signature.Results().Len() == 1 {
						if ab, okA := x.Call.Args[0].Type().Underlying().(*types.Basic); okA && ab.Kind() == types.Float64 {
							if rb, okR := sc.Signature.Results().At(0).Type().Underlying().(*types.Basic); okR && rb.Kind() == types.Float64 {
								u = unit(x.Call.Args[0], d+1)
							}
						}
					}
					switch sc.String() {
					case "strings.Index", "strings.LastIndex", "strings.IndexByte", "strings.IndexRune", "strings.IndexAny", "strings.LastIndexByte", "strings.LastIndexAny", "strings.IndexFunc":
						u = unitBytes
					case "unicode/utf8.RuneCountInString", "unicode/utf8.RuneCount":
						u = unitRunes
					}
				}
			case *ssa.BinOp:
				switch x.Op {
				case token.ADD, token.SUB:
					u = join(unit(x.X, d+1), unit(x.Y, d+1))
					if u == unitClash && clashAt == nil {
						clashAt = x
					}
				}
			case *ssa.Phi:
				for _, e := range x.Edges {
					u = join(u, unit(e, d+1))
				}
				if u == unitClash {
					u = unitAny // different units on different paths: judged at the uses
				}
			case *ssa.Convert:
				u = unit(x.X, d+1)
			case *ssa.ChangeType:
				u = unit(x.X, d+1)
			case *ssa.Extract:
				// key of a range over a string: byte offset
				if nx, ok := x.Tuple.(*ssa.Next); ok && nx.IsString && x.Index == 1 {
					u = unitBytes
				}
			}
			memo[v] = u
			return u
		}
		used := false
		for _, b := range f.Blocks {
			for _, in := range b.Instrs {
				switch x := in.(type) {
				case *ssa.Slice:
					want := unitAny
					if isString(x.X.Type()) {
						want = unitBytes
					} else if isRuneSlice(x.X.Type()) {
						want = unitRunes
					} else {
						continue
					}
					for _, bound := range []ssa.Value{x.Low, x.High} {
						if bound == nil {
							continue
						}
						nOps++
						got := unit(bound, 0)
						if got != unitAny {
							used = true
						}
						if got == unitClash || (got != unitAny && got != want) {
							r.Fail("R01.8", funcKey(f)+": slice bound `"+w.ExprNear(x.Pos())+"`", x.Pos(), fmt.Sprintf("a %s is sliced with a bound counted in %s: wrong as soon as an argument holds a multi-byte character", map[strUnit]string{unitBytes: "string", unitRunes: "[]rune"}[want], got))
						}
					}
				case *ssa.BinOp:
					switch x.Op {
					case token.ADD, token.SUB, token.LSS, token.LEQ, token.GTR, token.GEQ, token.EQL, token.NEQ:
						a, c := unit(x.X, 0), unit(x.Y, 0)
						if a != unitAny || c != unitAny {
							nOps++
							used = true
						}
						if join(a, c) == unitClash {
							r.Fail("R01.8", funcKey(f)+": `"+x.String()+"`", x.Pos(), fmt.Sprintf("combines a quantity counted in %s with one counted in %s: e.g. a byte offset from strings.Index advanced by a character count lands inside (or before the end of) a multi-byte character", a, c))
						}
					}
				}
			}
		}
		if used {
			nFuncs++
		}
		_ = clashAt
	}
	r.Count("functions with byte/character quantities", nFuncs)
	r.Count("unit-checked operations", nOps)
	r.OK("R01.8", "package xpath: unit discipline", token.NoPos, fmt.Sprintf("%d operations in %d functions carry a unit; none mixes bytes and characters", nOps, nFuncs))
}

// c01NodesetGuards (R01.2): compareNodesetsAndPush reaches the comparator
// exactly when neither operand is an empty node-set, every other exit has
// pushed false, and the left/right operand sets are not exchanged.  Stated on
// the path condition of the comparator call, so it holds for any arrangement
// of the tests (nested ifs, helper returning an "empty" flag, guard clauses).
func c01NodesetGuards(w *World, r *Report) {
	f := w.SSAFunc(w.Method("xpath", "context", "compareNodesetsAndPush"))
	capn := w.Method("xpath", "context", "compareAndPushNodesets")
	push := w.Method("xpath", "context", "pushDatum")
	newBool := w.Func("xpath", "NewBoolDatum")
	if f == nil {
		panic(undecided{"context.compareNodesetsAndPush"})
	}
	np := len(f.Params)
	l, rt := np-2, np-1 // op1, op2
	var call *ssa.Call
	var falsePush []*ssa.BasicBlock
	otherPush := token.NoPos
	for _, b := range f.Blocks {
		for _, in := range b.Instrs {
			c, ok := in.(*ssa.Call)
			if !ok || c.Call.StaticCallee() == nil {
				continue
			}
			switch c.Call.StaticCallee().Object() {
			case capn:
				if call != nil {
					panic(undecided{"compareNodesetsAndPush: two comparator calls"})
				}
				call = c
			case push:
				isFalse := false
				if nb, ok := stripIface(c.Call.Args[1]).(*ssa.Call); ok && nb.Call.StaticCallee() != nil && nb.Call.StaticCallee().Object() == newBool {
					if k, ok := nb.Call.Args[0].(*ssa.Const); ok && k.Value != nil && k.Value.ExactString() == "false" {
						isFalse = true
					}
				}
				if isFalse {
					falsePush = append(falsePush, b)
				} else {
					otherPush = c.Pos()
				}
			}
		}
	}
	if call == nil {
		panic(undecided{"compareNodesetsAndPush: comparator call not found"})
	}
	sym := NewSym(w)
	cond := sym.PathCond(f.Blocks[0], call.Block(), nil)
	classify := func(a *pcAtom) string {
		for i, p := range []int{l, rt} {
			if a.key == fmt.Sprintf("p%d.(xpath.nodesetDatum)#1", p) {
				return fmt.Sprintf("ns%d", i+1)
			}
			if a.subj == fmt.Sprintf("len(p%d.(xpath.nodesetDatum).nodes)", p) && a.set.equal(isetOf(0)) {
				return fmt.Sprintf("empty%d", i+1)
			}
		}
		return ""
	}
	msg := pcCompare(cond, classify, func(env map[string]bool) bool {
		return !(env["ns1"] && env["empty1"]) && !(env["ns2"] && env["empty2"])
	})
	// every exit that does not come from the comparator has pushed false
	if msg == "" {
		for _, b := range f.Blocks {
			if _, ok := b.Instrs[len(b.Instrs)-1].(*ssa.Return); !ok {
				continue
			}
			if call.Block().Dominates(b) {
				continue
			}
			ok := false
			for _, fb := range falsePush {
				if fb.Dominates(b) {
					ok = true
				}
			}
			if !ok {
				msg = "an exit that bypasses the comparator pushes no false (" + w.PosStr(b.Instrs[len(b.Instrs)-1].Pos()) + ")"
			}
		}
		if otherPush.IsValid() {
			msg = "something other than false is pushed at " + w.PosStr(otherPush)
		}
	}
	r.Check(msg == "", "R01.2", "compareNodesetsAndPush empty-set rule", f.Pos(), "comparator reached iff neither operand is an empty node-set; otherwise false is pushed", "an empty node-set operand does not (or not only it does) short-circuit the comparison to false — an absent node must be false in every comparison, even != : "+msg)

	// operand order: the comparator's first set is computed from the left operand only
	a0, a1 := rootParams(call.Call.Args[1], f), rootParams(call.Call.Args[2], f)
	okOrder := a0[l] && !a0[rt] && a1[rt] && !a1[l]
	r.Check(okOrder, "R01.2", "compareNodesetsAndPush operand order", call.Pos(), "(set of left, set of right)", "left and right operand sets are exchanged (or mixed) on the way to the comparator")
}

// c01ConversionsSSA (R01.3, conversions of the datum types): each conversion
// is read as a decision table — exits, their path conditions and the value
// returned there — and the table is evaluated for the classes of input the
// XPath definition distinguishes.  if/switch/guard-clause forms of one table
// are the same table.
func c01ConversionsSSA(w *World, r *Report) {
	sym := NewSym(w)
	method := func(t, m string) *ssa.Function {
		f := w.SSAFunc(w.Method("xpath", t, m))
		if f == nil || f.Blocks == nil {
			panic(undecided{"xpath." + t + "." + m})
		}
		if len(ssaLoops(f)) > 0 {
			panic(undecided{"xpath." + t + "." + m + " has a loop"})
		}
		return f
	}
	fieldOfRecv := func(f *ssa.Function, name string) func(ssa.Value) bool {
		return func(v ssa.Value) bool {
			switch x := v.(type) {
			case *ssa.Field:
				st := x.X.Type().Underlying().(*types.Struct)
				return x.X == ssa.Value(f.Params[0]) && nm(st.Field(x.Field)) == name
			case *ssa.UnOp:
				if fa, ok := x.X.(*ssa.FieldAddr); ok && x.Op == token.MUL {
					st := fa.X.Type().Underlying().(*types.Pointer).Elem().Underlying().(*types.Struct)
					if st.Field(fa.Field).Name() != name {
						return false
					}
					// value receivers are spilled: &local{param}.field
					if a, ok := fa.X.(*ssa.Alloc); ok {
						return singleStore(a) == ssa.Value(f.Params[0])
					}
					return fa.X == ssa.Value(f.Params[0])
				}
			}
			return false
		}
	}
	// numDatum.Boolean over (negative, zero, positive, NaN)
	{
		f := method("numDatum", "Boolean")
		isNum := fieldOfRecv(f, "num")
		fc := sym.ResultCond(f, nil)
		var res []string
		good := true
		for i, c := range []floatClass{fNeg, fZero, fPos, fNaN} {
			v, ok, und := pcEvalUnder(fc, func(a *pcAtom) (bool, bool) { return floatAtom(a, isNum, c) })
			if !ok {
				res = append(res, "undecided("+und+")")
				good = false
				continue
			}
			res = append(res, fmt.Sprint(v))
			if v != []bool{true, false, true, false}[i] {
				good = false
			}
		}
		r.Check(good, "R01.3", "numDatum.Boolean", f.Pos(), "false exactly for ±0 and NaN",
			fmt.Sprintf("boolean(number) over (negative, zero, positive, NaN) = %v; XPath §4.3: false iff zero or NaN → [true false true false]", res))
	}
	// litDatum.Boolean = length non-zero
	{
		f := method("litDatum", "Boolean")
		fc := sym.ResultCond(f, nil)
		isLit := fieldOfRecv(f, "lit")
		msg := pcCompare(fc, func(a *pcAtom) string {
			if a.subj != "" && a.set.equal(isetOf(0)) {
				if c, ok := a.v.(*ssa.BinOp); ok {
					for _, side := range []ssa.Value{c.X, c.Y} {
						if arg, ok := isLenCall(side); ok && isLit(arg) || isLit(side) {
							return "empty"
						}
					}
				}
			}
			return ""
		}, func(env map[string]bool) bool { return !env["empty"] })
		r.Check(msg == "", "R01.3", "litDatum.Boolean", f.Pos(), "len(lit) > 0", "boolean(string) is not 'length non-zero': "+msg)
	}
	// boolDatum.Number / Literal
	for _, c := range []struct {
		meth, t, f, descr string
	}{
		{"Number", "1", "0", "true→1, false→0"},
		{"Literal", `"true"`, `"false"`, "true→\"true\", false→\"false\""},
	} {
		f := method("boolDatum", c.meth)
		isB := fieldOfRecv(f, "boolVal")
		why := ""
		for _, bv := range []bool{true, false} {
			var got []string
			for _, row := range sym.retTable(f, 0) {
				v, ok, und := pcEvalUnder(row.cond, func(a *pcAtom) (bool, bool) {
					if a.v != nil && isB(a.v) {
						return bv, true
					}
					return false, false
				})
				if !ok {
					why = "depends on " + und
					continue
				}
				if v {
					k, isC := row.val.(*ssa.Const)
					if !isC {
						got = append(got, "non-constant")
					} else if k.Value == nil {
						got = append(got, "0")
					} else if k.Value.Kind() == constant.String {
						got = append(got, k.Value.ExactString())
					} else {
						fv, _ := constant.Float64Val(constant.ToFloat(k.Value))
						got = append(got, fmt.Sprint(fv))
					}
				}
			}
			want := c.f
			if bv {
				want = c.t
			}
			if len(got) != 1 || got[0] != want {
				why += fmt.Sprintf("%v gives %v; ", bv, got)
			}
		}
		r.Check(why == "", "R01.3", "boolDatum."+c.meth, f.Pos(), c.descr, "conversion of a boolean is not "+c.descr+": "+why)
	}
	// numDatum.Literal special cases
	{
		f := method("numDatum", "Literal")
		isNum := fieldOfRecv(f, "num")
		got := map[string]string{}
		why := ""
		names := map[floatClass]string{fZero: "zero", fPosInf: "+inf", fNegInf: "-inf", fPos: "finite"}
		for _, c := range []floatClass{fZero, fPosInf, fNegInf, fPos} {
			n := 0
			for _, row := range sym.retTable(f, 0) {
				v, ok, und := pcEvalUnder(row.cond, func(a *pcAtom) (bool, bool) {
					// a finite positive number is not an infinity
					return floatAtom(a, isNum, c)
				})
				if !ok {
					why = "depends on " + und
					continue
				}
				if !v {
					continue
				}
				n++
				if k, isC := row.val.(*ssa.Const); isC && k.Value != nil && k.Value.Kind() == constant.String {
					got[names[c]] = constant.StringVal(k.Value)
				} else {
					got[names[c]] = "<computed>"
				}
			}
			if n != 1 {
				why += fmt.Sprintf("%d exits for %s; ", n, names[c])
			}
		}
		ok := why == "" && got["zero"] == "0" && got["+inf"] == "Infinity" && got["-inf"] == "-Infinity" && got["finite"] == "<computed>"
		r.Check(ok, "R01.3", "numDatum.Literal special cases", f.Pos(), "±0→\"0\", +∞→\"Infinity\", −∞→\"-Infinity\"", fmt.Sprintf("string(number) special cases are %v %s", got, why))
	}
}

// mechref "exthelper": the typed mechanical rewrite.  The second half of every
// eligible function body is moved into a new unexported function that is
// handed, by value, the parameters and locals it uses:
//
//	func f(a A) R { S1; S2; S3; return g(x) }
//	  ->  func f(a A) R { S1; S2; return fTailMx(a, x) }
//	      func fTailMx(a A, x X) R { S3; return g(x) }
//
// A function is left alone when moving the tail could be observed: named
// results, defer/recover/labels/goto anywhere, a function literal, `go`
// statement or address-of in the head (a captured or aliased local would be
// copied), a local type or constant used by the tail, a type that cannot be
// written in the file (package not imported there), generics.
package main

import (
	"bytes"
	"fmt"
	"go/ast"
	"go/token"
	"go/types"
	"os"
	"sort"
	"strings"

	"golang.org/x/tools/go/packages"
)

var skipNormalise bool

type textEdit struct {
	start, end int
	text       string
}

func mechExtractHelper(root, verifd string) int {
	skipNormalise = true
	w, err := NewWorld(root, verifd, false)
	if err != nil {
		fmt.Fprintln(os.Stderr, "exthelper:", err)
		return 0
	}
	defer w.Close()
	n := 0
	for _, p := range w.All {
		used := map[string]bool{}
		for _, name := range p.Types.Scope().Names() {
			used[name] = true
		}
		for _, file := range p.Syntax {
			fname := w.Fset.Position(file.Pos()).Filename
			if strings.HasSuffix(fname, "_test.go") || !strings.HasPrefix(fname, root) {
				continue
			}
			src, err := os.ReadFile(fname)
			if err != nil {
				continue
			}
			if bytes.Contains(src[:mrMin(len(src), 400)], []byte("Code generated")) || bytes.Contains(src[:mrMin(len(src), 400)], []byte("DO NOT EDIT")) {
				continue
			}
			if _, isOverlay := w.Overlay[fname]; isOverlay {
				continue
			}
			// how packages are called in this file
			imported := map[string]string{}
			for _, im := range file.Imports {
				path := strings.Trim(im.Path.Value, "\"")
				if im.Name != nil {
					if im.Name.Name == "_" || im.Name.Name == "." {
						continue
					}
					imported[path] = im.Name.Name
				} else if ip := p.Imports[path]; ip != nil {
					imported[path] = ip.Name
				}
			}
			off := func(pos token.Pos) int { return w.Fset.Position(pos).Offset }
			var edits []textEdit
			var helpers []string
			for _, d := range file.Decls {
				fd, ok := d.(*ast.FuncDecl)
				if !ok || fd.Body == nil {
					continue
				}
				ed, helper, ok := extractTail(w, p, file, fd, src, imported, used, off)
				if !ok {
					continue
				}
				edits = append(edits, ed)
				helpers = append(helpers, helper)
				n++
			}
			if len(edits) == 0 {
				continue
			}
			sort.Slice(edits, func(i, j int) bool { return edits[i].start > edits[j].start })
			out := append([]byte{}, src...)
			for _, e := range edits {
				out = append(out[:e.start], append([]byte(e.text), out[e.end:]...)...)
			}
			out = append(out, []byte("\n"+strings.Join(helpers, "\n"))...)
			info, _ := os.Stat(fname)
			os.WriteFile(fname, out, info.Mode())
		}
	}
	return n
}

func extractTail(w *World, p *packages.Package, file *ast.File, fd *ast.FuncDecl, src []byte, imported map[string]string, used map[string]bool, off func(token.Pos) int) (textEdit, string, bool) {
	none := textEdit{}
	body := fd.Body.List
	if len(body) < 4 || fd.Type.TypeParams != nil {
		return none, "", false
	}
	if fd.Recv != nil {
		for _, f := range fd.Recv.List {
			t := f.Type
			if st, ok := t.(*ast.StarExpr); ok {
				t = st.X
			}
			switch t.(type) {
			case *ast.IndexExpr, *ast.IndexListExpr:
				return none, "", false
			}
		}
	}
	hasResults := fd.Type.Results != nil && len(fd.Type.Results.List) > 0
	if hasResults {
		for _, f := range fd.Type.Results.List {
			if len(f.Names) > 0 {
				return none, "", false
			}
		}
		if _, ok := body[len(body)-1].(*ast.ReturnStmt); !ok {
			return none, "", false
		}
	}
	bad := false
	ast.Inspect(fd.Body, func(n ast.Node) bool {
		switch x := n.(type) {
		case *ast.DeferStmt, *ast.LabeledStmt:
			bad = true
		case *ast.BranchStmt:
			if x.Tok == token.GOTO || x.Label != nil {
				bad = true
			}
		case *ast.CallExpr:
			if id, ok := x.Fun.(*ast.Ident); ok && id.Name == "recover" {
				bad = true
			}
		}
		return !bad
	})
	if bad {
		return none, "", false
	}
	k := len(body) / 2
	head, tail := body[:k], body[k:]
	for _, s := range head {
		ast.Inspect(s, func(n ast.Node) bool {
			switch x := n.(type) {
			case *ast.FuncLit, *ast.GoStmt:
				bad = true
			case *ast.UnaryExpr:
				if x.Op == token.AND {
					bad = true
				}
			}
			return !bad
		})
	}
	if bad {
		return none, "", false
	}
	tailStart := tail[0].Pos()
	qual := func(pk *types.Package) string {
		if pk == p.Types {
			return ""
		}
		if name, ok := imported[pk.Path()]; ok {
			return name
		}
		bad = true
		return pk.Name()
	}
	type fv struct {
		v   *types.Var
		pos token.Pos
	}
	var free []fv
	seen := map[*types.Var]bool{}
	for _, s := range tail {
		ast.Inspect(s, func(n ast.Node) bool {
			id, ok := n.(*ast.Ident)
			if !ok || id.Name == "_" {
				return true
			}
			o := p.TypesInfo.Uses[id]
			if o == nil {
				return true
			}
			// something declared inside this function, before the tail
			if o.Pos() < fd.Pos() || o.Pos() >= tailStart || o.Parent() == nil || o.Parent() == p.Types.Scope() || o.Parent() == types.Universe {
				return true
			}
			v, isVar := o.(*types.Var)
			if !isVar || v.IsField() {
				bad = true // a local type, constant or label used by the tail
				return false
			}
			if !seen[v] {
				seen[v] = true
				free = append(free, fv{v, id.Pos()})
			}
			return true
		})
	}
	if bad {
		return none, "", false
	}
	var params, args []string
	for _, f := range free {
		ts := types.TypeString(f.v.Type(), qual)
		if bad || strings.Contains(ts, "invalid type") {
			return none, "", false
		}
		// unexported names of other packages, or types declared inside the function, cannot be written here
		unwritable := false
		var walk func(t types.Type, d int)
		walk = func(t types.Type, d int) {
			if d > 6 || unwritable {
				return
			}
			switch x := t.(type) {
			case *types.Named:
				if x.Obj().Pkg() != nil && x.Obj().Pkg() != p.Types && !x.Obj().Exported() {
					unwritable = true
				}
				if x.Obj().Parent() != nil && x.Obj().Pkg() == p.Types && x.Obj().Parent() != p.Types.Scope() {
					unwritable = true
				}
				if ta := x.TypeArgs(); ta != nil {
					for i := 0; i < ta.Len(); i++ {
						walk(ta.At(i), d+1)
					}
				}
			case *types.TypeParam:
				unwritable = true
			case *types.Pointer:
				walk(x.Elem(), d+1)
			case *types.Slice:
				walk(x.Elem(), d+1)
			case *types.Array:
				walk(x.Elem(), d+1)
			case *types.Chan:
				walk(x.Elem(), d+1)
			case *types.Map:
				walk(x.Key(), d+1)
				walk(x.Elem(), d+1)
			case *types.Signature:
				for i := 0; i < x.Params().Len(); i++ {
					walk(x.Params().At(i).Type(), d+1)
				}
				for i := 0; i < x.Results().Len(); i++ {
					walk(x.Results().At(i).Type(), d+1)
				}
			case *types.Struct:
				for i := 0; i < x.NumFields(); i++ {
					walk(x.Field(i).Type(), d+1)
				}
			case *types.Tuple:
				unwritable = true
			}
		}
		walk(f.v.Type(), 0)
		if unwritable {
			return none, "", false
		}
		params = append(params, f.v.Name()+" "+ts)
		args = append(args, f.v.Name())
	}
	// the types written out must also be ones the file can name: result types are copied as text
	base := fd.Name.Name
	if fd.Recv != nil && len(fd.Recv.List) == 1 {
		t := fd.Recv.List[0].Type
		if st, ok := t.(*ast.StarExpr); ok {
			t = st.X
		}
		if id, ok := t.(*ast.Ident); ok {
			base = id.Name + strings.ToUpper(base[:1]) + base[1:]
		}
	}
	name := strings.ToLower(base[:1]) + base[1:] + "TailMx"
	for used[name] {
		name += "x"
	}
	used[name] = true
	results := ""
	if hasResults {
		results = " " + string(src[off(fd.Type.Results.Pos()):off(fd.Type.Results.End())])
	}
	tailText := string(src[off(tailStart):off(fd.Body.Rbrace)])
	helper := "func " + name + "(" + strings.Join(params, ", ") + ")" + results + " {\n\t" + tailText + "}\n"
	call := name + "(" + strings.Join(args, ", ") + ")"
	if hasResults {
		call = "return " + call
	}
	return textEdit{off(tailStart), off(fd.Body.Rbrace), call + "\n"}, helper, true
}

package main

import (
	"fmt"
	"go/constant"
	"go/token"
	"go/types"
	"sort"

	"golang.org/x/tools/go/ssa"
)

// R11.7  the import graph is complete. The edges tsort sees for a module are
// the import statements among its children, and the imports of its included
// submodules get there only by being merged in Process(Sub)moduleIncludes.
// Every AddChildren call in the cone of those two functions must pass the
// unfiltered result of <submodule>.ChildrenByType(K); each of the two must
// merge K = NodeImport.
func c11ImportEdges(w *World, r *Report) {
	impK, ok := pkgConstInt(w, "parse", "NodeImport")
	if !ok {
		panic(undecided{"parse.NodeImport"})
	}
	sp := w.SSAPkg("compile")
	for _, name := range []string{"ProcessSubmoduleIncludes", "ProcessModuleIncludes"} {
		root := w.SSAFunc(w.Method("compile", "Compiler", name))
		if root == nil {
			panic(undecided{"Compiler." + name})
		}
		// cone: root plus in-package static callees, depth 2
		cone := map[*ssa.Function]bool{root: true}
		frontier := []*ssa.Function{root}
		for d := 0; d < 2; d++ {
			var next []*ssa.Function
			for _, f := range frontier {
				for _, b := range f.Blocks {
					for _, in := range b.Instrs {
						if c, ok := in.(ssa.CallInstruction); ok {
							if sc := c.Common().StaticCallee(); sc != nil && sc.Pkg == sp && !cone[sc] && sc.Blocks != nil {
								cone[sc] = true
								next = append(next, sc)
							}
						}
					}
				}
			}
			frontier = next
		}
		nAdd, nImp := 0, 0
		var fns []*ssa.Function
		for f := range cone {
			fns = append(fns, f)
		}
		sort.Slice(fns, func(i, j int) bool { return fns[i].String() < fns[j].String() })
		for _, f := range fns {
			for _, b := range f.Blocks {
				for _, in := range b.Instrs {
					c, ok := in.(ssa.CallInstruction)
					if !ok {
						continue
					}
					cc := c.Common()
					if !cc.IsInvoke() || nm(cc.Method) != "AddChildren" {
						continue
					}
					nAdd++
					what := fmt.Sprintf("%s: AddChildren #%d (in %s)", name, nAdd, f.Name())
					src, isCall := cc.Args[0].(*ssa.Call)
					if !isCall || !src.Call.IsInvoke() || nm(src.Call.Method) != "ChildrenByType" {
						r.Fail("R11.7", what, in.Pos(), "the statements merged from an included submodule are not the unfiltered result of ChildrenByType: a selection (e.g. by prefix) drops import statements, and with them edges of the import graph the cycle check and the module ordering rely on")
						continue
					}
					kind := "?"
					if k, ok := src.Call.Args[0].(*ssa.Const); ok && k.Value != nil {
						if v, ok2 := constant.Int64Val(constant.ToInt(k.Value)); ok2 {
							kind = fmt.Sprintf("kind %d", v)
							if v == impK {
								kind = "NodeImport"
								nImp++
							}
						}
					} else if kinds, ok := tableKindsHanded(w, root, f, src.Call.Args[0]); ok {
						// the kinds come from a read-only table the root hands down: one merge per entry
						for i, v := range kinds {
							kind = fmt.Sprintf("kind %d", v)
							if v == impK {
								kind = "NodeImport"
								nImp++
							}
							if i < len(kinds)-1 {
								r.OK("R11.7", fmt.Sprintf("%s: AddChildren #%d (in %s, table entry %d)", name, nAdd, f.Name(), i), in.Pos(), "passes ChildrenByType("+kind+") unfiltered")
							}
						}
					}
					r.OK("R11.7", what, in.Pos(), "passes ChildrenByType("+kind+") unfiltered")
				}
			}
		}
		r.Check(nImp >= 1, "R11.7", name+" merges the submodule's imports", root.Pos(), "AddChildren(smod.ChildrenByType(NodeImport)...)", "the imports of an included submodule are not merged into the including module: import cycles through a submodule go unnoticed")
	}
	_ = types.Typ
	_ = token.NoPos
}

// tableKindsHanded: v, in f, is an element of a slice parameter of f (read in
// a loop over it), and root — which reaches f by one static call — hands a
// package-level slice literal of constants that the module only reads for that
// parameter: the constants.
func tableKindsHanded(w *World, root, f *ssa.Function, v ssa.Value) ([]int64, bool) {
	ld, ok := v.(*ssa.UnOp)
	if !ok || ld.Op != token.MUL {
		return nil, false
	}
	ia, ok := ld.X.(*ssa.IndexAddr)
	if !ok {
		return nil, false
	}
	prm, ok := ia.X.(*ssa.Parameter)
	if !ok || prm.Parent() != f {
		return nil, false
	}
	idx := -1
	for i, q := range f.Params {
		if q == prm {
			idx = i
		}
	}
	var out []int64
	found := false
	for _, b := range root.Blocks {
		for _, in := range b.Instrs {
			c, isC := in.(*ssa.Call)
			if !isC || c.Call.StaticCallee() != f || idx < 0 || idx >= len(c.Call.Args) {
				continue
			}
			gl, isLd := c.Call.Args[idx].(*ssa.UnOp)
			if !isLd || gl.Op != token.MUL {
				return nil, false
			}
			g, isG := gl.X.(*ssa.Global)
			if !isG || found {
				return nil, false
			}
			gv, _ := g.Object().(*types.Var)
			if gv == nil || !globalOnlyHandedTo(g, f, idx) {
				return nil, false
			}
			init, ip := w.VarInit(gv)
			if init == nil {
				return nil, false
			}
			lv := evalLit(ip, init)
			if len(lv.Elems) == 0 {
				return nil, false
			}
			for _, e := range lv.Elems {
				if e.Const == nil {
					return nil, false
				}
				iv, exact := constant.Int64Val(constant.ToInt(e.Const))
				if !exact {
					return nil, false
				}
				out = append(out, iv)
			}
			found = true
		}
	}
	return out, found
}

// globalOnlyHandedTo: outside the package initialiser, the package-level
// variable g is only ever loaded to be passed as the idx-th argument of f, and
// f only reads through that parameter (indexing, len, range).
func globalOnlyHandedTo(g *ssa.Global, f *ssa.Function, idx int) bool {
	for _, fn := range allFuncs(g.Pkg) {
		for _, b := range fn.Blocks {
			for _, in := range b.Instrs {
				uses := false
				for _, op := range in.Operands(nil) {
					if *op == ssa.Value(g) {
						uses = true
					}
				}
				if !uses {
					continue
				}
				if fn.Name() == "init" && fn.Synthetic != "" {
					continue
				}
				ld, ok := in.(*ssa.UnOp)
				if !ok || ld.Op != token.MUL {
					return false
				}
				for _, ref := range *ld.Referrers() {
					c, isC := ref.(*ssa.Call)
					if !isC || c.Call.StaticCallee() != f || idx >= len(c.Call.Args) || c.Call.Args[idx] != ssa.Value(ld) {
						return false
					}
					for i, a := range c.Call.Args {
						if i != idx && a == ssa.Value(ld) {
							return false
						}
					}
				}
			}
		}
	}
	if idx >= len(f.Params) {
		return false
	}
	for _, ref := range *f.Params[idx].Referrers() {
		switch x := ref.(type) {
		case *ssa.IndexAddr:
			for _, r2 := range *x.Referrers() {
				if ld, ok := r2.(*ssa.UnOp); !ok || ld.Op != token.MUL {
					return false
				}
			}
		case *ssa.Call:
			if bi, ok := x.Call.Value.(*ssa.Builtin); !ok || bi.Name() != "len" {
				return false
			}
		case *ssa.DebugRef:
		default:
			return false
		}
	}
	return true
}

package main

import (
	"fmt"
	"go/constant"
	"go/token"
	"go/types"
	"sort"

	"golang.org/x/tools/go/ssa"
)

// R11.7  the import graph is complete. The edges tsort sees for a module are
// the import statements among its children, and the imports of its included
// submodules get there only by being merged in Process(Sub)moduleIncludes.
// Every AddChildren call in the cone of those two functions must pass the
// unfiltered result of <submodule>.ChildrenByType(K); each of the two must
// merge K = NodeImport.
func c11ImportEdges(w *World, r *Report) {
	impK, ok := pkgConstInt(w, "parse", "NodeImport")
	if !ok {
		panic(undecided{"parse.NodeImport"})
	}
	sp := w.SSAPkg("compile")
	for _, name := range []string{"ProcessSubmoduleIncludes", "ProcessModuleIncludes"} {
		root := w.SSAFunc(w.Method("compile", "Compiler", name))
		if root == nil {
			panic(undecided{"Compiler." + name})
		}
		// cone: root plus in-package static callees, depth 2
		cone := map[*ssa.Function]bool{root: true}
		frontier := []*ssa.Function{root}
		for d := 0; d < 2; d++ {
			var next []*ssa.Function
			for _, f := range frontier {
				for _, b := range f.Blocks {
					for _, in := range b.Instrs {
						if c, ok := in.(ssa.CallInstruction); ok {
							if sc := c.Common().StaticCallee(); sc != nil && sc.Pkg == sp && !cone[sc] && sc.Blocks != nil {
								cone[sc] = true
								next = append(next, sc)
							}
						}
					}
				}
			}
			frontier = next
		}
		nAdd, nImp := 0, 0
		var fns []*ssa.Function
		for f := range cone {
			fns = append(fns, f)
		}
		sort.Slice(fns, func(i, j int) bool { return fns[i].String() < fns[j].String() })
		for _, f := range fns {
			for _, b := range f.Blocks {
				for _, in := range b.Instrs {
					c, ok := in.(ssa.CallInstruction)
					if !ok {
						continue
					}
					cc := c.Common()
					if !cc.IsInvoke() || nm(cc.Method) != "AddChildren" {
						continue
					}
					nAdd++
					what := fmt.Sprintf("%s: AddChildren #%d (in %s)", name, nAdd, f.Name())
					src, isCall := cc.Args[0].(*ssa.Call)
					if !isCall || !src.Call.IsInvoke() || nm(src.Call.Method) != "ChildrenByType" {
						r.Fail("R11.7", what, in.Pos(), "the statements merged from an included submodule are not the unfiltered result of ChildrenByType: a selection (e.g. by prefix) drops import statements, and with them edges of the import graph the cycle check and the module ordering rely on")
						continue
					}
					kind := "?"
					if k, ok := src.Call.Args[0].(*ssa.Const); ok && k.Value != nil {
						if v, ok2 := constant.Int64Val(constant.ToInt(k.Value)); ok2 {
							kind = fmt.Sprintf("kind %d", v)
							if v == impK {
								kind = "NodeImport"
								nImp++
							}
						}
					}
					r.OK("R11.7", what, in.Pos(), "passes ChildrenByType("+kind+") unfiltered")
				}
			}
		}
		r.Check(nImp >= 1, "R11.7", name+" merges the submodule's imports", root.Pos(), "AddChildren(smod.ChildrenByType(NodeImport)...)", "the imports of an included submodule are not merged into the including module: import cycles through a submodule go unnoticed")
	}
	_ = types.Typ
	_ = token.NoPos
}

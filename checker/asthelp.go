package main

import (
	"go/ast"
	"go/constant"
	"go/token"
	"go/types"
	"strings"

	"golang.org/x/tools/go/packages"
	"golang.org/x/tools/go/ssa"
	"golang.org/x/tools/go/types/typeutil"
)

// inspectNoLit walks n without descending into function literals.
func inspectNoLit(n ast.Node, f func(ast.Node) bool) {
	ast.Inspect(n, func(x ast.Node) bool {
		if _, ok := x.(*ast.FuncLit); ok && x != n {
			return false
		}
		return f(x)
	})
}

func calleeOf(p *packages.Package, ce *ast.CallExpr) *types.Func {
	f, _ := typeutil.Callee(p.TypesInfo, ce).(*types.Func)
	return f
}

// callsIn lists resolved static calls in n (not inside func literals).
func callsIn(p *packages.Package, n ast.Node) []*ast.CallExpr {
	var out []*ast.CallExpr
	inspectNoLit(n, func(x ast.Node) bool {
		if ce, ok := x.(*ast.CallExpr); ok {
			out = append(out, ce)
		}
		return true
	})
	return out
}

func callsTo(p *packages.Package, n ast.Node, f *types.Func) []*ast.CallExpr {
	var out []*ast.CallExpr
	for _, ce := range callsIn(p, n) {
		if calleeOf(p, ce) == f {
			out = append(out, ce)
		}
	}
	return out
}

// allCallsTo includes calls inside function literals.
func allCallsTo(p *packages.Package, n ast.Node, f *types.Func) []*ast.CallExpr {
	var out []*ast.CallExpr
	ast.Inspect(n, func(x ast.Node) bool {
		if ce, ok := x.(*ast.CallExpr); ok && calleeOf(p, ce) == f {
			out = append(out, ce)
		}
		return true
	})
	return out
}

func returnsIn(n ast.Node) []*ast.ReturnStmt {
	var out []*ast.ReturnStmt
	inspectNoLit(n, func(x ast.Node) bool {
		if r, ok := x.(*ast.ReturnStmt); ok {
			out = append(out, r)
		}
		return true
	})
	return out
}

type swArm struct {
	Consts  []constant.Value
	Default bool
	Clause  *ast.CaseClause
}

func switchArms(p *packages.Package, sw *ast.SwitchStmt) []swArm {
	var arms []swArm
	for _, c := range sw.Body.List {
		cc := c.(*ast.CaseClause)
		a := swArm{Clause: cc, Default: cc.List == nil}
		for _, e := range cc.List {
			a.Consts = append(a.Consts, ConstOf(p, e))
		}
		arms = append(arms, a)
	}
	return arms
}

// switchesOn finds switch statements in n whose tag satisfies pred.
func switchesOn(n ast.Node, pred func(ast.Expr) bool) []*ast.SwitchStmt {
	var out []*ast.SwitchStmt
	ast.Inspect(n, func(x ast.Node) bool {
		if sw, ok := x.(*ast.SwitchStmt); ok && sw.Tag != nil && pred(sw.Tag) {
			out = append(out, sw)
		}
		return true
	})
	return out
}

func objOfIdent(p *packages.Package, e ast.Expr) types.Object {
	if id, ok := ast.Unparen(e).(*ast.Ident); ok {
		if o := p.TypesInfo.Uses[id]; o != nil {
			return o
		}
		return p.TypesInfo.Defs[id]
	}
	return nil
}

// fieldOfSel returns the field object selected by e (x.f), or nil.
func fieldOfSel(p *packages.Package, e ast.Expr) *types.Var {
	se, ok := ast.Unparen(e).(*ast.SelectorExpr)
	if !ok {
		return nil
	}
	if sel := p.TypesInfo.Selections[se]; sel != nil && sel.Kind() == types.FieldVal {
		return sel.Obj().(*types.Var)
	}
	return nil
}

func paramObj(p *packages.Package, fd *ast.FuncDecl, i int) types.Object {
	// the rules count parameters as the recorded tree had them (anchors.go)
	switch how := convertedDecl[fd.Name.Pos()]; {
	case strings.HasPrefix(how, "method:"): // not "method-dropped-receiver:", where the list is unchanged
		i++ // a method then: its receiver is parameter 0 now
	case how == "func":
		if i == 0 && fd.Recv != nil && len(fd.Recv.List) == 1 && len(fd.Recv.List[0].Names) == 1 {
			return p.TypesInfo.Defs[fd.Recv.List[0].Names[0]]
		}
		i--
	}
	k := 0
	for _, f := range fd.Type.Params.List {
		for _, n := range f.Names {
			if k == i {
				return p.TypesInfo.Defs[n]
			}
			k++
		}
	}
	return nil
}

func intConst(v constant.Value) (int64, bool) {
	if v == nil || v.Kind() != constant.Int {
		return 0, false
	}
	return constant.Int64Val(v)
}

// structField finds a field of a named struct type.
func (w *World) Field(pkgKey, typ, field string) *types.Var {
	p := w.Pkg(pkgKey)
	tn, ok := scopeLookup(p.Types.Scope(), typ).(*types.TypeName)
	if !ok {
		panic(undecided{"type " + pkgKey + "." + typ + " not found"})
	}
	st, ok := tn.Type().Underlying().(*types.Struct)
	if !ok {
		panic(undecided{"type " + typ + " is not a struct"})
	}
	for i := 0; i < st.NumFields(); i++ {
		if nm(st.Field(i)) == field {
			return st.Field(i)
		}
	}
	panic(undecided{"field " + typ + "." + field + " not found"})
}

// assignsToField lists assignment statements (and inc/dec) in n whose LHS
// selects field fv.
func assignsToField(p *packages.Package, n ast.Node, fv *types.Var) []ast.Node {
	var out []ast.Node
	ast.Inspect(n, func(x ast.Node) bool {
		switch s := x.(type) {
		case *ast.AssignStmt:
			for _, l := range s.Lhs {
				if fieldOfSel(p, l) == fv {
					out = append(out, s)
				}
			}
		case *ast.IncDecStmt:
			if fieldOfSel(p, s.X) == fv {
				out = append(out, s)
			}
		}
		return true
	})
	return out
}

// enclosingFuncs maps every node position range to its FuncDecl for a package.
func funcDecls(p *packages.Package) []*ast.FuncDecl {
	var out []*ast.FuncDecl
	for _, f := range p.Syntax {
		for _, d := range f.Decls {
			if fd, ok := d.(*ast.FuncDecl); ok && fd.Body != nil {
				out = append(out, fd)
			}
		}
	}
	return out
}

func funcDeclName(fd *ast.FuncDecl) string {
	name := fd.Name.Name
	if on, ok := origDeclName[fd.Name.Pos()]; ok {
		name = on // renamed since the rules were written: see anchors.go
	}
	// a method that was a plain function when the rules were written, or the reverse: the name it had then
	switch how := convertedDecl[fd.Name.Pos()]; {
	case how == "func":
		return name
	case strings.HasPrefix(how, "method:"):
		return strings.TrimPrefix(how, "method:") + "." + name
	case strings.HasPrefix(how, "method-dropped-receiver:"):
		return strings.TrimPrefix(how, "method-dropped-receiver:") + "." + name
	}
	return funcDeclNameWith(fd, name)
}

func funcDeclNameWith(fd *ast.FuncDecl, name string) string {
	if fd.Recv != nil && len(fd.Recv.List) > 0 {
		t := fd.Recv.List[0].Type
		if s, ok := t.(*ast.StarExpr); ok {
			t = s.X
		}
		if id, ok := t.(*ast.Ident); ok {
			return id.Name + "." + name
		}
	}
	return name
}

func isTestFile(w *World, pos token.Pos) bool {
	f := w.Fset.Position(pos).Filename
	return len(f) > 8 && f[len(f)-8:] == "_test.go"
}

type ssaFunction = ssa.Function

// localFreeExpr renders e with every identifier that denotes a local
// variable, parameter or receiver replaced by its type in ‹›: the text no
// longer depends on how locals are called.
func localFreeExpr(p *packages.Package, e ast.Expr) string {
	repl := map[*ast.Ident]string{}
	ast.Inspect(e, func(n ast.Node) bool {
		id, ok := n.(*ast.Ident)
		if !ok {
			return true
		}
		o := p.TypesInfo.Uses[id]
		if o == nil {
			o = p.TypesInfo.Defs[id]
		}
		v, ok := o.(*types.Var)
		if !ok || v.IsField() || v.Parent() == nil || v.Parent() == v.Pkg().Scope() || v.Parent() == types.Universe {
			return true
		}
		repl[id] = "‹" + types.TypeString(v.Type(), func(pk *types.Package) string { return pk.Name() }) + "›"
		return true
	})
	if len(repl) == 0 {
		return types.ExprString(e)
	}
	// print with the identifiers temporarily renamed (every expression form is covered)
	old := map[*ast.Ident]string{}
	for id, r := range repl {
		old[id] = id.Name
		id.Name = r
	}
	out := types.ExprString(e)
	for id, n := range old {
		id.Name = n
	}
	return out
}

// paramInstantiatedExpr renders e like localFreeExpr, but an identifier that
// denotes a parameter of fd is replaced by the (local-free) argument fd is
// given — when fd is unexported and has exactly one call site in its package.
// "" when that is not the case.
func paramInstantiatedExpr(p *packages.Package, fd *ast.FuncDecl, e ast.Expr) string {
	fn, _ := p.TypesInfo.Defs[fd.Name].(*types.Func)
	if fn == nil || fn.Exported() || fd.Type.Params == nil {
		return ""
	}
	var sites []*ast.CallExpr
	for _, f := range p.Syntax {
		ast.Inspect(f, func(n ast.Node) bool {
			if ce, ok := n.(*ast.CallExpr); ok && calleeOf(p, ce) == fn {
				sites = append(sites, ce)
			}
			return true
		})
	}
	if len(sites) != 1 {
		return ""
	}
	args := map[types.Object]ast.Expr{}
	i := 0
	for _, fl := range fd.Type.Params.List {
		for _, nmI := range fl.Names {
			if i < len(sites[0].Args) {
				args[p.TypesInfo.Defs[nmI]] = sites[0].Args[i]
			}
			i++
		}
	}
	if i != len(sites[0].Args) {
		return ""
	}
	repl := map[*ast.Ident]string{}
	used := false
	ast.Inspect(e, func(n ast.Node) bool {
		id, ok := n.(*ast.Ident)
		if !ok {
			return true
		}
		o := p.TypesInfo.Uses[id]
		if o == nil {
			o = p.TypesInfo.Defs[id]
		}
		if a, isParam := args[o]; isParam {
			repl[id] = localFreeExpr(p, a)
			used = true
			return true
		}
		v, ok := o.(*types.Var)
		if !ok || v.IsField() || v.Parent() == nil || v.Parent() == v.Pkg().Scope() || v.Parent() == types.Universe {
			return true
		}
		repl[id] = "‹" + types.TypeString(v.Type(), func(pk *types.Package) string { return pk.Name() }) + "›"
		return true
	})
	if !used {
		return ""
	}
	old := map[*ast.Ident]string{}
	for id, r := range repl {
		old[id] = id.Name
		id.Name = r
	}
	out := types.ExprString(e)
	for id, n := range old {
		id.Name = n
	}
	return out
}

package main

import (
	"bytes"
	"encoding/json"
	"fmt"
	"go/ast"
	"go/token"
	"go/types"
	"os"
	"os/exec"
	"path/filepath"
	"sort"
	"strings"

	"golang.org/x/tools/go/callgraph"
	"golang.org/x/tools/go/callgraph/cha"
	"golang.org/x/tools/go/callgraph/vta"
	"golang.org/x/tools/go/packages"
	"golang.org/x/tools/go/ssa"
	"golang.org/x/tools/go/ssa/ssautil"
)

const modPath = "github.com/sdcio/yang-parser"

// World is everything a rule can look at: the regenerated grammars, the
// type-checked program, and (lazily) SSA and the call graph.
type World struct {
	Repo    string
	VerifD  string
	TmpDir  string
	Overlay map[string][]byte
	Fset    *token.FileSet
	Pkgs    map[string]*packages.Package // by import path suffix after modPath+"/" ("" for root)
	All     []*packages.Package
	Gram    map[string]*Grammar // "expr", "path_eval", "leafref"

	prog    *ssa.Program
	ssaPkgs map[string]*ssa.Package
	cg      *callgraph.Graph

	ownerIdx *ownerIndex

	bce     map[string]bool // unproven bounds checks, "file:line:col" of the '['
	bceDone bool
}

// theWorld: the tree under analysis, for helpers that only get syntax.
var theWorld *World

func goEnv() []string {
	env := []string{}
	for _, e := range os.Environ() {
		k := strings.SplitN(e, "=", 2)[0]
		switch k {
		case "GOFLAGS", "GOPROXY", "GOSUMDB", "GOTOOLCHAIN", "GOWORK", "PATH", "GO111MODULE":
			continue
		}
		env = append(env, e)
	}
	env = append(env,
		"PATH="+os.Getenv("PATH"),
		"GOFLAGS=-mod=mod", "GOPROXY=off", "GOSUMDB=off", "GOTOOLCHAIN=local", "GOWORK=off")
	return env
}

// regenerate runs goyacc on the three grammars of the current tree into tmp.
func (w *World) regenerate() error {
	w.Gram = map[string]*Grammar{}
	goyacc := filepath.Join(w.VerifD, "bin", "goyacc")
	type g struct{ name, dir, y, prefix, out string }
	gs := []g{
		{"expr", "xpath/grammars/expr", "xpath.y", "expr", "xpath.go"},
		{"path_eval", "xpath/grammars/path_eval", "path_eval.y", "pathEval", "path_eval.go"},
		{"leafref", "xpath/grammars/leafref", "leafref.y", "leafref", "leafref.go"},
	}
	ovDir := os.Getenv("YV_OVERLAY_DIR")
	for _, x := range gs {
		ypath := filepath.Join(w.Repo, x.dir, x.y)
		if ovDir != "" {
			if _, err := os.Stat(filepath.Join(ovDir, x.dir, x.y)); err == nil {
				ypath = filepath.Join(ovDir, x.dir, x.y)
			}
		}
		src, err := os.ReadFile(ypath)
		if err != nil {
			return fmt.Errorf("grammar %s: %v", x.name, err)
		}
		od := filepath.Join(w.TmpDir, x.name)
		os.MkdirAll(od, 0o755)
		outGo := filepath.Join(od, x.out)
		outV := filepath.Join(od, "y.output")
		cmd := exec.Command(goyacc, "-p", x.prefix, "-o", outGo, "-v", outV, ypath)
		cmd.Dir = od
		var eb bytes.Buffer
		cmd.Stderr = &eb
		cmd.Stdout = &eb
		if err := cmd.Run(); err != nil {
			return fmt.Errorf("goyacc %s: %v: %s", x.name, err, eb.String())
		}
		gen, err := os.ReadFile(outGo)
		if err != nil {
			return err
		}
		listing, _ := os.ReadFile(outV)
		gr, err := ParseYacc(x.name, ypath, string(src))
		if err != nil {
			return fmt.Errorf("parse %s: %v", ypath, err)
		}
		gr.Generated = gen
		gr.Listing = string(listing)
		gr.GoyaccOut = eb.String()
		gr.CommittedPath = filepath.Join(w.Repo, x.dir, x.out)
		gr.Prefix = x.prefix
		if c, err := os.ReadFile(gr.CommittedPath); err == nil {
			gr.Committed = c
		}
		if ovDir != "" {
			if c, err := os.ReadFile(filepath.Join(ovDir, x.dir, x.out)); err == nil {
				gr.Committed = c
			}
		}
		w.Gram[x.name] = gr
	}
	// leafref.go is git-ignored and absent at the pin: overlay the regenerated
	// one so that leafref/parse/schema/compile type-check. If the file exists
	// in the working tree it is used as is.
	lr := w.Gram["leafref"]
	if lr.Committed == nil {
		w.Overlay[lr.CommittedPath] = lr.Generated
	}
	return nil
}

func NewWorld(repo, verifd string, needTests bool) (*World, error) {
	tmp, err := os.MkdirTemp("", "yvcheck")
	if err != nil {
		return nil, err
	}
	w := &World{Repo: repo, VerifD: verifd, TmpDir: tmp, Overlay: map[string][]byte{}}
	if err := w.regenerate(); err != nil {
		return w, err
	}
	// extra overlays (used by the self-test to analyse a variant in memory)
	if ov := os.Getenv("YV_OVERLAY_DIR"); ov != "" {
		filepath.Walk(ov, func(p string, info os.FileInfo, err error) error {
			if err != nil || info.IsDir() {
				return nil
			}
			rel, _ := filepath.Rel(ov, p)
			b, _ := os.ReadFile(p)
			w.Overlay[filepath.Join(repo, rel)] = b
			return nil
		})
	}
	w.Fset = token.NewFileSet()
	cfg := &packages.Config{
		Mode:    packages.LoadAllSyntax,
		Dir:     repo,
		Fset:    w.Fset,
		Env:     goEnv(),
		Overlay: w.Overlay,
		Tests:   needTests,
	}
	pkgs, err := packages.Load(cfg, "./...")
	if err != nil {
		return w, fmt.Errorf("load: %v", err)
	}
	w.Pkgs = map[string]*packages.Package{}
	nerr := 0
	var first string
	for _, p := range pkgs {
		for _, e := range p.Errors {
			nerr++
			if first == "" {
				first = e.Error()
			}
		}
		if strings.HasSuffix(p.ID, ".test") || strings.Contains(p.ID, " [") {
			continue
		}
		key := strings.TrimPrefix(strings.TrimPrefix(p.PkgPath, modPath), "/")
		w.Pkgs[key] = p
		w.All = append(w.All, p)
	}
	sort.Slice(w.All, func(i, j int) bool { return w.All[i].PkgPath < w.All[j].PkgPath })
	if nerr > 0 {
		return w, fmt.Errorf("load: %d package errors, first: %s", nerr, first)
	}
	if len(w.All) < 16 {
		return w, fmt.Errorf("load: only %d packages of %s loaded (expected >= 16)", len(w.All), modPath)
	}
	w.normaliseSyntax()
	w.resolveRenames()
	w.foldNewTailHelpers()
	theWorld = w
	return w, nil
}

func (w *World) Close() {
	if w.TmpDir != "" {
		os.RemoveAll(w.TmpDir)
	}
}

func (w *World) Pkg(key string) *packages.Package {
	p := w.Pkgs[key]
	if p == nil {
		panic(undecided{"package " + key + " not found"})
	}
	return p
}

// undecided is panicked by lookups whose anchor is gone; main converts it to
// an open obligation (VIOLATION "mechanism not found"), never to a pass.
type undecided struct{ why string }

func (w *World) SSA() *ssa.Program {
	if w.prog != nil {
		return w.prog
	}
	// build SSA for the whole import closure
	var roots []*packages.Package
	roots = append(roots, w.All...)
	prog, pkgs := ssautil.AllPackages(roots, ssa.InstantiateGenerics)
	prog.Build()
	w.prog = prog
	w.ssaPkgs = map[string]*ssa.Package{}
	for i, p := range roots {
		if pkgs[i] != nil {
			key := strings.TrimPrefix(strings.TrimPrefix(p.PkgPath, modPath), "/")
			w.ssaPkgs[key] = pkgs[i]
		}
	}
	return prog
}

func (w *World) SSAPkg(key string) *ssa.Package {
	w.SSA()
	p := w.ssaPkgs[key]
	if p == nil {
		panic(undecided{"ssa package " + key + " not found"})
	}
	return p
}

func (w *World) CallGraph() *callgraph.Graph {
	if w.cg != nil {
		return w.cg
	}
	prog := w.SSA()
	w.cg = vta.CallGraph(ssautil.AllFunctions(prog), cha.CallGraph(prog))
	return w.cg
}

// InRepo reports whether a position lies in a repository source file.
func (w *World) InRepo(pos token.Pos) bool {
	if !pos.IsValid() {
		return false
	}
	return strings.HasPrefix(w.Fset.Position(pos).Filename, w.Repo+"/")
}

func (w *World) PosStr(pos token.Pos) string {
	if !pos.IsValid() {
		return "-"
	}
	p := w.Fset.Position(pos)
	f := strings.TrimPrefix(p.Filename, w.Repo+"/")
	return fmt.Sprintf("%s:%d", f, p.Line)
}

// ---- lookup helpers (by object, never by text) ----

func (w *World) Func(pkgKey, name string) *types.Func {
	p := w.Pkg(pkgKey)
	if o, ok := scopeLookup(p.Types.Scope(), name).(*types.Func); ok {
		return o
	}
	// turned into a method since the rules were written (anchors.go)
	for o, how := range convertedFrom {
		if f, ok := o.(*types.Func); ok && how == "func" && f.Pkg() == p.Types && f.Name() == name {
			return f
		}
	}
	panic(undecided{fmt.Sprintf("func %s.%s not found", pkgKey, name)})
}

// tryFunc is Func without the panic.
func (w *World) tryFunc(pkgKey, name string) *types.Func {
	p := w.Pkg(pkgKey)
	if o, ok := scopeLookup(p.Types.Scope(), name).(*types.Func); ok {
		return o
	}
	for o, how := range convertedFrom {
		if f, ok := o.(*types.Func); ok && how == "func" && f.Pkg() == p.Types && f.Name() == name {
			return f
		}
	}
	return nil
}

func (w *World) Method(pkgKey, typ, name string) *types.Func {
	p := w.Pkg(pkgKey)
	tn, ok := scopeLookup(p.Types.Scope(), typ).(*types.TypeName)
	if !ok {
		panic(undecided{fmt.Sprintf("type %s.%s not found", pkgKey, typ)})
	}
	for _, t := range []types.Type{tn.Type(), types.NewPointer(tn.Type())} {
		ms := types.NewMethodSet(t)
		for i := 0; i < ms.Len(); i++ {
			if f, ok := ms.At(i).Obj().(*types.Func); ok && nm(f) == name {
				return f
			}
		}
	}
	// turned into a plain function since the rules were written (anchors.go)
	for o, how := range convertedFrom {
		if f, ok := o.(*types.Func); ok && (how == "method:"+typ || how == "method-dropped-receiver:"+typ) && f.Pkg() == p.Types && f.Name() == name {
			return f
		}
	}
	panic(undecided{fmt.Sprintf("method %s.%s.%s not found", pkgKey, typ, name)})
}

func (w *World) TryMethod(pkgKey, typ, name string) (f *types.Func) {
	defer func() {
		if r := recover(); r != nil {
			if _, ok := r.(undecided); ok {
				f = nil
				return
			}
			panic(r)
		}
	}()
	return w.Method(pkgKey, typ, name)
}

func (w *World) Var(pkgKey, name string) *types.Var {
	p := w.Pkg(pkgKey)
	if o, ok := scopeLookup(p.Types.Scope(), name).(*types.Var); ok {
		return o
	}
	panic(undecided{fmt.Sprintf("var %s.%s not found", pkgKey, name)})
}

// FuncDecl finds the syntax of a function object.
func (w *World) FuncDecl(f *types.Func) (*ast.FuncDecl, *packages.Package) {
	for _, p := range w.All {
		if p.Types != f.Pkg() {
			continue
		}
		for _, file := range p.Syntax {
			for _, d := range file.Decls {
				if fd, ok := d.(*ast.FuncDecl); ok && p.TypesInfo.Defs[fd.Name] == f {
					return fd, p
				}
			}
		}
	}
	panic(undecided{"no declaration for " + f.FullName()})
}

// VarInit returns the initialiser expression of a package-level variable.
func (w *World) VarInit(v *types.Var) (ast.Expr, *packages.Package) {
	for _, p := range w.All {
		if p.Types != v.Pkg() {
			continue
		}
		for _, file := range p.Syntax {
			for _, d := range file.Decls {
				gd, ok := d.(*ast.GenDecl)
				if !ok || gd.Tok != token.VAR {
					continue
				}
				for _, s := range gd.Specs {
					vs := s.(*ast.ValueSpec)
					for i, n := range vs.Names {
						if p.TypesInfo.Defs[n] == v && i < len(vs.Values) {
							return vs.Values[i], p
						}
					}
				}
			}
		}
	}
	panic(undecided{"no initialiser for " + v.Name()})
}

func (w *World) SSAFunc(f *types.Func) *ssa.Function {
	fn := w.SSA().FuncValue(f)
	if fn == nil {
		panic(undecided{"no SSA for " + f.FullName()})
	}
	return fn
}

// funcKey gives a position-free name for an SSA function (closures are named
// parent$N by go/ssa, which is stable under edits elsewhere in the file).
func funcKey(fn *ssa.Function) string {
	s := fn.String()
	s = strings.ReplaceAll(s, modPath+"/", "")
	// a renamed function keeps the key it had when the rules were written
	for g := fn; g != nil; g = g.Parent() {
		if o := g.Object(); o != nil {
			if on, ok := origName[o]; ok {
				s = strings.Replace(s, "."+g.Name(), "."+on, 1)
			}
		}
	}
	return s
}

// ExprAt returns the source text of the call/conversion expression whose
// left parenthesis is at pos (the position go/ssa gives a Convert or Call).
func (w *World) ExprAt(pos token.Pos) string {
	if !pos.IsValid() {
		return "?"
	}
	for _, p := range w.All {
		for _, f := range p.Syntax {
			if f.Pos() <= pos && pos <= f.End() {
				out := "?"
				ast.Inspect(f, func(n ast.Node) bool {
					if ce, ok := n.(*ast.CallExpr); ok && ce.Lparen == pos {
						out = types.ExprString(ce)
						return false
					}
					return true
				})
				return out
			}
		}
	}
	return "?"
}

// ExprNear returns the text of the smallest expression that contains pos.
func (w *World) ExprNear(pos token.Pos) string {
	if !pos.IsValid() {
		return "?"
	}
	for _, p := range w.All {
		for _, f := range p.Syntax {
			if f.Pos() <= pos && pos <= f.End() {
				var best ast.Expr
				ast.Inspect(f, func(n ast.Node) bool {
					if n == nil || n.Pos() > pos || n.End() < pos {
						return n == nil || (n.Pos() <= pos && pos <= n.End())
					}
					if e, ok := n.(ast.Expr); ok {
						best = e
					}
					return true
				})
				if best != nil {
					return types.ExprString(best)
				}
			}
		}
	}
	return "?"
}

// BoundsUnproven asks the Go compiler which index and slice expressions of
// the module its prove pass could NOT show to be in bounds
// (-d=ssa/check_bce): every other index or slice expression is in bounds on
// every path.  Nothing is run; the packages are compiled (from /repo's
// working tree plus the overlay) and the object files discarded.  nil means
// the compiler could not be asked.
func (w *World) BoundsUnproven() map[string]bool {
	if w.bceDone {
		return w.bce
	}
	w.bceDone = true
	type ov struct {
		Replace map[string]string
	}
	o := ov{Replace: map[string]string{}}
	i := 0
	for path, content := range w.Overlay {
		i++
		f := filepath.Join(w.TmpDir, fmt.Sprintf("bce_overlay_%d.go", i))
		if err := os.WriteFile(f, content, 0o644); err != nil {
			return nil
		}
		o.Replace[path] = f
	}
	js, _ := json.Marshal(o)
	ovf := filepath.Join(w.TmpDir, "bce_overlay.json")
	if err := os.WriteFile(ovf, js, 0o644); err != nil {
		return nil
	}
	cmd := exec.Command("go", "build", "-overlay", ovf, "-gcflags="+modPath+"/...=-d=ssa/check_bce/debug=1", "./...")
	cmd.Dir = w.Repo
	cmd.Env = goEnv()
	var eb bytes.Buffer
	cmd.Stderr = &eb
	cmd.Stdout = &eb
	err := cmd.Run()
	out := map[string]bool{}
	n := 0
	for _, line := range strings.Split(eb.String(), "\n") {
		idx := strings.Index(line, ": Found Is")
		if idx < 0 {
			continue
		}
		loc := line[:idx] // file:line:col
		parts := strings.Split(loc, ":")
		if len(parts) < 3 {
			continue
		}
		file := strings.Join(parts[:len(parts)-2], ":")
		if !filepath.IsAbs(file) {
			file = filepath.Join(w.Repo, file)
		}
		out[file+":"+parts[len(parts)-2]+":"+parts[len(parts)-1]] = true
		n++
	}
	if n == 0 {
		// a build that reports nothing at all did not run the pass (or failed)
		_ = err
		return nil
	}
	w.bce = out
	return out
}

// InBoundsProven: the compiler eliminated the bounds check of the index or
// slice expression whose '[' stands at pos.
func (w *World) InBoundsProven(pos token.Pos) bool {
	u := w.BoundsUnproven()
	if u == nil || !pos.IsValid() {
		return false
	}
	p := w.Fset.Position(pos)
	return !u[fmt.Sprintf("%s:%d:%d", p.Filename, p.Line, p.Column)]
}

// normaliseSyntax rewrites, in the loaded syntax trees only, spellings that
// mean the same into one form, so that rules which read syntax see one form:
//
//	var x = e   (inside a function, no type given)   →   x := e
//	switch { case v == a || v == b: … }   (every case a disjunction of v == constant, v one local variable)   →   switch v { case a, b: … }
//	if v == a {…} else if v == b || v == c {…} else if … [else {…}]   (three or more such arms, no unlabelled break inside)   →   the same switch
//
// The identifiers are kept (their objects and types are unchanged), no node is
// invented, and go/ssa builds the same code from either spelling.
func (w *World) normaliseSyntax() {
	if skipNormalise {
		return
	}
	conv := func(s ast.Stmt) ast.Stmt {
		ds, ok := s.(*ast.DeclStmt)
		if !ok {
			return s
		}
		gd, ok := ds.Decl.(*ast.GenDecl)
		if !ok || gd.Tok != token.VAR || len(gd.Specs) != 1 {
			return s
		}
		vs, ok := gd.Specs[0].(*ast.ValueSpec)
		if !ok || vs.Type != nil || len(vs.Values) == 0 || (len(vs.Values) != len(vs.Names) && len(vs.Values) != 1) {
			return s
		}
		for _, n := range vs.Names {
			if n.Name == "_" {
				return s
			}
		}
		lhs := make([]ast.Expr, len(vs.Names))
		for i, n := range vs.Names {
			lhs[i] = n
		}
		return &ast.AssignStmt{Lhs: lhs, TokPos: vs.Names[0].End(), Tok: token.DEFINE, Rhs: vs.Values}
	}
	for _, p := range w.All {
		for _, f := range p.Syntax {
			ast.Inspect(f, func(n ast.Node) bool {
				switch b := n.(type) {
				case *ast.SwitchStmt:
					tagSwitch(p, b)
				case *ast.BlockStmt:
					for i, s := range b.List {
						b.List[i] = chainToSwitch(p, conv(s))
					}
				case *ast.CaseClause:
					for i, s := range b.Body {
						b.Body[i] = chainToSwitch(p, conv(s))
					}
				case *ast.CommClause:
					for i, s := range b.Body {
						b.Body[i] = chainToSwitch(p, conv(s))
					}
				}
				return true
			})
		}
	}
}

// tagSwitch turns a tagless switch all of whose cases compare one local
// variable with constants into the switch on that variable (existing nodes
// are reused, so their recorded types stay valid).
func tagSwitch(p *packages.Package, sw *ast.SwitchStmt) {
	if sw.Tag != nil || sw.Init != nil || len(sw.Body.List) == 0 {
		return
	}
	var subj types.Object
	var subjIdent *ast.Ident
	ok := true
	var consts func(e ast.Expr, out *[]ast.Expr)
	consts = func(e ast.Expr, out *[]ast.Expr) {
		be, isB := ast.Unparen(e).(*ast.BinaryExpr)
		if !isB {
			ok = false
			return
		}
		switch be.Op {
		case token.LOR:
			consts(be.X, out)
			consts(be.Y, out)
		case token.EQL:
			v, c := ast.Unparen(be.X), ast.Unparen(be.Y)
			if tv, has := p.TypesInfo.Types[v]; has && tv.Value != nil {
				v, c = c, v
			}
			id, isId := v.(*ast.Ident)
			tv, has := p.TypesInfo.Types[c]
			if !isId || !has || tv.Value == nil {
				ok = false
				return
			}
			o, isVar := p.TypesInfo.Uses[id].(*types.Var)
			if !isVar || o.IsField() || o.Parent() == nil || o.Parent() == o.Pkg().Scope() || (subj != nil && subj != types.Object(o)) {
				ok = false
				return
			}
			// the constant is compared as the variable's type in both spellings
			if !types.Identical(tv.Type, o.Type()) {
				ok = false
				return
			}
			if subj == nil {
				subj, subjIdent = o, id
			}
			*out = append(*out, c)
		default:
			ok = false
		}
	}
	lists := make([][]ast.Expr, len(sw.Body.List))
	for i, c := range sw.Body.List {
		cc, isCC := c.(*ast.CaseClause)
		if !isCC {
			return
		}
		for _, e := range cc.List {
			consts(e, &lists[i])
		}
		if !ok {
			return
		}
	}
	if subjIdent == nil {
		return
	}
	sw.Tag = subjIdent
	for i, c := range sw.Body.List {
		cc := c.(*ast.CaseClause)
		if cc.List != nil {
			cc.List = lists[i]
		}
	}
}

// chainToSwitch turns an if / else-if chain of three or more arms, every
// condition a disjunction of v == constant for one local variable v, into a
// tagless switch (which tagSwitch then tags).  The switch and case nodes are
// new; conditions and bodies are the chain's own nodes.  Not done when a body
// holds an unlabelled break that would bind to the new switch.
func chainToSwitch(p *packages.Package, s ast.Stmt) ast.Stmt {
	head, ok := s.(*ast.IfStmt)
	if !ok {
		return s
	}
	var clauses []ast.Stmt
	arms := 0
	for cur := head; ; {
		if cur.Init != nil || breaksOut(cur.Body) {
			return s
		}
		clauses = append(clauses, &ast.CaseClause{Case: cur.Pos(), List: []ast.Expr{cur.Cond}, Colon: cur.Body.Lbrace, Body: cur.Body.List})
		arms++
		switch e := cur.Else.(type) {
		case nil:
		case *ast.IfStmt:
			cur = e
			continue
		case *ast.BlockStmt:
			if breaksOut(e) {
				return s
			}
			clauses = append(clauses, &ast.CaseClause{Case: e.Pos(), Colon: e.Lbrace, Body: e.List})
		default:
			return s
		}
		break
	}
	if arms < 3 {
		return s
	}
	sw := &ast.SwitchStmt{Switch: head.Pos(), Body: &ast.BlockStmt{Lbrace: head.Body.Lbrace, List: clauses, Rbrace: head.End() - 1}}
	tagSwitch(p, sw)
	if sw.Tag == nil {
		return s
	}
	return sw
}

// breaksOut: the block holds a break without label that is not inside a
// nested loop, switch or select of its own.
func breaksOut(b *ast.BlockStmt) bool {
	found := false
	var walk func(n ast.Node) bool
	walk = func(n ast.Node) bool {
		switch x := n.(type) {
		case *ast.ForStmt, *ast.RangeStmt, *ast.SwitchStmt, *ast.TypeSwitchStmt, *ast.SelectStmt, *ast.FuncLit:
			return false
		case *ast.BranchStmt:
			if x.Tok == token.BREAK && x.Label == nil {
				found = true
			}
		}
		return true
	}
	ast.Inspect(b, walk)
	return found
}

package main

import (
	"fmt"
	"go/ast"
	"go/constant"
	"go/token"
	"go/types"
	"sort"
	"strings"

	"golang.org/x/tools/go/ssa"
)

func init() {
	register("C08", checkC08)
	register("C10", checkC10)
}

func checkC08(w *World, r *Report) {
	r.NotDecided = []string{
		"the indentation arithmetic over all layouts (tabs vs blanks, CRLF, blank lines) — only the constants, the unit of the column count and the dispatch are decided",
		"that the decoded text equals the RFC value for a given source form (a relation over runtime strings)",
	}
	p := w.Pkg("parse")

	r.Rule("R08.1", "escape table: \\n→LF, \\t→TAB, \\\"→\", \\\\→\\ with exactly those values (the extra \\r entry is a reviewed, documented deviation)", 4)
	r.guard("R08.1", func() {
		v := w.Var("parse", "sMap")
		init, ip := w.VarInit(v)
		lv := evalLit(ip, init)
		got := map[string]string{}
		for _, kv := range lv.KVs {
			if kv.Val.Const != nil {
				got[constant.StringVal(kv.Key)] = constant.StringVal(kv.Val.Const)
			}
		}
		want := map[string]string{"n": "\n", "t": "\t", "\"": "\"", "\\": "\\"}
		for k, wv := range want {
			gv, ok := got[k]
			r.Check(ok && gv == wv, "R08.1", fmt.Sprintf("sMap[%q]", k), init.Pos(), fmt.Sprintf("%q", gv), fmt.Sprintf("escape \\%s maps to %q (present=%v), RFC 6020 §6.1.3 says %q", k, gv, ok, wv))
		}
		for k, gv := range got {
			if _, ok := want[k]; !ok {
				if k == "r" && gv == "\r" {
					r.Reviewed("R08.1", "sMap[\"r\"]", init.Pos(), "extra escape \\r→CR: documented deviation (RFC 6536 erratum comment in the source)")
				} else {
					r.Fail("R08.1", fmt.Sprintf("sMap[%q]", k), init.Pos(), "escape not defined by RFC 6020 §6.1.3")
				}
			}
		}
	})

	r.Rule("R08.2", "a tab counts as 8 columns: one constant equal to 8 is read by both the quote-column computation and the indentation stripper, whose replacement blanks are 8 wide", 3)
	r.guard("R08.2", func() {
		ts, _ := scopeLookup(p.Types.Scope(), "tabSpaces").(*types.Const)
		if ts == nil {
			panic(undecided{"parse.tabSpaces"})
		}
		v, _ := intConst(ts.Val())
		r.Check(v == 8, "R08.2", "tabSpaces", token.NoPos, "8", fmt.Sprintf("tab width constant is %d, RFC 6020 §6.1.3 says 8", v))
		for _, fn := range []string{"openQuotePos", "trimLeadWS"} {
			fd, fp := w.FuncDecl(w.Func("parse", fn))
			uses := false
			okW := fn != "trimLeadWS"
			// the function itself and helpers only it uses
			for _, d := range w.ownedDecls("parse", w.Func("parse", fn)) {
				ast.Inspect(d.Body, func(n ast.Node) bool {
					if id, ok := n.(*ast.Ident); ok && fp.TypesInfo.Uses[id] == types.Object(ts) {
						uses = true
					}
					if fn == "trimLeadWS" {
						if e, ok := n.(ast.Expr); ok {
							if s, ok := ConstStr(fp, e); ok && s == strings.Repeat(" ", int(v)) {
								okW = true
							}
						}
					}
					return true
				})
			}
			r.Check(uses && okW, "R08.2", fn+" uses tabSpaces", fd.Pos(), "tab ↦ tabSpaces columns", fn+" does not count a tab with the shared tab-width constant (or its replacement blanks are not that wide)")
		}
	})

	r.Rule("R08.3", "quoting dispatch: an unquoted or single-quoted piece is taken verbatim; escape substitution and indentation stripping are applied iff the closing quote is a double quote", 3)
	r.guard("R08.3", func() {
		aq := w.Method("parse", "Tree", "argumentQuoted")
		fd, _ := w.FuncDecl(aq)
		tw := w.Func("parse", "trimWhitespace")
		okD, okS := false, false
		if af := w.SSAFunc(aq); af != nil && len(ssaLoops(af)) == 0 {
			sym := NewSym(w)
			itemString, _ := pkgConstInt(w, "parse", "itemString")
			isVal := func(v ssa.Value) bool { return loadedFieldName(v) == "val" }
			classify := func(a *pcAtom) string {
				if a.subj != "" && a.set.equal(isetOf(itemString)) {
					if bo, ok := a.v.(*ssa.BinOp); ok {
						for _, side := range []ssa.Value{bo.X, bo.Y} {
							if loadedFieldName(side) == "typ" {
								return "string"
							}
						}
					}
				}
				if a.op == token.EQL && a.x != nil {
					for _, pair := range [][2]ssa.Value{{a.x, a.y}, {a.y, a.x}} {
						if k, ok := pair[1].(*ssa.Const); ok && k.Value != nil && k.Value.Kind() == constant.String && constant.StringVal(k.Value) == "\"" && isVal(pair[0]) {
							return "dq"
						}
					}
				}
				return ""
			}
			// the piece joined with what follows it, under each kind of closing quote
			ac := w.SSAFunc(w.Method("parse", "Tree", "argumentConcatenate"))
			seen := map[bool]bool{}
			bad := false
			for _, b := range af.Blocks {
				for _, in := range b.Instrs {
					x, isAdd := in.(*ssa.BinOp)
					if !isAdd || x.Op != token.ADD {
						continue
					}
					if c, isC := x.Y.(*ssa.Call); !isC || c.Call.StaticCallee() != ac || ac == nil {
						continue
					}
					cond := sym.PathCond(af.Blocks[0], b, nil)
					for _, dq := range []bool{false, true} {
						model := func(a *pcAtom) (bool, bool) {
							switch classify(a) {
							case "string":
								return true, true
							case "dq":
								return dq, true
							}
							// any other test of the token's kind, the token being a string
							if a.subj != "" {
								if bo, ok := a.v.(*ssa.BinOp); ok {
									for _, side := range []ssa.Value{bo.X, bo.Y} {
										if loadedFieldName(side) == "typ" {
											return a.set.contains(itemString), true
										}
									}
								}
							}
							return false, false
						}
						if reached, decided := pcEvalFree(cond, model); decided && !reached {
							continue
						}
						piece, ok := sym.ValueUnder(af, x.X, model, 0)
						if !ok {
							bad = true
							continue
						}
						if !dq {
							if !isVal(piece) {
								bad = true
							}
							seen[false] = true
							continue
						}
						c, isC := piece.(*ssa.Call)
						if !isC || c.Call.StaticCallee() == nil || c.Call.StaticCallee().Object() != types.Object(tw) || len(c.Call.Args) != 2 {
							bad = true
							continue
						}
						if arg, ok := sym.ValueUnder(af, c.Call.Args[1], model, 0); !ok || !isVal(arg) {
							bad = true
						}
						seen[true] = true
					}
				}
			}
			okD, okS = seen[true] && !bad, seen[false] && !bad
		}
		r.Check(okD, "R08.3", "double-quoted piece", fd.Pos(), "trimWhitespace(piece) iff closing quote is \"", "double-quoted text is not passed through escape substitution / indentation stripping")
		r.Check(okS, "R08.3", "single-quoted piece", fd.Pos(), "verbatim", "single-quoted text is not taken verbatim")
		a := w.Method("parse", "Tree", "argument")
		afd, _ := w.FuncDecl(a)
		okU := false
		if uf := w.SSAFunc(a); uf != nil && len(ssaLoops(uf)) == 0 {
			// the exit taken when the token ahead is a plain string returns that token's text
			itemString, _ := pkgConstInt(w, "parse", "itemString")
			usym := NewSym(w)
			nns, pns := w.SSAFunc(w.Method("parse", "Tree", "nextNonSpace")), w.SSAFunc(w.Method("parse", "Tree", "peekNonSpace"))
			isToken := func(v ssa.Value) bool {
				c, ok := v.(*ssa.Call)
				return ok && (c.Call.StaticCallee() == nns || c.Call.StaticCallee() == pns)
			}
			tokenText := func(v ssa.Value) bool {
				if loadedFieldName(v) != "val" {
					return false
				}
				switch x := v.(type) {
				case *ssa.Field:
					return isToken(x.X)
				case *ssa.UnOp:
					fa, _ := x.X.(*ssa.FieldAddr)
					cell, isA := fa.X.(*ssa.Alloc)
					if !isA {
						return false
					}
					n := 0
					for _, ref := range *cell.Referrers() {
						if st, ok := ref.(*ssa.Store); ok && st.Addr == ssa.Value(cell) {
							if !isToken(st.Val) {
								return false
							}
							n++
						}
					}
					return n > 0
				}
				return false
			}
			nStr := 0
			okU = true
			for _, row := range usym.retTable(uf, 0) {
				hit, decided := pcEvalFree(row.cond, func(at *pcAtom) (bool, bool) {
					if bo, ok := at.v.(*ssa.BinOp); ok && at.subj != "" {
						for _, side := range []ssa.Value{bo.X, bo.Y} {
							if loadedFieldName(side) == "typ" {
								return at.set.contains(itemString), true
							}
						}
					}
					return false, false
				})
				if decided && !hit {
					continue
				}
				nStr++
				if !decided || !tokenText(row.val) {
					okU = false
				}
			}
			if nStr == 0 {
				okU = false
			}
		}
		r.Check(okU, "R08.3", "unquoted piece", afd.Pos(), "token text verbatim", "an unquoted argument is not the token text itself")
	})

	r.Rule("R08.4", "concatenation: a quoted piece is followed by the rest (piece + rest, in source order), and the rest exists only after '+' followed by a quote", 2)
	r.guard("R08.4", func() {
		aq := w.Method("parse", "Tree", "argumentQuoted")
		ac := w.Method("parse", "Tree", "argumentConcatenate")
		fd, _ := w.FuncDecl(aq)
		nOK, nBad := 0, 0
		if af, cf := w.SSAFunc(aq), w.SSAFunc(ac); af != nil && cf != nil {
			isRest := func(v ssa.Value) bool {
				c, ok := v.(*ssa.Call)
				return ok && c.Call.StaticCallee() == cf
			}
			for _, b := range af.Blocks {
				for _, in := range b.Instrs {
					if x, ok := in.(*ssa.BinOp); ok && x.Op == token.ADD {
						if isRest(x.Y) && !isRest(x.X) {
							nOK++
						}
						if isRest(x.X) {
							nBad++
						}
					}
				}
			}
		}
		r.Check(nOK >= 1 && nBad == 0, "R08.4", "argumentQuoted joins piece + rest", fd.Pos(), "piece + argumentConcatenate()", "pieces joined by '+' are concatenated in the wrong order or not at all")
		cfd, _ := w.FuncDecl(ac)
		okPlus := false
		ast.Inspect(cfd.Body, func(n ast.Node) bool {
			cc, ok := n.(*ast.CaseClause)
			if !ok || len(cc.List) != 1 {
				return true
			}
			if o := objOfIdent(p, cc.List[0]); o == nil || nm(o) != "itemPlus" {
				return true
			}
			exp := w.Method("parse", "Tree", "expect")
			hasQuote := false
			for _, ce := range allCallsTo(p, cc, exp) {
				if o := objOfIdent(p, ce.Args[0]); o != nil && nm(o) == "itemQuote" {
					hasQuote = true
				}
			}
			okPlus = hasQuote && len(allCallsTo(p, cc, aq)) == 1
			return true
		})
		r.Check(okPlus, "R08.4", "argumentConcatenate requires '+' then a quote", cfd.Pos(), "case itemPlus: expect(itemQuote); argumentQuoted", "the continuation after '+' is not required to be a quoted string")
	})

	r.Rule("R08.5", "comments are recognised only between tokens: the comment scanners are entered only from lexStmt, never from inside a quoted string", 2)
	r.guard("R08.5", func() {
		for _, cn := range []string{"lexComment", "lexCommentLine"} {
			cf := w.Func("parse", cn)
			var users []string
			for _, fd := range funcDecls(p) {
				if isTestFile(w, fd.Pos()) {
					continue
				}
				ast.Inspect(fd.Body, func(n ast.Node) bool {
					if id, ok := n.(*ast.Ident); ok && p.TypesInfo.Uses[id] == types.Object(cf) {
						users = append(users, funcDeclName(fd))
					}
					return true
				})
			}
			sort.Strings(users)
			r.Check(strings.Join(users, ",") == "lexStmt", "R08.5", cn+" entered from", token.NoPos, "lexStmt only", "comment scanner referenced from {"+strings.Join(users, ",")+"}: inside a quoted string '//' and '/*' are ordinary text")
		}
	})

	r.Rule("R08.6", "the column of the opening quote is counted in characters: openQuotePos accumulates per rune of the text before the quote (tab ↦ tab width, anything else ↦ 1), not from byte lengths", 1)
	r.guard("R08.6", func() { c08QuoteColumn(w, r, "R08.6") })

	r.Rule("R08.7", "escape substitution state: the 'previous backslash pair' flag can be set only by an empty piece and is false after every non-empty piece", 1)
	r.guard("R08.7", func() { c08EscapeFlag(w, r, "R08.7") })

	r.Rule("R08.10", "a comment ends at the first terminator after its opener: where the opener's tail can be read as the head of the terminator (\"/*\" then \"/\"), the terminator search starts after the whole opener", 2)
	r.guard("R08.10", func() { c08CommentSearchStart(w, r, "R08.10") })

	r.Rule("R08.11", "unquoted text is verbatim up to a real separator: the lexer's blank class is exactly {SP, TAB} and its line-break class exactly {CR, LF} (RFC 6020 §12 sep = WSP / line-break); no other character — NBSP, form feed, U+2009 … — ends or is dropped from an unquoted argument", 1)
	r.guard("R08.11", func() {
		pe := NewPredEval(w, intDom{})
		// the separator class as a whole, and its two halves where they exist as functions of their own
		sep := pe.TrueSet(w.Func("parse", "isSep")).(ISet)
		r.Check(sep.equal(isetOf(' ', '\t', '\r', '\n')), "R08.11", "isSep", token.NoPos, sep.String(), "the separator class is "+sep.String()+", RFC 6020 has {SP, TAB, CR, LF}: other characters inside an unquoted argument split it or are silently dropped")
		if f := w.tryFunc("parse", "isSpace"); f != nil {
			sp := pe.TrueSet(f).(ISet)
			r.Check(sp.equal(isetOf(' ', '\t')), "R08.11", "isSpace", token.NoPos, sp.String(), "the blank class is "+sp.String()+", RFC 6020 has {SP, TAB}: other characters inside an unquoted argument split it or are silently dropped")
		}
		if f := w.tryFunc("parse", "isEndOfLine"); f != nil {
			el := pe.TrueSet(f).(ISet)
			r.Check(el.equal(isetOf('\r', '\n')), "R08.11", "isEndOfLine", token.NoPos, el.String(), "the line-break class is "+el.String()+", RFC 6020 has {CR, LF}")
		}
	})

	r.Rule("R08.12", "indentation is removed up to and including the column of the opening quote: the test that ends the stripping of a continuation line is `columns so far >= quote column` (reaching the column exactly ends it; what follows, a tab included, is kept verbatim)", 1)
	r.guard("R08.12", func() {
		f := w.SSAFunc(w.Func("parse", "trimLeadWS"))
		if f == nil || len(f.Params) != 2 {
			panic(undecided{"parse.trimLeadWS"})
		}
		sym := NewSym(w)
		trimLen := ssa.Value(f.Params[1])
		// "columns so far < quote column"
		classify := func(a *pcAtom) string {
			if a.op == token.LSS && a.y == trimLen && a.x != nil {
				return "below"
			}
			if a.op == token.LSS && a.x == trimLen && a.y != nil {
				return "above" // quote column < columns
			}
			return ""
		}
		loops := ssaLoops(f)
		if len(loops) != 1 {
			panic(undecided{"trimLeadWS: one loop over the line expected"})
		}
		l := loops[0]
		why := ""
		found := false
		for _, ex := range searchExits(sym, f) {
			if !ex.inLoop || len(ex.ret.Results) != 1 {
				continue
			}
			if bo, ok := ex.ret.Results[0].(*ssa.BinOp); ok && bo.Op == token.ADD {
				// the exit that re-aligns and returns the rest: only once the quote column is reached
				found = true
				hasTest := false
				for _, a := range ex.cond.atoms() {
					if classify(a) != "" {
						hasTest = true
					}
				}
				if !hasTest {
					why = "the stripping stops without comparing the column count with the quote column"
				} else if msg := pcImplies(ex.cond, classify, func(env map[string]bool) bool { return !env["below"] }); msg != "" {
					why = "the stripping stops although the quote column is not reached (" + msg + ")"
				}
			}
		}
		if !found {
			panic(undecided{"trimLeadWS: comparison of the column count with the quote column"})
		}
		// and it goes on only while the count is still below the quote column
		for _, latch := range l.Latches {
			cond := pcAndF(sym.PathCond(l.Header, latch, nil), sym.edgeCond(latch, l.Header, nil))
			if msg := pcImplies(cond, classify, func(env map[string]bool) bool { return env["below"] }); msg != "" && why == "" {
				why = "the stripping goes on although the quote column has been reached (" + msg + ")"
			}
		}
		r.Check(why == "", "R08.12", "trimLeadWS stops at the quote column", f.Pos(), "stop iff columns >= quote column", "the stripping of a continuation line does not stop exactly when the quote column is reached ("+why+"): a character sitting right after the indentation (e.g. a tab) is consumed or rewritten")
	})

	r.Rule("R08.13", "comments and blanks between the pieces of an argument never reach the argument grammar: raw tokens (which include separator items — a comment splits a run of blanks into two of them) are read only by the nextNonSpace / peekNonSpace helpers", 1)
	r.guard("R08.13", func() {
		callers, bad := c08RawTokenReaders(w)
		sort.Strings(callers)
		if len(bad) > 0 {
			callers = bad
		}
		r.Check(len(callers) > 0 && len(bad) == 0, "R08.13", "readers of raw tokens", token.NoPos, strings.Join(callers, ","), "raw tokens (including separators) are read by {"+strings.Join(callers, ",")+"}: a hand-written skip of `one separator` fails when a comment between two pieces has blanks on both sides")
	})

	r.Rule("R08.15", "indentation stripping measures the column of the opening quote from the lexer's last-token position: when it is applied, the last token taken from the lexer is the piece's own closing quote — no further token is read in between", 1)
	r.guard("R08.15", func() { c08ClosingQuoteLast(w, r, "R08.15") })

	r.Rule("R08.14", "'+' outside quotes is always the concatenation token: in lexStmt the Plus item is emitted exactly when the rune read is '+', whatever follows it (a comment may follow the '+' directly)", 1)
	r.guard("R08.14", func() { c08PunctToken(w, r, "R08.14", '+', "itemPlus") })

	r.Rule("R08.8", "every line of a multi-line double-quoted string contributes to the result: in trimWhitespace's per-line loop the accumulation (result += line, or Builder.WriteString) dominates every way back to the loop head — no line (blank ones included) is skipped together with its line break", 1)
	r.Rule("R08.9", "lines are decoded independently: apart from the result and the loop counter, no value computed from one line is carried into the next iteration of trimWhitespace's per-line loop (every other loop-carried variable re-enters the loop as a constant)", 1)
	r.guard("R08.8", func() { c08LineLoop(w, r, "R08.8", "R08.9") })
}

// c08LineLoop: the per-line loop of trimWhitespace (shared by C08 and C10).
func c08LineLoop(w *World, r *Report, rule8, rule9 string) {
	f := w.SSAFunc(w.Func("parse", "trimWhitespace"))
	if f == nil {
		panic(undecided{"parse.trimWhitespace has no SSA body"})
	}
	loops := ssaLoops(f)
	// the per-line loop: the one that indexes the result of strings.Split
	var line *ssaLoop
	for i := range loops {
		for b := range loops[i].body() {
			for _, in := range b.Instrs {
				if ia, ok := in.(*ssa.IndexAddr); ok {
					if c, ok := ia.X.(*ssa.Call); ok {
						if sc := c.Call.StaticCallee(); sc != nil && sc.String() == "strings.Split" {
							line = &loops[i]
						}
					}
				}
			}
		}
	}
	if line == nil {
		panic(undecided{"per-line loop over strings.Split(...) not found in trimWhitespace"})
	}
	body := line.body()
	// accumulation instructions
	var accBlocks []*ssa.BasicBlock
	var accPhi *ssa.Phi
	for _, in := range line.Header.Instrs {
		phi, ok := in.(*ssa.Phi)
		if !ok {
			continue
		}
		if bt, ok := phi.Type().Underlying().(*types.Basic); !ok || bt.Kind() != types.String {
			continue
		}
		for _, l := range line.Latches {
			if bo, ok := phiEdge(phi, l).(*ssa.BinOp); ok && bo.Op == token.ADD && bo.X == phi {
				accPhi = phi
				accBlocks = append(accBlocks, bo.Block())
			}
		}
	}
	for b := range body {
		for _, in := range b.Instrs {
			if c, ok := in.(*ssa.Call); ok {
				if sc := c.Call.StaticCallee(); sc != nil && (sc.String() == "(*strings.Builder).WriteString" || sc.String() == "(*bytes.Buffer).WriteString") {
					accBlocks = append(accBlocks, b)
				}
			}
		}
	}
	if len(accBlocks) == 0 {
		r.Fail(rule8, "trimWhitespace per-line loop", f.Pos(), "no accumulation of the decoded line found in the loop (result += line / WriteString)")
	} else {
		ok := true
		why := ""
		for _, l := range line.Latches {
			dom := false
			for _, a := range accBlocks {
				if a.Dominates(l) {
					dom = true
				}
			}
			if accPhi != nil {
				if bo, isAdd := phiEdge(accPhi, l).(*ssa.BinOp); !isAdd || bo.X != accPhi {
					dom = false
				}
			}
			if !dom {
				ok = false
				why = fmt.Sprintf("the loop head is re-entered from block %d (%s) without the line having been appended: that line and its line break vanish from the argument", l.Index, l.Comment)
			}
		}
		r.Check(ok, rule8, "trimWhitespace per-line loop", f.Pos(), fmt.Sprintf("accumulation dominates all %d back edges", len(line.Latches)), why)
	}
	// R08.9
	n := 0
	for _, in := range line.Header.Instrs {
		phi, ok := in.(*ssa.Phi)
		if !ok {
			continue
		}
		if phi == accPhi {
			continue
		}
		// induction variable: back edge = phi + const
		ind := true
		for _, l := range line.Latches {
			bo, ok := phiEdge(phi, l).(*ssa.BinOp)
			if !ok || bo.Op != token.ADD || bo.X != phi {
				ind = false
			} else if _, isC := bo.Y.(*ssa.Const); !isC {
				ind = false
			}
		}
		if ind {
			continue
		}
		n++
		ok2 := loopCarriedIndependent(phi, *line)
		r.Check(ok2, rule9, "trimWhitespace loop-carried "+phi.Comment, phi.Pos(), "re-enters the loop as a constant", "variable "+phi.Comment+" carries a value computed from one line into the following lines (e.g. a CRLF flag that is not reset chops the last character of later LF lines)")
	}
	if n == 0 {
		r.OK(rule9, "trimWhitespace: no loop-carried state", f.Pos(), "only the result and the loop counter are loop-carried")
	}
}

// c10StmtStar: the loop of stmtStar has an accumulator that, on every way
// round, is append(accumulator, s) for s the statement stmt() returned in
// this iteration; every stmt() call is such an s; and the loop is only left
// without appending when s is nil.
func c10StmtStar(w *World) string {
	f := w.SSAFunc(w.Method("parse", "Tree", "stmtStar"))
	stmtFn := w.SSAFunc(w.Method("parse", "Tree", "stmt"))
	isStmt := func(v ssa.Value) bool {
		c, ok := v.(*ssa.Call)
		return ok && c.Call.StaticCallee() == stmtFn
	}
	sym := NewSym(w)
	for _, l := range ssaLoops(f) {
		body := l.body()
		for _, in := range l.Header.Instrs {
			acc, ok := in.(*ssa.Phi)
			if !ok {
				continue
			}
			if _, isSlice := acc.Type().Underlying().(*types.Slice); !isSlice {
				continue
			}
			used := map[ssa.Value]bool{} // stmt() calls that make up the appended statement
			cur := func(v ssa.Value) bool {
				if isStmt(v) {
					if c := v.(*ssa.Call); body[c.Block()] {
						used[v] = true
						return true
					}
					return false
				}
				phi, ok := v.(*ssa.Phi)
				if !ok || phi.Block() != l.Header {
					return false
				}
				for _, e := range phi.Edges {
					if !isStmt(e) {
						return false
					}
				}
				for _, e := range phi.Edges {
					used[e] = true
				}
				return true
			}
			var current ssa.Value
			var appends []*ssa.BasicBlock
			for _, lt := range l.Latches {
				c, ok := phiEdge(acc, lt).(*ssa.Call)
				if !ok {
					return "an iteration goes round without appending to the list"
				}
				bi, isB := c.Call.Value.(*ssa.Builtin)
				if !isB || bi.Name() != "append" || len(c.Call.Args) != 2 || c.Call.Args[0] != ssa.Value(acc) {
					return "the list carried to the next iteration is not append(list, statement)"
				}
				sl, ok := c.Call.Args[1].(*ssa.Slice)
				if !ok {
					return "what is appended is not a single statement"
				}
				lits := sliceLiteral(sl)
				if len(lits) != 1 || !cur(lits[0]) {
					return "what is appended is not the statement stmt() returned in this iteration"
				}
				if current != nil && current != lits[0] {
					return "different statements are appended on different ways round the loop"
				}
				current = lits[0]
				appends = append(appends, c.Block())
			}
			for _, b := range f.Blocks {
				for _, in := range b.Instrs {
					if v, isVal := in.(ssa.Value); isVal && isStmt(v) && !used[v] {
						return "a statement read by stmt() is not the one appended"
					}
				}
			}
			// leaving the loop with a statement in hand that was not appended
			for b := range body {
				appended := false
				for _, ab := range appends {
					if ab == b || ab.Dominates(b) {
						appended = true
					}
				}
				if appended {
					continue
				}
				for _, o := range b.Succs {
					if body[o] {
						continue
					}
					cond := pcAndF(sym.PathCond(l.Header, b, nil), sym.edgeCond(b, o, nil))
					has := false
					classify := func(a *pcAtom) string {
						if a.op == token.EQL && ((a.x == current && isNilConst(a.y)) || (a.y == current && isNilConst(a.x))) {
							has = true
							return "nil"
						}
						return ""
					}
					msg := pcImplies(cond, classify, func(env map[string]bool) bool { return env["nil"] })
					if !has || msg != "" {
						return "the loop is left before the statement just read was appended, and not because there was none"
					}
				}
			}
			// the list is only read afterwards (measured, copied, returned)
			list := map[ssa.Value]bool{acc: true}
			for _, lt := range l.Latches {
				list[phiEdge(acc, lt)] = true
			}
			for changed := true; changed; {
				changed = false
				for _, b := range f.Blocks {
					for _, in := range b.Instrs {
						if phi, ok := in.(*ssa.Phi); ok && !list[phi] {
							for _, e := range phi.Edges {
								if list[e] {
									list[phi], changed = true, true
								}
							}
						}
					}
				}
			}
			for v := range list {
				refs := v.Referrers()
				if refs == nil {
					continue
				}
				for _, ref := range *refs {
					switch x := ref.(type) {
					case *ssa.Phi, *ssa.Return, *ssa.DebugRef, *ssa.BinOp:
					case *ssa.Call:
						bi, isB := x.Call.Value.(*ssa.Builtin)
						switch {
						case isB && (bi.Name() == "len" || bi.Name() == "cap"):
						case isB && bi.Name() == "copy" && len(x.Call.Args) == 2 && x.Call.Args[1] == v && !list[x.Call.Args[0]]:
						case isB && bi.Name() == "append" && list[x]:
						case x.Call.StaticCallee() != nil && x.Call.StaticCallee().Pkg != nil && x.Call.StaticCallee().Pkg.Pkg.Path() == "slices" && x.Call.StaticCallee().Name() == "Clone":
						default:
							return "the list of statements is handed to " + x.String() + " before it is returned"
						}
					default:
						return "the list of statements is altered (" + ref.String() + ") before it is returned"
					}
				}
			}
			return ""
		}
	}
	return "no loop with a list of statements found"
}

// c08RawTokenReaders: the functions that read raw tokens (Tree.next, and
// Tree.peek where it exists), and those among them that are not skip helpers:
// a skip helper hands a raw token on only after having tested that it is not
// a separator (every exit that returns a token read by next() is taken under
// typ != itemSep).
func c08RawTokenReaders(w *World) (readers, bad []string) {
	p := w.Pkg("parse")
	next := w.SSAFunc(w.Method("parse", "Tree", "next"))
	var peek *ssa.Function
	if m := w.TryMethod("parse", "Tree", "peek"); m != nil {
		peek = w.SSAFunc(m)
	}
	sepC, _ := scopeLookup(p.Types.Scope(), "itemSep").(*types.Const)
	if sepC == nil {
		panic(undecided{"parse.itemSep"})
	}
	sep, _ := intConst(sepC.Val())
	for _, fd := range funcDecls(p) {
		if isTestFile(w, fd.Pos()) {
			continue
		}
		obj, _ := p.TypesInfo.Defs[fd.Name].(*types.Func)
		f := w.SSAFunc(obj)
		if f == nil {
			continue
		}
		var raws []*ssa.Call
		for _, b := range f.Blocks {
			for _, in := range b.Instrs {
				if c, ok := in.(*ssa.Call); ok && (c.Call.StaticCallee() == next || (peek != nil && c.Call.StaticCallee() == peek)) {
					raws = append(raws, c)
				}
			}
		}
		if len(raws) == 0 {
			continue
		}
		name := funcDeclName(fd)
		readers = append(readers, name)
		sym := NewSym(w)
		ok := true
		isRaw := func(v ssa.Value) bool {
			for _, c := range raws {
				if v == ssa.Value(c) {
					return true
				}
			}
			return false
		}
		// the local a raw token is kept in (a named result, a variable): everything stored there is a raw token
		cells := map[*ssa.Alloc]bool{}
		for _, b := range f.Blocks {
			for _, in := range b.Instrs {
				if a, isA := in.(*ssa.Alloc); isA && !a.Heap {
					holds, other := false, false
					for _, ref := range *a.Referrers() {
						if st, isSt := ref.(*ssa.Store); isSt && st.Addr == ssa.Value(a) {
							ld, isLd := st.Val.(*ssa.UnOp)
							switch {
							case isRaw(st.Val):
								holds = true
							case isLd && ld.Op == token.MUL && ld.X == ssa.Value(a):
							default:
								other = true
							}
						}
					}
					if holds && !other {
						cells[a] = true
					}
				}
			}
		}
		typTests := func(v ssa.Value) []ssa.Value { // reads of the .typ of the token v stands for
			var out []ssa.Value
			if isRaw(v) {
				for _, ref := range *v.Referrers() {
					if fld, isF := ref.(*ssa.Field); isF && loadedFieldName(fld) == "typ" {
						out = append(out, fld)
					}
				}
				return out
			}
			ld, isLd := v.(*ssa.UnOp)
			if !isLd || ld.Op != token.MUL {
				return nil
			}
			a, isA := ld.X.(*ssa.Alloc)
			if !isA || !cells[a] {
				return nil
			}
			for _, ref := range *a.Referrers() {
				if fa, isFA := ref.(*ssa.FieldAddr); isFA {
					for _, r2 := range *fa.Referrers() {
						if l2, isL := r2.(*ssa.UnOp); isL && l2.Op == token.MUL && loadedFieldName(l2) == "typ" {
							out = append(out, l2)
						}
					}
				}
			}
			return out
		}
		for _, ex := range searchExits(sym, f) {
			for _, rv := range ex.ret.Results {
				rv = unspill(rv)
				if rv.Type().String() != raws[0].Type().String() {
					continue
				}
				tested := false
				// the condition within the iteration that leaves the loop for this exit
				cond := ex.cond
				if !ex.inLoop {
					for _, l := range ssaLoops(f) {
						if l.Header.Dominates(ex.block) && !l.body()[ex.block] {
							cond = sym.PathCond(l.Header, ex.block, nil)
						}
					}
				}
				for _, tv := range typTests(rv) {
					if vals, decided := pcValuesWhen(cond, sym.Key(tv, nil)); decided && !vals.contains(sep) {
						tested = true
					}
				}
				if !tested {
					ok = false // a token handed on without the separator test (or not plainly the one just read)
				}
			}
		}
		// nothing else is done with the raw tokens: they do not escape through other calls
		for _, c := range raws {
			for _, ref := range *c.Referrers() {
				switch x := ref.(type) {
				case *ssa.Field, *ssa.Return, *ssa.Phi, *ssa.DebugRef:
				case *ssa.Store:
					if a, isA := x.Addr.(*ssa.Alloc); !isA || !cells[a] {
						ok = false
					}
				default:
					ok = false
				}
			}
		}
		if !ok {
			bad = append(bad, name)
		}
	}
	sort.Strings(bad)
	return readers, bad
}

// c08PunctToken: in lexStmt the item kind is emitted, within one iteration,
// exactly for the rune ch — for no other rune, and for ch whatever else the
// lexer looks at.
func c08PunctToken(w *World, r *Report, rule string, ch rune, item string) {
	f := w.SSAFunc(w.Func("parse", "lexStmt"))
	emit := w.SSAFunc(w.Method("parse", "lexer", "emit"))
	next := w.SSAFunc(w.Method("parse", "lexer", "next"))
	kind, okK := pkgConstInt(w, "parse", item)
	if f == nil || emit == nil || !okK {
		panic(undecided{"parse.lexStmt / lexer.emit / " + item})
	}
	sym := NewSym(w)
	sym.Expand = true
	reached := pcZ
	n := 0
	var read *ssa.Call
	for _, b := range f.Blocks {
		for _, in := range b.Instrs {
			c, ok := in.(*ssa.Call)
			if !ok {
				continue
			}
			if c.Call.StaticCallee() == next && read == nil {
				read = c
			}
			if c.Call.StaticCallee() != emit || len(c.Call.Args) != 2 {
				continue
			}
			also := pcT
			if k, isK := intConstOf(c.Call.Args[1]); !isK || k != kind {
				// the item looked up in a read-only table by the rune read: emitted for the runes whose entry it is
				keys, vals, index, okT := pcTableEntries(w, c.Call.Args[1], true)
				if !okT || read == nil || stripConv(index) != ssa.Value(read) {
					continue
				}
				var set ISet
				for i, kv := range keys {
					if vals[i] == nil {
						panic(undecided{"lexStmt: item table with a non-constant entry"})
					}
					kk, ok1 := intConst(kv)
					vv, ok2 := intConst(vals[i])
					if ok1 && ok2 && vv == kind {
						set = set.union(isetOf(kk))
					}
				}
				if len(set) == 0 {
					continue
				}
				also = sym.intAtom(sym.Key(read, nil), set, false, read, nil)
			}
			n++
			// from where the rune is read (what was looked at before concerns the text before it)
			if read == nil || !(read.Block() == b || read.Block().Dominates(b)) {
				panic(undecided{"lexStmt: emit(" + item + ") not after the rune is read"})
			}
			reached = pcOrF(reached, pcAndF(sym.PathCond(read.Block(), b, nil), also))
		}
	}
	if n == 0 || read == nil {
		panic(undecided{"lexStmt: emit(" + item + ")"})
	}
	subj := sym.Key(read, nil)
	problems := ""
	for _, v := range []int64{int64(ch), int64(ch) + 1, 'a', ' ', -1} {
		hit, decided := pcEvalFree(reached, func(a *pcAtom) (bool, bool) {
			if a.subj == subj {
				return a.set.contains(v), true
			}
			if bo, ok := a.v.(*ssa.BinOp); ok && a.subj != "" {
				for _, side := range []ssa.Value{bo.X, bo.Y} {
					if side == ssa.Value(read) {
						return a.set.contains(v), true
					}
				}
			}
			return false, false
		})
		switch {
		case !decided && v == int64(ch):
			problems = fmt.Sprintf("whether %q becomes the token depends on more than the rune itself (what follows it, lexer state)", ch)
		case decided && hit != (v == int64(ch)):
			problems = fmt.Sprintf("for the rune %q the token is emitted: %v", rune(v), hit)
		}
	}
	r.Check(problems == "", rule, fmt.Sprintf("lexStmt emits %s for %q", item, ch), f.Pos(), "exactly for that rune", problems+": e.g. \"a\" +/* c */ \"b\" is no longer a concatenation (the '+' is glued to what follows and lexed as an unquoted word)")
}

func checkC10(w *World, r *Report) {
	r.NotDecided = []string{
		"equality of trees over all re-layouts and re-quotings of a text (a relation over runtime inputs); only the structural channel from tokens to nodes is decided",
	}
	p := w.Pkg("parse")

	r.Rule("R10.1", "children are stored in source order exactly once: stmtStar appends each stmt() result in loop order and hands the slice unchanged to the node constructor; node.children is written only by the constructor literal and the documented tree-editing methods", 3)
	r.guard("R10.1", func() {
		ss := w.Method("parse", "Tree", "stmtStar")
		fd, _ := w.FuncDecl(ss)
		stmt := w.Method("parse", "Tree", "stmt")
		_ = stmt
		why := c10StmtStar(w)
		r.Check(why == "", "R10.1", "stmtStar appends each statement once, in order", fd.Pos(), "out = append(out, n) per stmt()", "statements are not appended once each in source order: "+why)
		children := w.Field("parse", "node", "children")
		var writers []string
		for _, f := range funcDecls(p) {
			if isTestFile(w, f.Pos()) {
				continue
			}
			wr := len(assignsToField(p, f.Body, children)) > 0
			ast.Inspect(f.Body, func(n ast.Node) bool {
				if cl, ok := n.(*ast.CompositeLit); ok {
					for _, el := range cl.Elts {
						if kv, ok := el.(*ast.KeyValueExpr); ok {
							if id, ok := kv.Key.(*ast.Ident); ok && p.TypesInfo.Uses[id] == types.Object(children) {
								wr = true
							}
						}
					}
				}
				return true
			})
			if wr {
				writers = append(writers, funcDeclName(f))
			}
		}
		sort.Strings(writers)
		want := "newNodeByType,node.AddChildren,node.AddWhenChildren,node.Clone,node.ReplaceChild"
		r.Check(strings.Join(writers, ",") == want, "R10.1", "writers of node.children", token.NoPos, strings.Join(writers, ","), "node.children is written by {"+strings.Join(writers, ",")+"}, expected {"+want+"}")
		// NewNode passes the body through
		nn := w.Method("parse", "Tree", "NewNode")
		nfd, _ := w.FuncDecl(nn)
		okPass := false
		for _, ce := range allCallsTo(p, nfd.Body, w.Func("parse", "newNodeByType")) {
			if len(ce.Args) >= 5 && objOfIdent(p, ce.Args[4]) == paramObj(p, nfd, 2) {
				okPass = true
			}
		}
		r.Check(okPass, "R10.1", "NewNode passes the children through", nfd.Pos(), "children argument unchanged", "the statement body is reordered or replaced between the parser and the node")
	})

	r.Rule("R10.2", "keyword, position and argument come from the statement's own tokens: node.stmt and node.Pos are the keyword token's text and position", 2)
	r.guard("R10.2", func() {
		f := w.Func("parse", "newNodeByType")
		fd, _ := w.FuncDecl(f)
		idp := paramObj(p, fd, 2)
		okS, okP := false, false
		ast.Inspect(fd.Body, func(n ast.Node) bool {
			kv, ok := n.(*ast.KeyValueExpr)
			if !ok {
				return true
			}
			k, ok := kv.Key.(*ast.Ident)
			se, ok2 := kv.Value.(*ast.SelectorExpr)
			if !ok || !ok2 || objOfIdent(p, se.X) != idp {
				return true
			}
			if k.Name == "stmt" && se.Sel.Name == "val" {
				okS = true
			}
			if k.Name == "Pos" && se.Sel.Name == "pos" {
				okP = true
			}
			return true
		})
		r.Check(okS, "R10.2", "node.stmt = keyword token text", fd.Pos(), "stmt: id.val", "the node's keyword is not the keyword token's text")
		r.Check(okP, "R10.2", "node.Pos = keyword token position", fd.Pos(), "Pos: id.pos", "the node's position is not the keyword token's position")
	})

	r.Rule("R10.3", "trivia never reach the tree builder: separator items are consumed only inside the *NonSpace helpers (the grammar functions never read raw tokens) and the comment scanners discard their text", 3)
	r.guard("R10.3", func() {
		callers, bad := c08RawTokenReaders(w)
		sort.Strings(callers)
		if len(bad) > 0 {
			callers = bad
		}
		r.Check(len(callers) > 0 && len(bad) == 0, "R10.3", "callers of Tree.next", token.NoPos, strings.Join(callers, ","), "raw tokens (including separators) are read by {"+strings.Join(callers, ",")+"}")
		for _, cn := range []string{"lexComment", "lexCommentLine"} {
			fd, _ := w.FuncDecl(w.Func("parse", cn))
			emits := len(allCallsTo(p, fd.Body, w.Method("parse", "lexer", "emit")))
			ign := len(allCallsTo(p, fd.Body, w.Method("parse", "lexer", "ignore")))
			r.Check(emits == 0 && ign >= 1, "R10.3", cn+" discards the comment", fd.Pos(), "ignore(), no emit()", "comment text is emitted as a token")
		}
	})

	r.Rule("R10.4", "a comment ends at the first terminator after its opener: the scanner steps over the opener before it searches for the terminator", 2)
	r.guard("R10.4", func() { c08CommentSearchStart(w, r, "R10.4") })

	r.Rule("R10.6", "token boundaries do not depend on blanks: the characters that end an unquoted word are exactly those RFC 6020 §6.1.3 excludes from an unquoted string — SP, TAB, CR, LF, the two quote characters, ';', '{', '}' — and end of input", 1)
	r.guard("R10.6", func() {
		pe := NewPredEval(w, intDom{})
		got := pe.TrueSet(w.Func("parse", "isTerminator")).(ISet)
		eofV, ok := pkgConstInt(w, "parse", "eof")
		if !ok {
			panic(undecided{"parse.eof"})
		}
		want := isetOf(eofV, ' ', '\t', '\r', '\n', '\'', '"', ';', '{', '}')
		r.Check(got.equal(want), "R10.6", "isTerminator", token.NoPos, got.String(),
			"an unquoted word ends at "+got.String()+", RFC 6020 §6.1.3 says "+want.String()+" (missing "+want.minus(got).String()+", extra "+got.minus(want).String()+"): a keyword written directly before such a character is not split from it, so removing a blank changes the tree")
	})

	r.Rule("R10.7", "equivalent quotings decode alike: the escape-substitution state flag is false after every non-empty piece (same obligation as R08.7, which this property relies on for 'another quoting form of the same value')", 1)
	r.guard("R10.7", func() { c08EscapeFlag(w, r, "R10.7") })

	r.Rule("R10.11", "the same value written with other line ends decodes alike: in trimWhitespace's per-line loop nothing computed from one line (a 'this line ended in CR' flag) is carried into the next (the analysis of R08.8/R08.9, which the parse tree's argument depends on)", 2)
	r.guard("R10.11", func() { c08LineLoop(w, r, "R10.11", "R10.11") })

	r.Rule("R10.12", "interning never gives a statement another statement's argument: the key under which ArgInterner.Intern shares an argument keeps the statement kind and the argument text apart (a struct of the two; a concatenation of keyword and text maps `typedef foo` and `type deffoo` to one key)", 1)
	r.guard("R10.12", func() { c10InternerKey(w, r, "R10.12") })

	r.Rule("R10.8", "equivalent quotings and comments decode alike: the column of the opening quote is counted in characters, so a non-ASCII character earlier on the line (in a comment or an earlier piece) does not change how continuation lines are de-indented", 1)
	r.guard("R10.8", func() { c08QuoteColumn(w, r, "R10.8") })

	r.Rule("R10.9", "the tree holds every statement of the text: after the top-level statement Tree.parse demands end of input (expect(itemEOF)) on every path to its normal return — text after the closing brace is an error, not something to drain away", 1)
	r.guard("R10.9", func() {
		f := w.SSAFunc(w.Method("parse", "Tree", "parse"))
		if f == nil {
			panic(undecided{"Tree.parse"})
		}
		eofV, ok := pkgConstInt(w, "parse", "itemEOF")
		if !ok {
			panic(undecided{"parse.itemEOF"})
		}
		var expBlock, stmtBlock *ssa.BasicBlock
		for _, b := range f.Blocks {
			for _, in := range b.Instrs {
				c, ok := in.(*ssa.Call)
				if !ok || c.Call.StaticCallee() == nil {
					continue
				}
				switch nm(c.Call.StaticCallee()) {
				case "stmt":
					stmtBlock = b
				case "expect":
					if k, ok := c.Call.Args[1].(*ssa.Const); ok && k.Value != nil {
						if v, _ := constant.Int64Val(constant.ToInt(k.Value)); v == eofV {
							expBlock = b
						}
					}
				}
			}
		}
		good := expBlock != nil && stmtBlock != nil && stmtBlock.Dominates(expBlock)
		if good {
			for _, b := range f.Blocks {
				if _, isRet := b.Instrs[len(b.Instrs)-1].(*ssa.Return); isRet && !expBlock.Dominates(b) {
					good = false
				}
			}
		}
		r.Check(good, "R10.9", "Tree.parse requires end of input after the top-level statement", f.Pos(), "stmt(…); expect(itemEOF) before every return", "the parser can return without having seen end of input: statements (or garbage) after the first top-level statement are silently dropped and the tree lacks source statements")
	})

	r.Rule("R10.10", "an unquoted word can start only where lexStmt has just looked for a comment opener: the state function lexString is handed out by exactly one return of lexStmt, the one that backs up over the character the dispatch tested (no other arm jumps into a word past a position where '//' or '/*' could begin)", 1)
	r.guard("R10.10", func() {
		f := w.SSAFunc(w.Func("parse", "lexStmt"))
		ls := w.SSAFunc(w.Func("parse", "lexString"))
		backup := w.SSAFunc(w.Method("parse", "lexer", "backup"))
		if f == nil || ls == nil || backup == nil {
			panic(undecided{"parse.lexStmt / lexString / lexer.backup"})
		}
		n, good := 0, true
		for _, b := range f.Blocks {
			ret, ok := b.Instrs[len(b.Instrs)-1].(*ssa.Return)
			if !ok || len(ret.Results) != 1 {
				continue
			}
			v := ret.Results[0]
			if ct, ok := v.(*ssa.ChangeType); ok {
				v = ct.X
			}
			if v != ssa.Value(ls) {
				continue
			}
			n++
			backs := false
			for _, in := range b.Instrs {
				if c, ok := in.(*ssa.Call); ok && c.Call.StaticCallee() == backup {
					backs = true
				}
			}
			if !backs {
				good = false
			}
		}
		// and nobody else hands it out
		others := 0
		for _, g := range allFuncs(f.Pkg) {
			if g == f {
				continue
			}
			for _, b := range g.Blocks {
				for _, in := range b.Instrs {
					for _, op := range in.Operands(nil) {
						if *op == ssa.Value(ls) {
							others++
						}
					}
				}
			}
		}
		r.Check(n == 1 && good && others == 0, "R10.10", "entries into lexString", f.Pos(), "one: the default arm of lexStmt, after backup()", fmt.Sprintf("lexString is entered from %d place(s) in lexStmt (backing up: %v) and %d elsewhere: a word can start at a position that was not checked for a comment opener, so a comment glued to the previous character (e.g. `+/* c */`) becomes part of a word", n, good, others))
	})

	r.Rule("R10.5", "line/column bookkeeping: the column printed is pos − (index of the last line break + 1) for every index from −1 (none) up, index 0 included; where the computation has another shape, at least the 'no earlier line break' test on the LastIndex result treats index 0 as found", 2)
	r.guard("R10.5", func() { c10ColumnRule(w, r, "R10.5") })
}

// c08EscapeFlag: flag discipline of escapeSequenceSubstitution (shared by C08 and C10).
func c08EscapeFlag(w *World, r *Report, rule string) {
	f := w.SSAFunc(w.Func("parse", "escapeSequenceSubstitution"))
	if f == nil {
		panic(undecided{"parse.escapeSequenceSubstitution"})
	}
	// the loop over the pieces and its boolean state: the loop-carried bool
	var loop *ssaLoop
	var flag *ssa.Phi
	for _, l := range ssaLoops(f) {
		for _, in := range l.Header.Instrs {
			phi, ok := in.(*ssa.Phi)
			if !ok {
				break
			}
			if b, ok := phi.Type().Underlying().(*types.Basic); ok && b.Kind() == types.Bool {
				if flag != nil {
					panic(undecided{"escapeSequenceSubstitution: two boolean state variables"})
				}
				l := l
				loop, flag = &l, phi
			}
		}
	}
	if flag == nil {
		panic(undecided{"escapeSequenceSubstitution: state flag"})
	}
	sym := NewSym(w)
	sym.Name(flag, "flag")
	// the flag's value at the start of the next iteration, as a formula
	next := pcZ
	for i, pred := range loop.Header.Preds {
		if !loop.Header.Dominates(pred) {
			continue
		}
		next = pcOrF(next, pcAndF(pcAndF(sym.PathCond(loop.Header, pred, nil), sym.edgeCond(pred, loop.Header, nil)), sym.Cond(flag.Edges[i], nil)))
	}
	isPiece := func(v ssa.Value) bool {
		ld, ok := v.(*ssa.UnOp)
		if !ok || ld.Op != token.MUL {
			return false
		}
		ia, ok := ld.X.(*ssa.IndexAddr)
		return ok && isRangeIndex(ia.Index)
	}
	classify := func(a *pcAtom) string {
		if a.subj != "" && a.set.equal(isetOf(0)) {
			if bo, ok := a.v.(*ssa.BinOp); ok {
				for _, side := range []ssa.Value{bo.X, bo.Y} {
					if isPiece(side) {
						return "empty"
					}
					if arg, ok := isLenCall(side); ok && isPiece(arg) {
						return "empty"
					}
				}
			}
		}
		return ""
	}
	msg := pcImplies(next, classify, func(env map[string]bool) bool { return env["empty"] })
	why := ""
	if msg != "" {
		why = "after a non-empty piece the flag can still be true (" + msg + "): a later escape in the same string is then copied undecoded (\"a\\\\b\\tc\")"
	}
	r.Check(msg == "", rule, "escapeSequenceSubstitution flag discipline", f.Pos(), "flag false after every non-empty piece", why)
}

// c08QuoteColumn: openQuotePos counts characters, not bytes (shared by C08 and C10).
func c08QuoteColumn(w *World, r *Report, rule string) {
	root := w.Func("parse", "openQuotePos")
	fd, fp := w.FuncDecl(root)
	perRune, byLen := false, false
	// openQuotePos and the helpers only it uses
	for _, d := range w.ownedDecls("parse", root) {
		ast.Inspect(d.Body, func(n ast.Node) bool {
			switch x := n.(type) {
			case *ast.RangeStmt:
				if t := fp.TypesInfo.TypeOf(x.X); t != nil && types.Identical(t.Underlying(), types.Typ[types.String]) {
					// accumulates inside the loop
					ast.Inspect(x.Body, func(y ast.Node) bool {
						switch a := y.(type) {
						case *ast.AssignStmt:
							if a.Tok == token.ADD_ASSIGN {
								perRune = true
							}
						case *ast.IncDecStmt:
							if a.Tok == token.INC {
								perRune = true
							}
						}
						return true
					})
				}
			case *ast.CallExpr:
				if id, ok := x.Fun.(*ast.Ident); ok && id.Name == "len" {
					byLen = true
				}
				if c := calleeOf(fp, x); c != nil && (c.FullName() == "strings.Count") {
					byLen = true
				}
			}
			return true
		})
	}
	r.Check(perRune && !byLen, rule, "openQuotePos counts runes", fd.Pos(), "range over the lead-up text, += per rune", "the quote column is derived from byte lengths: a non-ASCII character before the opening quote shifts the indentation that is stripped from continuation lines")
}

// c10InternerKey (R10.12 / R08.17): the key of the argument interner keeps kind and text apart.
func c10InternerKey(w *World, r *Report, rule string) {
	f := w.SSAFunc(w.Method("parse", "ArgInterner", "Intern"))
	if f == nil || len(f.Params) != 3 {
		panic(undecided{"parse.ArgInterner.Intern"})
	}
	n := 0
	why := ""
	for _, b := range f.Blocks {
		for _, in := range b.Instrs {
			var key ssa.Value
			switch x := in.(type) {
			case *ssa.Lookup:
				if _, isMap := x.X.Type().Underlying().(*types.Map); isMap {
					key = x.Index
				}
			case *ssa.MapUpdate:
				key = x.Key
			}
			if key == nil {
				continue
			}
			n++
			st, isStruct := key.Type().Underlying().(*types.Struct)
			if !isStruct {
				why = "the key is a " + key.Type().String() + " computed from keyword and text (`" + key.String() + "`), not a pair"
				continue
			}
			// the struct read from a local the two components were stored into, each whole
			kinds, texts := false, false
			if ld, isLd := key.(*ssa.UnOp); isLd {
				if cell, isA := ld.X.(*ssa.Alloc); isA {
					for _, ref := range *cell.Referrers() {
						fa, isFA := ref.(*ssa.FieldAddr)
						if !isFA {
							continue
						}
						for _, r2 := range *fa.Referrers() {
							stv, isSt := r2.(*ssa.Store)
							if !isSt {
								continue
							}
							if stv.Val == ssa.Value(f.Params[1]) {
								kinds = true
							}
							if c, isC := stv.Val.(*ssa.Call); isC && c.Call.IsInvoke() && c.Call.Value == ssa.Value(f.Params[2]) && nm(c.Call.Method) == "String" {
								texts = true
							}
						}
					}
				}
			}
			if st.NumFields() < 2 || !kinds || !texts {
				why = "the key does not hold the statement kind and the argument text as two components"
			}
		}
	}
	if n == 0 {
		panic(undecided{"ArgInterner.Intern: table access"})
	}
	r.Check(why == "", rule, "ArgInterner.Intern key", f.Pos(), "struct{kind, text}", why+": two different statements can share one interned argument, so the node built second carries the first one's argument")
}

// c08ClosingQuoteLast (R08.15 / R10.13): when trimWhitespace runs, the last token read is the closing quote.
func c08ClosingQuoteLast(w *World, r *Report, rule string) {
	p := w.Pkg("parse")
	tw := w.SSAFunc(w.Func("parse", "trimWhitespace"))
	exp := w.SSAFunc(w.Method("parse", "Tree", "expect"))
	quote, okQ := pkgConstInt(w, "parse", "itemQuote")
	if tw == nil || exp == nil || !okQ {
		panic(undecided{"parse.trimWhitespace / expect / itemQuote"})
	}
	isLastPos := func(a ssa.Value) bool {
		fa, ok := a.(*ssa.FieldAddr)
		if !ok {
			return false
		}
		pt, _ := fa.X.Type().Underlying().(*types.Pointer)
		if pt == nil {
			return false
		}
		st, _ := pt.Elem().Underlying().(*types.Struct)
		return st != nil && st.Field(fa.Field).Name() == nm(w.Field("parse", "lexer", "lastPos"))
	}
	touches := func(f *ssa.Function, write bool) bool {
		for _, g := range bodiesDeep(f, 6) {
			for _, b := range g.Blocks {
				for _, in := range b.Instrs {
					switch x := in.(type) {
					case *ssa.Store:
						if write && isLastPos(x.Addr) {
							return true
						}
					case *ssa.UnOp:
						if !write && x.Op == token.MUL && isLastPos(x.X) {
							return true
						}
					}
				}
			}
		}
		return false
	}
	r.Check(touches(tw, false), rule, "trimWhitespace reads the last-token position", w.Func("parse", "trimWhitespace").Pos(), "reads lexer.lastPos", "")
	memo := map[*ssa.Function]bool{}
	advances := func(c *ssa.Call) bool {
		g := c.Call.StaticCallee()
		if g == nil {
			for _, fv := range funcValues(c.Call.Value, 0) {
				if touches(fv, true) {
					return true
				}
			}
			return false
		}
		if v, ok := memo[g]; ok {
			return v
		}
		memo[g] = touches(g, true)
		return memo[g]
	}
	sites := 0
	for _, fd := range funcDecls(p) {
		if isTestFile(w, fd.Pos()) {
			continue
		}
		obj, _ := p.TypesInfo.Defs[fd.Name].(*types.Func)
		f := w.SSAFunc(obj)
		if f == nil {
			continue
		}
		for _, fn := range append([]*ssa.Function{f}, f.AnonFuncs...) {
			for _, b := range fn.Blocks {
				for i, in := range b.Instrs {
					c, ok := in.(*ssa.Call)
					if !ok || c.Call.StaticCallee() != tw {
						continue
					}
					sites++
					// backwards from the call: the nearest token taken is expect(itemQuote)
					okAll := true
					seen := map[*ssa.BasicBlock]bool{}
					var back func(bb *ssa.BasicBlock, from int)
					back = func(bb *ssa.BasicBlock, from int) {
						for j := from; j >= 0; j-- {
							pc, isCall := bb.Instrs[j].(*ssa.Call)
							if !isCall || !advances(pc) {
								continue
							}
							if pc.Call.StaticCallee() == exp && len(pc.Call.Args) >= 2 {
								if k, isK := pc.Call.Args[1].(*ssa.Const); isK && k.Value != nil {
									if n, isInt := intConst(k.Value); isInt && n == quote {
										return
									}
								}
							}
							okAll = false
							return
						}
						if len(bb.Preds) == 0 {
							okAll = false
						}
						for _, pb := range bb.Preds {
							if !seen[pb] {
								seen[pb] = true
								back(pb, len(pb.Instrs)-1)
							}
						}
					}
					back(b, i-1)
					r.Check(okAll, rule, "trimWhitespace in "+funcDeclName(fd), c.Pos(), "nearest preceding token read is expect(itemQuote)", "a further token is read (or none is) between the closing quote and the indentation stripping of the piece, so the column of the opening quote is measured from the wrong place")
				}
			}
		}
	}
	r.Check(sites >= 1, rule, "call sites of trimWhitespace", w.Func("parse", "trimWhitespace").Pos(), ">= 1", "no call site found")
}

// c10ColumnIsOffsetInLine: in g, r = strings.LastIndex*(s[:pos], "\n").  Every
// integer that depends on r and is handed on (boxed for a format call, or
// returned when g is a helper) is evaluated as a linear form a·r + b·pos + c
// per range of r (ranges come from the tests on r along the way); for every
// r ≥ −1 the form must equal pos − r − 1.  decided=false when the computation
// has another shape (a loop, a value the evaluator does not know).
func c10ColumnIsOffsetInLine(w *World, g *ssa.Function, r *ssa.Call, helper bool) (bad string, decided bool) {
	if len(ssaLoops(g)) > 0 || len(r.Call.Args) < 1 {
		return "", false
	}
	sl, ok := r.Call.Args[0].(*ssa.Slice)
	if !ok || sl.Low != nil || sl.High == nil {
		return "", false
	}
	sym := NewSym(w)
	sym.Expand = false
	posKey := sym.Key(stripConv(sl.High), nil)
	subj := sym.Key(r, nil)
	type lin struct{ a, b, c int64 }
	type piece struct {
		set ISet
		f   lin
	}
	var eval func(v ssa.Value, rset ISet, d int) ([]piece, bool)
	eval = func(v ssa.Value, rset ISet, d int) ([]piece, bool) {
		if d > 12 {
			return nil, false
		}
		v = stripConv(unspill(v))
		if v == ssa.Value(r) {
			return []piece{{rset, lin{1, 0, 0}}}, true
		}
		if k, isK := intConstOf(v); isK {
			return []piece{{rset, lin{0, 0, k}}}, true
		}
		if sym.Key(v, nil) == posKey {
			return []piece{{rset, lin{0, 1, 0}}}, true
		}
		switch x := v.(type) {
		case *ssa.BinOp:
			if x.Op != token.ADD && x.Op != token.SUB {
				return nil, false
			}
			xs, ok1 := eval(x.X, rset, d+1)
			if !ok1 {
				return nil, false
			}
			var out []piece
			for _, px := range xs {
				ys, ok2 := eval(x.Y, px.set, d+1)
				if !ok2 {
					return nil, false
				}
				for _, py := range ys {
					f := lin{px.f.a + py.f.a, px.f.b + py.f.b, px.f.c + py.f.c}
					if x.Op == token.SUB {
						f = lin{px.f.a - py.f.a, px.f.b - py.f.b, px.f.c - py.f.c}
					}
					out = append(out, piece{py.set, f})
				}
			}
			return out, true
		case *ssa.Phi:
			var out []piece
			for i, e := range x.Edges {
				pred := x.Block().Preds[i]
				cond := pcAndF(sym.PathCond(g.Blocks[0], pred, nil), sym.edgeCond(pred, x.Block(), nil))
				sub := rset
				if vals, okv := pcValuesWhen(cond, subj); okv {
					sub = rset.intersect(vals)
				}
				if len(sub) == 0 {
					continue
				}
				ps, oke := eval(e, sub, d+1)
				if !oke {
					return nil, false
				}
				out = append(out, ps...)
			}
			return out, true
		}
		return nil, false
	}
	dependsOn := func(v ssa.Value) bool {
		seen := map[ssa.Value]bool{}
		var dep func(v ssa.Value) bool
		dep = func(v ssa.Value) bool {
			v = stripConv(unspill(v))
			if v == ssa.Value(r) {
				return true
			}
			if seen[v] {
				return false
			}
			seen[v] = true
			switch x := v.(type) {
			case *ssa.BinOp:
				return dep(x.X) || dep(x.Y)
			case *ssa.Phi:
				for _, e := range x.Edges {
					if dep(e) {
						return true
					}
				}
			}
			return false
		}
		return dep(v)
	}
	var targets []ssa.Value
	for _, b := range g.Blocks {
		for _, in := range b.Instrs {
			switch x := in.(type) {
			case *ssa.MakeInterface:
				if isIntegerType(x.X.Type()) && dependsOn(x.X) {
					targets = append(targets, x.X)
				}
			case *ssa.Return:
				if helper {
					for _, rv := range x.Results {
						if isIntegerType(rv.Type()) && dependsOn(rv) {
							targets = append(targets, rv)
						}
					}
				}
			}
		}
	}
	if len(targets) == 0 {
		return "", false
	}
	dom := ISet{{-1, fullISet[0].hi}}
	for _, t := range targets {
		ps, okT := eval(t, dom, 0)
		if !okT {
			return "", false
		}
		var covered ISet
		for _, pc := range ps {
			set := pc.set.intersect(dom)
			if len(set) == 0 {
				continue
			}
			covered = covered.union(set)
			f := pc.f
			good := f.a == -1 && f.b == 1 && f.c == -1
			if len(set) == 1 && set[0].lo == set[0].hi {
				k := set[0].lo
				good = f.b == 1 && f.a*k+f.c == -k-1
			}
			if !good {
				bad = fmt.Sprintf("for a last line break at index %s it is %d·index + %d·pos + %d (%s)", set, f.a, f.b, f.c, w.PosStr(r.Pos()))
			}
		}
		if !covered.equal(dom) {
			bad = fmt.Sprintf("the indices %s are not covered (%s)", dom.minus(covered), w.PosStr(r.Pos()))
		}
	}
	return bad, true
}

// c10ColumnRule: the line/column bookkeeping of Tree.ErrorContextPosition and Tree.errorf (R10.5, R09.16).
func c10ColumnRule(w *World, r *Report, rule string) {
	for _, m := range []string{"ErrorContextPosition", "errorf"} {
		root := w.SSAFunc(w.Method("parse", "Tree", m))
		if root == nil {
			panic(undecided{"Tree." + m})
		}
		// the function and the in-package helpers it calls
		cone := []*ssa.Function{root}
		seen := map[*ssa.Function]bool{root: true}
		for i := 0; i < len(cone) && i < 40; i++ {
			for _, b := range cone[i].Blocks {
				for _, in := range b.Instrs {
					if c, ok := in.(ssa.CallInstruction); ok {
						if g := c.Common().StaticCallee(); g != nil && g.Pkg == root.Pkg && g.Blocks != nil && !seen[g] {
							seen[g] = true
							cone = append(cone, g)
						}
					}
				}
			}
		}
		n, tests, nLin := 0, 0, 0
		bad, badLin := "", ""
		dom := ISet{{-1, fullISet[0].hi}}
		for _, g := range cone {
			for _, b := range g.Blocks {
				for _, in := range b.Instrs {
					c, ok := in.(*ssa.Call)
					if !ok || c.Call.StaticCallee() == nil || !strings.HasPrefix(c.Call.StaticCallee().String(), "strings.LastIndex") {
						continue
					}
					n++
					if v, decided := c10ColumnIsOffsetInLine(w, g, c, g != root); decided {
						nLin++
						if v != "" {
							badLin = v
						}
					}
					for _, ref := range *c.Referrers() {
						bo, ok := ref.(*ssa.BinOp)
						if !ok {
							continue
						}
						var k int64
						var isK bool
						op := bo.Op
						if bo.X == ssa.Value(c) {
							k, isK = intConstOf(bo.Y)
						} else {
							k, isK = intConstOf(bo.X)
							op = map[token.Token]token.Token{token.LSS: token.GTR, token.GTR: token.LSS, token.LEQ: token.GEQ, token.GEQ: token.LEQ, token.EQL: token.EQL, token.NEQ: token.NEQ}[op]
						}
						if !isK {
							continue
						}
						var set ISet
						switch op {
						case token.EQL, token.NEQ:
							set = isetOf(k)
						case token.LSS:
							set = ISet{{fullISet[0].lo, k - 1}}
						case token.LEQ:
							set = ISet{{fullISet[0].lo, k}}
						case token.GTR:
							set = ISet{{k + 1, fullISet[0].hi}}
						case token.GEQ:
							set = ISet{{k, fullISet[0].hi}}
						default:
							continue
						}
						tests++
						set = set.intersect(dom)
						if !set.equal(isetOf(-1)) && !set.equal(ISet{{0, fullISet[0].hi}}) {
							bad = w.PosStr(bo.Pos())
						}
					}
				}
			}
		}
		if n > 0 && nLin == n {
			// decided as a whole: the column is pos − (index of the last line break + 1) for every index from −1 up
			r.Check(badLin == "", rule, "Tree."+m+" not-found test", root.Pos(), "column = pos − (LastIndex + 1) for every index ≥ −1", "the column printed is not the offset within the line: "+badLin)
			continue
		}
		if n == 0 || tests == 0 {
			r.Fail(rule, "Tree."+m, root.Pos(), "no LastIndex-based column computation found")
			continue
		}
		r.Check(bad == "", rule, "Tree."+m+" not-found test", root.Pos(), "== -1 / < 0", "a line break at byte 0 is treated as 'not found' ("+bad+"): columns on line 2 are counted from the start of the text")
	}
}

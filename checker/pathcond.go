package main

import (
	"fmt"
	"go/ast"
	"go/constant"
	"go/token"
	"go/types"
	"math"
	"sort"
	"strings"

	"golang.org/x/tools/go/ssa"
)

// E13: path conditions on SSA.
//
// Rules that say "X happens exactly when G" used to match the shape of the
// source (an if with two conjuncts followed by a continue, ...).  That fires
// on refactorings which keep the behaviour: an inverted if, a tagless switch,
// a guard split into two statements, a loop body moved into a helper.  This
// engine states such rules on what the shapes have in common: the condition
// under which control reaches an instruction, as a propositional formula over
// canonically named atomic tests, compared with the wanted formula by truth
// table.  Nothing is executed and no solver is involved: formulas are built
// from the CFG (forward edges only) and compared over the 2^n assignments of
// their n atoms, integer tests against constants being kept consistent with
// one another through interval sets.

type pcKind byte

const (
	pcTrue pcKind = iota
	pcFalse
	pcAtomK
	pcNot
	pcAnd
	pcOr
)

type pcF struct {
	k    pcKind
	atom *pcAtom
	a, b *pcF
}

// pcAtom is one atomic test.  For tests of an integer quantity against a
// constant, subj is the quantity's key and set the values that make the test
// true; otherwise key alone identifies it.
type pcAtom struct {
	key   string
	subj  string
	set   ISet
	lo    int64 // lower bound of subj's domain (0 for len), valid when hasLo
	hasLo bool
	// structure, for rules that classify atoms
	op     token.Token // EQL (x == y), LSS (x < y), or ILLEGAL for an opaque boolean value
	x, y   ssa.Value
	v      ssa.Value
	xk, yk string
	ctx    *symCtx // call string the values stand in (for Resolve / Origins)
	iter   bool    // "there is a further element": stands for the scan of slices.ContainsFunc
}

var (
	pcT = &pcF{k: pcTrue}
	pcZ = &pcF{k: pcFalse}
)

func pcNotF(x *pcF) *pcF {
	switch x.k {
	case pcTrue:
		return pcZ
	case pcFalse:
		return pcT
	case pcNot:
		return x.a
	}
	return &pcF{k: pcNot, a: x}
}

func pcAndF(x, y *pcF) *pcF {
	if x.k == pcFalse || y.k == pcFalse {
		return pcZ
	}
	if x.k == pcTrue {
		return y
	}
	if y.k == pcTrue {
		return x
	}
	if x == y {
		return x
	}
	return &pcF{k: pcAnd, a: x, b: y}
}

func pcOrF(x, y *pcF) *pcF {
	if x.k == pcTrue || y.k == pcTrue {
		return pcT
	}
	if x.k == pcFalse {
		return y
	}
	if y.k == pcFalse {
		return x
	}
	if x == y {
		return x
	}
	return &pcF{k: pcOr, a: x, b: y}
}

func (f *pcF) String() string {
	switch f.k {
	case pcTrue:
		return "true"
	case pcFalse:
		return "false"
	case pcAtomK:
		return f.atom.key
	case pcNot:
		return "!(" + f.a.String() + ")"
	case pcAnd:
		return "(" + f.a.String() + " && " + f.b.String() + ")"
	default:
		return "(" + f.a.String() + " || " + f.b.String() + ")"
	}
}

func (f *pcF) collect(m map[string]*pcAtom, seen map[*pcF]bool) {
	if seen[f] {
		return
	}
	seen[f] = true
	switch f.k {
	case pcAtomK:
		m[f.atom.key] = f.atom
	case pcNot:
		f.a.collect(m, seen)
	case pcAnd, pcOr:
		f.a.collect(m, seen)
		f.b.collect(m, seen)
	}
}

func (f *pcF) atoms() []*pcAtom {
	m := map[string]*pcAtom{}
	f.collect(m, map[*pcF]bool{})
	keys := make([]string, 0, len(m))
	for k := range m {
		keys = append(keys, k)
	}
	sort.Strings(keys)
	out := make([]*pcAtom, len(keys))
	for i, k := range keys {
		out[i] = m[k]
	}
	return out
}

func (f *pcF) eval(env map[string]bool, memo map[*pcF]bool) bool {
	if v, ok := memo[f]; ok {
		return v
	}
	var r bool
	switch f.k {
	case pcTrue:
		r = true
	case pcFalse:
		r = false
	case pcAtomK:
		r = env[f.atom.key]
	case pcNot:
		r = !f.a.eval(env, memo)
	case pcAnd:
		r = f.a.eval(env, memo) && f.b.eval(env, memo)
	case pcOr:
		r = f.a.eval(env, memo) || f.b.eval(env, memo)
	}
	memo[f] = r
	return r
}

// pcFeasible: the assignment does not contradict itself on integer tests of
// one subject.
func pcFeasible(atoms []*pcAtom, env map[string]bool) bool {
	bySubj := map[string]ISet{}
	for _, a := range atoms {
		if a.subj == "" {
			continue
		}
		cur, ok := bySubj[a.subj]
		if !ok {
			cur = fullISet
			if a.hasLo {
				cur = ISet{{a.lo, fullISet[len(fullISet)-1].hi}}
			}
		}
		s := a.set
		if !env[a.key] {
			s = s.complement()
		}
		cur = cur.intersect(s)
		if len(cur) == 0 {
			return false
		}
		bySubj[a.subj] = cur
	}
	return true
}

// pcCompare compares formula f with the rule's expectation.  classify names
// the atoms the rule knows ("" = foreign); want gives the expected truth
// value for an assignment of the named atoms.  Foreign atoms are free: f must
// not depend on them.  It returns "" when f is equivalent to want on every
// feasible assignment, else a counterexample.
func pcCompare(f *pcF, classify func(*pcAtom) string, want func(env map[string]bool) bool) string {
	atoms := f.atoms()
	if len(atoms) > 16 {
		return fmt.Sprintf("condition has %d atomic tests, not decided", len(atoms))
	}
	names := make([]string, len(atoms))
	for i, a := range atoms {
		names[i] = classify(a)
	}
	for m := 0; m < 1<<len(atoms); m++ {
		env := map[string]bool{}
		named := map[string]bool{}
		clash := false
		for i, a := range atoms {
			v := m&(1<<i) != 0
			env[a.key] = v
			if names[i] != "" {
				n, val := names[i], v
				if strings.HasPrefix(n, "!") {
					n, val = n[1:], !v
				}
				if old, ok := named[n]; ok && old != val {
					clash = true
				}
				named[n] = val
			}
		}
		if clash || !pcFeasible(atoms, env) {
			continue
		}
		got := f.eval(env, map[*pcF]bool{})
		named["\x00actual"] = got
		if got != want(named) {
			var parts []string
			for i, a := range atoms {
				n := names[i]
				if n == "" {
					n = "other"
				}
				parts = append(parts, fmt.Sprintf("%s[%s]=%v", a.key, n, env[a.key]))
			}
			return fmt.Sprintf("with %s the code decides %v, the rule %v", strings.Join(parts, ", "), got, want(named))
		}
	}
	return ""
}

// ---------------------------------------------------------------------------

// symCtx is a call string: the instruction that entered the current function.
type symCtx struct {
	call   ssa.CallInstruction
	parent *symCtx
	// fn: the function entered, when the call goes through a function value
	// that was followed back to a function (nil: the static callee of call)
	fn *ssa.Function
}

// callee: the function the context stands in.
func (c *symCtx) callee() *ssa.Function {
	if c == nil || c.call == nil {
		return nil
	}
	if c.fn != nil {
		return c.fn
	}
	return c.call.Common().StaticCallee()
}

func (c *symCtx) depth() int {
	n := 0
	for ; c != nil; c = c.parent {
		n++
	}
	return n
}

// Sym names values and conditions canonically.
type Sym struct {
	keepAtom func(*ssa.Function) bool // helpers whose call is kept as one atom although Expand is on
	w        *World
	names    map[ssa.Value]string // names given by the rule
	// Expand: static in-module callees whose boolean result is expanded into
	// the callee's own path conditions (loop-free callees only).
	Expand bool
	// ExpandReturns: in decision tables an exit that returns the result of a
	// loop-free helper of the module is replaced by the helper's own exits.
	ExpandReturns bool
	// originStop: callees Origins does not read through (the rule names them itself)
	originStop func(*ssa.Function) bool
	ord        map[*ssa.Function]map[ssa.Value]string
	stored     map[*ssa.Function]map[string]bool
	loops      map[*ssa.Function]map[*ssa.BasicBlock]map[*ssa.BasicBlock]bool
	loadOrd    map[*ssa.Function]map[*ssa.UnOp]int
	keyMemo    map[symKey]string
	busy       map[symKey]bool
}

type symKey struct {
	v   ssa.Value
	ctx *symCtx
}

func NewSym(w *World) *Sym {
	return &Sym{w: w, names: map[ssa.Value]string{}, Expand: true, ord: map[*ssa.Function]map[ssa.Value]string{}, stored: map[*ssa.Function]map[string]bool{}, loadOrd: map[*ssa.Function]map[*ssa.UnOp]int{}, keyMemo: map[symKey]string{}, busy: map[symKey]bool{}}
}

func (s *Sym) Name(v ssa.Value, n string) { s.names[v] = n }

func stripIface(v ssa.Value) ssa.Value {
	for {
		switch x := v.(type) {
		case *ssa.MakeInterface:
			v = x.X
		case *ssa.ChangeInterface:
			v = x.X
		case *ssa.ChangeType:
			v = x.X
		default:
			return v
		}
	}
}

// singleStore returns the only value ever stored into a local cell, or nil:
// one store of the whole cell, and otherwise only reads (of the cell or of
// its fields and elements).
func singleStore(a *ssa.Alloc) ssa.Value {
	var st ssa.Value
	n := 0
	var readOnly func(v ssa.Value) bool
	readOnly = func(v ssa.Value) bool {
		for _, ref := range *v.Referrers() {
			switch x := ref.(type) {
			case *ssa.UnOp:
				if x.Op != token.MUL {
					return false
				}
			case *ssa.DebugRef:
			case *ssa.FieldAddr:
				if !readOnly(x) {
					return false
				}
			case *ssa.IndexAddr:
				if x.X != v || !readOnly(x) {
					return false
				}
			default:
				return false
			}
		}
		return true
	}
	for _, ref := range *a.Referrers() {
		switch x := ref.(type) {
		case *ssa.Store:
			if x.Addr == ssa.Value(a) {
				st = x.Val
				n++
			} else {
				return nil // the address itself is stored
			}
		case *ssa.UnOp, *ssa.DebugRef:
		case *ssa.FieldAddr:
			if !readOnly(x) {
				return nil
			}
		case *ssa.IndexAddr:
			if !readOnly(x) {
				return nil
			}
		default:
			return nil
		}
	}
	if n == 1 {
		return st
	}
	return nil
}

// isRangeIndexPhi: phi is the hidden counter of a range loop over a slice,
// array or count (the value compared with the length is phi + 1).
func isRangeIndexPhi(phi *ssa.Phi) bool {
	refs := phi.Referrers()
	if refs == nil {
		return false
	}
	for _, ref := range *refs {
		if b, ok := ref.(*ssa.BinOp); ok && b.X == ssa.Value(phi) && isRangeIndex(b) {
			return true
		}
	}
	return false
}

func isRangeIndex(v ssa.Value) bool {
	// rangeindex loops: t1 = phi [entry: -1, body: t2]; t2 = t1 + 1
	b, ok := v.(*ssa.BinOp)
	if !ok || b.Op != token.ADD {
		return false
	}
	phi, ok := b.X.(*ssa.Phi)
	if !ok {
		return false
	}
	one, ok := b.Y.(*ssa.Const)
	if !ok || one.Value == nil || one.Value.Kind() != constant.Int {
		return false
	}
	if v, _ := constant.Int64Val(one.Value); v != 1 {
		return false
	}
	self, minus1 := false, false
	for _, e := range phi.Edges {
		if e == ssa.Value(b) {
			self = true
			continue
		}
		if c, ok := e.(*ssa.Const); ok && c.Value != nil {
			if v, exact := constant.Int64Val(c.Value); exact && v == -1 {
				minus1 = true
				continue
			}
		}
		return false
	}
	return self && minus1
}

func pcCalleeName(c *ssa.CallCommon) string {
	if c.IsInvoke() {
		return c.Method.Name()
	}
	if f := c.StaticCallee(); f != nil {
		if f.Signature.Recv() != nil {
			t := f.Signature.Recv().Type()
			if p, ok := t.(*types.Pointer); ok {
				t = p.Elem()
			}
			if n, ok := t.(*types.Named); ok {
				return n.Obj().Name() + "." + f.Name()
			}
		}
		if f.Pkg != nil && f.Pkg.Pkg != nil {
			return f.Pkg.Pkg.Name() + "." + f.Name()
		}
		return f.Name()
	}
	if b, ok := c.Value.(*ssa.Builtin); ok {
		return b.Name()
	}
	return ""
}

// Key gives a canonical name to v as seen under call string ctx.
func (s *Sym) Key(v ssa.Value, ctx *symCtx) string {
	if n, ok := s.names[v]; ok {
		return n
	}
	k := symKey{v, ctx}
	if r, ok := s.keyMemo[k]; ok {
		return r
	}
	if s.busy[k] {
		return "…"
	}
	s.busy[k] = true
	r := s.key1(v, ctx)
	delete(s.busy, k)
	s.keyMemo[k] = r
	return r
}

func (s *Sym) key1(v ssa.Value, ctx *symCtx) string {
	switch x := v.(type) {
	case *ssa.Const:
		if x.Value == nil {
			if b, ok := x.Type().Underlying().(*types.Basic); ok && b.Info()&types.IsString != 0 {
				return `""`
			}
			if _, ok := x.Type().Underlying().(*types.Basic); ok {
				return "0"
			}
			return "nil"
		}
		return x.Value.ExactString()
	case *ssa.Parameter:
		fn := x.Parent()
		idx := -1
		for i, p := range fn.Params {
			if p == x {
				idx = i
			}
		}
		if ctx != nil && ctx.call != nil {
			cc := ctx.call.Common()
			if ctx.callee() == fn && idx >= 0 && idx < len(cc.Args) {
				return s.Key(cc.Args[idx], ctx.parent)
			}
		}
		return fmt.Sprintf("p%d", idx)
	case *ssa.FreeVar:
		return "fv:" + x.Name()
	case *ssa.Global:
		return x.Pkg.Pkg.Name() + "." + x.Name()
	case *ssa.Function:
		return "func:" + x.String()
	case *ssa.MakeInterface:
		return s.Key(x.X, ctx)
	case *ssa.ChangeInterface:
		return s.Key(x.X, ctx)
	case *ssa.ChangeType:
		return s.Key(x.X, ctx)
	case *ssa.Convert:
		return types.TypeString(x.Type(), func(*types.Package) string { return "" }) + "(" + s.Key(x.X, ctx) + ")"
	case *ssa.FieldAddr:
		st := x.X.Type().Underlying().(*types.Pointer).Elem().Underlying().(*types.Struct)
		base := s.Key(x.X, ctx)
		if strings.HasPrefix(base, "&") {
			// a field of a local copy reads like a field of the value copied
			base = base[1:]
		}
		return "&" + base + "." + st.Field(x.Field).Name()
	case *ssa.Field:
		st := x.X.Type().Underlying().(*types.Struct)
		return s.Key(x.X, ctx) + "." + st.Field(x.Field).Name()
	case *ssa.IndexAddr:
		if isRangeIndex(x.Index) {
			return "&elem(" + s.Key(x.X, ctx) + ")"
		}
		return "&" + s.Key(x.X, ctx) + "[" + s.Key(x.Index, ctx) + "]"
	case *ssa.Index:
		if isRangeIndex(x.Index) {
			return "elem(" + s.Key(x.X, ctx) + ")"
		}
		return s.Key(x.X, ctx) + "[" + s.Key(x.Index, ctx) + "]"
	case *ssa.Lookup:
		return s.Key(x.X, ctx) + "[" + s.Key(x.Index, ctx) + "]"
	case *ssa.Slice:
		if lits := sliceLiteral(x); lits != nil {
			var ks []string
			for _, l := range lits {
				ks = append(ks, s.Key(l, ctx))
			}
			return "[" + strings.Join(ks, ",") + "]"
		}
		p := func(v ssa.Value) string {
			if v == nil {
				return ""
			}
			return s.Key(v, ctx)
		}
		return s.Key(x.X, ctx) + "[" + p(x.Low) + ":" + p(x.High) + "]"
	case *ssa.Alloc:
		if st := singleStore(x); st != nil {
			return "&" + s.Key(st, ctx)
		}
		return "cell:" + x.Comment + "@" + x.Parent().Name()
	case *ssa.UnOp:
		switch x.Op {
		case token.MUL:
			if a, ok := x.X.(*ssa.Alloc); ok {
				if st := singleStore(a); st != nil {
					return s.Key(st, ctx)
				}
			}
			k := s.Key(x.X, ctx)
			tag := s.loadTag(x)
			if strings.HasPrefix(k, "&") {
				return k[1:] + tag
			}
			return "*" + k + tag
		case token.NOT:
			return "!" + s.Key(x.X, ctx)
		case token.SUB:
			return "-" + s.Key(x.X, ctx)
		case token.ARROW:
			return "<-" + s.Key(x.X, ctx)
		}
		return x.Op.String() + s.Key(x.X, ctx)
	case *ssa.BinOp:
		return "(" + s.Key(x.X, ctx) + " " + x.Op.String() + " " + s.Key(x.Y, ctx) + ")"
	case *ssa.Extract:
		if nx, ok := x.Tuple.(*ssa.Next); ok {
			if rg, ok := nx.Iter.(*ssa.Range); ok {
				switch x.Index {
				case 1:
					return "key(" + s.Key(rg.X, ctx) + ")"
				case 2:
					return "elem(" + s.Key(rg.X, ctx) + ")"
				}
				return "more(" + s.Key(rg.X, ctx) + ")"
			}
		}
		return fmt.Sprintf("%s#%d", s.Key(x.Tuple, ctx), x.Index)
	case *ssa.TypeAssert:
		t := types.TypeString(x.AssertedType, func(p *types.Package) string { return p.Name() })
		return s.Key(x.X, ctx) + ".(" + t + ")"
	case *ssa.Call:
		return s.callKey(x, ctx)
	case *ssa.Phi:
		var ks []string
		seen := map[string]bool{}
		for _, e := range x.Edges {
			k := s.Key(e, ctx)
			if !seen[k] {
				seen[k] = true
				ks = append(ks, k)
			}
		}
		sort.Strings(ks)
		if len(ks) == 1 && ks[0] != "…" {
			return ks[0]
		}
		return "φ(" + strings.Join(ks, "|") + ")"
	case *ssa.MakeClosure:
		return "closure:" + x.Fn.(*ssa.Function).Name()
	case *ssa.MakeSlice, *ssa.MakeMap, *ssa.MakeChan:
		return fmt.Sprintf("new:%s", v.Name())
	}
	return fmt.Sprintf("?%T:%s", v, v.Name())
}

// loadTag keeps loads of one memory location apart when the function they
// stand in also stores to that field (or element type): names are not flow
// sensitive, so two such loads may see different values.
func (s *Sym) loadTag(ld *ssa.UnOp) string {
	fn := ld.Parent()
	if s.stored[fn] == nil {
		m := map[string]bool{}
		for _, b := range fn.Blocks {
			for _, in := range b.Instrs {
				if st, ok := in.(*ssa.Store); ok {
					m[addrClass(st.Addr)] = true
				}
			}
		}
		s.stored[fn] = m
	}
	c := addrClass(ld.X)
	if c == "" || !s.stored[fn][c] {
		return ""
	}
	if s.loadOrd[fn] == nil {
		s.loadOrd[fn] = map[*ssa.UnOp]int{}
		n := map[string]int{}
		for _, b := range fn.Blocks {
			for _, in := range b.Instrs {
				if u, ok := in.(*ssa.UnOp); ok && u.Op == token.MUL {
					k := addrClass(u.X)
					n[k]++
					s.loadOrd[fn][u] = n[k]
				}
			}
		}
	}
	return fmt.Sprintf("@%d", s.loadOrd[fn][ld])
}

// addrClass: which kind of location an address designates ("" for locals).
func addrClass(a ssa.Value) string {
	switch x := a.(type) {
	case *ssa.FieldAddr:
		if _, local := x.X.(*ssa.Alloc); local {
			return ""
		}
		st := x.X.Type().Underlying().(*types.Pointer).Elem().Underlying().(*types.Struct)
		return types.TypeString(x.X.Type(), nil) + "." + st.Field(x.Field).Name()
	case *ssa.IndexAddr:
		if _, local := x.X.(*ssa.Alloc); local {
			return ""
		}
		return "elem:" + types.TypeString(x.X.Type(), nil)
	case *ssa.Global:
		return "global:" + x.Name()
	case *ssa.Alloc:
		return ""
	}
	return "ptr:" + types.TypeString(a.Type(), nil)
}

func (s *Sym) callKey(c *ssa.Call, ctx *symCtx) string {
	cc := c.Common()
	name := pcCalleeName(cc)
	var args []string
	if cc.IsInvoke() {
		name = s.Key(cc.Value, ctx) + "." + name
	} else if name == "" {
		name = "(" + s.Key(cc.Value, ctx) + ")"
	}
	for _, a := range cc.Args {
		args = append(args, s.Key(a, ctx))
	}
	base := name + "(" + strings.Join(args, ",") + ")"
	// calls are not values: two calls with one name may give two results.
	// Number the calls of equal structure within their function.
	fn := c.Parent()
	if s.ord[fn] == nil {
		s.ord[fn] = map[ssa.Value]string{}
		count := map[string]int{}
		first := map[string]ssa.Value{}
		for _, b := range fn.Blocks {
			for _, in := range b.Instrs {
				if cl, ok := in.(*ssa.Call); ok {
					k := s.rawCallKey(cl)
					count[k]++
					if count[k] == 1 {
						first[k] = cl
						s.ord[fn][cl] = ""
					} else {
						s.ord[fn][cl] = fmt.Sprintf("#%d", count[k])
					}
				}
			}
		}
	}
	return base + s.ord[fn][c] + s.ctxTag(ctx)
}

// ctxTag tells apart the calls a helper makes in its several invocations.
func (s *Sym) ctxTag(ctx *symCtx) string {
	t := ""
	for ; ctx != nil && ctx.call != nil; ctx = ctx.parent {
		if c, ok := ctx.call.(*ssa.Call); ok {
			s.callKey(c, ctx.parent) // make sure the ordinals exist
			if o := s.ord[c.Parent()][c]; o != "" {
				t += "@" + o
			}
		}
	}
	return t
}

// rawCallKey: context-free structural key, used only to number calls.
func (s *Sym) rawCallKey(c *ssa.Call) string {
	cc := c.Common()
	name := pcCalleeName(cc)
	if cc.IsInvoke() || name == "" {
		name = s.Key(cc.Value, nil) + "." + name
	}
	var args []string
	for _, a := range cc.Args {
		args = append(args, s.Key(a, nil))
	}
	return name + "(" + strings.Join(args, ",") + ")"
}

func intConstOf(v ssa.Value) (int64, bool) {
	c, ok := v.(*ssa.Const)
	if !ok {
		return 0, false
	}
	if c.Value == nil {
		if b, ok := c.Type().Underlying().(*types.Basic); ok && b.Info()&types.IsInteger != 0 {
			return 0, true
		}
		return 0, false
	}
	if c.Value.Kind() != constant.Int {
		return 0, false
	}
	return constant.Int64Val(c.Value)
}

func isIntegerType(t types.Type) bool {
	b, ok := t.Underlying().(*types.Basic)
	return ok && b.Info()&types.IsInteger != 0
}

func isStringType(t types.Type) bool {
	b, ok := t.Underlying().(*types.Basic)
	return ok && b.Info()&types.IsString != 0
}

func isLenCall(v ssa.Value) (ssa.Value, bool) {
	c, ok := v.(*ssa.Call)
	if !ok {
		return nil, false
	}
	if b, ok := c.Call.Value.(*ssa.Builtin); ok && nm(b) == "len" && len(c.Call.Args) == 1 {
		return c.Call.Args[0], true
	}
	return nil, false
}

// Cond turns a boolean SSA value into a formula.
func (s *Sym) Cond(v ssa.Value, ctx *symCtx) *pcF {
	return s.cond(v, ctx, 0)
}

func (s *Sym) cond(v ssa.Value, ctx *symCtx, d int) *pcF {
	if n, ok := s.names[v]; ok {
		return &pcF{k: pcAtomK, atom: &pcAtom{key: n, v: v}}
	}
	if d > 12 {
		return s.opaque(v, ctx)
	}
	switch x := v.(type) {
	case *ssa.Const:
		if x.Value != nil && x.Value.Kind() == constant.Bool {
			if constant.BoolVal(x.Value) {
				return pcT
			}
			return pcZ
		}
	case *ssa.UnOp:
		if x.Op == token.NOT {
			return pcNotF(s.cond(x.X, ctx, d+1))
		}
		if x.Op == token.MUL {
			if a, ok := x.X.(*ssa.Alloc); ok {
				if st := singleStore(a); st != nil {
					return s.cond(st, ctx, d+1)
				}
			}
		}
	case *ssa.Parameter:
		if ctx != nil && ctx.call != nil {
			fn := x.Parent()
			for i, p := range fn.Params {
				if p == x && ctx.callee() == fn && i < len(ctx.call.Common().Args) {
					return s.cond(ctx.call.Common().Args[i], ctx.parent, d+1)
				}
			}
		}
	case *ssa.Phi:
		// a boolean assembled by control flow (a && b, named results ...)
		blk := x.Block()
		dom := blk.Idom()
		if dom == nil {
			break
		}
		out := pcZ
		for i, e := range x.Edges {
			pred := blk.Preds[i]
			if blk.Dominates(pred) {
				return s.opaque(v, ctx) // loop-carried
			}
			pc := pcAndF(s.PathCond(dom, pred, ctx), s.edgeCond(pred, blk, ctx))
			out = pcOrF(out, pcAndF(pc, s.cond(e, ctx, d+1)))
		}
		return out
	case *ssa.BinOp:
		return s.cmp(x, ctx, d)
	case *ssa.Call:
		if s.Expand && ctx.depth() < 5 {
			if f := s.expandCall(x, 0, 1, ctx, d); f != nil {
				return f
			}
		}
	case *ssa.Extract:
		if c, ok := x.Tuple.(*ssa.Call); ok && s.Expand && ctx.depth() < 5 {
			if f := s.expandCall(c, x.Index, c.Call.Signature().Results().Len(), ctx, d); f != nil {
				return f
			}
		}
	}
	// membership of an integer (a rune, an enumerated kind) in a read-only table literal: the set of its keys
	if s.w != nil {
		if keys, idx, ok := pcTableLookup(s.w, v); ok && isIntegerType(idx.Type()) {
			var set ISet
			all := true
			for _, k := range keys {
				iv, exact := constant.Int64Val(constant.ToInt(k))
				if !exact {
					all = false
					break
				}
				set = set.union(isetOf(iv))
			}
			if all {
				return s.intAtom(s.Key(idx, ctx), set, false, v, ctx)
			}
		}
	}
	return s.opaque(v, ctx)
}

func (s *Sym) opaque(v ssa.Value, ctx *symCtx) *pcF {
	return &pcF{k: pcAtomK, atom: &pcAtom{key: s.Key(v, ctx), v: v, ctx: ctx}}
}

// expandCall: a static in-module callee without loops that returns one bool.
func (s *Sym) expandCall(c *ssa.Call, idx, nres int, ctx *symCtx, d int) *pcF {
	fn := c.Call.StaticCallee()
	viaValue := false
	if fn == nil && !c.Call.IsInvoke() {
		// a predicate handed in as a parameter: the named function the caller passed
		if g, ok := s.Resolve(c.Call.Value, ctx).(*ssa.Function); ok && g.Signature.Recv() == nil && len(g.FreeVars) == 0 {
			fn, viaValue = g, true
		}
	}
	if fn == nil || fn.Blocks == nil || fn.Pkg == nil || !strings.HasPrefix(fn.Pkg.Pkg.Path(), modPath) {
		return nil
	}
	if s.keepAtom != nil && s.keepAtom(fn) {
		return nil // the rule speaks of this helper's verdict as a whole
	}
	if fn.Signature.Results().Len() != nres || len(ssaLoops(fn)) > 0 || len(fn.Blocks) > 24 {
		return nil
	}
	for p := ctx; p != nil; p = p.parent {
		if p.callee() == fn {
			return nil
		}
	}
	// what the callee calls stays an atom; loads of fields it stores to are
	// kept apart by loadTag
	for _, b := range fn.Blocks {
		for _, in := range b.Instrs {
			switch in.(type) {
			case *ssa.Go, *ssa.Defer, *ssa.Send, *ssa.Panic:
				return nil
			}
		}
	}
	nctx := &symCtx{call: c, parent: ctx}
	if viaValue {
		nctx.fn = fn
	}
	out := pcZ
	for _, b := range fn.Blocks {
		ret, ok := b.Instrs[len(b.Instrs)-1].(*ssa.Return)
		if !ok {
			continue
		}
		if b == fn.Recover {
			continue
		}
		out = pcOrF(out, pcAndF(s.PathCond(fn.Blocks[0], b, nctx), s.cond(unspill(ret.Results[idx]), nctx, d+1)))
	}
	return out
}

func pkgPathOf(f *ssa.Function) string {
	if f.Pkg != nil && f.Pkg.Pkg != nil {
		return f.Pkg.Pkg.Path()
	}
	// an instance of a generic function, a function literal: where it was written
	if o := f.Origin(); o != nil && o != f {
		return pkgPathOf(o)
	}
	if f.Parent() != nil {
		return pkgPathOf(f.Parent())
	}
	return ""
}

func (s *Sym) cmp(x *ssa.BinOp, ctx *symCtx, d int) *pcF {
	l, r := x.X, x.Y
	op := x.Op
	switch op {
	case token.EQL, token.NEQ, token.LSS, token.LEQ, token.GTR, token.GEQ:
	default:
		return s.opaque(x, ctx)
	}
	// booleans compared with constants
	if b, ok := l.Type().Underlying().(*types.Basic); ok && b.Info()&types.IsBoolean != 0 && (op == token.EQL || op == token.NEQ) {
		lf, rf := s.cond(l, ctx, d+1), s.cond(r, ctx, d+1)
		eq := pcOrF(pcAndF(lf, rf), pcAndF(pcNotF(lf), pcNotF(rf)))
		if op == token.NEQ {
			return pcNotF(eq)
		}
		return eq
	}
	// x == "" is len(x) == 0
	if isStringType(l.Type()) && (op == token.EQL || op == token.NEQ) {
		var other ssa.Value
		if c, ok := r.(*ssa.Const); ok && (c.Value == nil || constant.StringVal(c.Value) == "") {
			other = l
		} else if c, ok := l.(*ssa.Const); ok && (c.Value == nil || constant.StringVal(c.Value) == "") {
			other = r
		}
		if other != nil {
			subj := "len(" + s.Key(other, ctx) + ")"
			f := s.intAtom(subj, isetOf(0), true, x, ctx)
			if op == token.NEQ {
				return pcNotF(f)
			}
			return f
		}
	}
	// integer against constant
	if isIntegerType(l.Type()) {
		if c, ok := intConstOf(r); ok {
			return s.intCmp(l, op, c, x, ctx)
		}
		if c, ok := intConstOf(l); ok {
			// c op r  ==  r op' c
			flip := map[token.Token]token.Token{token.EQL: token.EQL, token.NEQ: token.NEQ, token.LSS: token.GTR, token.LEQ: token.GEQ, token.GTR: token.LSS, token.GEQ: token.LEQ}
			return s.intCmp(r, flip[op], c, x, ctx)
		}
	}
	// helper(...) != nil, the helper a loop-free function of the module: the
	// exits of the helper that return something other than nil there
	if s.Expand && (op == token.EQL || op == token.NEQ) && ctx.depth() < 3 {
		var other ssa.Value
		if isNilConst(r) {
			other = l
		} else if isNilConst(l) {
			other = r
		}
		if other != nil {
			if f := s.nilExpand(other, ctx, d); f != nil {
				if op == token.EQL {
					return pcNotF(f)
				}
				return f
			}
		}
	}
	lk, rk := s.Key(l, ctx), s.Key(r, ctx)
	mk := func(o token.Token, a, b ssa.Value, ak, bk string) *pcF {
		sym := "=="
		if o == token.LSS {
			sym = "<"
		}
		return &pcF{k: pcAtomK, atom: &pcAtom{key: ak + " " + sym + " " + bk, op: o, x: a, y: b, xk: ak, yk: bk, v: x, ctx: ctx}}
	}
	ordered := isIntegerType(l.Type()) || isStringType(l.Type())
	switch op {
	case token.EQL, token.NEQ:
		if lk > rk {
			l, r, lk, rk = r, l, rk, lk
		}
		f := mk(token.EQL, l, r, lk, rk)
		if op == token.NEQ {
			return pcNotF(f)
		}
		return f
	case token.LSS:
		return mk(token.LSS, l, r, lk, rk)
	case token.GTR:
		return mk(token.LSS, r, l, rk, lk)
	case token.GEQ:
		if ordered {
			return pcNotF(mk(token.LSS, l, r, lk, rk))
		}
	case token.LEQ:
		if ordered {
			return pcNotF(mk(token.LSS, r, l, rk, lk))
		}
	}
	return s.opaque(x, ctx)
}

// nilExpand: "v != nil" for v = helper(...)[i]; nil when v is not such a value.
func (s *Sym) nilExpand(v ssa.Value, ctx *symCtx, d int) *pcF {
	v = unspill(v)
	var c *ssa.Call
	idx := 0
	switch x := v.(type) {
	case *ssa.Call:
		c = x
	case *ssa.Extract:
		if cc, ok := x.Tuple.(*ssa.Call); ok {
			c, idx = cc, x.Index
		}
	}
	if c == nil {
		return nil
	}
	fn := c.Call.StaticCallee()
	if fn == nil || fn.Blocks == nil || !strings.HasPrefix(pkgPathOf(fn), modPath) || len(ssaLoops(fn)) > 0 || len(fn.Blocks) > 24 || idx >= fn.Signature.Results().Len() {
		return nil
	}
	if _, isIface := fn.Signature.Results().At(idx).Type().Underlying().(*types.Interface); !isIface {
		return nil
	}
	for p := ctx; p != nil; p = p.parent {
		if p.callee() == fn {
			return nil
		}
	}
	for _, b := range fn.Blocks {
		for _, in := range b.Instrs {
			switch in.(type) {
			case *ssa.Go, *ssa.Defer, *ssa.Send, *ssa.Panic:
				return nil
			}
		}
	}
	nctx := &symCtx{call: c, parent: ctx}
	out := pcZ
	for _, b := range fn.Blocks {
		ret, ok := b.Instrs[len(b.Instrs)-1].(*ssa.Return)
		if !ok || b == fn.Recover {
			continue
		}
		rv := unspill(ret.Results[idx])
		var term *pcF
		switch {
		case isNilConst(rv):
			continue
		case freshNonNil(rv):
			term = pcT
		default:
			if term = s.nilExpand(rv, nctx, d+1); term == nil {
				nilC := ssa.NewConst(nil, rv.Type())
				lk, rk := s.Key(rv, nctx), s.Key(nilC, nctx)
				var l, r ssa.Value = rv, nilC
				if lk > rk {
					l, r, lk, rk = r, l, rk, lk
				}
				term = pcNotF(&pcF{k: pcAtomK, atom: &pcAtom{key: lk + " == " + rk, op: token.EQL, x: l, y: r, xk: lk, yk: rk, ctx: nctx}})
			}
		}
		out = pcOrF(out, pcAndF(s.PathCond(fn.Blocks[0], b, nctx), term))
	}
	return out
}

// freshNonNil: an error (or other interface value) just built: fmt.Errorf,
// errors.New, or a concrete value boxed into the interface.
func freshNonNil(v ssa.Value) bool {
	switch x := v.(type) {
	case *ssa.MakeInterface:
		return true
	case *ssa.Call:
		if f := x.Call.StaticCallee(); f != nil {
			switch f.String() {
			case "fmt.Errorf", "errors.New":
				return true
			}
		}
	}
	return false
}

func (s *Sym) intCmp(subj ssa.Value, op token.Token, c int64, at ssa.Value, ctx *symCtx) *pcF {
	var set ISet
	switch op {
	case token.EQL, token.NEQ:
		set = isetOf(c)
	case token.LSS:
		set = ISet{{fullISet[0].lo, c - 1}}
	case token.LEQ:
		set = ISet{{fullISet[0].lo, c}}
	case token.GTR:
		set = ISet{{fullISet[0].lo, c}} // negated below
	case token.GEQ:
		set = ISet{{fullISet[0].lo, c - 1}} // negated below
	}
	neg := op == token.NEQ || op == token.GTR || op == token.GEQ
	key := s.Key(subj, ctx)
	nonNeg := false
	if _, ok := isLenCall(stripIface(subj)); ok {
		nonNeg = true
	}
	if isRangeIndex(subj) {
		nonNeg = true
	}
	if b, ok := subj.Type().Underlying().(*types.Basic); ok && b.Info()&types.IsUnsigned != 0 {
		nonNeg = true
	}
	f := s.intAtom(key, set, nonNeg, at, ctx)
	if neg {
		return pcNotF(f)
	}
	return f
}

func (s *Sym) intAtom(subj string, set ISet, nonNeg bool, at ssa.Value, ctx *symCtx) *pcF {
	if nonNeg {
		set = set.intersect(ISet{{0, fullISet[len(fullISet)-1].hi}})
	}
	a := &pcAtom{key: subj + "∈" + set.String(), subj: subj, set: set, hasLo: nonNeg, lo: 0, v: at, ctx: ctx}
	if len(set) == 0 {
		return pcZ
	}
	return &pcF{k: pcAtomK, atom: a}
}

func (s *Sym) edgeCond(from, to *ssa.BasicBlock, ctx *symCtx) *pcF {
	ifi, ok := from.Instrs[len(from.Instrs)-1].(*ssa.If)
	if !ok {
		return pcT
	}
	if from.Succs[0] == to && from.Succs[1] == to {
		return pcT
	}
	c := s.Cond(ifi.Cond, ctx)
	if from.Succs[0] == to {
		return c
	}
	return pcNotF(c)
}

// PathCond is the condition under which control, having entered block from,
// reaches block to along forward edges (back edges are not followed: for a
// block of a loop body this is the condition within one iteration).  from
// must dominate to.
func (s *Sym) PathCond(from, to *ssa.BasicBlock, ctx *symCtx) *pcF {
	memo := map[*ssa.BasicBlock]*pcF{}
	var pc func(b *ssa.BasicBlock) *pcF
	pc = func(b *ssa.BasicBlock) *pcF {
		if b == from {
			return pcT
		}
		if f, ok := memo[b]; ok {
			if f == nil {
				return pcZ
			}
			return f
		}
		memo[b] = nil
		out := pcZ
		for _, p := range b.Preds {
			if b.Dominates(p) { // back edge
				continue
			}
			if !from.Dominates(p) {
				continue
			}
			ec := s.edgeCond(p, b, ctx)
			// leaving a loop that lies wholly inside the region by its head: the
			// loop is passed through (it is assumed to end), its own "more
			// elements?" test says nothing about whether b is reached
			if l, ok := s.loopAt(p); ok && !l[b] && from != p && !l[from] {
				ec = pcT
			}
			out = pcOrF(out, pcAndF(pc(p), ec))
		}
		memo[b] = out
		return out
	}
	if !from.Dominates(to) {
		return pcZ
	}
	return pc(to)
}

// loopAt: the body of the natural loop whose header is b.
func (s *Sym) loopAt(b *ssa.BasicBlock) (map[*ssa.BasicBlock]bool, bool) {
	fn := b.Parent()
	if s.loops == nil {
		s.loops = map[*ssa.Function]map[*ssa.BasicBlock]map[*ssa.BasicBlock]bool{}
	}
	if s.loops[fn] == nil {
		m := map[*ssa.BasicBlock]map[*ssa.BasicBlock]bool{}
		for _, l := range ssaLoops(fn) {
			m[l.Header] = l.body()
		}
		s.loops[fn] = m
	}
	body, ok := s.loops[fn][b]
	return body, ok
}

// loopOf returns the innermost natural loop containing b, if any.
func loopOf(f *ssa.Function, b *ssa.BasicBlock) (ssaLoop, bool) {
	var best ssaLoop
	found := false
	bestN := 0
	for _, l := range ssaLoops(f) {
		body := l.body()
		if body[b] && (!found || len(body) < bestN) {
			best, found, bestN = l, true, len(body)
		}
	}
	return best, found
}

// sliceLiteral: v is arr[:] of a fresh local array whose elements are each
// stored exactly once at constant indices (a composite literal or the
// argument list of a variadic call); the stored values are returned in order.
func sliceLiteral(v *ssa.Slice) []ssa.Value {
	a, ok := v.X.(*ssa.Alloc)
	if !ok || v.Low != nil || v.High != nil {
		return nil
	}
	arr, ok := a.Type().Underlying().(*types.Pointer).Elem().Underlying().(*types.Array)
	if !ok {
		return nil
	}
	out := make([]ssa.Value, arr.Len())
	for _, ref := range *a.Referrers() {
		switch x := ref.(type) {
		case *ssa.IndexAddr:
			i, ok := intConstOf(x.Index)
			if !ok || i < 0 || i >= arr.Len() {
				return nil
			}
			for _, r2 := range *x.Referrers() {
				st, ok := r2.(*ssa.Store)
				if !ok || st.Addr != x || out[i] != nil {
					return nil
				}
				out[i] = st.Val
			}
		case *ssa.Slice, *ssa.DebugRef:
		default:
			return nil
		}
	}
	for _, o := range out {
		if o == nil {
			return nil
		}
	}
	return out
}

// unspill: in a function with defers the results are stored into cells and
// read back after rundefers; the value returned is the one stored last in
// the same block.
func unspill(v ssa.Value) ssa.Value {
	ld, ok := v.(*ssa.UnOp)
	if !ok || ld.Op != token.MUL {
		return v
	}
	a, ok := ld.X.(*ssa.Alloc)
	if !ok {
		return v
	}
	b := ld.Block()
	seen := false
	for i := len(b.Instrs) - 1; i >= 0; i-- {
		if b.Instrs[i] == ssa.Instruction(ld) {
			seen = true
			continue
		}
		if !seen {
			continue
		}
		if st, ok := b.Instrs[i].(*ssa.Store); ok && st.Addr == ssa.Value(a) {
			return st.Val
		}
	}
	return v
}

// ResultCond: the boolean result of a loop-free function as a formula.
func (s *Sym) ResultCond(fn *ssa.Function, ctx *symCtx) *pcF {
	out := pcZ
	for _, b := range fn.Blocks {
		ret, ok := b.Instrs[len(b.Instrs)-1].(*ssa.Return)
		if !ok || len(ret.Results) != 1 || b == fn.Recover {
			continue
		}
		out = pcOrF(out, pcAndF(s.PathCond(fn.Blocks[0], b, ctx), s.Cond(unspill(ret.Results[0]), ctx)))
	}
	return out
}

// pcEquiv compares two formulas over the union of their atoms; "" = equal.
func pcEquiv(f, g *pcF) string {
	both := pcOrF(pcAndF(f, g), pcAndF(pcNotF(f), pcNotF(g)))
	as := (&pcF{k: pcOr, a: f, b: g}).atoms()
	if len(as) > 16 {
		return fmt.Sprintf("%d atomic tests, not decided", len(as))
	}
	for m := 0; m < 1<<len(as); m++ {
		env := map[string]bool{}
		for i, a := range as {
			env[a.key] = m&(1<<i) != 0
		}
		if !pcFeasible(as, env) {
			continue
		}
		if !both.eval(env, map[*pcF]bool{}) {
			var parts []string
			for _, a := range as {
				parts = append(parts, fmt.Sprintf("%s=%v", a.key, env[a.key]))
			}
			return strings.Join(parts, ", ")
		}
	}
	return ""
}

// pcGated decides whether f has the form G && (open || pass) for some G that
// does not depend on the atoms named "open" and "pass" by classify: the gate
// influences f only through open||pass, and f is false when the gate is shut.
// (pass is not evaluated when open holds, so both its values must agree then.)
func pcGated(f *pcF, classify func(*pcAtom) string) string {
	as := f.atoms()
	if len(as) > 16 {
		return fmt.Sprintf("%d atomic tests, not decided", len(as))
	}
	var openA, passA []*pcAtom
	var rest []*pcAtom
	for _, a := range as {
		switch classify(a) {
		case "open":
			openA = append(openA, a)
		case "pass":
			passA = append(passA, a)
		default:
			rest = append(rest, a)
		}
	}
	if len(openA) == 0 || len(passA) == 0 {
		return "the condition does not test the gate at all"
	}
	set := func(env map[string]bool, open, pass bool) {
		for _, a := range openA {
			env[a.key] = open
		}
		for _, a := range passA {
			env[a.key] = pass
		}
	}
	for m := 0; m < 1<<len(rest); m++ {
		env := map[string]bool{}
		for i, a := range rest {
			env[a.key] = m&(1<<i) != 0
		}
		if !pcFeasible(rest, env) {
			continue
		}
		ev := func(open, pass bool) bool {
			set(env, open, pass)
			return f.eval(env, map[*pcF]bool{})
		}
		shut := ev(false, false)
		a, b, c := ev(true, false), ev(true, true), ev(false, true)
		desc := func() string {
			var parts []string
			for _, x := range rest {
				parts = append(parts, fmt.Sprintf("%s=%v", x.key, env[x.key]))
			}
			return strings.Join(parts, ", ")
		}
		if shut {
			return "reached although the gate is shut (" + desc() + ")"
		}
		if a != b || b != c {
			return "an open gate and a passing one are treated differently (" + desc() + ")"
		}
	}
	return ""
}

// rootParams: the parameters of root that v is computed from (data flow
// through instructions, local cells, and the results of static in-module
// callees, whose arguments are all taken to flow into every result).
func rootParams(v ssa.Value, root *ssa.Function) map[int]bool {
	out := map[int]bool{}
	seen := map[ssa.Value]bool{}
	var walk func(v ssa.Value)
	walk = func(v ssa.Value) {
		if v == nil || seen[v] {
			return
		}
		seen[v] = true
		switch x := v.(type) {
		case *ssa.Parameter:
			if x.Parent() == root {
				for i, p := range root.Params {
					if p == x {
						out[i] = true
					}
				}
			}
			return
		case *ssa.Alloc:
			for _, ref := range *x.Referrers() {
				switch y := ref.(type) {
				case *ssa.Store:
					if y.Addr == ssa.Value(x) {
						walk(y.Val)
					}
				case *ssa.IndexAddr, *ssa.FieldAddr:
					for _, r2 := range *y.(ssa.Value).Referrers() {
						if st, ok := r2.(*ssa.Store); ok && st.Addr == y.(ssa.Value) {
							walk(st.Val)
						}
					}
				}
			}
			return
		case *ssa.Const, *ssa.Global, *ssa.Function, *ssa.FreeVar, *ssa.Builtin:
			return
		}
		if in, ok := v.(ssa.Instruction); ok {
			for _, op := range in.Operands(nil) {
				if *op != nil {
					walk(*op)
				}
			}
		}
	}
	walk(v)
	return out
}

// storesIntoFresh: the address is (an element or field of) memory allocated
// by this very function.
func storesIntoFresh(addr ssa.Value) bool {
	for {
		switch x := addr.(type) {
		case *ssa.Alloc:
			return true
		case *ssa.IndexAddr:
			addr = x.X
		case *ssa.FieldAddr:
			addr = x.X
		default:
			return false
		}
	}
}

// pcEvalUnder evaluates f in a model given atom by atom; ok=false when the
// model does not decide some atom f depends on.
func pcEvalUnder(f *pcF, val func(*pcAtom) (bool, bool)) (res bool, ok bool, undecided string) {
	env := map[string]bool{}
	for _, a := range f.atoms() {
		v, known := val(a)
		if !known {
			return false, false, a.key
		}
		env[a.key] = v
	}
	return f.eval(env, map[*pcF]bool{}), true, ""
}

type retRow struct {
	cond *pcF
	val  ssa.Value
	pos  token.Pos
	ctx  *symCtx // the helper invocation val stands in (ExpandReturns); nil in the function itself
}

// retTable lists the exits of a loop-free function with the condition of
// each and the idx-th result returned there.
func (s *Sym) retTable(fn *ssa.Function, idx int) []retRow {
	return s.retTableCtx(fn, idx, nil, 0)
}

// Resolve follows a parameter of an expanded callee back to the argument it
// was given (see ExpandReturns).
func (s *Sym) Resolve(v ssa.Value, ctx *symCtx) ssa.Value {
	for ctx != nil && ctx.call != nil {
		p, ok := v.(*ssa.Parameter)
		if !ok {
			return v
		}
		cc := ctx.call.Common()
		fn := ctx.callee()
		if fn == nil || p.Parent() != fn {
			return v
		}
		idx := -1
		for i, q := range fn.Params {
			if q == p {
				idx = i
			}
		}
		if idx < 0 || idx >= len(cc.Args) {
			return v
		}
		v = cc.Args[idx]
		ctx = ctx.parent
	}
	return v
}

func (s *Sym) retTableCtx(fn *ssa.Function, idx int, ctx *symCtx, depth int) []retRow {
	var out []retRow
	forwards := false
	add := func(cond *pcF, v ssa.Value, pos token.Pos) {
		// an exit that hands on what a helper of the module returns: the helper's own exits
		if s.ExpandReturns && depth < 2 && forwards {
			var call *ssa.Call
			j := 0
			switch x := v.(type) {
			case *ssa.Call:
				call = x
			case *ssa.Extract:
				if c, ok := x.Tuple.(*ssa.Call); ok {
					call, j = c, x.Index
				}
			}
			if call != nil {
				g := call.Call.StaticCallee()
				recursive := g == fn
				for c := ctx; c != nil; c = c.parent {
					if c.callee() == g {
						recursive = true
					}
				}
				if g != nil && !recursive && g.Blocks != nil && len(g.Blocks) <= 60 && len(ssaLoops(g)) == 0 && strings.HasPrefix(pkgPathOf(g), modPath) && j < g.Signature.Results().Len() {
					nctx := &symCtx{call: call, parent: ctx}
					for _, r := range s.retTableCtx(g, j, nctx, depth+1) {
						out = append(out, retRow{pcAndF(cond, r.cond), r.val, r.pos, r.ctx})
					}
					return
				}
			}
		}
		out = append(out, retRow{cond, s.Resolve(v, ctx), pos, ctx})
	}
	for _, b := range fn.Blocks {
		ret, ok := b.Instrs[len(b.Instrs)-1].(*ssa.Return)
		if !ok || len(ret.Results) <= idx || b == fn.Recover {
			continue
		}
		v := unspill(ret.Results[idx])
		// `return helper(...)`: every result is the corresponding result of one call
		forwards = false
		if len(ret.Results) == 1 {
			_, forwards = v.(*ssa.Call)
		} else {
			var tup ssa.Value
			forwards = true
			for k, rv := range ret.Results {
				ex, ok := unspill(rv).(*ssa.Extract)
				if !ok || ex.Index != k || (tup != nil && ex.Tuple != tup) {
					forwards = false
					break
				}
				tup = ex.Tuple
			}
		}
		if phi, ok := v.(*ssa.Phi); ok && phi.Block() == b {
			// one return statement fed by several assignments: split
			for i, e := range phi.Edges {
				pred := b.Preds[i]
				add(pcAndF(s.PathCond(fn.Blocks[0], pred, ctx), s.edgeCond(pred, b, ctx)), e, ret.Pos())
			}
			continue
		}
		add(s.PathCond(fn.Blocks[0], b, ctx), v, ret.Pos())
	}
	return out
}

// floatClass models for a float subject compared with zero / tested by math.Is*.
type floatClass int

const (
	fNeg floatClass = iota
	fZero
	fPos
	fNaN
	fPosInf
	fNegInf
)

// floatAtom evaluates an atom about subject (given by isSubj) in class c.
func floatAtom(a *pcAtom, isSubj func(ssa.Value) bool, c floatClass) (bool, bool) {
	sign := map[floatClass]int{fNeg: -1, fZero: 0, fPos: 1, fPosInf: 1, fNegInf: -1}
	isZero := func(v ssa.Value) bool {
		k, ok := v.(*ssa.Const)
		if !ok {
			return false
		}
		if k.Value == nil {
			return true
		}
		f, _ := constant.Float64Val(constant.ToFloat(k.Value))
		return f == 0
	}
	if a.op == token.EQL || a.op == token.LSS {
		var subjLeft bool
		switch {
		case a.x != nil && isSubj(a.x) && isZero(a.y):
			subjLeft = true
		case a.y != nil && isSubj(a.y) && isZero(a.x):
			subjLeft = false
		default:
			return false, false
		}
		if c == fNaN {
			return false, true
		}
		if a.op == token.EQL {
			return sign[c] == 0, true
		}
		if subjLeft {
			return sign[c] < 0, true
		}
		return sign[c] > 0, true
	}
	if bo, ok := a.v.(*ssa.BinOp); ok && (bo.Op == token.LEQ || bo.Op == token.GEQ) {
		var s int
		switch {
		case isSubj(bo.X) && isZero(bo.Y):
			s = 1
		case isSubj(bo.Y) && isZero(bo.X):
			s = -1
		default:
			return false, false
		}
		if c == fNaN {
			return false, true
		}
		if bo.Op == token.GEQ {
			s = -s
		}
		// s=1: subj <= 0 ; s=-1: subj >= 0
		if s == 1 {
			return sign[c] <= 0, true
		}
		return sign[c] >= 0, true
	}
	if call, ok := a.v.(*ssa.Call); ok && call.Call.StaticCallee() != nil && len(call.Call.Args) >= 1 && isSubj(call.Call.Args[0]) {
		switch call.Call.StaticCallee().String() {
		case "math.IsNaN":
			return c == fNaN, true
		case "math.IsInf":
			s, ok := intConstOf(call.Call.Args[1])
			if !ok {
				return false, false
			}
			switch {
			case s > 0:
				return c == fPosInf, true
			case s < 0:
				return c == fNegInf, true
			}
			return c == fPosInf || c == fNegInf, true
		case "math.Signbit":
			if c == fZero || c == fNaN {
				return false, false
			}
			return sign[c] < 0, true
		}
	}
	return false, false
}

// ---------------------------------------------------------------------------
// Owners: who-may-call tables name functions.  A helper that was split off a
// listed function and is used by nobody else does what the listed function
// did before; it is attributed to that function, so that extracting a helper
// does not make a reviewed call site look like a new one.

type ownerIndex struct {
	refs  map[*ssa.Function]map[*ssa.Function]bool // function -> functions that mention it
	iface map[string]bool                          // method names of the module's interfaces
}

func (w *World) owners() *ownerIndex {
	if w.ownerIdx != nil {
		return w.ownerIdx
	}
	oi := &ownerIndex{refs: map[*ssa.Function]map[*ssa.Function]bool{}, iface: map[string]bool{}}
	prog := w.SSA()
	for _, p := range prog.AllPackages() {
		if p.Pkg == nil || !strings.HasPrefix(p.Pkg.Path(), modPath) {
			continue
		}
		for _, m := range p.Members {
			if t, ok := m.(*ssa.Type); ok {
				if it, ok := t.Type().Underlying().(*types.Interface); ok {
					for i := 0; i < it.NumMethods(); i++ {
						oi.iface[it.Method(i).Name()] = true
					}
				}
			}
		}
		for _, f := range allFuncs(p) {
			if isTestFile(w, f.Pos()) {
				continue
			}
			for _, b := range f.Blocks {
				for _, in := range b.Instrs {
					for _, op := range in.Operands(nil) {
						if g, ok := (*op).(*ssa.Function); ok && g != nil {
							if oi.refs[g] == nil {
								oi.refs[g] = map[*ssa.Function]bool{}
							}
							oi.refs[g][f] = true
						}
					}
				}
			}
		}
	}
	w.ownerIdx = oi
	return oi
}

// OwnerChain returns f (closures lifted to the function that builds them)
// followed by the functions it is successively attributed to: the only
// function that mentions it, the only function that mentions that one, ...
// An exported function, a method that implements an interface of the module
// and a function mentioned by several others end the chain.
func (w *World) OwnerChain(f *ssa.Function) []*ssa.Function {
	oi := w.owners()
	for f.Parent() != nil {
		f = f.Parent()
	}
	chain := []*ssa.Function{f}
	seen := map[*ssa.Function]bool{f: true}
	for len(chain) < 5 {
		cur := chain[len(chain)-1]
		exported := cur.Object() != nil && cur.Object().Exported()
		isIfaceMethod := cur.Signature.Recv() != nil && oi.iface[cur.Name()]
		if exported || isIfaceMethod || nm(cur) == "init" || nm(cur) == "main" {
			break
		}
		var only *ssa.Function
		n := 0
		for g := range oi.refs[cur] {
			for g.Parent() != nil {
				g = g.Parent()
			}
			if g == cur {
				continue
			}
			if only != g {
				n++
				only = g
			}
		}
		if n != 1 || seen[only] {
			break
		}
		seen[only] = true
		chain = append(chain, only)
	}
	return chain
}

// OwnerOf returns the last function of f's owner chain.
func (w *World) OwnerOf(f *ssa.Function) *ssa.Function {
	c := w.OwnerChain(f)
	return c[len(c)-1]
}

// OwnedBy: root is f or one of the functions f is attributed to.
func (w *World) OwnedBy(f, root *ssa.Function) bool {
	for _, g := range w.OwnerChain(f) {
		if g == root {
			return true
		}
	}
	return false
}

func ssaPlainName(g *ssa.Function) string {
	if recv := g.Signature.Recv(); recv != nil {
		t := recv.Type()
		if p, ok := t.(*types.Pointer); ok {
			t = p.Elem()
		}
		if n, ok := t.(*types.Named); ok {
			return n.Obj().Name() + "." + g.Name()
		}
	}
	return g.Name()
}

// OwnerNames lists the names (funcDeclName style) along f's owner chain.
func (w *World) OwnerNames(f *ssa.Function) []string {
	var out []string
	for _, g := range w.OwnerChain(f) {
		out = append(out, ssaPlainName(g))
	}
	return out
}

// OwnerNamesOf: names along the owner chain of f (f's own name first).
func (w *World) OwnerNamesOf(f *types.Func) []string {
	sf := w.SSAFunc(f)
	if sf == nil {
		if sig, ok := f.Type().(*types.Signature); ok && sig.Recv() != nil {
			t := sig.Recv().Type()
			if p, ok := t.(*types.Pointer); ok {
				t = p.Elem()
			}
			if n, ok := t.(*types.Named); ok {
				return []string{n.Obj().Name() + "." + f.Name()}
			}
		}
		return []string{f.Name()}
	}
	return w.OwnerNames(sf)
}

// ownedDecls: the declaration of root and of the helpers attributed to it
// (functions of the same package that only root, directly or through such
// helpers, uses).
func (w *World) ownedDecls(pkgKey string, root *types.Func) []*ast.FuncDecl {
	p := w.Pkg(pkgKey)
	rootSSA := w.SSAFunc(root)
	var out []*ast.FuncDecl
	for _, fd := range funcDecls(p) {
		if isTestFile(w, fd.Pos()) {
			continue
		}
		f, ok := p.TypesInfo.Defs[fd.Name].(*types.Func)
		if !ok {
			continue
		}
		if f == root {
			out = append([]*ast.FuncDecl{fd}, out...)
			continue
		}
		if sf := w.SSAFunc(f); sf != nil && rootSSA != nil && w.OwnedBy(sf, rootSSA) {
			out = append(out, fd)
		}
	}
	return out
}

// pcValuesWhen: the values integer subject subj can have when f holds (the
// union, over the feasible assignments satisfying f, of what the tests on
// subj allow).  ok=false when f is not decided.
func pcValuesWhen(f *pcF, subj string) (ISet, bool) {
	as := f.atoms()
	if len(as) > 16 {
		return pcValuesWhenWide(f, subj)
	}
	var out ISet
	for m := 0; m < 1<<len(as); m++ {
		env := map[string]bool{}
		for i, a := range as {
			env[a.key] = m&(1<<i) != 0
		}
		if !pcFeasible(as, env) || !f.eval(env, map[*pcF]bool{}) {
			continue
		}
		cur := fullISet
		for _, a := range as {
			if a.subj != subj {
				continue
			}
			s := a.set
			if !env[a.key] {
				s = s.complement()
			}
			cur = cur.intersect(s)
		}
		out = out.union(cur)
	}
	return out, true
}

// pcImplies: in every feasible assignment that satisfies f, req holds for the
// named atoms ("" = holds, else a counterexample).
func pcImplies(f *pcF, classify func(*pcAtom) string, req func(env map[string]bool) bool) string {
	atoms := f.atoms()
	if len(atoms) > 16 {
		return fmt.Sprintf("condition has %d atomic tests, not decided", len(atoms))
	}
	for m := 0; m < 1<<len(atoms); m++ {
		env := map[string]bool{}
		named := map[string]bool{}
		for i, a := range atoms {
			v := m&(1<<i) != 0
			env[a.key] = v
			if n := classify(a); n != "" {
				if strings.HasPrefix(n, "!") {
					named[n[1:]] = !v
				} else {
					named[n] = v
				}
			}
		}
		if !pcFeasible(atoms, env) || !f.eval(env, map[*pcF]bool{}) {
			continue
		}
		if !req(named) {
			var parts []string
			for _, a := range atoms {
				parts = append(parts, fmt.Sprintf("%s=%v", a.key, env[a.key]))
			}
			if len(parts) == 0 {
				return "reached unconditionally"
			}
			return "reached with " + strings.Join(parts, ", ")
		}
	}
	return ""
}

// pcCompareWhere is pcCompare restricted to the assignments care() selects.
func pcCompareWhere(f *pcF, classify func(*pcAtom) string, care, want func(env map[string]bool) bool) string {
	return pcCompare(pcAndF(f, pcT), classify, nil2(care, want, f))
}

// nil2 builds a want that agrees with f wherever care() is false.
func nil2(care, want func(env map[string]bool) bool, f *pcF) func(env map[string]bool) bool {
	return func(env map[string]bool) bool {
		if care(env) {
			return want(env)
		}
		if v, ok := env["\x00actual"]; ok {
			return v
		}
		return false
	}
}

// loadedFieldName: v reads field f of some struct (x.f on a value, or a load
// through &x.f); the field's name, else "".
func loadedFieldName(v ssa.Value) string {
	switch x := v.(type) {
	case *ssa.Field:
		if st, ok := x.X.Type().Underlying().(*types.Struct); ok {
			return st.Field(x.Field).Name()
		}
	case *ssa.UnOp:
		if x.Op != token.MUL {
			return ""
		}
		if fa, ok := x.X.(*ssa.FieldAddr); ok {
			if pt, ok := fa.X.Type().Underlying().(*types.Pointer); ok {
				if st, ok := pt.Elem().Underlying().(*types.Struct); ok {
					return st.Field(fa.Field).Name()
				}
			}
		}
	}
	return ""
}

// searchLoop describes a function of the shape "look through a list; at the
// first element that satisfies a test, leave with result A; when the list is
// exhausted, leave with result B" — whatever the spelling (if/return in the
// body, guard with continue, helper …).  For every exit of the function it
// gives where it stands relative to the (one outermost) loop and the
// condition, within one iteration of the innermost loop containing it, under
// which it is taken.
type searchExit struct {
	block  *ssa.BasicBlock
	inLoop bool // taken in the middle of an iteration
	cond   *pcF // inLoop: from the innermost loop's header; else from the function entry
	ret    *ssa.Return
	list   ssa.Value // inLoop: the list scanned, when it is indexed by the loop's range counter (or handed to slices.ContainsFunc)
}

// RoundCond: the condition, within one iteration, under which the loop goes
// round again through latch lt (reaching lt and taking its edge to the header).
func (s *Sym) RoundCond(header, lt *ssa.BasicBlock, ctx *symCtx) *pcF {
	return pcAndF(s.PathCond(header, lt, ctx), s.edgeCond(lt, header, ctx))
}

// pcIsIter: the atom says "the scan has a further element".
func pcIsIter(a *pcAtom) bool {
	return a.iter || (a.op == token.LSS && a.x != nil && isRangeIndex(a.x))
}

// pcAssign: f with the atom of that key fixed.
func pcAssign(f *pcF, key string, val bool, memo map[*pcF]*pcF) *pcF {
	if g, ok := memo[f]; ok {
		return g
	}
	var g *pcF
	switch f.k {
	case pcAtomK:
		g = f
		if f.atom.key == key {
			g = pcZ
			if val {
				g = pcT
			}
		}
	case pcNot:
		g = pcNotF(pcAssign(f.a, key, val, memo))
	case pcAnd:
		g = pcAndF(pcAssign(f.a, key, val, memo), pcAssign(f.b, key, val, memo))
	case pcOr:
		g = pcOrF(pcAssign(f.a, key, val, memo), pcAssign(f.b, key, val, memo))
	default:
		g = f
	}
	memo[f] = g
	return g
}

// containsFuncCall: c is slices.ContainsFunc(list, test); the test's function.
func containsFuncCall(c *ssa.Call) (list ssa.Value, test *ssa.Function) {
	g := c.Call.StaticCallee()
	if g == nil || len(c.Call.Args) != 2 {
		return nil, nil
	}
	if o := g.Origin(); o != nil {
		g = o
	}
	if g.String() != "slices.ContainsFunc" {
		return nil, nil
	}
	switch x := c.Call.Args[1].(type) {
	case *ssa.MakeClosure:
		test, _ = x.Fn.(*ssa.Function)
	case *ssa.Function:
		test = x
	case *ssa.ChangeType:
		if mc, ok := x.X.(*ssa.MakeClosure); ok {
			test, _ = mc.Fn.(*ssa.Function)
		} else if fn, ok := x.X.(*ssa.Function); ok {
			test = fn
		}
	}
	if test == nil || test.Blocks == nil || len(ssaLoops(test)) > 0 {
		return nil, nil
	}
	return c.Call.Args[0], test
}

// outerValue: inside a function literal, the read of a captured variable that
// the enclosing function only ever sets to one value (a parameter, a value
// computed once) stands for that value.
func outerValue(v ssa.Value) ssa.Value {
	ld, ok := v.(*ssa.UnOp)
	if !ok || ld.Op != token.MUL {
		return v
	}
	fv, ok := ld.X.(*ssa.FreeVar)
	if !ok {
		return v
	}
	fn := fv.Parent()
	idx := -1
	for i, x := range fn.FreeVars {
		if x == fv {
			idx = i
		}
	}
	if idx < 0 || fn.Parent() == nil {
		return v
	}
	var cell ssa.Value
	for _, b := range fn.Parent().Blocks {
		for _, in := range b.Instrs {
			if mc, ok := in.(*ssa.MakeClosure); ok && mc.Fn == ssa.Value(fn) && idx < len(mc.Bindings) {
				if cell != nil && cell != mc.Bindings[idx] {
					return v
				}
				cell = mc.Bindings[idx]
			}
		}
	}
	a, ok := cell.(*ssa.Alloc)
	if !ok {
		return v
	}
	var stored ssa.Value
	for _, ref := range *a.Referrers() {
		switch x := ref.(type) {
		case *ssa.Store:
			if x.Addr != ssa.Value(a) || stored != nil {
				return v
			}
			stored = x.Val
		case *ssa.UnOp, *ssa.MakeClosure, *ssa.DebugRef:
		default:
			return v
		}
	}
	if stored == nil {
		return v
	}
	return stored
}

func searchExits(sym *Sym, f *ssa.Function) []searchExit {
	var out []searchExit
	loops := ssaLoops(f)
	listOf := func(l *ssaLoop) ssa.Value {
		var list ssa.Value
		for b := range l.body() {
			for _, in := range b.Instrs {
				if ia, ok := in.(*ssa.IndexAddr); ok && isRangeIndex(ia.Index) {
					if list != nil && list != ia.X {
						return nil
					}
					list = ia.X
				}
			}
		}
		return list
	}
	for _, b := range f.Blocks {
		ret, ok := b.Instrs[len(b.Instrs)-1].(*ssa.Return)
		if !ok || b == f.Recover {
			continue
		}
		// innermost loop in whose iteration the exit is taken
		var best *ssaLoop
		bestN := 0
		for i := range loops {
			l := loops[i]
			body := l.body()
			if body[b] || (l.Header.Dominates(b) && b != l.Header && reachesLatchFree(b, l)) {
				if best == nil || len(body) < bestN {
					best, bestN = &loops[i], len(body)
				}
			}
		}
		if best != nil {
			out = append(out, searchExit{b, true, sym.PathCond(best.Header, b, nil), ret, listOf(best)})
			continue
		}
		// the scan written as slices.ContainsFunc(list, test): an exit taken when it says yes is
		// an exit in the middle of the scan, under the test's own condition on the element
		split := false
		for _, cb := range f.Blocks {
			if split || !(cb == b || cb.Dominates(b)) {
				continue
			}
			for _, in := range cb.Instrs {
				c, isC := in.(*ssa.Call)
				if !isC {
					continue
				}
				list, test := containsFuncCall(c)
				if test == nil {
					continue
				}
				after := sym.PathCond(cb, b, nil)
				key := sym.Key(c, nil)
				has := false
				for _, a := range after.atoms() {
					if a.key == key {
						has = true
					}
				}
				if !has {
					continue
				}
				split = true
				yes, no := pcAssign(after, key, true, map[*pcF]*pcF{}), pcAssign(after, key, false, map[*pcF]*pcF{})
				if pcSat(yes) {
					iter := &pcF{k: pcAtomK, atom: &pcAtom{key: "∃" + key, iter: true, v: c}}
					out = append(out, searchExit{b, true, pcAndF(pcAndF(iter, sym.ResultCond(test, nil)), yes), ret, list})
				}
				if pcSat(no) {
					out = append(out, searchExit{b, false, pcAndF(sym.PathCond(f.Blocks[0], cb, nil), no), ret, nil})
				}
				break
			}
		}
		if !split {
			out = append(out, searchExit{b, false, sym.PathCond(f.Blocks[0], b, nil), ret, nil})
		}
	}
	return out
}

// readsParam: v is parameter p, or a read of the cell p was spilled into
// (parameters captured by a closure live in a cell) when nothing else is ever
// stored into that cell by this function.
func readsParam(v ssa.Value, p *ssa.Parameter) bool {
	if v == ssa.Value(p) {
		return true
	}
	ld, ok := v.(*ssa.UnOp)
	if !ok || ld.Op != token.MUL {
		return false
	}
	a, ok := ld.X.(*ssa.Alloc)
	if !ok {
		return false
	}
	n := 0
	for _, ref := range *a.Referrers() {
		if st, ok := ref.(*ssa.Store); ok && st.Addr == ssa.Value(a) {
			if st.Val != ssa.Value(p) {
				return false
			}
			n++
		}
	}
	return n == 1
}

// pcEvalFree is pcEvalUnder for models that leave some atoms open: the result
// is reported only when it is the same for every value of the open atoms.
func pcEvalFree(f *pcF, val func(*pcAtom) (bool, bool)) (res bool, ok bool) {
	env := map[string]bool{}
	var free []*pcAtom
	for _, a := range f.atoms() {
		v, known := val(a)
		if known {
			env[a.key] = v
		} else {
			free = append(free, a)
		}
	}
	if len(free) > 12 {
		return false, false
	}
	first := true
	for m := 0; m < 1<<len(free); m++ {
		for i, a := range free {
			env[a.key] = m&(1<<i) != 0
		}
		v := f.eval(env, map[*pcF]bool{})
		if first {
			res, first = v, false
		} else if v != res {
			return false, false
		}
	}
	return res, true
}

// origin of a value, read through loop-free helpers of the module: for
// v = helper(args)[i] the values the helper returns at position i (constants
// such as the nil of an error exit left out), with the helper's parameters
// followed back to the arguments.
type originRef struct {
	v    ssa.Value
	ctx  *symCtx
	cond *pcF // condition, inside the helpers read through, of the exits that return v
}

// pcSat: some feasible assignment satisfies f (undecided counts as satisfiable).
func pcSat(f *pcF) bool {
	as := f.atoms()
	if len(as) > 16 {
		return true
	}
	for m := 0; m < 1<<len(as); m++ {
		env := map[string]bool{}
		for i, a := range as {
			env[a.key] = m&(1<<i) != 0
		}
		if pcFeasible(as, env) && f.eval(env, map[*pcF]bool{}) {
			return true
		}
	}
	return false
}

func (s *Sym) Origins(v ssa.Value, ctx *symCtx, depth int) []originRef {
	return s.originsCond(v, ctx, depth, pcT)
}

func (s *Sym) originsCond(v ssa.Value, ctx *symCtx, depth int, cond *pcF) []originRef {
	v = s.Resolve(v, ctx)
	if _, isParam := v.(*ssa.Parameter); isParam {
		// resolved into the caller's frame
		for c := ctx; c != nil; c = c.parent {
			if c.call != nil && c.call.Parent() == valueParent(v) {
				ctx = c.parent
			}
		}
	}
	if depth > 3 {
		return []originRef{{v, ctx, cond}}
	}
	var call *ssa.Call
	idx := 0
	switch x := v.(type) {
	case *ssa.Call:
		call = x
	case *ssa.Extract:
		if c, ok := x.Tuple.(*ssa.Call); ok {
			call, idx = c, x.Index
		}
	}
	if call == nil {
		return []originRef{{v, ctx, cond}}
	}
	g := call.Call.StaticCallee()
	if g == nil || g.Blocks == nil || len(ssaLoops(g)) > 0 || !strings.HasPrefix(pkgPathOf(g), modPath) || idx >= g.Signature.Results().Len() ||
		(s.originStop != nil && s.originStop(g)) {
		return []originRef{{v, ctx, cond}}
	}
	nctx := &symCtx{call: call, parent: ctx}
	var out []originRef
	for _, b := range g.Blocks {
		ret, ok := b.Instrs[len(b.Instrs)-1].(*ssa.Return)
		if !ok || b == g.Recover || len(ret.Results) <= idx {
			continue
		}
		rv := unspill(ret.Results[idx])
		if _, isConst := rv.(*ssa.Const); isConst {
			continue
		}
		out = append(out, s.originsCond(rv, nctx, depth+1, pcAndF(cond, s.PathCond(g.Blocks[0], b, nctx)))...)
	}
	if len(out) == 0 {
		return []originRef{{v, ctx, cond}}
	}
	return out
}

func valueParent(v ssa.Value) *ssa.Function {
	switch x := v.(type) {
	case *ssa.Parameter:
		return x.Parent()
	case ssa.Instruction:
		return x.Parent()
	}
	return nil
}

// pcTableLookup: v is table[index] of a package-level map literal the module
// only reads — either the bool element of a map whose values are all true, or
// the presence flag of `_, ok := table[index]`.  The constant keys are returned.
func pcTableLookup(w *World, v ssa.Value) (keys []constant.Value, index ssa.Value, ok bool) {
	keys, _, index, ok = pcTableEntries(w, v, false)
	return
}

// pcTableEntries is pcTableLookup that also accepts the element itself
// (table[index], or the first result of the comma-ok form) when asElem is
// set, and returns the constant values beside the keys (nil where an entry's
// value is not a constant).
func pcTableEntries(w *World, v ssa.Value, asElem bool) (keys, vals []constant.Value, index ssa.Value, ok bool) {
	var lk *ssa.Lookup
	wantTrue := false
	switch x := v.(type) {
	case *ssa.Lookup:
		if x.CommaOk {
			return nil, nil, nil, false
		}
		lk, wantTrue = x, !asElem
	case *ssa.Extract:
		l, isL := x.Tuple.(*ssa.Lookup)
		if !isL || !l.CommaOk || (x.Index != 1 && !(asElem && x.Index == 0)) {
			return nil, nil, nil, false
		}
		lk = l
	default:
		return nil, nil, nil, false
	}
	ld, isLd := lk.X.(*ssa.UnOp)
	if !isLd || ld.Op != token.MUL {
		return nil, nil, nil, false
	}
	g, isG := ld.X.(*ssa.Global)
	if !isG {
		return nil, nil, nil, false
	}
	tv, isV := g.Object().(*types.Var)
	if !isV || !w.InRepoObj(tv) {
		return nil, nil, nil, false
	}
	if _, isMap := tv.Type().Underlying().(*types.Map); !isMap {
		return nil, nil, nil, false
	}
	init, ip := w.VarInit(tv)
	cl, isCL := ast.Unparen(init).(*ast.CompositeLit)
	if !isCL {
		return nil, nil, nil, false
	}
	for _, el := range cl.Elts {
		kv, isKV := el.(*ast.KeyValueExpr)
		if !isKV {
			return nil, nil, nil, false
		}
		k := ConstOf(ip, kv.Key)
		if k == nil {
			return nil, nil, nil, false
		}
		if wantTrue {
			if c := ConstOf(ip, kv.Value); c == nil || c.Kind() != constant.Bool || !constant.BoolVal(c) {
				return nil, nil, nil, false
			}
		}
		keys = append(keys, k)
		vals = append(vals, ConstOf(ip, kv.Value))
	}
	if !w.readOnlyTable(tv) {
		return nil, nil, nil, false
	}
	return keys, vals, lk.Index, true
}

// stringDecision reads a loop-free function that maps a string parameter to
// an integer constant — by comparisons with constant words, a switch, or a
// lookup in a read-only table literal — as the word → value map it computes.
// Exits that do not return a constant (an error path, say) leave their words
// out.  Words: every constant the parameter is compared with and every key
// of a table it is looked up in.
func stringDecision(w *World, f *ssa.Function, pidx int) (map[string]int64, string) {
	if f == nil || pidx >= len(f.Params) || len(ssaLoops(f)) > 0 {
		return nil, "shape not recognised"
	}
	param := f.Params[pidx]
	sym := NewSym(w)
	rows := sym.retTable(f, 0)
	words := map[string]bool{}
	isParam := func(v ssa.Value) bool {
		for {
			switch x := v.(type) {
			case *ssa.ChangeType:
				v = x.X
				continue
			case *ssa.Convert:
				v = x.X
				continue
			}
			break
		}
		return readsParam(v, param)
	}
	wordOf := func(a *pcAtom) (string, bool) {
		if a.op != token.EQL || a.x == nil || a.y == nil {
			return "", false
		}
		for _, pr := range [][2]ssa.Value{{a.x, a.y}, {a.y, a.x}} {
			if c, ok := pr[0].(*ssa.Const); ok && c.Value != nil && c.Value.Kind() == constant.String && isParam(pr[1]) {
				return constant.StringVal(c.Value), true
			}
		}
		return "", false
	}
	note := func(v ssa.Value) {
		if keys, _, idx, ok := pcTableEntries(w, v, true); ok && isParam(idx) {
			for _, k := range keys {
				if k.Kind() == constant.String {
					words[constant.StringVal(k)] = true
				}
			}
		}
	}
	for _, row := range rows {
		for _, a := range row.cond.atoms() {
			if wd, ok := wordOf(a); ok {
				words[wd] = true
			}
			note(a.v)
		}
		note(row.val)
	}
	out := map[string]int64{}
	for wd := range words {
		model := func(a *pcAtom) (bool, bool) {
			if c, ok := wordOf(a); ok {
				return c == wd, true
			}
			if a.subj != "" && strings.HasPrefix(a.subj, "len(") {
				if bo, ok := a.v.(*ssa.BinOp); ok {
					for _, side := range []ssa.Value{bo.X, bo.Y} {
						if arg, ok := isLenCall(side); ok && isParam(arg) {
							return a.set.contains(int64(len(wd))), true
						}
					}
				}
			}
			if keys, _, idx, ok := pcTableEntries(w, a.v, false); ok && isParam(idx) {
				for _, k := range keys {
					if k.Kind() == constant.String && constant.StringVal(k) == wd {
						return true, true
					}
				}
				return false, true
			}
			return false, false
		}
		n := 0
		for _, row := range rows {
			hit, decided := pcEvalFree(row.cond, model)
			if !decided {
				return nil, "the value for \"" + wd + "\" depends on more than the word"
			}
			if !hit {
				continue
			}
			n++
			if c, ok := intConstOf(row.val); ok {
				out[wd] = c
				continue
			}
			if keys, vals, idx, ok := pcTableEntries(w, row.val, true); ok && isParam(idx) {
				for i, k := range keys {
					if k.Kind() == constant.String && constant.StringVal(k) == wd && vals[i] != nil {
						if iv, isInt := constant.Int64Val(constant.ToInt(vals[i])); isInt {
							out[wd] = iv
						}
					}
				}
			}
		}
		if n != 1 {
			return nil, fmt.Sprintf("%d exits are taken for \"%s\"", n, wd)
		}
	}
	return out, ""
}

// pcValuesWhenWide is pcValuesWhen for formulas with many tests of the one
// subject (a long switch): the integer line is cut at every bound that occurs
// in a test of the subject, one value of each piece is tried, and the few
// other atoms are enumerated.
func pcValuesWhenWide(f *pcF, subj string) (ISet, bool) {
	var own, other []*pcAtom
	for _, a := range f.atoms() {
		if a.subj == subj {
			own = append(own, a)
		} else {
			other = append(other, a)
		}
	}
	if len(other) > 12 || len(own) > 400 {
		return nil, false
	}
	cuts := map[int64]bool{math.MinInt64: true}
	for _, a := range own {
		for _, iv := range a.set {
			cuts[iv.lo] = true
			if iv.hi < math.MaxInt64 {
				cuts[iv.hi+1] = true
			}
		}
	}
	var starts []int64
	for c := range cuts {
		starts = append(starts, c)
	}
	sort.Slice(starts, func(i, j int) bool { return starts[i] < starts[j] })
	all := f.atoms()
	var out ISet
	for i, lo := range starts {
		hi := int64(math.MaxInt64)
		if i+1 < len(starts) {
			hi = starts[i+1] - 1
		}
		env := map[string]bool{}
		for _, a := range own {
			env[a.key] = a.set.contains(lo)
		}
		sat := false
		for m := 0; m < 1<<len(other) && !sat; m++ {
			for j, a := range other {
				env[a.key] = m&(1<<j) != 0
			}
			if pcFeasible(all, env) && f.eval(env, map[*pcF]bool{}) {
				sat = true
			}
		}
		if sat {
			out = out.union(ISet{{lo, hi}})
		}
	}
	return out, true
}

// ValueUnder follows v back through the phis of fn to the one incoming value
// whose edge is taken under the model (atoms the model does not know may not
// matter).  ok is false when that is not decided.
func (s *Sym) ValueUnder(fn *ssa.Function, v ssa.Value, model func(*pcAtom) (bool, bool), depth int) (ssa.Value, bool) {
	for {
		if ct, ok := v.(*ssa.ChangeType); ok {
			v = ct.X
			continue
		}
		break
	}
	phi, ok := v.(*ssa.Phi)
	if !ok || depth > 8 {
		return v, true
	}
	var picked ssa.Value
	n := 0
	for i, e := range phi.Edges {
		pred := phi.Block().Preds[i]
		cond := pcAndF(s.PathCond(fn.Blocks[0], pred, nil), s.edgeCond(pred, phi.Block(), nil))
		val, decided := pcEvalFree(cond, model)
		if !decided {
			return nil, false
		}
		if val {
			n++
			picked = e
		}
	}
	if n != 1 {
		return nil, false
	}
	return s.ValueUnder(fn, picked, model, depth+1)
}

package main

import (
	"fmt"
	"go/token"
	"go/types"
	"os"
	"sort"
	"strings"

	"golang.org/x/tools/go/ssa"
)

func init() { register("C06", checkC06) }

// instructionFuncs: every function value that can be stored in Inst.fn — the
// fn argument of CodeFn / CodeSubMachine / newInst* at every call site.
type instFn struct {
	closure *ssa.MakeClosure // nil for plain functions
	fn      *ssa.Function
	site    token.Pos
}

func instructionFuncs(w *World) []instFn {
	// An instruction is whatever is stored into Inst.fn.  The stored value is
	// followed back to the function values it can be: through parameters to
	// the arguments of every caller (CodeFn → newInst and the like, whatever
	// they are called), through phis, and into helpers that return a closure.
	fnField := w.Field("xpath", "Inst", "fn")
	keys := []string{"xpath", "xpath/grammars/expr", "xpath/grammars/leafref", "xpath/grammars/path_eval"}
	callers := map[*ssa.Function][]*ssa.Call{}
	var stores []*ssa.Store
	for _, key := range keys {
		for _, fn := range allFuncs(w.SSAPkg(key)) {
			if isTestFile(w, fn.Pos()) {
				continue
			}
			for _, b := range fn.Blocks {
				for _, in := range b.Instrs {
					switch x := in.(type) {
					case *ssa.Call:
						if sc := x.Call.StaticCallee(); sc != nil {
							callers[sc] = append(callers[sc], x)
						}
					case *ssa.Store:
						if fa, ok := x.Addr.(*ssa.FieldAddr); ok && isFieldAddrOf(fa, fnField) {
							stores = append(stores, x)
						}
					}
				}
			}
		}
	}
	var out []instFn
	seen := map[*ssa.Function]bool{}
	visited := map[ssa.Value]bool{}
	add := func(mc *ssa.MakeClosure, f *ssa.Function, site token.Pos) {
		if f == nil {
			out = append(out, instFn{fn: nil, site: site})
			return
		}
		if !seen[f] {
			seen[f] = true
			out = append(out, instFn{closure: mc, fn: f, site: site})
		}
	}
	var origins func(v ssa.Value, site token.Pos, depth int)
	origins = func(v ssa.Value, site token.Pos, depth int) {
		for {
			if ct, ok := v.(*ssa.ChangeType); ok {
				v = ct.X
				continue
			}
			break
		}
		if visited[v] {
			return
		}
		visited[v] = true
		if depth > 6 {
			add(nil, nil, site)
			return
		}
		switch x := v.(type) {
		case *ssa.MakeClosure:
			add(x, x.Fn.(*ssa.Function), site)
		case *ssa.Function:
			add(nil, x, site)
		case *ssa.Const:
			if !x.IsNil() {
				add(nil, nil, site)
			}
		case *ssa.Phi:
			for _, e := range x.Edges {
				origins(e, site, depth+1)
			}
		case *ssa.Parameter:
			fn := x.Parent()
			idx := -1
			for i, p := range fn.Params {
				if p == x {
					idx = i
				}
			}
			if len(callers[fn]) == 0 && fn.Object() != nil && fn.Object().Exported() {
				// an exported entry point nobody in the module calls: the caller's business
				return
			}
			for _, c := range callers[fn] {
				if idx >= 0 && idx < len(c.Call.Args) {
					origins(c.Call.Args[idx], c.Pos(), depth+1)
				}
			}
		case *ssa.Call:
			// e.g. CodeFn(progBldr.NewPathStackFromActual(), …): the returned closure
			found := false
			if callee := x.Call.StaticCallee(); callee != nil {
				for _, bb := range callee.Blocks {
					for _, ii := range bb.Instrs {
						if mc, ok := ii.(*ssa.MakeClosure); ok {
							found = true
							add(mc, mc.Fn.(*ssa.Function), site)
						}
					}
				}
			}
			if !found {
				add(nil, nil, site)
			}
		case *ssa.UnOp:
			// a copy of an instruction that already exists (Inst values are copied around)
			if fa, ok := x.X.(*ssa.FieldAddr); ok && isFieldAddrOf(fa, fnField) {
				return
			}
			add(nil, nil, site)
		case *ssa.Field:
			return
		default:
			add(nil, nil, site)
		}
	}
	for _, st := range stores {
		origins(st.Val, st.Pos(), 0)
	}
	sort.Slice(out, func(i, j int) bool {
		a, b := "", ""
		if out[i].fn != nil {
			a = out[i].fn.String()
		}
		if out[j].fn != nil {
			b = out[j].fn.String()
		}
		return a < b
	})
	return out
}

func checkC06(w *World, r *Report) {
	r.NotDecided = []string{
		"interleavings as such: the rules establish that concurrent runs and compilations have no shared mutable state, which is the premise of 'every run returns what it would return in isolation'",
		"Entry implementations and plugin functions (opaque); callers that invoke the exported RegisterCustomFunctions concurrently with compilation",
	}
	r.Assumptions = []string{
		"the write-set analysis is sound for go/ssa with static callees, in-module interface implementations resolved by method set, external calls treated as mutating unless in a small pure list (math, strconv, strings, unicode, fmt, errors, bytes, regexp)",
	}
	eff := NewEffects(w)

	r.Rule("R06.1", "machines are frozen after construction: no store to a field of Machine, Inst or Symbol, and no store into an []Inst element, outside a constructor that writes a fresh value", 3)
	r.guard("R06.1", func() { c06Frozen(w, r, eff) })

	r.Rule("R06.2", "instructions write only their context: for every function value that can reach Inst.fn, nothing reachable from a captured variable (or a bound receiver) is written, leaked to a mutating callee, or stored elsewhere; no instruction writes a package-level variable", 30)
	r.guard("R06.2", func() { c06InstructionWrites(w, r, eff) })

	r.Rule("R06.3", "package-level state of the xpath packages is never written after initialisation, or every write happens with the exclusive lock mu held and every read with mu held (read or write mode)", 3)
	r.guard("R06.3", func() { c06Globals(w, r) })

	r.Rule("R06.6", "every lock taken in the xpath packages is released on every path of the function that takes it (deferred or explicit), and nothing is unlocked that was not locked", 3)
	r.guard("R06.6", func() {
		if lockPairing(w, r, "R06.6", []string{"xpath", "xpath/grammars/expr", "xpath/grammars/leafref", "xpath/grammars/path_eval", "xpath/xutils"}, "a path that returns with the function-table mutex held blocks every later compilation and validating run") == 0 {
			panic(undecided{"no function takes a lock"})
		}
	})

	r.Rule("R06.7", "a closure that outlives the call that created it (instructions, wrappers put into the function table, matchers) never writes a variable captured from that call's frame: such a variable would be one cell shared by all invocations", 1)
	r.guard("R06.7", func() { c06CapturedWrites(w, r) })

	r.Rule("R06.8", "the path stack of a run holds only paths the run owns: every value handed to PathStack.PushPath is freshly built (&sdcpb.Path{}, possibly through a builder method on it) or a DeepCopy — never a path object obtained from the tree, which the following steps would extend in place for every later and every concurrent run", 4)
	r.guard("R06.8", func() { c06OwnedPaths(w, r) })

	r.Rule("R06.4", "generated parsers are re-entrant: each <p>Parse allocates its parser state per call", 3)
	r.guard("R06.4", func() { c06Reentrant(w, r) })

	r.Rule("R06.5", "per-run state is fresh: the context constructors allocate the Result, path stack and predicate stack per call and share only the program and strings with the machine", 2)
	r.guard("R06.5", func() { c06FreshContext(w, r) })
}

// c06OwnedPaths (R06.8): what reaches PathStack.PushPath.
func c06OwnedPaths(w *World, r *Report) {
	push := w.Method("xpath", "PathStack", "PushPath")
	var owned func(v ssa.Value, d int) (bool, string)
	owned = func(v ssa.Value, d int) (bool, string) {
		if d > 6 {
			return false, "too deep"
		}
		switch x := v.(type) {
		case *ssa.Alloc:
			return true, "fresh"
		case *ssa.Call:
			c := x.Call
			name := ""
			if c.IsInvoke() {
				name = c.Method.Name()
			} else if sc := c.StaticCallee(); sc != nil {
				name = sc.Name()
			}
			if name == "DeepCopy" {
				return true, "copy"
			}
			// builder method on an owned receiver that returns the receiver's type
			if !c.IsInvoke() && c.StaticCallee() != nil && c.Signature().Recv() != nil && len(c.Args) > 0 && c.Signature().Results().Len() == 1 &&
				types.Identical(c.Signature().Results().At(0).Type(), c.Signature().Recv().Type()) {
				if ok, how := owned(c.Args[0], d+1); ok {
					return true, how + " via " + name
				}
			}
			return false, "result of " + name + "()"
		case *ssa.Phi:
			for _, e := range x.Edges {
				if ok, how := owned(e, d+1); !ok {
					return false, how
				}
			}
			return true, "fresh/copy on every edge"
		}
		return false, fmt.Sprintf("%T", v)
	}
	n := 0
	for _, ev := range pathStackPushes(w) {
		n++
		ok2, how := owned(ev.val, 0)
		r.Check(ok2, "R06.8", ev.fn.String()+": PushPath("+w.ExprNear(ev.pos)+")", ev.pos, how, "a path that is "+how+" is put on the run's path stack: the steps after it append to that object, so an Entry that returns its stored path has it grow with every run (deref(a)/../b navigates target/../b, then target/../b/../b) and concurrent runs race on it")
	}
	if n == 0 {
		panic(undecided{"no call of PathStack.PushPath"})
	}
	_ = push
}

// pathPush is one place where a path is put on a run's path stack: a call of
// PathStack.PushPath, or an append to PathStack.stack written out in place.
type pathPush struct {
	fn  *ssa.Function
	pos token.Pos
	val ssa.Value
}

func pathStackPushes(w *World) []pathPush {
	push := w.SSAFunc(w.Method("xpath", "PathStack", "PushPath"))
	stack := w.Field("xpath", "PathStack", "stack")
	var out []pathPush
	for _, fn := range allFuncs(w.SSAPkg("xpath")) {
		if isTestFile(w, fn.Pos()) {
			continue
		}
		for _, b := range fn.Blocks {
			for _, in := range b.Instrs {
				switch x := in.(type) {
				case ssa.CallInstruction:
					if push != nil && x.Common().StaticCallee() == push && len(x.Common().Args) == 2 {
						out = append(out, pathPush{fn, x.Pos(), x.Common().Args[1]})
					}
				case *ssa.Store:
					fa, ok := x.Addr.(*ssa.FieldAddr)
					if !ok || !isFieldAddrOf(fa, stack) || fn == push {
						continue
					}
					ap, ok := x.Val.(*ssa.Call)
					if !ok {
						continue
					}
					if bi, isB := ap.Call.Value.(*ssa.Builtin); !isB || bi.Name() != "append" || len(ap.Call.Args) != 2 {
						continue
					}
					// the element(s) appended: stores into the one-element array behind the variadic slice
					if sl, ok := ap.Call.Args[1].(*ssa.Slice); ok {
						if al, ok := sl.X.(*ssa.Alloc); ok {
							for _, ref := range *al.Referrers() {
								if ia, ok := ref.(*ssa.IndexAddr); ok {
									for _, r2 := range *ia.Referrers() {
										if st, ok := r2.(*ssa.Store); ok && st.Addr == ssa.Value(ia) {
											out = append(out, pathPush{fn, x.Pos(), st.Val})
										}
									}
								}
							}
						}
					}
				}
			}
		}
	}
	return out
}

func namedStructOf(t types.Type) string {
	if p, ok := t.Underlying().(*types.Pointer); ok {
		t = p.Elem()
	}
	if n, ok := t.(*types.Named); ok {
		if n.Obj().Pkg() != nil && n.Obj().Pkg().Path() == modPath+"/xpath" {
			return n.Obj().Name()
		}
	}
	return ""
}

func c06Frozen(w *World, r *Report, eff *Effects) {
	frozen := map[string]bool{"Machine": true, "Inst": true, "Symbol": true}
	counts := map[string]int{}
	bad := 0
	w.SSA()
	for _, pk := range w.All {
		key := strings.TrimPrefix(strings.TrimPrefix(pk.PkgPath, modPath), "/")
		sp := w.ssaPkgs[key]
		if sp == nil {
			continue
		}
		for _, fn := range allFuncs(sp) {
			if isTestFile(w, fn.Pos()) {
				continue
			}
			for _, b := range fn.Blocks {
				for _, in := range b.Instrs {
					st, ok := in.(*ssa.Store)
					if !ok {
						continue
					}
					target := ""
					var base ssa.Value
					switch a := st.Addr.(type) {
					case *ssa.FieldAddr:
						if n := namedStructOf(a.X.Type()); frozen[n] {
							target, base = n, a.X
						}
					case *ssa.IndexAddr:
						if sl, ok := a.X.Type().Underlying().(*types.Slice); ok {
							if n := namedStructOf(sl.Elem()); n == "Inst" {
								target, base = "[]Inst element", a.X
							}
						}
					}
					if target == "" {
						continue
					}
					counts[target]++
					rs := eff.rootsOf(base)
					if os.Getenv("YV_DEBUG") != "" {
						fmt.Printf("DEBUG R06.1 %s in %s: fresh=%v params=%d frees=%d globals=%d\n", target, funcKey(fn), rs.fresh, len(rs.params), len(rs.frees), len(rs.globals))
					}
					fresh := rs.fresh && len(rs.params) == 0 && len(rs.frees) == 0 && len(rs.globals) == 0
					// append's internal element store: `append(prog, i)` shows up as a call, not a store
					if !fresh {
						bad++
						r.Fail("R06.1", fmt.Sprintf("store to %s in %s", target, funcKey(fn)), st.Pos(), "a compiled machine (or a symbol shared by all machines) is modified after construction: concurrent and repeated runs no longer see the same program")
					}
				}
			}
		}
	}
	var ks []string
	for k, v := range counts {
		ks = append(ks, fmt.Sprintf("%s:%d", k, v))
	}
	sort.Strings(ks)
	if len(counts) == 0 {
		// the constructors do store into fresh values: seeing none means nothing was looked at
		r.Fail("R06.1", "stores looked at", token.NoPos, "no store to a Machine, Inst or Symbol field was seen at all: the rule would pass vacuously")
	}
	if bad == 0 {
		for _, n := range []string{"Machine", "Inst", "Symbol"} {
			r.OK("R06.1", n+" field stores", token.NoPos, "only on fresh values in constructors ["+strings.Join(ks, " ")+"]")
		}
	}
}

func c06InstructionWrites(w *World, r *Report, eff *Effects) {
	ifs := instructionFuncs(w)
	r.Count("instruction functions", len(ifs))
	for _, f := range ifs {
		if f.fn == nil {
			r.Fail("R06.2", "instruction at "+w.PosStr(f.site), f.site, "function value handed to CodeFn cannot be resolved")
			continue
		}
		name := funcKey(f.fn)
		bad := false
		// captured variables
		for j, fv := range f.fn.FreeVars {
			if !pointerLike(fv.Type()) {
				continue
			}
			if m, why, pos := eff.Mutates(slot{fn: f.fn, free: true, idx: j}); m {
				bad = true
				r.Fail("R06.2", fmt.Sprintf("%s captured %s", name, fv.Name()), pos, "state captured at compile time is shared by every run of the machine and is "+why+": concurrent or repeated runs interfere")
			}
		}
		// non-context parameters of plain functions (none expected) are not shared.
		// global writes anywhere in the transitive cone
		for _, g := range globalWrites(w, f.fn, map[*ssa.Function]bool{}) {
			bad = true
			r.Fail("R06.2", fmt.Sprintf("%s writes %s", name, g.name), g.pos, "an instruction writes package-level state without the lock mu: data race between concurrent runs")
		}
		if !bad {
			r.OK("R06.2", name, f.fn.Pos(), fmt.Sprintf("%d captured variable(s); writes confined to the context", len(f.fn.FreeVars)))
		}
	}
}

type gwrite struct {
	name string
	pos  token.Pos
}

// globalWrites lists writes to package-level variables in fn and its static
// in-module callees that are not made under mu.Lock.
func globalWrites(w *World, fn *ssa.Function, seen map[*ssa.Function]bool) []gwrite {
	if fn == nil || seen[fn] || fn.Blocks == nil {
		return nil
	}
	seen[fn] = true
	if fn.Pkg == nil || !strings.HasPrefix(fn.Pkg.Pkg.Path(), modPath) {
		return nil
	}
	var out []gwrite
	locked := holdsExclusive(w, fn)
	eff := NewEffects(w)
	for _, b := range fn.Blocks {
		for _, in := range b.Instrs {
			switch x := in.(type) {
			case *ssa.Store:
				for g := range eff.rootsOf(x.Addr).globals {
					if !locked {
						out = append(out, gwrite{g.Name(), x.Pos()})
					}
				}
			case *ssa.MapUpdate:
				for g := range eff.rootsOf(x.Map).globals {
					if !locked {
						out = append(out, gwrite{g.Name(), x.Pos()})
					}
				}
			case ssa.CallInstruction:
				if c := x.Common().StaticCallee(); c != nil {
					if locked {
						continue // callee runs under the caller's lock
					}
					out = append(out, globalWrites(w, c, seen)...)
				}
				// bound-method wrappers and closures created here are analysed when called
			}
		}
	}
	for _, a := range fn.AnonFuncs {
		_ = a
	}
	return out
}

// holdsExclusive: the function acquires mu.Lock() (sync.Mutex or the write
// mode of sync.RWMutex) in its entry block and releases it by defer.
func holdsExclusive(w *World, fn *ssa.Function) bool {
	return lockMode(w, fn) == 2
}

// lockMode: 0 none, 1 read lock, 2 exclusive
func lockMode(w *World, fn *ssa.Function) int {
	if len(fn.Blocks) == 0 {
		return 0
	}
	mode := 0
	deferred := false
	for _, in := range fn.Blocks[0].Instrs {
		switch x := in.(type) {
		case *ssa.Call:
			if c := x.Call.StaticCallee(); c != nil && isMuArg(w, x.Call.Args) {
				switch c.String() {
				case "(*sync.Mutex).Lock", "(*sync.RWMutex).Lock":
					mode = 2
				case "(*sync.RWMutex).RLock":
					if mode == 0 {
						mode = 1
					}
				}
			}
		case *ssa.Defer:
			if c := x.Call.StaticCallee(); c != nil && isMuArg(w, x.Call.Args) {
				switch c.String() {
				case "(*sync.Mutex).Unlock", "(*sync.RWMutex).Unlock", "(*sync.RWMutex).RUnlock":
					deferred = true
				}
			}
		}
	}
	if !deferred {
		return 0
	}
	return mode
}

func isMuArg(w *World, args []ssa.Value) bool {
	if len(args) == 0 {
		return false
	}
	g, ok := args[0].(*ssa.Global)
	return ok && g.Pkg != nil && g.Pkg.Pkg.Path() == modPath+"/xpath" && nm(g) == "mu"
}

func c06Globals(w *World, r *Report) { c06GlobalsRule(w, r, "R06.3") }

var c06XPathKeys = []string{"xpath", "xpath/xutils", "xpath/grammars/expr", "xpath/grammars/leafref", "xpath/grammars/path_eval"}

func c06GlobalsRule(w *World, r *Report, rule string) { c06GlobalsIn(w, r, rule, c06XPathKeys) }

// c06GlobalsReviewed: package-level variables whose accesses were read and accepted, by short name.
var c06GlobalsReviewed = map[string]string{
	"compile.compilerDebugEnabled": "debug switch: written only by the exported Enable/DisableCompilerDebug setters (not part of compiling), read to decide whether to print; it never influences the compiled schema",
	"parse.BuiltinTenv":            "filled in init only; OpenScope hands the pointer to NewTEnv as the *parent* of a fresh environment (an escape, not a write): TEnv.Put writes the receiver's own map, never the parent's",
}

func c06GlobalsIn(w *World, r *Report, rule string, keys []string) {
	eff := NewEffects(w)
	type access struct {
		fn    *ssa.Function
		write bool
		pos   token.Pos
	}
	acc := map[*ssa.Global][]access{}
	inScope := map[*ssa.Package]bool{}
	for _, k := range keys {
		inScope[w.SSAPkg(k)] = true
	}
	var fns []*ssa.Function
	for _, k := range keys {
		for _, fn := range allFuncs(w.SSAPkg(k)) {
			if !isTestFile(w, fn.Pos()) {
				fns = append(fns, fn)
			}
		}
	}
	callers := map[*ssa.Function][]*ssa.Function{}
	for _, fn := range fns {
		for _, b := range fn.Blocks {
			for _, in := range b.Instrs {
				if ci, ok := in.(ssa.CallInstruction); ok {
					if c := ci.Common().StaticCallee(); c != nil {
						callers[c] = append(callers[c], fn)
					}
					// a package-level object handed to a callee that writes through the receiving
					// parameter is written here (e.g. a shared parser instance whose Parse method
					// updates its own state)
					cc := ci.Common()
					args := cc.Args
					var callees []*ssa.Function
					if cc.IsInvoke() {
						args = append([]ssa.Value{cc.Value}, cc.Args...)
						callees = eff.implementations(cc)
					} else if c := cc.StaticCallee(); c != nil && eff.inModule(c) {
						callees = []*ssa.Function{c}
					}
					for i, a := range args {
						if !pointerLike(a.Type()) {
							continue
						}
						gl := eff.rootsOf(a).globals
						if len(gl) == 0 {
							continue
						}
						// an external method or function that is not known to be read-only (sync.Map.Store/LoadOrStore,
						// container mutators …) applied to a package-level object writes it
						if ext := cc.StaticCallee(); ext != nil && !eff.inModule(ext) && !isPureExternal(ext) && ext.Pkg != nil && ext.Pkg.Pkg.Path() != "sync/atomic" {
							isLock := ext.Pkg.Pkg.Path() == "sync" && (strings.HasSuffix(ext.Name(), "Lock") || strings.HasSuffix(ext.Name(), "Unlock"))
							isLoad := ext.Pkg.Pkg.Path() == "sync" && (nm(ext) == "Load" || nm(ext) == "Range")
							if !isLock && !isLoad {
								for g := range gl {
									if g.Pkg != nil && inScope[g.Pkg] {
										acc[g] = append(acc[g], access{fn, true, in.Pos()})
									}
								}
							}
						}
						for _, c := range callees {
							if i >= len(c.Params) {
								continue
							}
							if m, _, _ := eff.Mutates(slot{fn: c, idx: i}); m {
								for g := range gl {
									if g.Pkg != nil && inScope[g.Pkg] {
										acc[g] = append(acc[g], access{fn, true, in.Pos()})
									}
								}
							}
						}
					}
				}
				var addr ssa.Value
				write := false
				switch x := in.(type) {
				case *ssa.Store:
					addr, write = x.Addr, true
				case *ssa.MapUpdate:
					addr, write = x.Map, true
				case *ssa.UnOp:
					if x.Op == token.MUL {
						addr = x.X
					}
				case *ssa.Lookup:
					addr = x.X
				case *ssa.Range:
					addr = x.X
				}
				if addr == nil {
					continue
				}
				for g := range eff.rootsOf(addr).globals {
					if g.Pkg != nil && inScope[g.Pkg] {
						acc[g] = append(acc[g], access{fn, write, in.Pos()})
					}
				}
			}
		}
	}
	// effective lock mode of a function: its own, or the weakest over all its in-scope callers
	var eff2 func(fn *ssa.Function, depth int) int
	eff2 = func(fn *ssa.Function, depth int) int {
		if m := lockMode(w, fn); m > 0 {
			return m
		}
		if depth > 4 {
			return 0
		}
		cs := callers[fn]
		if len(cs) == 0 {
			return 0
		}
		min := 2
		for _, c := range cs {
			if m := eff2(c, depth+1); m < min {
				min = m
			}
		}
		return min
	}
	apiOnly := map[string]bool{}
	var gs []*ssa.Global
	for g := range acc {
		gs = append(gs, g)
	}
	sort.Slice(gs, func(i, j int) bool { return gs[i].String() < gs[j].String() })
	nRO := 0
	for _, g := range gs {
		if nm(g) == "mu" || strings.HasPrefix(g.Name(), "init$") {
			continue
		}
		name := strings.TrimPrefix(g.String(), modPath+"/")
		var writesOutsideInit []access
		for _, a := range acc[g] {
			if a.write && !strings.HasPrefix(a.fn.Name(), "init") {
				writesOutsideInit = append(writesOutsideInit, a)
			}
		}
		if len(writesOutsideInit) == 0 {
			nRO++
			continue
		}
		if why, ok := c06GlobalsReviewed[name]; ok {
			r.Reviewed(rule, name, g.Pos(), why)
			continue
		}
		// written after init: lock discipline
		ok := true
		for _, a := range acc[g] {
			if strings.HasPrefix(a.fn.Name(), "init") {
				continue
			}
			m := eff2(a.fn, 0)
			if a.fn.Object() != nil && a.fn.Object().Exported() && len(callers[a.fn]) == 0 && m == 0 {
				// exported API with no caller inside the library (configuration setters, test helpers):
				// not part of compile/run; assumed not to be invoked concurrently with them
				apiOnly[funcKey(a.fn)] = true
				continue
			}
			// exported entry points that are documented construction-time API are assumed serialised by the caller
			if a.fn.Object() != nil && a.fn.Object().Exported() && m == 0 && len(callers[a.fn]) > 0 {
				// exported but also called internally: the internal callers decide
				m = 2
				for _, c := range callers[a.fn] {
					if mm := eff2(c, 1); mm < m {
						m = mm
					}
				}
			}
			need := 1
			if a.write {
				need = 2
			}
			if m < need {
				ok = false
				what := "read"
				if a.write {
					what = "written"
				}
				r.Fail(rule, fmt.Sprintf("%s %s in %s", name, what, funcKey(a.fn)), a.pos,
					fmt.Sprintf("package-level variable %s is %s without holding mu %s: data race with concurrent compilation/evaluation", name, what, map[int]string{1: "(at least in read mode)", 2: "exclusively"}[need]))
			}
		}
		if ok {
			r.OK(rule, name, g.Pos(), "mutable after init; every access holds mu in the required mode")
		}
	}
	r.OK(rule, "read-only package variables", token.NoPos, fmt.Sprintf("%d variables never written outside init", nRO))
	var api []string
	for k := range apiOnly {
		api = append(api, k)
	}
	sort.Strings(api)
	r.Extra["assumed_serialised_api"] = api
	r.Count("package variables (xpath packages)", len(gs))
}

func c06Reentrant(w *World, r *Report) {
	for _, g := range []struct{ key, prefix string }{{"xpath/grammars/expr", "expr"}, {"xpath/grammars/leafref", "leafref"}, {"xpath/grammars/path_eval", "pathEval"}} {
		sp := w.SSAPkg(g.key)
		parse, _ := sp.Members[g.prefix+"Parse"].(*ssa.Function)
		newp, _ := sp.Members[g.prefix+"NewParser"].(*ssa.Function)
		ok := false
		if parse != nil && newp != nil {
			calls := false
			for _, b := range parse.Blocks {
				for _, in := range b.Instrs {
					if c, isC := in.(*ssa.Call); isC && c.Call.StaticCallee() == newp {
						calls = true
					}
				}
			}
			fresh := false
			for _, b := range newp.Blocks {
				for _, in := range b.Instrs {
					if ret, isR := in.(*ssa.Return); isR && len(ret.Results) == 1 {
						v := ret.Results[0]
						if mi, isM := v.(*ssa.MakeInterface); isM {
							v = mi.X
						}
						if a, isA := v.(*ssa.Alloc); isA && a.Heap {
							fresh = true
						}
					}
				}
			}
			ok = calls && fresh
		}
		r.Check(ok, "R06.4", g.prefix+"Parse", token.NoPos, "parser state allocated per call", "the generated parser no longer creates its state per call: concurrent compilations would share it")
	}
}

func c06FreshContext(w *World, r *Report) {
	eff := NewEffects(w)
	for _, name := range []string{"NewCtxFromCurrent", "NewCtxFromMach"} {
		fn := w.SSAFunc(w.Func("xpath", name))
		// the returned *context must be a fresh alloc; pointer-typed fields stored into it must be fresh
		// values, except the program slice (mach.prog) and the caller-supplied arguments other than mach
		var machParam *ssa.Parameter
		for _, p := range fn.Params {
			if namedStructOf(p.Type()) == "Machine" {
				machParam = p
			}
		}
		ok := machParam != nil
		shared := []string{}
		// scan looks at the stores into the new context in g, where the parameters of g listed in
		// fromMachine are (rooted in) the machine; a constructor that delegates to another one of the
		// module is followed with the arguments it hands on
		var scan func(g *ssa.Function, fromMachine map[int]bool, depth int)
		scan = func(g *ssa.Function, fromMachine map[int]bool, depth int) {
			for _, b := range g.Blocks {
				for _, in := range b.Instrs {
					if c, isC := in.(*ssa.Call); isC && depth < 2 {
						h := c.Call.StaticCallee()
						if h != nil && h != g && h.Blocks != nil && strings.HasPrefix(pkgPathOf(h), modPath) && h.Signature.Results().Len() == 1 && namedStructOf(h.Signature.Results().At(0).Type()) == "context" {
							sub := map[int]bool{}
							for ai, a := range c.Call.Args {
								if !pointerLike(a.Type()) {
									continue
								}
								rs := eff.rootsOf(a)
								for i := range g.Params {
									if rs.params[i] && fromMachine[i] {
										sub[ai] = true
									}
								}
							}
							scan(h, sub, depth+1)
						}
					}
					st, isS := in.(*ssa.Store)
					if !isS {
						continue
					}
					fa, isF := st.Addr.(*ssa.FieldAddr)
					if !isF || namedStructOf(fa.X.Type()) != "context" || !pointerLike(st.Val.Type()) {
						continue
					}
					rs := eff.rootsOf(st.Val)
					fld := fa.X.Type().Underlying().(*types.Pointer).Elem().Underlying().(*types.Struct).Field(fa.Field).Name()
					fromMach := false
					for i := range g.Params {
						if rs.params[i] && fromMachine[i] {
							fromMach = true
						}
					}
					if fromMach {
						shared = append(shared, fld)
					}
					if len(rs.globals) > 0 {
						ok = false
						r.Fail("R06.5", name+": context."+fld, st.Pos(), "per-run state is initialised from a package-level variable")
					}
				}
			}
		}
		top := map[int]bool{}
		for i, p := range fn.Params {
			if p == machParam {
				top[i] = true
			}
		}
		scan(fn, top, 0)
		sort.Strings(shared)
		r.Check(ok && strings.Join(shared, ",") == "prog", "R06.5", name, fn.Pos(), "shares only prog with the machine; everything else fresh or caller-supplied",
			"the context shares {"+strings.Join(shared, ",")+"} with the machine (only the immutable program may be shared)")
	}
}

// c06CapturedWrites (R06.7): a closure that outlives the call that created it
// must not write a variable captured from that call's frame — such a variable
// is one cell shared by every later invocation of the closure (concurrent runs
// overwrite each other's value). Closures that are only deferred or called on
// the spot may write their creator's variables (named results, accumulators).
func c06CapturedWrites(w *World, r *Report) {
	n := 0
	var writes func(cf *ssa.Function, idx int, depth int) (bool, token.Pos)
	writes = func(cf *ssa.Function, idx int, depth int) (bool, token.Pos) {
		if depth > 4 || idx >= len(cf.FreeVars) {
			return false, token.NoPos
		}
		fv := cf.FreeVars[idx]
		for _, b := range cf.Blocks {
			for _, in := range b.Instrs {
				switch x := in.(type) {
				case *ssa.Store:
					if x.Addr == ssa.Value(fv) {
						return true, x.Pos()
					}
				case *ssa.MakeClosure:
					for j, bnd := range x.Bindings {
						if bnd == ssa.Value(fv) {
							if ok, pos := writes(x.Fn.(*ssa.Function), j, depth+1); ok {
								return true, pos
							}
						}
					}
				}
			}
		}
		return false, token.NoPos
	}
	escapes := func(mc *ssa.MakeClosure) bool {
		for _, ref := range *mc.Referrers() {
			switch x := ref.(type) {
			case *ssa.DebugRef:
			case *ssa.Defer:
				if x.Call.Value != ssa.Value(mc) {
					return true
				}
			case *ssa.Call:
				if x.Call.Value != ssa.Value(mc) {
					return true
				}
			default:
				return true
			}
		}
		return false
	}
	for _, key := range c06XPathKeys {
		for _, f := range allFuncs(w.SSAPkg(key)) {
			if isTestFile(w, f.Pos()) {
				continue
			}
			for _, b := range f.Blocks {
				for _, in := range b.Instrs {
					mc, ok := in.(*ssa.MakeClosure)
					if !ok || !escapes(mc) {
						continue
					}
					cf := mc.Fn.(*ssa.Function)
					for i, bnd := range mc.Bindings {
						al, ok := bnd.(*ssa.Alloc)
						if !ok || al.Parent() != f {
							continue
						}
						n++
						if wr, pos := writes(cf, i, 0); wr {
							name := al.Comment
							r.Fail("R06.7", fmt.Sprintf("%s: closure writes captured variable %s", funcKey(f), name), pos, "the closure is returned or stored, so it outlives this call, and it writes `"+name+"`, a variable of the creating call's frame: one cell shared by all its invocations — concurrent (or interleaved) calls read each other's value")
						}
					}
				}
			}
		}
	}
	r.Count("captured variables of escaping closures examined", n)
	if n == 0 {
		panic(undecided{"no escaping closure captures a variable"})
	}
	r.OK("R06.7", "escaping closures only read what they capture", token.NoPos, fmt.Sprintf("%d captured variables of closures that outlive their creator; none is written by the closure", n))
}

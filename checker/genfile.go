package main

import (
	"bytes"
	"fmt"
	"go/ast"
	"go/constant"
	"go/parser"
	"go/printer"
	"go/token"
	"go/types"
	"strconv"
	"strings"

	"golang.org/x/tools/go/packages"
	"golang.org/x/tools/go/types/typeutil"
)

// normalizeGo parses Go source without comments and prints it back, so that
// two files can be compared as programs (//line comments, header, layout and
// comments are irrelevant).
func normalizeGo(src []byte) (string, error) {
	fset := token.NewFileSet()
	f, err := parser.ParseFile(fset, "x.go", src, parser.SkipObjectResolution)
	if err != nil {
		return "", err
	}
	var b bytes.Buffer
	cfg := printer.Config{Mode: printer.UseSpaces | printer.TabIndent, Tabwidth: 8}
	if err := cfg.Fprint(&b, token.NewFileSet(), f); err != nil {
		return "", err
	}
	return b.String(), nil
}

func firstDiffLine(a, b string) string {
	la, lb := strings.Split(a, "\n"), strings.Split(b, "\n")
	for i := 0; i < len(la) && i < len(lb); i++ {
		if la[i] != lb[i] {
			return fmt.Sprintf("line %d: committed %q vs regenerated %q", i+1, strings.TrimSpace(la[i]), strings.TrimSpace(lb[i]))
		}
	}
	return fmt.Sprintf("length differs: %d vs %d lines", len(la), len(lb))
}

// ActCall is one call found in the action of a production, resolved through
// the type checker.
type ActCall struct {
	Callee *types.Func
	Call   *ast.CallExpr
	Pkg    *packages.Package
}

// GenActions locates the reduce-action switch of the generated parser in the
// type-checked package and returns, per production number, the statements of
// its case clause.
type GenInfo struct {
	Pkg     *packages.Package
	Cases   map[int]*ast.CaseClause
	R2      []int64 // rhs length per production
	R1      []int64
	Toknams []string
	Private int64
}

func (w *World) GenInfo(gname string) *GenInfo {
	pkgKey := "xpath/grammars/" + gname
	p := w.Pkg(pkgKey)
	g := w.Gram[gname]
	gi := &GenInfo{Pkg: p, Cases: map[int]*ast.CaseClause{}}
	pref := g.Prefix
	var parse *ast.FuncDecl
	for _, f := range p.Syntax {
		for _, d := range f.Decls {
			if fd, ok := d.(*ast.FuncDecl); ok && fd.Name.Name == "Parse" && fd.Recv != nil {
				// receiver *<prefix>ParserImpl
				if se, ok := fd.Recv.List[0].Type.(*ast.StarExpr); ok {
					if id, ok := se.X.(*ast.Ident); ok && id.Name == pref+"ParserImpl" {
						parse = fd
					}
				}
			}
		}
	}
	if parse == nil {
		panic(undecided{"generated parser for " + gname + " not found"})
	}
	ast.Inspect(parse.Body, func(n ast.Node) bool {
		sw, ok := n.(*ast.SwitchStmt)
		if !ok {
			return true
		}
		id, ok := sw.Tag.(*ast.Ident)
		if !ok || id.Name != pref+"nt" {
			return true
		}
		for _, c := range sw.Body.List {
			cc := c.(*ast.CaseClause)
			for _, e := range cc.List {
				if tv, ok := p.TypesInfo.Types[e]; ok && tv.Value != nil {
					if v, ok := constant.Int64Val(tv.Value); ok {
						gi.Cases[int(v)] = cc
					}
				}
			}
		}
		return false
	})
	gi.R1 = w.intTable(p, pref+"R1")
	gi.R2 = w.intTable(p, pref+"R2")
	if c, ok := scopeLookup(p.Types.Scope(), pref+"Private").(*types.Const); ok {
		gi.Private, _ = constant.Int64Val(c.Val())
	}
	if v, ok := scopeLookup(p.Types.Scope(), pref+"Toknames").(*types.Var); ok {
		init, ip := w.VarInit(v)
		if cl, ok := init.(*ast.CompositeLit); ok {
			for _, e := range cl.Elts {
				if tv, ok := ip.TypesInfo.Types[e]; ok && tv.Value != nil {
					gi.Toknams = append(gi.Toknams, constant.StringVal(tv.Value))
				}
			}
		}
	}
	return gi
}

func (w *World) intTable(p *packages.Package, name string) []int64 {
	v, ok := scopeLookup(p.Types.Scope(), name).(*types.Var)
	if !ok {
		panic(undecided{"table " + name + " not found"})
	}
	init, ip := w.VarInit(v)
	cl, ok := init.(*ast.CompositeLit)
	if !ok {
		panic(undecided{"table " + name + " is not a literal"})
	}
	var out []int64
	for _, e := range cl.Elts {
		tv := ip.TypesInfo.Types[e]
		if tv.Value == nil {
			panic(undecided{"table " + name + " has a non-constant element"})
		}
		x, _ := constant.Int64Val(tv.Value)
		out = append(out, x)
	}
	return out
}

// Calls returns the resolved calls inside the action of production n, in
// source order, outermost first.
func (gi *GenInfo) Calls(n int) []ActCall {
	cc := gi.Cases[n]
	if cc == nil {
		return nil
	}
	var out []ActCall
	for _, s := range cc.Body {
		ast.Inspect(s, func(nd ast.Node) bool {
			ce, ok := nd.(*ast.CallExpr)
			if !ok {
				return true
			}
			if f, ok := typeutil.Callee(gi.Pkg.TypesInfo, ce).(*types.Func); ok {
				out = append(out, ActCall{Callee: f, Call: ce, Pkg: gi.Pkg})
			}
			return true
		})
	}
	return out
}

// BuilderCalls filters Calls to methods of xpath.ProgBuilder.
func (gi *GenInfo) BuilderCalls(n int) []ActCall {
	var out []ActCall
	for _, c := range gi.Calls(n) {
		if recvNamed(c.Callee) == "ProgBuilder" && c.Callee.Pkg().Path() == modPath+"/xpath" {
			out = append(out, c)
		}
	}
	return out
}

func recvNamed(f *types.Func) string {
	sig, ok := f.Type().(*types.Signature)
	if !ok || sig.Recv() == nil {
		return ""
	}
	t := sig.Recv().Type()
	if p, ok := t.(*types.Pointer); ok {
		t = p.Elem()
	}
	if n, ok := t.(*types.Named); ok {
		return n.Obj().Name()
	}
	return ""
}

// MethodValue resolves an expression like getProgBldr(l).Eq used as a value.
func MethodValue(p *packages.Package, e ast.Expr) *types.Func {
	e = ast.Unparen(e)
	if se, ok := e.(*ast.SelectorExpr); ok {
		if sel := p.TypesInfo.Selections[se]; sel != nil && sel.Kind() == types.MethodVal {
			return sel.Obj().(*types.Func)
		}
		if f, ok := p.TypesInfo.Uses[se.Sel].(*types.Func); ok {
			return f
		}
	}
	if id, ok := e.(*ast.Ident); ok {
		if f, ok := p.TypesInfo.Uses[id].(*types.Func); ok {
			return f
		}
	}
	return nil
}

func ConstOf(p *packages.Package, e ast.Expr) constant.Value {
	if e == nil {
		return nil
	}
	if tv, ok := p.TypesInfo.Types[e]; ok {
		return tv.Value
	}
	return nil
}

func ConstInt(p *packages.Package, e ast.Expr) (int64, bool) {
	v := ConstOf(p, e)
	if v == nil || v.Kind() != constant.Int {
		return 0, false
	}
	return constant.Int64Val(v)
}

func ConstStr(p *packages.Package, e ast.Expr) (string, bool) {
	v := ConstOf(p, e)
	if v == nil || v.Kind() != constant.String {
		return "", false
	}
	return constant.StringVal(v), true
}

// charTok converts a yacc 'c' symbol into its rune value.
func charTok(sym string) (rune, bool) {
	if !strings.HasPrefix(sym, "'") {
		return 0, false
	}
	s, err := strconv.Unquote(sym)
	if err != nil || len([]rune(s)) != 1 {
		return 0, false
	}
	return []rune(s)[0], true
}

package main

import (
	"fmt"
	"go/ast"
	"go/token"
	"go/types"
	"strings"

	"golang.org/x/tools/go/cfg"
	"golang.org/x/tools/go/ssa"
)

// droppedErrors: calls whose error result is bound to a variable (not `_`)
// but whose value is never examined: in SSA the extracted error component has
// no referrers (it was overwritten or simply forgotten). Returns positions.
type droppedErr struct {
	Fn     string
	Callee string
	Pos    token.Pos
}

func droppedErrors(w *World, pkgKey string, fileSuffix string) ([]droppedErr, int) {
	p := w.Pkg(pkgKey)
	errT := types.Universe.Lookup("error").Type()
	var out []droppedErr
	n := 0
	for _, fd := range funcDecls(p) {
		if isTestFile(w, fd.Pos()) {
			continue
		}
		if fileSuffix != "" && !strings.HasSuffix(w.Fset.Position(fd.Pos()).Filename, fileSuffix) {
			continue
		}
		bodies := []*ast.BlockStmt{fd.Body}
		ast.Inspect(fd.Body, func(x ast.Node) bool {
			if fl, ok := x.(*ast.FuncLit); ok {
				bodies = append(bodies, fl.Body)
			}
			return true
		})
		for _, body := range bodies {
			ds, k := errKills(w, p, fd, body, errT)
			n += k
			out = append(out, ds...)
		}
	}
	return out, n
}

type evt struct {
	obj  types.Object
	def  bool
	call *ast.CallExpr
}

// errKills: on the control-flow graph of one function body, an error value
// assigned from a call is *killed* when some path leads from that assignment
// to another assignment of the same variable (or to the end of the function)
// without any read of the variable in between.
func errKills(w *World, p *packagesPackage, fd *ast.FuncDecl, body *ast.BlockStmt, errT types.Type) ([]droppedErr, int) {
	// local helper closures (`f := func(…){…}` that is only ever called): a call of f is an event on the
	// error variables f assigns on every path, so `a = f(x); b = f(y); if err != nil` shows the first
	// verdict being overwritten unread
	localDefs := localClosureDefs(p, body, errT)
	isLocalLit := map[*ast.FuncLit]bool{}
	for _, ld := range localDefs {
		isLocalLit[ld.lit] = true
	}
	// variables referenced inside other nested function literals are skipped (order of use unknown)
	captured := map[types.Object]bool{}
	ast.Inspect(body, func(x ast.Node) bool {
		if fl, ok := x.(*ast.FuncLit); ok && fl.Body != body && isLocalLit[fl] {
			return false
		}
		if fl, ok := x.(*ast.FuncLit); ok && fl.Body != body {
			ast.Inspect(fl.Body, func(y ast.Node) bool {
				if id, ok := y.(*ast.Ident); ok {
					if o := p.TypesInfo.Uses[id]; o != nil {
						captured[o] = true
					}
				}
				return true
			})
			return false
		}
		return true
	})
	named := map[types.Object]bool{}
	if fd.Type.Results != nil && body == fd.Body {
		for _, f := range fd.Type.Results.List {
			for _, nm := range f.Names {
				named[p.TypesInfo.Defs[nm]] = true
			}
		}
	}
	g := cfg.New(body, func(ce *ast.CallExpr) bool {
		if id, ok := ce.Fun.(*ast.Ident); ok && id.Name == "panic" {
			return false
		}
		return true
	})
	events := map[*cfg.Block][]evt{}
	ncalls := 0
	for _, b := range g.Blocks {
		for _, node := range b.Nodes {
			var evs []evt
			addUses := func(n ast.Node, skip map[*ast.Ident]bool) {
				ast.Inspect(n, func(y ast.Node) bool {
					if _, ok := y.(*ast.FuncLit); ok {
						return false
					}
					if id, ok := y.(*ast.Ident); ok && !skip[id] {
						if o, ok := p.TypesInfo.Uses[id].(*types.Var); ok && types.Identical(o.Type(), errT) {
							evs = append(evs, evt{obj: o})
						}
					}
					return true
				})
			}
			switch x := node.(type) {
			case *ast.AssignStmt:
				skip := map[*ast.Ident]bool{}
				var defs []evt
				for i, l := range x.Lhs {
					id, ok := l.(*ast.Ident)
					if !ok || id.Name == "_" {
						continue
					}
					o := p.TypesInfo.Defs[id]
					if o == nil {
						o = p.TypesInfo.Uses[id]
					}
					v, ok := o.(*types.Var)
					if !ok || !types.Identical(v.Type(), errT) {
						continue
					}
					skip[id] = true
					var call *ast.CallExpr
					if len(x.Rhs) == 1 {
						call, _ = ast.Unparen(x.Rhs[0]).(*ast.CallExpr)
					} else if i < len(x.Rhs) {
						call, _ = ast.Unparen(x.Rhs[i]).(*ast.CallExpr)
					}
					defs = append(defs, evt{obj: v, def: true, call: call})
				}
				addUses(x, skip)
				evs = append(evs, defs...)
				for _, d := range defs {
					if d.call != nil {
						ncalls++
					}
				}
			case *ast.ReturnStmt:
				addUses(x, nil)
				if len(x.Results) == 0 {
					for o := range named {
						evs = append(evs, evt{obj: o})
					}
				}
			default:
				addUses(node, nil)
			}
			// calls of local helper closures inside this node
			ast.Inspect(node, func(y ast.Node) bool {
				if _, ok := y.(*ast.FuncLit); ok {
					return false
				}
				ce, ok := y.(*ast.CallExpr)
				if !ok {
					return true
				}
				id, ok := ce.Fun.(*ast.Ident)
				if !ok {
					return true
				}
				if ld, ok := localDefs[p.TypesInfo.Uses[id]]; ok {
					for _, o := range ld.defs {
						evs = append([]evt{{obj: o, def: true, call: ce}}, evs...)
						ncalls++
					}
				}
				return true
			})
			events[b] = append(events[b], evs...)
		}
	}
	var out []droppedErr
	for _, b := range g.Blocks {
		for i, e := range events[b] {
			if !e.def || e.call == nil || captured[e.obj] {
				continue
			}
			// search forward for a path to a redefinition / exit with no use
			killed := false
			seen := map[*cfg.Block]bool{}
			var walk func(blk *cfg.Block, from int) bool // returns true if a kill is found
			walk = func(blk *cfg.Block, from int) bool {
				evs := events[blk]
				for k := from; k < len(evs); k++ {
					if evs[k].obj != e.obj {
						continue
					}
					if evs[k].def {
						return true // overwritten unread
					}
					return false // read
				}
				if len(blk.Succs) == 0 {
					// function exit: a named result is returned implicitly; a local is simply abandoned
					return !named[e.obj] && blk.Live && !endsInPanicOrReturnOf(blk)
				}
				for _, s := range blk.Succs {
					if seen[s] {
						continue
					}
					seen[s] = true
					if walk(s, 0) {
						return true
					}
				}
				return false
			}
			killed = walk(b, i+1)
			if killed {
				name := "call"
				if f := calleeOf(p, e.call); f != nil {
					name = strings.TrimPrefix(f.FullName(), modPath+"/")
				} else {
					name = types.ExprString(e.call.Fun)
				}
				out = append(out, droppedErr{funcDeclName(fd), name, e.call.Pos()})
			}
		}
	}
	return out, ncalls
}

// endsInPanicOrReturnOf: exit blocks that end with a return statement are
// normal exits where an unread local error is abandoned — except that the
// variable may simply be out of use; only report abandonment when the block
// does not return at all (fallthrough end of function).
func endsInPanicOrReturnOf(b *cfg.Block) bool {
	if len(b.Nodes) == 0 {
		return false
	}
	_, isRet := b.Nodes[len(b.Nodes)-1].(*ast.ReturnStmt)
	return isRet
}

func nonDebug(refs []ssa.Instruction) []ssa.Instruction {
	var out []ssa.Instruction
	for _, r := range refs {
		if _, ok := r.(*ssa.DebugRef); !ok {
			out = append(out, r)
		}
	}
	return out
}

func calleeName(c *ssa.Call) string {
	if f := c.Call.StaticCallee(); f != nil {
		return strings.TrimPrefix(f.String(), modPath+"/")
	}
	if c.Call.IsInvoke() {
		return c.Call.Method.Name()
	}
	return c.Call.Value.String()
}

// errRule arms the dropped-error engine for a set of packages.
func errRule(w *World, r *Report, rule string, pkgs []string, reviewed map[string]string) {
	total := 0
	for _, k := range pkgs {
		ds, n := droppedErrors(w, k, "")
		total += n
		for _, d := range ds {
			c := d.Fn + ": " + d.Callee
			if why, ok := reviewed[c]; ok {
				r.Reviewed(rule, c, d.Pos, why)
				continue
			}
			r.Fail(rule, c, d.Pos, "the error result of this call is bound to a variable that is overwritten or abandoned before anyone looks at it: the failure is silently ignored and the value result is used as if the call had succeeded")
		}
	}
	r.OK(rule, "calls returning an error in "+strings.Join(pkgs, ","), token.NoPos, fmt.Sprintf("%d calls inspected: every error bound to a variable is examined (explicit `_` discards are covered by the dropped-error-then-use rules)", total))
	r.Count(rule+": calls with an error result", total)
}

type localClosure struct {
	lit  *ast.FuncLit
	defs []types.Object // captured error variables assigned on every path through the closure
}

// localClosureDefs finds `name := func(...) {...}` in body where name is used
// only as the callee of calls, and lists the captured error variables that
// the closure assigns on every path (and does not read before assigning).
func localClosureDefs(p *packagesPackage, body *ast.BlockStmt, errT types.Type) map[types.Object]localClosure {
	out := map[types.Object]localClosure{}
	cands := map[types.Object]*ast.FuncLit{}
	ast.Inspect(body, func(x ast.Node) bool {
		as, ok := x.(*ast.AssignStmt)
		if !ok || as.Tok != token.DEFINE || len(as.Lhs) != 1 || len(as.Rhs) != 1 {
			return true
		}
		fl, ok := as.Rhs[0].(*ast.FuncLit)
		id, ok2 := as.Lhs[0].(*ast.Ident)
		if ok && ok2 {
			if o := p.TypesInfo.Defs[id]; o != nil {
				cands[o] = fl
			}
		}
		return true
	})
	for o, fl := range cands {
		// every use of the name is a call
		onlyCalled := true
		ast.Inspect(body, func(x ast.Node) bool {
			switch y := x.(type) {
			case *ast.CallExpr:
				if id, ok := y.Fun.(*ast.Ident); ok && p.TypesInfo.Uses[id] == o {
					for _, a := range y.Args {
						ast.Inspect(a, func(z ast.Node) bool {
							if id2, ok := z.(*ast.Ident); ok && p.TypesInfo.Uses[id2] == o {
								onlyCalled = false
							}
							return true
						})
					}
					return false
				}
			case *ast.Ident:
				if p.TypesInfo.Uses[y] == o {
					onlyCalled = false
				}
			}
			return true
		})
		if !onlyCalled {
			continue
		}
		// captured error variables assigned in the closure
		assigned := map[types.Object]bool{}
		ast.Inspect(fl.Body, func(x ast.Node) bool {
			if as, ok := x.(*ast.AssignStmt); ok && as.Tok == token.ASSIGN {
				for _, l := range as.Lhs {
					if id, ok := l.(*ast.Ident); ok {
						if v, ok := p.TypesInfo.Uses[id].(*types.Var); ok && types.Identical(v.Type(), errT) && !(fl.Pos() <= v.Pos() && v.Pos() <= fl.End()) {
							assigned[v] = true
						}
					}
				}
			}
			return true
		})
		var defs []types.Object
		for v := range assigned {
			if mustAssign(p, fl.Body, v) {
				defs = append(defs, v)
			}
		}
		if len(defs) > 0 {
			out[o] = localClosure{lit: fl, defs: defs}
		}
	}
	return out
}

// mustAssign: on every path from the entry of body to an exit, v is assigned
// before it is read.
func mustAssign(p *packagesPackage, body *ast.BlockStmt, v types.Object) bool {
	g := cfg.New(body, func(ce *ast.CallExpr) bool { return true })
	if len(g.Blocks) == 0 {
		return false
	}
	// state per block entry: 1 = not yet assigned reachable
	type st = bool
	unassignedIn := map[*cfg.Block]bool{g.Blocks[0]: true}
	ok := true
	for changed := true; changed; {
		changed = false
		for _, b := range g.Blocks {
			if !unassignedIn[b] {
				continue
			}
			un := true
			for _, node := range b.Nodes {
				if !un {
					break
				}
				// reads before an assignment?
				if as, isAs := node.(*ast.AssignStmt); isAs {
					for _, r := range as.Rhs {
						ast.Inspect(r, func(z ast.Node) bool {
							if id, ok2 := z.(*ast.Ident); ok2 && p.TypesInfo.Uses[id] == v {
								ok = false
							}
							return true
						})
					}
					for _, l := range as.Lhs {
						if id, ok2 := l.(*ast.Ident); ok2 && p.TypesInfo.Uses[id] == v {
							un = false
						}
					}
					continue
				}
				ast.Inspect(node, func(z ast.Node) bool {
					if id, ok2 := z.(*ast.Ident); ok2 && p.TypesInfo.Uses[id] == v {
						ok = false
					}
					return true
				})
			}
			if un {
				if len(b.Succs) == 0 && b.Live {
					ok = false // reaches an exit unassigned
				}
				for _, s := range b.Succs {
					if !unassignedIn[s] {
						unassignedIn[s] = true
						changed = true
					}
				}
			}
		}
	}
	return ok
}

package main

import (
	"fmt"
	"go/ast"
	"go/token"
	"go/types"
	"strings"

	"golang.org/x/tools/go/cfg"
	"golang.org/x/tools/go/ssa"
)

// droppedErrors: calls whose error result is bound to a variable (not `_`)
// but whose value is never examined: in SSA the extracted error component has
// no referrers (it was overwritten or simply forgotten). Returns positions.
type droppedErr struct {
	Fn     string
	Callee string
	Pos    token.Pos
}

func droppedErrors(w *World, pkgKey string, fileSuffix string) ([]droppedErr, int) {
	p := w.Pkg(pkgKey)
	errT := types.Universe.Lookup("error").Type()
	var out []droppedErr
	n := 0
	for _, fd := range funcDecls(p) {
		if isTestFile(w, fd.Pos()) {
			continue
		}
		if fileSuffix != "" && !strings.HasSuffix(w.Fset.Position(fd.Pos()).Filename, fileSuffix) {
			continue
		}
		bodies := []*ast.BlockStmt{fd.Body}
		ast.Inspect(fd.Body, func(x ast.Node) bool {
			if fl, ok := x.(*ast.FuncLit); ok {
				bodies = append(bodies, fl.Body)
			}
			return true
		})
		for _, body := range bodies {
			ds, k := errKills(w, p, fd, body, errT)
			n += k
			out = append(out, ds...)
		}
	}
	return out, n
}

type evt struct {
	obj  types.Object
	def  bool
	call *ast.CallExpr
}

// errKills: on the control-flow graph of one function body, an error value
// assigned from a call is *killed* when some path leads from that assignment
// to another assignment of the same variable (or to the end of the function)
// without any read of the variable in between.
func errKills(w *World, p *packagesPackage, fd *ast.FuncDecl, body *ast.BlockStmt, errT types.Type) ([]droppedErr, int) {
	// variables referenced inside nested function literals are skipped (order of use unknown)
	captured := map[types.Object]bool{}
	ast.Inspect(body, func(x ast.Node) bool {
		if fl, ok := x.(*ast.FuncLit); ok && fl.Body != body {
			ast.Inspect(fl.Body, func(y ast.Node) bool {
				if id, ok := y.(*ast.Ident); ok {
					if o := p.TypesInfo.Uses[id]; o != nil {
						captured[o] = true
					}
				}
				return true
			})
			return false
		}
		return true
	})
	named := map[types.Object]bool{}
	if fd.Type.Results != nil && body == fd.Body {
		for _, f := range fd.Type.Results.List {
			for _, nm := range f.Names {
				named[p.TypesInfo.Defs[nm]] = true
			}
		}
	}
	g := cfg.New(body, func(ce *ast.CallExpr) bool {
		if id, ok := ce.Fun.(*ast.Ident); ok && id.Name == "panic" {
			return false
		}
		return true
	})
	events := map[*cfg.Block][]evt{}
	ncalls := 0
	for _, b := range g.Blocks {
		for _, node := range b.Nodes {
			var evs []evt
			addUses := func(n ast.Node, skip map[*ast.Ident]bool) {
				ast.Inspect(n, func(y ast.Node) bool {
					if _, ok := y.(*ast.FuncLit); ok {
						return false
					}
					if id, ok := y.(*ast.Ident); ok && !skip[id] {
						if o, ok := p.TypesInfo.Uses[id].(*types.Var); ok && types.Identical(o.Type(), errT) {
							evs = append(evs, evt{obj: o})
						}
					}
					return true
				})
			}
			switch x := node.(type) {
			case *ast.AssignStmt:
				skip := map[*ast.Ident]bool{}
				var defs []evt
				for i, l := range x.Lhs {
					id, ok := l.(*ast.Ident)
					if !ok || id.Name == "_" {
						continue
					}
					o := p.TypesInfo.Defs[id]
					if o == nil {
						o = p.TypesInfo.Uses[id]
					}
					v, ok := o.(*types.Var)
					if !ok || !types.Identical(v.Type(), errT) {
						continue
					}
					skip[id] = true
					var call *ast.CallExpr
					if len(x.Rhs) == 1 {
						call, _ = ast.Unparen(x.Rhs[0]).(*ast.CallExpr)
					} else if i < len(x.Rhs) {
						call, _ = ast.Unparen(x.Rhs[i]).(*ast.CallExpr)
					}
					defs = append(defs, evt{obj: v, def: true, call: call})
				}
				addUses(x, skip)
				evs = append(evs, defs...)
				for _, d := range defs {
					if d.call != nil {
						ncalls++
					}
				}
			case *ast.ReturnStmt:
				addUses(x, nil)
				if len(x.Results) == 0 {
					for o := range named {
						evs = append(evs, evt{obj: o})
					}
				}
			default:
				addUses(node, nil)
			}
			events[b] = append(events[b], evs...)
		}
	}
	var out []droppedErr
	for _, b := range g.Blocks {
		for i, e := range events[b] {
			if !e.def || e.call == nil || captured[e.obj] {
				continue
			}
			// search forward for a path to a redefinition / exit with no use
			killed := false
			seen := map[*cfg.Block]bool{}
			var walk func(blk *cfg.Block, from int) bool // returns true if a kill is found
			walk = func(blk *cfg.Block, from int) bool {
				evs := events[blk]
				for k := from; k < len(evs); k++ {
					if evs[k].obj != e.obj {
						continue
					}
					if evs[k].def {
						return true // overwritten unread
					}
					return false // read
				}
				if len(blk.Succs) == 0 {
					// function exit: a named result is returned implicitly; a local is simply abandoned
					return !named[e.obj] && blk.Live && !endsInPanicOrReturnOf(blk)
				}
				for _, s := range blk.Succs {
					if seen[s] {
						continue
					}
					seen[s] = true
					if walk(s, 0) {
						return true
					}
				}
				return false
			}
			killed = walk(b, i+1)
			if killed {
				name := "call"
				if f := calleeOf(p, e.call); f != nil {
					name = strings.TrimPrefix(f.FullName(), modPath+"/")
				} else {
					name = types.ExprString(e.call.Fun)
				}
				out = append(out, droppedErr{funcDeclName(fd), name, e.call.Pos()})
			}
		}
	}
	return out, ncalls
}

// endsInPanicOrReturnOf: exit blocks that end with a return statement are
// normal exits where an unread local error is abandoned — except that the
// variable may simply be out of use; only report abandonment when the block
// does not return at all (fallthrough end of function).
func endsInPanicOrReturnOf(b *cfg.Block) bool {
	if len(b.Nodes) == 0 {
		return false
	}
	_, isRet := b.Nodes[len(b.Nodes)-1].(*ast.ReturnStmt)
	return isRet
}

func nonDebug(refs []ssa.Instruction) []ssa.Instruction {
	var out []ssa.Instruction
	for _, r := range refs {
		if _, ok := r.(*ssa.DebugRef); !ok {
			out = append(out, r)
		}
	}
	return out
}

func calleeName(c *ssa.Call) string {
	if f := c.Call.StaticCallee(); f != nil {
		return strings.TrimPrefix(f.String(), modPath+"/")
	}
	if c.Call.IsInvoke() {
		return c.Call.Method.Name()
	}
	return c.Call.Value.String()
}

// errRule arms the dropped-error engine for a set of packages.
func errRule(w *World, r *Report, rule string, pkgs []string, reviewed map[string]string) {
	total := 0
	for _, k := range pkgs {
		ds, n := droppedErrors(w, k, "")
		total += n
		for _, d := range ds {
			c := d.Fn + ": " + d.Callee
			if why, ok := reviewed[c]; ok {
				r.Reviewed(rule, c, d.Pos, why)
				continue
			}
			r.Fail(rule, c, d.Pos, "the error result of this call is bound to a variable that is overwritten or abandoned before anyone looks at it: the failure is silently ignored and the value result is used as if the call had succeeded")
		}
	}
	r.OK(rule, "calls returning an error in "+strings.Join(pkgs, ","), token.NoPos, fmt.Sprintf("%d calls inspected: every error bound to a variable is examined (explicit `_` discards are covered by the dropped-error-then-use rules)", total))
	r.Count(rule+": calls with an error result", total)
}

package main

import (
	"fmt"
	"go/ast"
	"go/token"
	"go/types"
	"sort"
	"strings"

	"golang.org/x/tools/go/ssa"
)

func init() {
	register("C12", checkC12)
	register("C15", checkC15)
}

// refine substatements, RFC 6020 §7.12.2
var rfcRefine = []string{"config", "default", "description", "mandatory", "max-elements", "min-elements", "must", "presence", "reference"}

// augment targets, RFC 6020 §7.15
var rfcAugmentTargets = []string{"case", "choice", "container", "input", "list", "notification", "output"}

// caseKeywords returns the keywords of the single-return-nil arms of a switch
// on x.Type() in fd.
func nilArmKeywords(w *World, fd *ast.FuncDecl) []string {
	p := w.Pkg("compile")
	names, _ := nodeTypeNames(w)
	tf, _ := p.TypesInfo.Defs[fd.Name].(*types.Func)
	f := w.SSAFunc(tf)
	if f == nil || len(ssaLoops(f)) > 0 {
		panic(undecided{funcDeclName(fd) + ": not a loop-free function"})
	}
	// the statement kinds for which the function answers nil, leaving aside the
	// blanket answer for extension statements: the values `x.Type()` can have on
	// the ways to a nil result on which IsExtensionNode() is false
	sym := NewSym(w)
	sym.Expand = false
	var out []string
	seen := map[int64]bool{}
	typeKeys := map[string]bool{} // x.Type() of a parameter x
	for _, b := range f.Blocks {
		for _, in := range b.Instrs {
			if c, ok := in.(*ssa.Call); ok && c.Call.IsInvoke() && nm(c.Call.Method) == "Type" {
				if _, isP := c.Call.Value.(*ssa.Parameter); isP {
					typeKeys[sym.Key(c, nil)] = true
				}
			}
		}
	}
	for _, row := range sym.retTable(f, 0) {
		if !isNilConst(row.val) {
			continue
		}
		cond := row.cond
		subj := ""
		for _, a := range cond.atoms() {
			if c, ok := a.v.(*ssa.Call); ok && a.x == nil && ((c.Call.IsInvoke() && nm(c.Call.Method) == "IsExtensionNode") ||
				(c.Call.StaticCallee() != nil && c.Call.StaticCallee().Name() == "IsExtensionNode")) {
				cond = pcAndF(cond, pcNotF(&pcF{k: pcAtomK, atom: a}))
			}
			if a.subj != "" && subj == "" && typeKeys[a.subj] {
				subj = a.subj
			}
		}
		if subj == "" {
			if !pcSat(cond) {
				continue
			}
			panic(undecided{funcDeclName(fd) + ": a nil answer that does not depend on the statement kind"})
		}
		vals, ok := pcValuesWhenWide(cond, subj)
		if !ok {
			panic(undecided{funcDeclName(fd) + ": kinds answered with nil not decided"})
		}
		for _, iv := range vals {
			if iv.hi-iv.lo > 1000 {
				panic(undecided{funcDeclName(fd) + ": a nil answer for an unbounded range of statement kinds"})
			}
			for v := iv.lo; v <= iv.hi; v++ {
				if !seen[v] {
					seen[v] = true
					out = append(out, names[v])
				}
			}
		}
	}
	sort.Strings(out)
	return out
}

func checkC12(w *World, r *Report) {
	r.NotDecided = []string{
		"equivalence of the expanded schema with the inlined module as a whole (a relation over runtime trees); only the structural steps of expansion are decided",
		"sibling names are compared by local name only (a design limitation of the name-keyed child map, recorded under R12.1)",
	}
	p := w.Pkg("compile")

	r.Rule("R12.1", "sibling-uniqueness errors are never dropped: no call of addChild/addChoice/addChildren/addOpdChildren discards its error", 14)
	r.guard("R12.1", func() {
		sp := w.Pkg("schema")
		adders := map[*types.Func]bool{}
		for _, n := range []string{"addChild", "addChoice", "addChildren", "addOpdChildren", "addChildrenWithActionChain"} {
			adders[w.Method("schema", "node", n)] = true
		}
		for _, fd := range funcDecls(sp) {
			if isTestFile(w, fd.Pos()) {
				continue
			}
			k := 0
			ast.Inspect(fd.Body, func(n ast.Node) bool {
				switch x := n.(type) {
				case *ast.ExprStmt:
					if ce, ok := x.X.(*ast.CallExpr); ok && adders[calleeOf(sp, ce)] {
						k++
						// named after the function of the reviewed tree the code belongs to (a helper split off it is new)
						where := funcDeclName(fd)
						if fo, isF := sp.TypesInfo.Defs[fd.Name].(*types.Func); isF {
							if names := w.OwnerNamesOf(fo); len(names) > 1 && !recordedFunc(w, "schema", fo) {
								where = names[len(names)-1]
							}
						}
						r.Fail("R12.1", fmt.Sprintf("%s drops the error of %s", where, calleeOf(sp, ce).Name()), ce.Pos(), "a sibling name clash reported by the callee is silently ignored: one of the clashing nodes wins depending on iteration order")
					}
				case *ast.AssignStmt:
					if len(x.Rhs) == 1 {
						if ce, ok := x.Rhs[0].(*ast.CallExpr); ok && adders[calleeOf(sp, ce)] {
							k++
							blank := false
							for _, l := range x.Lhs {
								if id, ok := l.(*ast.Ident); ok && id.Name == "_" {
									blank = true
								}
							}
							r.Check(!blank, "R12.1", fmt.Sprintf("%s: %s error #%d", funcDeclName(fd), calleeOf(sp, ce).Name(), k), ce.Pos(), "error kept", "error assigned to _")
						}
					}
				case *ast.ReturnStmt:
					for _, e := range x.Results {
						if ce, ok := e.(*ast.CallExpr); ok && adders[calleeOf(sp, ce)] {
							k++
							r.OK("R12.1", fmt.Sprintf("%s: %s error #%d", funcDeclName(fd), calleeOf(sp, ce).Name(), k), ce.Pos(), "returned")
						}
					}
				case *ast.IfStmt:
					if as, ok := x.Init.(*ast.AssignStmt); ok && len(as.Rhs) == 1 {
						if ce, ok := as.Rhs[0].(*ast.CallExpr); ok && adders[calleeOf(sp, ce)] {
							// counted by the AssignStmt case
							_ = ce
						}
					}
				}
				return true
			})
		}
	})

	r.Rule("R12.6", "an existing sibling is never overwritten: the store into the name-keyed child map is reachable only through the not-present branch of a presence test on the same key, whose present branch returns the redefinition error; addChoice appends only after a full scan that returns the error on an equal name", 2)
	r.guard("R12.6", func() { c12NoOverwrite(w, r) })

	r.Rule("R12.7", "references are resolved where they are written: every getModuleAndReference call looks the reference up in Root() of the referring statement (the grouping's module), and package compile never consults UsesRoot()", 5)
	r.guard("R12.7", func() {
		c12LexicalScope(w, r)
		// a prefixed reference inside a grouping is resolved in the grouping's module too: GetModuleByPrefix
		// (reached from getModuleAndReference for every prefixed type, feature, identity and grouping name)
		// reads Root() and never the module the node was copied into
		pp := w.Pkg("parse")
		gfd, _ := w.FuncDecl(w.Method("parse", "node", "GetModuleByPrefix"))
		usesOther := false
		ast.Inspect(gfd.Body, func(x ast.Node) bool {
			if ce, ok := x.(*ast.CallExpr); ok {
				if c := calleeOf(pp, ce); c != nil && nm(c) == "UsesRoot" {
					usesOther = true
				}
			}
			if fieldOfSel(pp, asExpr(x)) == w.Field("parse", "node", "useTree") {
				usesOther = true
			}
			return true
		})
		r.Check(!usesOther, "R12.7", "node.GetModuleByPrefix resolves in the defining module", gfd.Pos(), "Root() only", "a prefix written inside a grouping is looked up in the module that uses the grouping: `type lib:t` inside lib's grouping no longer resolves (or resolves to the user's own t) once the grouping is used from another module")
	})

	r.Rule("R12.10", "the compiler keeps no memory from one module to the next beyond its reviewed tables: the fields of compile.Compiler are exactly the reviewed ones, and each map- or slice-valued field is written only by the reviewed functions — a prefix, path or name remembered on the Compiler means something else in the next module (prefixes are per module)", 8)
	r.guard("R12.10", func() { c12CompilerFields(w, r, "R12.10") })

	r.Rule("R12.8", "expansion reaches every statement: expandGroupings descends into every child of the node it handles, on every iteration", 1)
	r.guard("R12.8", func() { c12ExpandEveryChild(w, r) })

	r.Rule("R12.9", "every when / must statement of a node (its own and those inherited from uses/augment) becomes a context of the compiled node: one append per statement on every iteration of BuildWhens / BuildMusts", 2)
	r.guard("R12.9", func() { c12EveryWhenMust(w, r) })

	r.Rule("R12.5", "no schema-construction error is forgotten: in package schema every error result bound to a variable is examined", 1)
	r.guard("R12.5", func() { errRule(w, r, "R12.5", []string{"schema"}, nil) })

	r.Rule("R12.2", "re-homing: a node's defining tree is set only by the constructor; Clone copies it, sets the using tree from its argument and clones every child with the same argument; the module handed to Clone comes from the uses statement's side (the using module, or the submodule the uses is written in), never from the grouping's", 5)
	r.guard("R12.2", func() {
		pp := w.Pkg("parse")
		tree := w.Field("parse", "node", "tree")
		useTree := w.Field("parse", "node", "useTree")
		var tw []string
		for _, fd := range funcDecls(pp) {
			if isTestFile(w, fd.Pos()) {
				continue
			}
			wr := len(assignsToField(pp, fd.Body, tree)) > 0
			ast.Inspect(fd.Body, func(n ast.Node) bool {
				if kv, ok := n.(*ast.KeyValueExpr); ok {
					if id, ok := kv.Key.(*ast.Ident); ok && pp.TypesInfo.Uses[id] == types.Object(tree) {
						wr = true
					}
				}
				return true
			})
			if wr {
				tw = append(tw, funcDeclName(fd))
			}
		}
		sort.Strings(tw)
		r.Check(strings.Join(tw, ",") == "newNodeByType", "R12.2", "writers of node.tree", token.NoPos, "newNodeByType only", "the defining tree of a node is written by {"+strings.Join(tw, ",")+"}: prefixes inside copied statements would resolve through the wrong module")
		cl := w.Method("parse", "node", "Clone")
		cfd, _ := w.FuncDecl(cl)
		cloneI := w.interfaceMethod("parse", "Node", "Clone")
		setsUse, recurses, copiesStruct := false, false, false
		if cf := w.SSAFunc(cl); cf != nil && len(cf.Params) == 2 {
			recv, mPar := cf.Params[0], cf.Params[1]
			// the value comes from the module handed in: through assertions, field reads and locals
			var fromM func(v ssa.Value, d int) bool
			fromM = func(v ssa.Value, d int) bool {
				if d > 6 {
					return false
				}
				switch x := v.(type) {
				case *ssa.Parameter:
					return x == mPar
				case *ssa.TypeAssert:
					return fromM(x.X, d+1)
				case *ssa.Extract:
					return fromM(x.Tuple, d+1)
				case *ssa.UnOp:
					return fromM(x.X, d+1)
				case *ssa.FieldAddr:
					return fromM(x.X, d+1)
				case *ssa.Field:
					return fromM(x.X, d+1)
				case *ssa.ChangeInterface:
					return fromM(x.X, d+1)
				case *ssa.MakeInterface:
					return fromM(x.X, d+1)
				case *ssa.Phi:
					for _, e := range x.Edges {
						if !fromM(e, d+1) {
							return false
						}
					}
					return len(x.Edges) > 0
				}
				return false
			}
			for _, bl := range cf.Blocks {
				for _, in := range bl.Instrs {
					switch x := in.(type) {
					case *ssa.Store:
						if fa, ok := x.Addr.(*ssa.FieldAddr); ok && isFieldAddrOf(fa, useTree) && fromM(x.Val, 0) {
							// the tree field of the module's node
							if ld, ok := x.Val.(*ssa.UnOp); ok {
								if tfa, ok := ld.X.(*ssa.FieldAddr); ok && isFieldAddrOf(tfa, tree) {
									setsUse = true
								}
							}
						}
						if _, isCell := x.Addr.(*ssa.Alloc); isCell {
							if ld, ok := x.Val.(*ssa.UnOp); ok && ld.Op == token.MUL && ld.X == ssa.Value(recv) {
								copiesStruct = true
							}
						}
					case *ssa.Call:
						if x.Call.IsInvoke() && nm(x.Call.Method) == "Clone" && len(x.Call.Args) == 1 && x.Call.Args[0] == ssa.Value(mPar) {
							if _, inLoop := loopOf(cf, bl); inLoop {
								recurses = true
							}
						}
						if x.Call.StaticCallee() == cf && len(x.Call.Args) == 2 && x.Call.Args[1] == ssa.Value(mPar) {
							if _, inLoop := loopOf(cf, bl); inLoop {
								recurses = true
							}
						}
					}
				}
			}
		}
		// the using tree is replaced whenever a module is given: the store to copy.useTree depends on `m != nil` only
		{
			cf := w.SSAFunc(w.Method("parse", "node", "Clone"))
			onlyNil := false
			for _, b := range cf.Blocks {
				for _, in := range b.Instrs {
					st, ok := in.(*ssa.Store)
					if !ok {
						continue
					}
					fa, ok := st.Addr.(*ssa.FieldAddr)
					if !ok || !isFieldAddrOf(fa, useTree) {
						continue
					}
					if len(b.Preds) == 1 {
						if iff, ok := b.Preds[0].Instrs[len(b.Preds[0].Instrs)-1].(*ssa.If); ok && b.Preds[0].Succs[0] == b {
							if bo, ok := iff.Cond.(*ssa.BinOp); ok && bo.Op == token.NEQ {
								_, xp := bo.X.(*ssa.Parameter)
								c, yc := bo.Y.(*ssa.Const)
								// and that test is itself unconditional (its block is the entry or dominates every return)
								if xp && yc && c.IsNil() && len(b.Preds[0].Preds) == 0 {
									onlyNil = true
								}
							}
						}
					}
				}
			}
			r.Check(onlyNil, "R12.2", "node.Clone re-homes every time", cfd.Pos(), "useTree = m.tree whenever m != nil", "the using module is recorded only under a further condition (e.g. only the first time): nodes of a grouping that was already expanded inside another grouping keep the namespace and module of the earlier user")
		}
		r.Check(copiesStruct && setsUse && recurses, "R12.2", "node.Clone", cfd.Pos(), "copies the node (keeping tree), useTree from the argument, children cloned with the same argument", "Clone no longer keeps the defining tree, sets the using tree from its argument and re-homes every descendant")
		// UsesRoot before Root in the three accessors
		for _, fn := range []string{"getNodeNamespaceInternal", "getNodeModulenameInternal"} {
			fd, _ := w.FuncDecl(w.Func("parse", fn))
			usesFirst := false
			if len(fd.Body.List) > 0 {
				if is, ok := fd.Body.List[0].(*ast.IfStmt); ok {
					found := false
					ast.Inspect(is, func(x ast.Node) bool {
						if ce, ok := x.(*ast.CallExpr); ok {
							if c := calleeOf(pp, ce); c != nil && nm(c) == "UsesRoot" && !found {
								found = true
							}
						}
						return true
					})
					usesFirst = found
				}
			}
			r.Check(usesFirst, "R12.2", fn, fd.Pos(), "consults UsesRoot() first", "namespace/module of a node is taken from where it was defined even when it was copied in by uses")
		}
		// applyUsesToNode: kidmod derives from mod / use, never from group
		au := w.Method("compile", "Compiler", "applyUsesToNode")
		afd, _ := w.FuncDecl(au)
		var groupObj, useObj, modObj types.Object
		modObj, useObj = paramObj(p, afd, 0), paramObj(p, afd, 2)
		ast.Inspect(afd.Body, func(x ast.Node) bool {
			if vs, ok := x.(*ast.ValueSpec); ok && len(vs.Names) == 1 && vs.Names[0].Name == "group" {
				groupObj = p.TypesInfo.Defs[vs.Names[0]]
			}
			return true
		})
		var kidmod types.Object
		okSrc := true
		for _, ce := range allCallsTo(p, afd.Body, cloneI) {
			kidmod = objOfIdent(p, ce.Args[0])
		}
		if kidmod == nil {
			okSrc = false
		} else {
			ast.Inspect(afd.Body, func(x ast.Node) bool {
				checkRhs := func(e ast.Expr) {
					ast.Inspect(e, func(y ast.Node) bool {
						if id, ok := y.(*ast.Ident); ok && groupObj != nil && p.TypesInfo.Uses[id] == groupObj {
							okSrc = false
						}
						return true
					})
				}
				switch s := x.(type) {
				case *ast.AssignStmt:
					for i, l := range s.Lhs {
						if objOfIdent(p, l) == kidmod && i < len(s.Rhs) {
							checkRhs(s.Rhs[i])
						}
					}
				case *ast.IfStmt:
					// a condition that guards an assignment to kidmod must not look at the grouping
					assignsKid := false
					ast.Inspect(s.Body, func(y ast.Node) bool {
						if as, ok := y.(*ast.AssignStmt); ok {
							for _, l := range as.Lhs {
								if objOfIdent(p, l) == kidmod {
									assignsKid = true
								}
							}
						}
						return true
					})
					if assignsKid {
						if s.Init != nil {
							if as, ok := s.Init.(*ast.AssignStmt); ok {
								for _, rh := range as.Rhs {
									checkRhs(rh)
								}
							}
						}
						checkRhs(s.Cond)
					}
				}
				return true
			})
		}
		_ = modObj
		_ = useObj
		r.Check(okSrc, "R12.2", "applyUsesToNode: module handed to Clone", afd.Pos(), "derived from the using side (mod / use.Root())", "the home of copied grouping nodes is chosen by looking at the grouping: nodes of a grouping defined in a submodule (or used from one) get the wrong namespace/module")
	})

	r.Rule("R12.3", "when, if-feature and status written on a uses or augment reach every node it introduces: inheritCommonProperties copies exactly those three, and every child moved or cloned by applyUsesToNode / applyAugment passes through it first", 3)
	r.guard("R12.3", func() {
		icps := c12InheritFuncs(w)
		isInherit := func(f *types.Func) bool {
			for _, x := range icps {
				if x == f {
					return true
				}
			}
			return false
		}
		inheritCalls := func(n ast.Node) []*ast.CallExpr {
			var out []*ast.CallExpr
			for _, x := range icps {
				out = append(out, allCallsTo(p, n, x)...)
			}
			return out
		}
		_ = isInherit
		names, _ := nodeTypeNames(w)
		c12InheritUnconditional(w, r, "R12.3")
		for _, icp := range icps {
			fd, _ := w.FuncDecl(icp)
			var kinds []string
			ast.Inspect(fd.Body, func(x ast.Node) bool {
				if ce, ok := x.(*ast.CallExpr); ok {
					if c := calleeOf(p, ce); c != nil && nm(c) == "ChildrenByType" && objOfIdent(p, ce.Fun.(*ast.SelectorExpr).X) == paramObj(p, fd, 0) {
						if v, ok := ConstInt(p, ce.Args[0]); ok {
							kinds = append(kinds, names[v])
						}
					}
				}
				return true
			})
			sort.Strings(kinds)
			label := "inheritCommonProperties"
			if len(icps) > 1 {
				label = nm(icp)
			}
			r.Check(strings.Join(kinds, ",") == "if-feature,status,when", "R12.3", label, fd.Pos(), "copies if-feature, status, when from the parent", "inherited statement set is {"+strings.Join(kinds, ",")+"}, must be {if-feature,status,when}")
		}
		// applyUsesToNode: every Clone result is passed to inheritCommonProperties(use, newKid, …)
		au := w.Method("compile", "Compiler", "applyUsesToNode")
		afd, _ := w.FuncDecl(au)
		cloneI := w.interfaceMethod("parse", "Node", "Clone")
		okU := false
		ast.Inspect(afd.Body, func(x ast.Node) bool {
			rs, ok := x.(*ast.RangeStmt)
			if !ok {
				return true
			}
			var nk types.Object
			for _, s := range rs.Body.List {
				if as, ok := s.(*ast.AssignStmt); ok && len(as.Rhs) == 1 {
					if ce, ok := as.Rhs[0].(*ast.CallExpr); ok && calleeOf(p, ce) == cloneI {
						nk = objOfIdent(p, as.Lhs[0])
					}
				}
			}
			if nk == nil {
				return true
			}
			for _, ce := range inheritCalls(rs.Body) {
				if objOfIdent(p, ce.Args[0]) == paramObj(p, afd, 2) && objOfIdent(p, ce.Args[1]) == nk {
					okU = true
				}
			}
			return true
		})
		r.Check(okU, "R12.3", "applyUsesToNode inherits onto every clone", afd.Pos(), "inheritCommonProperties(use, clone, false) in the clone loop", "cloned grouping nodes do not receive the when/if-feature/status of the uses statement")
		// applyAugment: every child handed to applyChange (or re-homed) is first passed through inheritCommonProperties(a, ch, true);
		// the first loop over a.Children() must cover data nodes, opd nodes, extensions AND uses
		aa := w.Method("compile", "Compiler", "applyAugment")
		gfd, _ := w.FuncDecl(aa)
		applyChange := w.Method("compile", "Compiler", "applyChange")
		allInherit := true
		nMoves := 0
		ast.Inspect(gfd.Body, func(x ast.Node) bool {
			rs, ok := x.(*ast.RangeStmt)
			if !ok {
				return true
			}
			val := objOfIdent(p, rs.Value)
			for _, ce := range allCallsTo(p, rs.Body, applyChange) {
				if len(ce.Args) == 3 && objOfIdent(p, ce.Args[2]) == val {
					nMoves++
					// an inherit call on the same variable must precede it in the same block
					pre := false
					ast.Inspect(rs.Body, func(y ast.Node) bool {
						blk, ok := y.(*ast.BlockStmt)
						if !ok {
							return true
						}
						for i, s := range blk.List {
							if len(allCallsTo(p, s, applyChange)) > 0 && s.Pos() <= ce.Pos() && ce.End() <= s.End() {
								for _, prev := range blk.List[:i] {
									for _, ic := range inheritCalls(prev) {
										if objOfIdent(p, ic.Args[1]) == val && objOfIdent(p, ic.Args[0]) == paramObj(p, gfd, 0) {
											pre = true
										}
									}
								}
							}
						}
						return true
					})
					if !pre {
						allInherit = false
					}
				}
			}
			return true
		})
		r.Check(allInherit && nMoves > 0, "R12.3", "applyAugment inherits before moving a child", gfd.Pos(), fmt.Sprintf("%d moves, each preceded by inheritCommonProperties(a, child, true)", nMoves), "a child of the augment is attached to the target without first receiving the augment's when/if-feature/status (e.g. a nested uses): the nodes it later expands to are unconditional")
	})

	r.Rule("R12.4", "legality tables: refinable statements = RFC 6020 §7.12.2, augmentable targets = §7.15 (vendor opd kinds reviewed)", 2)
	r.guard("R12.4", func() {
		rfd, _ := w.FuncDecl(w.Method("compile", "Compiler", "refinementIsValid"))
		got := nilArmKeywords(w, rfd)
		r.Check(strings.Join(got, ",") == strings.Join(rfcRefine, ","), "R12.4", "refinementIsValid", rfd.Pos(), strings.Join(got, ","), "refinable statements are {"+strings.Join(got, ",")+"}; RFC 6020 §7.12.2 lists {"+strings.Join(rfcRefine, ",")+"}")
		afd, _ := w.FuncDecl(w.Method("compile", "Compiler", "augmentationIsValid"))
		var core []string
		for _, k := range nilArmKeywords(w, afd) {
			if !isVendorKw(k) {
				core = append(core, k)
			}
		}
		r.Check(strings.Join(core, ",") == strings.Join(rfcAugmentTargets, ","), "R12.4", "augmentationIsValid", afd.Pos(), strings.Join(core, ","), "augmentable targets are {"+strings.Join(core, ",")+"}; RFC 6020 §7.15 lists {"+strings.Join(rfcAugmentTargets, ",")+"}")
	})
}

func checkC15(w *World, r *Report) {
	r.NotDecided = []string{
		"semantic validity of the expressions (only that each is compiled and its error surfaced)",
		"the documented silent fallback from the vendor-extended must to the standard must",
	}
	p := w.Pkg("compile")
	cerr := w.Method("compile", "Compiler", "error")

	r.Rule("R15.1", "every must/when/path is compiled and its error surfaced: every builder of a node kind that may carry when (resp. must) calls BuildWhens (resp. BuildMusts); the leafref builder reaches NewLeafrefMachine; the error of every New*Machine call in compile/ reaches Compiler.error", 12)
	r.guard("R15.1", func() {
		tbl, _ := cardinalityTable(w)
		bw, bm := w.Method("compile", "Compiler", "BuildWhens"), w.Method("compile", "Compiler", "BuildMusts")
		builders := map[string]string{"container": "BuildContainer", "list": "BuildList", "leaf": "BuildLeaf", "leaf-list": "BuildLeafList", "choice": "BuildChoice", "case": "BuildCase"}
		var kinds []string
		for k := range builders {
			kinds = append(kinds, k)
		}
		sort.Strings(kinds)
		for _, kind := range kinds {
			f := w.Method("compile", "Compiler", builders[kind])
			fd, _ := w.FuncDecl(f)
			if _, ok := tbl[kind]["when"]; ok {
				r.Check(len(allCallsTo(p, fd.Body, bw)) == 1, "R15.1", builders[kind]+" compiles when", fd.Pos(), "calls BuildWhens", "'"+kind+"' may carry a when statement (substatement table) but its builder never compiles it: an invalid expression is accepted and never evaluated")
			}
			if _, ok := tbl[kind]["must"]; ok {
				r.Check(len(allCallsTo(p, fd.Body, bm)) == 1, "R15.1", builders[kind]+" compiles must", fd.Pos(), "calls BuildMusts", "'"+kind+"' may carry must statements but its builder never compiles them")
			}
		}
		// machine constructors: error reaches c.error
		n := 0
		for _, fd := range funcDecls(p) {
			if isTestFile(w, fd.Pos()) {
				continue
			}
			ast.Inspect(fd.Body, func(x ast.Node) bool {
				as, ok := x.(*ast.AssignStmt)
				if !ok || len(as.Rhs) != 1 || len(as.Lhs) != 2 {
					return true
				}
				ce, ok := as.Rhs[0].(*ast.CallExpr)
				if !ok {
					return true
				}
				f := calleeOf(p, ce)
				if f == nil || !strings.Contains(f.Pkg().Path(), "/xpath/grammars/") || !strings.HasSuffix(strings.TrimSuffix(strings.TrimSuffix(f.Name(), "WithCustomFunctions"), "WithCustomFns"), "Machine") {
					return true
				}
				n++
				errObj := objOfIdent(p, as.Lhs[1])
				surfaced := false
				ast.Inspect(fd.Body, func(y ast.Node) bool {
					if c2, ok := y.(*ast.CallExpr); ok && calleeOf(p, c2) == cerr && len(c2.Args) == 2 && objOfIdent(p, c2.Args[1]) == errObj {
						surfaced = true
					}
					// the auxiliary path-evaluation machines (warnings mode only) report through saveWarning;
					// the expression itself is compiled, and its error raised, by the expr machine
					if c2, ok := y.(*ast.CallExpr); ok && strings.Contains(f.Pkg().Path(), "path_eval") {
						if g := calleeOf(p, c2); g != nil && nm(g) == "saveWarning" {
							usesErr := false
							ast.Inspect(c2, func(z ast.Node) bool {
								if id, ok := z.(*ast.Ident); ok && p.TypesInfo.Uses[id] == errObj {
									usesErr = true
								}
								return true
							})
							if usesErr {
								surfaced = true
							}
						}
					}
					if ret, ok := y.(*ast.ReturnStmt); ok {
						for _, e := range ret.Results {
							if objOfIdent(p, e) == errObj {
								surfaced = true
							}
						}
					}
					return true
				})
				c := fmt.Sprintf("%s: %s error", funcDeclName(fd), f.Name())
				if !surfaced && nm(f) == "NewExprMachineWithCustomFunctions" {
					r.Reviewed("R15.1", c, ce.Pos(), "documented silent fallback from the extended must to the standard must, whose error is surfaced")
					return true
				}
				r.Check(surfaced, "R15.1", c, ce.Pos(), "reaches Compiler.error / is returned", "the compile error of an embedded expression is dropped: a module with an invalid expression compiles")
				return true
			})
		}
		if n < 4 {
			r.Fail("R15.1", "machine constructor calls", token.NoPos, fmt.Sprintf("only %d found", n))
		}
		gp := w.Method("compile", "Compiler", "getPath")
		gfd, _ := w.FuncDecl(gp)
		lr := w.Func("xpath/grammars/leafref", "NewLeafrefMachine")
		ml := w.Method("compile", "Compiler", "makeLeafref")
		mfd, _ := w.FuncDecl(ml)
		r.Check(len(allCallsTo(p, gfd.Body, lr)) == 1 && len(allCallsTo(p, mfd.Body, gp)) == 1, "R15.1", "leafref path is compiled", gfd.Pos(), "makeLeafref → getPath → NewLeafrefMachine", "a leafref path is no longer compiled when the type is built")
	})

	r.Rule("R15.2", "prefixes are resolved from the statement as written: in each prefix-mapping closure the receiver of YangPrefixToNamespace is the very node that supplies the expression text, not the node that carries it", 3)
	r.guard("R15.2", func() {
		// the three places that compile when, must and leafref path: same analysis as R15.5
		c15TextAndScope(w, r, "R15.2", func(fn string) bool { return fn == "BuildWhens" || fn == "BuildMusts" || fn == "getPath" })
	})

	r.Rule("R15.5", "text and prefix scope belong to the same statement: at every machine constructor call in package compile the expression text is read directly from a parse statement and the prefix-mapping closure resolves through that very statement", 5)
	r.guard("R15.5", func() {
		c15TextAndScope(w, r, "R15.5", nil)
	})

	r.Rule("R15.6", "prefix lookup is first-match: the scan of a module's import statements in getPfxName carries no state from one import to the next (it returns at the first import whose prefix matches — the module's own imports precede those merged from its submodules)", 1)
	r.guard("R15.6", func() {
		f := w.SSAFunc(w.Func("parse", "getPfxName"))
		if f == nil {
			panic(undecided{"parse.getPfxName"})
		}
		loops := ssaLoops(f)
		if len(loops) == 0 {
			// the scan handed to slices.IndexFunc (first index whose element satisfies the test): the element
			// used is the one at that index of the same list
			for _, b := range f.Blocks {
				for _, in := range b.Instrs {
					c, ok := in.(*ssa.Call)
					if !ok || c.Call.StaticCallee() == nil || len(c.Call.Args) != 2 {
						continue
					}
					g := c.Call.StaticCallee()
					if o := g.Origin(); o != nil {
						g = o
					}
					if g.String() != "slices.IndexFunc" {
						continue
					}
					uses := 0
					okUse := true
					for _, ref := range *c.Referrers() {
						switch x := ref.(type) {
						case *ssa.IndexAddr:
							uses++
							if x.X != c.Call.Args[0] || x.Index != ssa.Value(c) {
								okUse = false
							}
						case *ssa.BinOp, *ssa.DebugRef:
						default:
							okUse = false
						}
					}
					r.Check(uses > 0 && okUse, "R15.6", "getPfxName import scan", f.Pos(), "slices.IndexFunc: the first matching import decides", "the index found by the search is not used to take the import from the list searched")
					return
				}
			}
		}
		if len(loops) != 1 {
			panic(undecided{"parse.getPfxName: expected one loop"})
		}
		l := loops[0]
		bad := ""
		for _, in := range l.Header.Instrs {
			phi, ok := in.(*ssa.Phi)
			if !ok {
				continue
			}
			ind := true
			for _, lt := range l.Latches {
				bo, ok := phiEdge(phi, lt).(*ssa.BinOp)
				if !ok || bo.Op != token.ADD || bo.X != phi {
					ind = false
				}
			}
			if !ind && !loopCarriedIndependent(phi, l) {
				bad = phi.Comment
			}
		}
		r.Check(bad == "", "R15.6", "getPfxName import scan", f.Pos(), "no loop-carried result: the first matching import decides", "variable "+bad+" is carried through the scan: a later import with the same prefix (merged from an included submodule) overrides the module's own import")
	})

	r.Rule("R15.10", "every condition handed down is kept and compiled: node.AddWhenChildren attaches all the `when` statements it is given, whatever their text — two statements with the same text may come from different modules and resolve their prefixes differently", 1)
	r.guard("R15.10", func() {
		f := w.SSAFunc(w.Method("parse", "node", "AddWhenChildren"))
		if f == nil || len(f.Params) != 3 {
			panic(undecided{"parse.node.AddWhenChildren"})
		}
		given := ssa.Value(f.Params[2])
		children := w.Field("parse", "node", "children")
		sym := NewSym(w)
		why := "the statements given are not appended to the children"
		for _, b := range f.Blocks {
			for _, in := range b.Instrs {
				st, ok := in.(*ssa.Store)
				if !ok {
					continue
				}
				fa, ok := st.Addr.(*ssa.FieldAddr)
				if !ok || !isFieldAddrOf(fa, children) {
					continue
				}
				app, ok := st.Val.(*ssa.Call)
				if !ok {
					continue
				}
				if bi, isB := app.Call.Value.(*ssa.Builtin); !isB || bi.Name() != "append" || len(app.Call.Args) != 2 {
					continue
				}
				if app.Call.Args[1] == given {
					// the whole list at once: reached whatever the statements are
					if !pcSat(pcNotF(sym.PathCond(f.Blocks[0], b, nil))) {
						why = ""
					} else {
						why = "the list is appended only under a condition"
					}
					continue
				}
				// one at a time: on every way round the loop over the list
				if l, in := loopOf(f, b); in {
					all := len(l.Latches) > 0
					for _, lt := range l.Latches {
						if !(b == lt || b.Dominates(lt)) {
							all = false
						}
					}
					if all {
						why = ""
					} else {
						why = "some of the statements given are skipped (the append does not happen on every iteration)"
					}
				}
			}
		}
		r.Check(why == "", "R15.10", "AddWhenChildren attaches every statement it is given", f.Pos(), "append(children, given...)", why+": a `when` inherited from a uses or augment in another module is dropped when the node already has one with the same text, so it is never compiled in its own prefix scope (an unknown prefix goes unreported, a different binding is lost)")
	})

	r.Rule("R15.11", "a module's own prefix bindings win over those of its submodules: Process(Sub)moduleIncludes add the import statements of an included submodule after everything the module has (AddChildren) — prefix lookup takes the first import that matches (R15.6), and RFC 6020 lets `include` stand before `import`", 2)
	r.guard("R15.11", func() {
		names, _ := nodeTypeNames(w)
		for _, fn := range []string{"ProcessModuleIncludes", "ProcessSubmoduleIncludes"} {
			f := w.SSAFunc(w.Method("compile", "Compiler", fn))
			if f == nil {
				panic(undecided{"Compiler." + fn})
			}
			n := 0
			why := ""
			root := f
			if h := tailOrOnlyDelegate(f); h != nil {
				f = h // both walk the includes in one function, told by a table what to adopt
			}
			for _, b := range f.Blocks {
				for _, in := range b.Instrs {
					src, ok := in.(*ssa.Call)
					if !ok || !src.Call.IsInvoke() || nm(src.Call.Method) != "ChildrenByType" || len(src.Call.Args) != 1 {
						continue
					}
					isImport := false
					if k, isK := intConstOf(src.Call.Args[0]); isK {
						isImport = names[k] == "import"
					} else if kinds, okT := tableKindsHanded(w, root, f, src.Call.Args[0]); okT {
						for _, k := range kinds {
							isImport = isImport || names[k] == "import"
						}
					}
					if !isImport {
						continue
					}
					if src.Call.Value == ssa.Value(f.Params[1]) {
						continue // the module's own imports
					}
					n++
					for _, ref := range *src.Referrers() {
						switch x := ref.(type) {
						case *ssa.DebugRef:
						case *ssa.Call:
							if !(x.Call.IsInvoke() && nm(x.Call.Method) == "AddChildren" && x.Call.Value == ssa.Value(f.Params[1])) {
								why = "the submodule's imports are handed to " + pcCalleeName(x.Common())
							}
						default:
							why = "the submodule's imports are rearranged (`" + ref.String() + "`) before they are attached"
						}
					}
				}
			}
			if n == 0 {
				why = "no merging of the submodule's import statements found"
			}
			r.Check(why == "", "R15.11", fn+" appends the submodule's imports", f.Pos(), "m.AddChildren(submodule imports...)", why+": placed before the module's own import of the same prefix they shadow it, and the module's must/when/path expressions resolve through the submodule's binding")
		}
	})

	r.Rule("R15.7", "what an expression compiles to depends only on its text and on the prefix map of the statement it is written in: the expression compilers keep no package-level state that is written during compilation (no memo of compiled programs keyed by text) — same analysis as R06.3", 3)
	r.guard("R15.7", func() { c06GlobalsRule(w, r, "R15.7") })

	r.Rule("R15.8", "the machine stored for a must/when is compiled from that very statement: the machine handed to NewMustContext / NewWhenContext comes from a constructor call of the same loop iteration, never from a value carried over from the previous statement", 2)
	r.guard("R15.8", func() {
		for _, c := range []struct{ fn, ctor string }{{"BuildMusts", "NewMustContext"}, {"BuildWhens", "NewWhenContext"}} {
			f := w.SSAFunc(w.Method("compile", "Compiler", c.fn))
			if f == nil {
				panic(undecided{"Compiler." + c.fn})
			}
			loops := ssaLoops(f)
			checked := false
			for _, b := range f.Blocks {
				for _, in := range b.Instrs {
					call, ok := in.(*ssa.Call)
					if !ok || call.Call.StaticCallee() == nil || call.Call.StaticCallee().Name() != c.ctor {
						continue
					}
					checked = true
					// innermost loop around the call
					var hdr *ssa.BasicBlock
					for _, l := range loops {
						if l.body()[b] && (hdr == nil || hdr.Dominates(l.Header)) {
							hdr = l.Header
						}
					}
					carried := ""
					seen := map[ssa.Value]bool{}
					var walk func(v ssa.Value, d int)
					walk = func(v ssa.Value, d int) {
						if seen[v] || d > 10 {
							return
						}
						seen[v] = true
						if phi, ok := v.(*ssa.Phi); ok {
							if phi.Block() == hdr {
								carried = phi.Comment
								return
							}
							for _, e := range phi.Edges {
								walk(e, d+1)
							}
						}
					}
					walk(call.Call.Args[0], 0)
					r.Check(hdr != nil && carried == "", "R15.8", c.fn+": machine handed to "+c.ctor, call.Pos(), "built in the same iteration", "the machine stored for a statement can be the one left in variable "+carried+" by the previous statement of the node: the later must/when is then never compiled (no syntax or prefix check) and evaluates the earlier expression")
				}
			}
			if !checked {
				panic(undecided{c.fn + ": " + c.ctor + " call not found"})
			}
		}
	})

	r.Rule("R15.9", "a module's own prefix always means the module itself: GetModuleByPrefix tests the prefix against the root's own prefix before it consults the import statements (which, after the imports of included submodules were merged in, may bind the same prefix to another module)", 1)
	r.guard("R15.9", func() {
		f := w.SSAFunc(w.Method("parse", "node", "GetModuleByPrefix"))
		if f == nil {
			panic(undecided{"parse.node.GetModuleByPrefix"})
		}
		var ownTest, lookup *ssa.BasicBlock
		for _, b := range f.Blocks {
			for _, in := range b.Instrs {
				switch x := in.(type) {
				case *ssa.Call:
					if x.Call.StaticCallee() != nil && nm(x.Call.StaticCallee()) == "getPfxName" {
						lookup = b
					}
				case *ssa.BinOp:
					if x.Op == token.EQL || x.Op == token.NEQ {
						for _, side := range []ssa.Value{x.X, x.Y} {
							if c, ok := side.(*ssa.Call); ok && c.Call.IsInvoke() && nm(c.Call.Method) == "Prefix" {
								for _, ref := range *x.Referrers() {
									if _, isIf := ref.(*ssa.If); isIf {
										ownTest = b
									}
								}
							}
						}
					}
				}
			}
		}
		if ownTest == nil || lookup == nil {
			panic(undecided{"GetModuleByPrefix: own-prefix test / import lookup"})
		}
		r.Check(ownTest != lookup && ownTest.Dominates(lookup), "R15.9", "GetModuleByPrefix tests the own prefix first", f.Pos(), "root.Prefix() == pfx decided before getPfxName(root, pfx)", "the import statements are consulted before the module's own prefix: when an included submodule imports another module under the prefix the module uses for itself, every m:name written in the module resolves to that other module")
	})

	r.Rule("R15.3", "prefix lookup goes through the defining module: GetModuleByPrefix (and what it calls) reads the node's defining tree, never the using tree; only the empty prefix takes the context-dependent namespace; an unknown prefix is an error unless unknowns are skipped", 3)
	r.guard("R15.3", func() {
		pp := w.Pkg("parse")
		g := w.Method("parse", "node", "GetModuleByPrefix")
		gfd, _ := w.FuncDecl(g)
		bad := false
		ast.Inspect(gfd.Body, func(x ast.Node) bool {
			if ce, ok := x.(*ast.CallExpr); ok {
				if c := calleeOf(pp, ce); c != nil && nm(c) == "UsesRoot" {
					bad = true
				}
			}
			if fieldOfSel(pp, asExpr(x)) == w.Field("parse", "node", "useTree") {
				bad = true
			}
			return true
		})
		usesRoot := false
		ast.Inspect(gfd.Body, func(x ast.Node) bool {
			if ce, ok := x.(*ast.CallExpr); ok {
				if c := calleeOf(pp, ce); c != nil && nm(c) == "Root" {
					usesRoot = true
				}
			}
			return true
		})
		r.Check(!bad && usesRoot, "R15.3", "node.GetModuleByPrefix", gfd.Pos(), "reads Root() (defining tree) only", "prefix lookup consults the using module's import table")
		// unknown prefix → error unless skipUnknown
		okUnknown := false
		ast.Inspect(gfd.Body, func(x ast.Node) bool {
			is, ok := x.(*ast.IfStmt)
			if !ok {
				return true
			}
			if u, ok := ast.Unparen(is.Cond).(*ast.UnaryExpr); ok && u.Op == token.NOT && objOfIdent(pp, u.X) == paramObj(pp, gfd, 2) {
				for _, ret := range returnsIn(is.Body) {
					if len(ret.Results) == 2 && !isNilIdent(pp, ret.Results[1]) {
						okUnknown = true
					}
				}
			}
			return true
		})
		r.Check(okUnknown, "R15.3", "unknown prefix is an error", gfd.Pos(), "!skipUnknown ⇒ error", "an unknown prefix is silently accepted")
		// YangPrefixToNamespace: the UsesRoot-based branch only for prefix == ""
		y := w.Method("parse", "node", "YangPrefixToNamespace")
		yfd, _ := w.FuncDecl(y)
		internal := w.Func("parse", "getNodeNamespaceInternal")
		okEmpty := false
		for _, s := range yfd.Body.List {
			is, ok := s.(*ast.IfStmt)
			if !ok || len(allCallsTo(pp, is.Body, internal)) == 0 {
				continue
			}
			be, ok := ast.Unparen(is.Cond).(*ast.BinaryExpr)
			if ok && be.Op == token.EQL && objOfIdent(pp, be.X) == paramObj(pp, yfd, 0) {
				if v, ok := ConstStr(pp, be.Y); ok && v == "" {
					okEmpty = true
				}
			}
		}
		nInternal := len(allCallsTo(pp, yfd.Body, internal))
		r.Check(okEmpty && nInternal == 1, "R15.3", "node.YangPrefixToNamespace", yfd.Pos(), "context namespace only for the empty prefix; any written prefix goes through GetModuleByPrefix", "a written prefix (e.g. the module's own) is mapped to the using module's namespace: a grouping that spells its own prefix changes meaning when used from another module")
	})

	r.Rule("R15.4", "a prefix-mapping failure is a compile error: in both lexers a non-nil error from the mapping function becomes the lexer error and the ERR token", 2)
	r.guard("R15.4", func() {
		errTok := xutilsTok(w, "ERR")
		for _, c := range []struct{ pkg, typ string }{{"xpath", "CommonLex"}, {"xpath/grammars/leafref", "leafrefLex"}} {
			m := w.Method(c.pkg, c.typ, "LexName")
			fd, lp := w.FuncDecl(m)
			ok := false
			ast.Inspect(fd.Body, func(x ast.Node) bool {
				is, isIf := x.(*ast.IfStmt)
				if !isIf {
					return true
				}
				be, isB := ast.Unparen(is.Cond).(*ast.BinaryExpr)
				if !isB || be.Op != token.NEQ || !isNilIdent(lp, be.Y) {
					return true
				}
				errObj := objOfIdent(lp, be.X)
				if errObj == nil || errObj.Type().String() != "error" {
					return true
				}
				sets := false
				ast.Inspect(is.Body, func(y ast.Node) bool {
					if ce, ok := y.(*ast.CallExpr); ok {
						if f := calleeOf(lp, ce); f != nil && nm(f) == "SetError" && len(ce.Args) == 1 && objOfIdent(lp, ce.Args[0]) == errObj {
							sets = true
						}
					}
					return true
				})
				retErr := false
				for _, ret := range returnsIn(is.Body) {
					if v, isC := ConstInt(lp, ret.Results[0]); isC && v == errTok {
						retErr = true
					}
				}
				if sets && retErr {
					ok = true
				}
				return true
			})
			r.Check(ok, "R15.4", c.typ+".LexName mapFn error", fd.Pos(), "err ≠ nil ⇒ SetError(err); return ERR", "an unknown prefix reported by the mapping function does not stop compilation")
		}
	})
}

// c12CompilerFields (R12.10 / R11.13 / R15.12): the mutable fields of compile.Compiler and their writers are the reviewed ones.
func c12CompilerFields(w *World, r *Report, rule string) {
	cst, ok := scopeLookup(w.Pkg("compile").Types.Scope(), "Compiler").(*types.TypeName)
	if !ok {
		panic(undecided{"compile.Compiler"})
	}
	st := cst.Type().Underlying().(*types.Struct)
	reviewed := map[string]string{
		"modules":            "NewCompiler",
		"modnames":           "Compiler.ExpandModules",
		"submodules":         "NewCompiler",
		"identities":         "Compiler.checkIdentities",
		"deviations":         "NewCompiler;Compiler.addDeviation",
		"warnings":           "Compiler.saveWarning",
		"typedefsInProgress": "Compiler.BuildBaseType",
		"verifiedFeatures":   "NewCompiler;Compiler.checkFeatures",
	}
	writers := map[string]map[string]bool{}
	for _, f := range allFuncs(w.SSAPkg("compile")) {
		if isTestFile(w, f.Pos()) {
			continue
		}
		who := strings.Join(w.OwnerNames(f), "|")
		for _, b := range f.Blocks {
			for _, in := range b.Instrs {
				var fa *ssa.FieldAddr
				switch x := in.(type) {
				case *ssa.Store:
					fa, _ = x.Addr.(*ssa.FieldAddr)
				case *ssa.MapUpdate:
					if ld, ok := x.Map.(*ssa.UnOp); ok {
						fa, _ = ld.X.(*ssa.FieldAddr)
					}
				}
				if fa == nil {
					continue
				}
				fv := fieldAddrVar(fa)
				if fv == nil {
					continue
				}
				own := false
				for i := 0; i < st.NumFields(); i++ {
					if st.Field(i) == fv {
						own = true
					}
				}
				if !own {
					continue
				}
				if writers[nm(fv)] == nil {
					writers[nm(fv)] = map[string]bool{}
				}
				writers[nm(fv)][who] = true
			}
		}
	}
	for i := 0; i < st.NumFields(); i++ {
		fv := st.Field(i)
		switch fv.Type().Underlying().(type) {
		case *types.Map, *types.Slice, *types.Struct:
		default:
			continue // flags, callbacks, interfaces set at construction
		}
		var ws []string
		for k := range writers[nm(fv)] {
			ws = append(ws, k)
		}
		sort.Strings(ws)
		exp, known := reviewed[nm(fv)]
		if !known {
			r.Fail(rule, "Compiler."+fv.Name(), fv.Pos(), "a field of a mutable kind ("+fv.Type().String()+", written by {"+strings.Join(ws, ",")+"}) that is not among the reviewed ones: what it remembers outlives the module it was computed for")
			continue
		}
		okW := true
		allowed := map[string]bool{}
		for _, a := range strings.Split(exp, ";") {
			allowed[a] = true
		}
		for _, x := range ws {
			any := false
			for _, nme := range strings.Split(x, "|") {
				if allowed[nme] {
					any = true
				}
			}
			if !any {
				okW = false
			}
		}
		r.Check(okW, rule, "Compiler."+fv.Name(), fv.Pos(), "written by "+strings.Join(ws, ","), "Compiler."+fv.Name()+" is written by {"+strings.Join(ws, ",")+"}, reviewed writers are {"+exp+"}")
	}
}

// tailOrOnlyDelegate: f does nothing but call one function of its package with
// its own parameters (and package-level tables); that function.
func tailOrOnlyDelegate(f *ssa.Function) *ssa.Function {
	if f == nil || len(f.Blocks) != 1 {
		return nil
	}
	var call *ssa.Call
	for _, in := range f.Blocks[0].Instrs {
		switch x := in.(type) {
		case *ssa.Call:
			if call != nil {
				return nil
			}
			call = x
		case *ssa.UnOp, *ssa.Return, *ssa.DebugRef:
		default:
			return nil
		}
	}
	if call == nil || call.Call.StaticCallee() == nil || call.Call.StaticCallee().Pkg != f.Pkg || call.Call.StaticCallee().Blocks == nil {
		return nil
	}
	return call.Call.StaticCallee()
}

// recordedFunc: f is a function of the reviewed tree (anchors.json has it under this name).
func recordedFunc(w *World, pkgKey string, f *types.Func) bool {
	rec := w.recordedAnchors()
	if rec == nil {
		return true
	}
	rp, ok := rec[pkgKey]
	if !ok {
		return true
	}
	recv := ""
	if sig, isSig := f.Type().(*types.Signature); isSig && sig.Recv() != nil {
		t := sig.Recv().Type()
		if pt, isP := t.(*types.Pointer); isP {
			t = pt.Elem()
		}
		if n, isN := t.(*types.Named); isN {
			recv = n.Obj().Name()
		}
	}
	for _, af := range rp.Funcs {
		if af.Name == f.Name() && af.Recv == recv {
			return true
		}
	}
	return false
}

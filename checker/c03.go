package main

import (
	"bytes"
	"fmt"
	"go/ast"
	"go/token"
	"os"
	"os/exec"
	"path/filepath"
	"regexp"
	"sort"
	"strings"

	"golang.org/x/tools/go/ssa"
)

func init() { register("C03", checkC03) }

// goyaccText runs goyacc on a grammar text and returns the generated file and
// the listing.
func (w *World) goyaccText(tag, prefix, ysrc string) (gen []byte, listing string, err error) {
	od := filepath.Join(w.TmpDir, "variant-"+tag)
	os.MkdirAll(od, 0o755)
	y := filepath.Join(od, "g.y")
	os.WriteFile(y, []byte(ysrc), 0o644)
	cmd := exec.Command(filepath.Join(w.VerifD, "bin", "goyacc"), "-p", prefix, "-o", filepath.Join(od, "g.go"), "-v", filepath.Join(od, "y.output"), y)
	cmd.Dir = od
	var eb bytes.Buffer
	cmd.Stderr, cmd.Stdout = &eb, &eb
	if err := cmd.Run(); err != nil {
		return nil, "", fmt.Errorf("%v: %s", err, eb.String())
	}
	gen, _ = os.ReadFile(filepath.Join(od, "g.go"))
	l, _ := os.ReadFile(filepath.Join(od, "y.output"))
	return gen, string(l), nil
}

// tablesOnly keeps the parser tables of a generated file (everything that
// encodes the automaton), dropping token constants order-insensitively.
var tableRe = regexp.MustCompile(`(?s)var (\w+)(Exca|Act|Pact|Pgo|R1|R2|Chk|Def|Tok1|Tok2|Tok3) = \[\.\.\.\]\w+\{.*?\n\}`)

func tablesOnly(gen []byte) string {
	n, err := normalizeGo(gen)
	if err != nil {
		return "ERR:" + err.Error()
	}
	return strings.Join(tableRe.FindAllString(n, -1), "\n")
}

// operator levels of XPath 1.0 §3.4/§3.5, lowest precedence first. Tokens are
// the grammar's terminal names.
var xpathLevels = []struct {
	name  string
	ops   []string
	unary bool
}{
	{"or", []string{"OR"}, false},
	{"and", []string{"AND"}, false},
	{"equality", []string{"EQ", "NE"}, false},
	{"relational", []string{"GE", "GT", "LE", "LT"}, false},
	{"additive", []string{"'+'", "'-'"}, false},
	{"multiplicative", []string{"'*'", "DIV", "MOD"}, false},
	{"unary", []string{"'-'"}, true},
	{"union", []string{"'|'"}, false},
}

type gLevel struct {
	nt    string
	ops   []string
	unary bool
	next  string
	prods []*Prod
}

// stratify follows the chain of unit productions from `start`.
func stratify(g *Grammar, start string) (levels []gLevel, bottom string, problems []string) {
	cur := start
	seen := map[string]bool{}
	for {
		if seen[cur] {
			problems = append(problems, "cycle of unit productions at "+cur)
			return
		}
		seen[cur] = true
		ps := g.ProdsOf(cur)
		var unit *Prod
		for _, p := range ps {
			if len(p.RHS) == 1 && g.NonTerms[p.RHS[0].Name] && len(p.Actions) == 0 {
				if unit != nil {
					// more than one unit production: not a chain level
					return levels, cur, problems
				}
				unit = p
			}
		}
		if unit == nil {
			return levels, cur, problems
		}
		next := unit.RHS[0].Name
		lv := gLevel{nt: cur, next: next}
		ok := true
		for _, p := range ps {
			if p == unit {
				continue
			}
			switch {
			case len(p.RHS) == 3 && p.RHS[0].Name == cur && g.IsTerminal(p.RHS[1].Name) && p.RHS[2].Name == next:
				lv.ops = append(lv.ops, p.RHS[1].Name)
				lv.prods = append(lv.prods, p)
			case len(p.RHS) == 2 && g.IsTerminal(p.RHS[0].Name) && p.RHS[1].Name == cur:
				lv.ops = append(lv.ops, p.RHS[0].Name)
				lv.unary = true
				lv.prods = append(lv.prods, p)
			default:
				ok = false
			}
		}
		if !ok {
			return levels, cur, problems
		}
		sort.Strings(lv.ops)
		levels = append(levels, lv)
		cur = next
	}
}

func checkC03(w *World, r *Report) {
	r.Level = "proof"
	r.NotDecided = []string{
		"the LALR(1) construction and the table-driven driver of goyacc are trusted",
		"equality of *results* follows from equality of programs; the run-time semantics of the instructions are C01",
	}
	r.Assumptions = []string{
		"goyacc builds a correct LALR(1) automaton for a conflict-free grammar",
		"go/types resolves the calls in the generated actions",
	}
	g := w.Gram["expr"]

	r.Rule("R03.1", "the committed generated parser xpath.go equals goyacc(xpath.y) as a program (comments, //line and layout ignored): the automaton that runs is the grammar's", 1)
	r.guard("R03.1", func() {
		a, err1 := normalizeGo(g.Committed)
		b, err2 := normalizeGo(g.Generated)
		switch {
		case g.Committed == nil:
			r.Fail("R03.1", "xpath/grammars/expr/xpath.go", token.NoPos, "committed generated parser missing")
		case err1 != nil || err2 != nil:
			r.Fail("R03.1", "xpath/grammars/expr/xpath.go", token.NoPos, fmt.Sprintf("cannot parse: %v %v", err1, err2))
		default:
			r.Check(a == b, "R03.1", "xpath/grammars/expr/xpath.go", token.NoPos,
				fmt.Sprintf("%d bytes normalised, identical", len(a)),
				"committed xpath.go is not what goyacc generates from xpath.y: "+firstDiffLine(a, b))
		}
	})

	r.Rule("R03.2", "the LALR(1) automaton of xpath.y has no conflicts, and none that %left/%prec resolve silently: removing every precedence declaration yields the same tables with 0 conflicts", 2)
	r.guard("R03.2", func() {
		sr, rr, ok := g.Conflicts()
		r.Check(ok && sr == 0 && rr == 0, "R03.2", "xpath.y conflicts", token.NoPos,
			"0 shift/reduce, 0 reduce/reduce", fmt.Sprintf("conflicts: %d shift/reduce, %d reduce/reduce (found=%v)", sr, rr, ok))
		src, _ := os.ReadFile(g.Path)
		stripped := stripPrecedence(string(src))
		gen, listing, err := w.goyaccText("noprec", g.Prefix, stripped)
		if err != nil {
			r.Fail("R03.2", "xpath.y without precedence", token.NoPos, "goyacc failed: "+err.Error())
			return
		}
		g2 := &Grammar{Listing: listing}
		sr2, rr2, ok2 := g2.Conflicts()
		same := tablesOnly(gen) == tablesOnly(g.Generated) && tablesOnly(gen) != ""
		r.Check(ok2 && sr2 == 0 && rr2 == 0 && same, "R03.2", "xpath.y without precedence", token.NoPos,
			"0 conflicts and identical tables: precedence declarations resolve nothing",
			fmt.Sprintf("without %%left/%%prec: %d S/R, %d R/R conflicts, tables identical=%v — the grammar is ambiguous and the parse depends on declarations, not on stratification", sr2, rr2, same))
	})

	r.Rule("R03.3", "from Expr the operator non-terminals form a chain Ni → Ni+1 | Ni op Ni+1 whose levels are exactly or < and < equality < relational < additive < multiplicative < unary minus < union (left recursion = left associativity)", 8)
	var levels []gLevel
	var bottom string
	r.guard("R03.3", func() {
		if !g.NonTerms["Expr"] {
			panic(undecided{"non-terminal Expr"})
		}
		var problems []string
		levels, bottom, problems = stratify(g, "Expr")
		for _, p := range problems {
			r.Fail("R03.3", "chain", token.NoPos, p)
		}
		// drop pure unit levels (Expr → OrExpr)
		var opLevels []gLevel
		for _, l := range levels {
			if len(l.ops) > 0 {
				opLevels = append(opLevels, l)
			}
		}
		for i, want := range xpathLevels {
			c := "level " + want.name
			if i >= len(opLevels) {
				r.Fail("R03.3", c, token.NoPos, "level missing from the chain (chain stops at "+bottom+")")
				continue
			}
			got := opLevels[i]
			wantOps := append([]string{}, want.ops...)
			sort.Strings(wantOps)
			r.Check(strings.Join(got.ops, " ") == strings.Join(wantOps, " ") && got.unary == want.unary,
				"R03.3", c, token.NoPos,
				fmt.Sprintf("%s → %s | %s {%s} %s", got.nt, got.next, got.nt, strings.Join(got.ops, ","), got.next),
				fmt.Sprintf("non-terminal %s has operators {%s} unary=%v, XPath 1.0 requires {%s} unary=%v at this level", got.nt, strings.Join(got.ops, ","), got.unary, strings.Join(wantOps, ","), want.unary))
		}
		if len(opLevels) > len(xpathLevels) {
			r.Fail("R03.3", "extra level", token.NoPos, "unexpected operator level at "+opLevels[len(xpathLevels)].nt)
		}
		// operators must not appear anywhere else in the grammar
		opSet := map[string]bool{}
		inChain := map[*Prod]bool{}
		for _, l := range opLevels {
			for _, o := range l.ops {
				opSet[o] = true
			}
			for _, p := range l.prods {
				inChain[p] = true
			}
		}
		for _, p := range g.Prods {
			if inChain[p] {
				continue
			}
			for _, s := range p.RHS {
				// '/' and '*'-as-name are not chain operators; '-' '+' etc. must not be used elsewhere
				if opSet[s.Name] {
					r.Fail("R03.3", "operator outside chain: "+p.String(), token.NoPos, "operator token "+s.Name+" also occurs in a production outside the stratified chain")
				}
			}
		}
		r.Count("productions", len(g.Prods))
	})

	r.Rule("R03.4", "parentheses emit nothing: PrimaryExpr → '(' Expr ')' has no action and is reached from the bottom of the chain through action-free unit productions", 2)
	gi := (*GenInfo)(nil)
	r.guard("R03.4", func() {
		gi = w.GenInfo("expr")
		var paren *Prod
		for _, p := range g.Prods {
			if len(p.RHS) == 3 && p.RHS[0].Name == "'('" && p.RHS[2].Name == "')'" && g.NonTerms[p.RHS[1].Name] {
				paren = p
			}
		}
		if paren == nil {
			r.Fail("R03.4", "paren production", token.NoPos, "no production X → '(' Y ')'")
			return
		}
		// inner symbol must derive the chain top via unit productions without actions: it must be in levels or "Expr"
		innerOK := paren.RHS[1].Name == "Expr"
		r.Check(innerOK && len(paren.Actions) == 0 && gi.Cases[paren.Num] == nil, "R03.4", paren.String(), token.NoPos,
			"no action; inner symbol is the chain top", "parenthesis production has an action or does not wrap Expr")
		// bottom → ... → paren.LHS via action-free unit productions
		reach := map[string]bool{bottom: true}
		changed := true
		for changed {
			changed = false
			for _, p := range g.Prods {
				if reach[p.LHS] && len(p.RHS) == 1 && g.NonTerms[p.RHS[0].Name] && len(p.Actions) == 0 && !reach[p.RHS[0].Name] {
					reach[p.RHS[0].Name] = true
					changed = true
				}
			}
		}
		r.Check(reach[paren.LHS], "R03.4", "path "+bottom+" ⇒ "+paren.LHS, token.NoPos,
			"action-free unit productions only", "the parenthesised primary is not reachable from "+bottom+" through action-free unit productions (an instruction would be emitted for a parenthesised operand that is not emitted for a bare one)")
	})

	r.Rule("R03.5", "every operator production has exactly one end-of-rule action, that emits exactly one instruction through CodeFn (postfix order: operand code precedes the operator's); no mid-rule actions in the chain; CodeFn appends exactly one Inst", 17)
	r.guard("R03.5", func() {
		if gi == nil {
			gi = w.GenInfo("expr")
		}
		codeFn := w.Method("xpath", "ProgBuilder", "CodeFn")
		// goyacc numbering sanity: R2 of each production equals our RHS length
		for _, p := range g.Prods {
			if p.Num < len(gi.R2) && int(gi.R2[p.Num]) != len(p.RHS) {
				r.Fail("R03.5", "numbering "+p.String(), token.NoPos, fmt.Sprintf("production %d: generated table says %d right-hand symbols, grammar reader says %d", p.Num, gi.R2[p.Num], len(p.RHS)))
			}
		}
		for _, l := range levels {
			for _, p := range g.ProdsOf(l.nt) {
				if p.MidRule() {
					r.Fail("R03.5", p.String(), token.NoPos, "mid-rule action on the operator chain")
				}
			}
			for _, p := range l.prods {
				bc := gi.BuilderCalls(p.Num)
				n := 0
				for _, c := range bc {
					if c.Callee == codeFn {
						n++
					}
				}
				other := 0
				for _, c := range bc {
					if c.Callee != codeFn && nm(c.Callee) != "GetProgBldr" {
						other++
					}
				}
				r.Check(len(p.Actions) == 1 && n == 1 && other == 0, "R03.5", p.String(), gi.Cases[p.Num].Pos(),
					"one end action, one CodeFn call", fmt.Sprintf("operator production must emit exactly one instruction: %d actions, %d CodeFn calls, %d other builder calls", len(p.Actions), n, other))
			}
		}
		// CodeFn → one progs.Update ; Update → Pop, append(_, i), Push
		fd, p := w.FuncDecl(codeFn)
		update := w.Method("xpath", "ProgStack", "Update")
		_ = p
		okCodeFn := false
		if cf := w.SSAFunc(codeFn); cf != nil {
			// one instruction is made and handed, once, to something that appends exactly it
			appends, others := 0, 0
			for _, b := range cf.Blocks {
				for _, in := range b.Instrs {
					c, isC := in.(*ssa.Call)
					if !isC {
						continue
					}
					g := c.Call.StaticCallee()
					switch {
					case g != nil && g.Blocks != nil && c03UpdateAppendsOne(w, g):
						appends++
					case g != nil && g.Pkg == cf.Pkg && g.Signature.Results().Len() == 1 && strings.HasSuffix(g.Signature.Results().At(0).Type().String(), "xpath.Inst"):
						// the constructor of the instruction
					default:
						others++
					}
				}
			}
			okCodeFn = appends == 1 && others == 0
		}
		r.Check(okCodeFn, "R03.5", "ProgBuilder.CodeFn", fd.Pos(),
			"one Update call", "CodeFn must append exactly one instruction (one ProgStack.Update call and one constructor)")
		ufd, up := w.FuncDecl(update)
		_ = up
		okU := c03UpdateAppendsOne(w, w.SSAFunc(update))
		r.Check(okU, "R03.5", "ProgStack.Update", ufd.Pos(), "the top program becomes append(top, inst): pop; push(append(prog, inst)), or the top slot rewritten in place", "Update is not pop-append-push of exactly the given instruction at the end")
	})

	r.Rule("R03.6", "'(' is in, and ')' is not in, the set of tokens after which '*' / an NCName cannot be an operator, and so is every operator token of the precedence chain: adding the parentheses precedence implies never flips the disambiguation of a neighbour", 18)
	r.guard("R03.6", func() {
		set := tokenCannotPrecedeOperator(w)
		r.Check(set.contains('('), "R03.6", "tokenCanBeOperator '('", token.NoPos, "'(' ∈ cannot-precede set", "'(' must be in the §3.7 set: after '(' a '*' is a name test")
		r.Check(!set.contains(')'), "R03.6", "tokenCanBeOperator ')'", token.NoPos, "')' ∉ cannot-precede set", "')' must not be in the §3.7 set: after ')' a '*' is the multiply operator")
		// every operator token of the precedence chain is in the set: otherwise an operand that starts with a
		// name or '*' is lexed as an operator after that token, while the same operand in parentheses is not
		ops := map[string]int64{"'*'": '*', "'/'": '/', "'|'": '|', "'+'": '+', "'-'": '-'}
		for _, n := range []string{"AND", "OR", "MOD", "DIV", "DBLSLASH", "EQ", "NE", "LT", "LE", "GT", "GE"} {
			ops[n] = xutilsTok(w, n)
		}
		var names []string
		for n := range ops {
			names = append(names, n)
		}
		sort.Strings(names)
		for _, n := range names {
			r.Check(set.contains(ops[n]), "R03.6", "tokenCanBeOperator after operator "+n, token.NoPos, "∈ cannot-precede set",
				"operator "+n+" is missing from the §3.7 set: after it a function/element name is taken for an operator name and '*' for multiplication, so `a "+strings.Trim(n, "'")+" b` is rejected or mis-lexed while `a "+strings.Trim(n, "'")+" (b)` is not")
		}
	})

	r.Rule("R03.9", "every bracketed context restarts at the lowest precedence level: what stands between '(' and ')' of a parenthesised expression or function call, between the commas of an argument list, and between '[' and ']' of a predicate is the full Expr (through unit productions only) — otherwise an operator mix is accepted with explicit parentheses and rejected without", 5)
	r.guard("R03.9", func() {
		g := w.Gram["expr"]
		byLHS := map[string][]*Prod{}
		for _, p := range g.Prods {
			byLHS[p.LHS] = append(byLHS[p.LHS], p)
		}
		resolve := func(n string) string {
			for i := 0; i < 8; i++ {
				ps := byLHS[n]
				if len(ps) == 1 && len(ps[0].RHS) == 1 && g.NonTerms[ps[0].RHS[0].Name] && n != "Expr" {
					n = ps[0].RHS[0].Name
					continue
				}
				break
			}
			return n
		}
		isOpen := func(s string) bool {
			return s == "'('" || s == "','" || s == "'['" || resolveTerm(byLHS, g, s) == "'['"
		}
		isClose := func(s string) bool {
			return s == "')'" || s == "','" || s == "']'" || resolveTerm(byLHS, g, s) == "']'"
		}
		n := 0
		for _, p := range g.Prods {
			for i := 1; i+1 < len(p.RHS); i++ {
				mid := p.RHS[i].Name
				if !g.NonTerms[mid] || !isOpen(p.RHS[i-1].Name) || !isClose(p.RHS[i+1].Name) {
					continue
				}
				if resolveTerm(byLHS, g, mid) != "" {
					continue // a delimiter wrapped in its own non-terminal
				}
				n++
				got := resolve(mid)
				// deref()/count() take a location path by design
				if (got == "LocationPath") && (p.LHS == "DerefFunc" || p.LHS == "CountFunc") {
					r.Reviewed("R03.9", p.String(), token.NoPos, "deref()/count() take a location path, not an expression (documented restriction of the supported subset)")
					continue
				}
				r.Check(got == "Expr", "R03.9", p.String(), token.NoPos, mid+" ⇒ Expr", "the bracketed operand "+mid+" resolves to "+got+", not to the full Expr: e.g. `a[k = 1 or j = 2]` is a syntax error while `a[(k = 1 or j = 2)]` compiles")
			}
		}
		if n == 0 {
			panic(undecided{"no bracketed operand position found in xpath.y"})
		}
	})

	r.Rule("R03.10", "a number ends where an operator name may begin: the characters LexNum collects include no letter with which an operator name starts (a, d, m, o) — `4div 2`, `1and 0` need no white space between the number and the operator (XPath 1.0 §3.7)", 1)
	r.guard("R03.10", func() {
		set := lexNumAlphabet(w)
		toks, _ := spellingTokens(w, "exprLex", "xpath/grammars/expr")
		var clash []string
		for k := range toks {
			if k[0] >= 'a' && k[0] <= 'z' && set.contains(int64(k[0])) {
				clash = append(clash, k)
			}
		}
		sort.Strings(clash)
		fd, _ := w.FuncDecl(w.Method("xpath", "CommonLex", "LexNum"))
		r.Check(len(clash) == 0, "R03.10", "CommonLex.LexNum stops before an operator name", fd.Pos(), "number alphabet "+set.String()+" holds no first letter of an operator name",
			"a number token swallows the first letter of the operator name(s) {"+strings.Join(clash, ",")+"}: an expression that glues them to a number is rejected (or read as one bad number) although the spaced form is accepted")
	})

	r.Rule("R03.7", "whitespace between tokens is skipped and carries no state: the lexer's skip arm is exactly {SP,TAB,LF,CR} with no effect; isWhitespace is the same set; LexName's look-aheads go through whitespace-skipping helpers; precToken is written only by SaveTokenType", 6)
	r.guard("R03.7", func() { c03Whitespace(w, r) })

	r.Rule("R03.8", "each operator spelling reaches the grammar token of its level: lexer dispatch, operator-name table, relational-operator table and the common→expr token map agree with the level table", 14)
	r.guard("R03.8", func() { c03Spelling(w, r) })
}

var precLineRe = regexp.MustCompile(`(?m)^%(left|right|nonassoc)\b`)
var precUseRe = regexp.MustCompile(`%prec\s+('[^']*'|\w+)`)

func stripPrecedence(src string) string {
	src = precLineRe.ReplaceAllString(src, "%token")
	return precUseRe.ReplaceAllString(src, "")
}

// tokenCannotPrecedeOperator evaluates tokenCanBeOperator over precToken.
func tokenCannotPrecedeOperator(w *World) ISet {
	f := w.Method("xpath", "CommonLex", "tokenCanBeOperator")
	prec := w.Field("xpath", "CommonLex", "precToken")
	pe := NewPredEval(w, intDom{})
	pe.Subject = func(p *packagesPackage, fd *ast.FuncDecl, e ast.Expr) bool {
		return fieldOfSel(p, e) == prec
	}
	t := pe.TrueSet(f).(ISet)
	return t.complement()
}

// resolveTerm: if non-terminal n has exactly one production whose RHS is a
// single terminal, return that terminal ("" otherwise).
func resolveTerm(byLHS map[string][]*Prod, g *Grammar, n string) string {
	ps := byLHS[n]
	if len(ps) == 1 && len(ps[0].RHS) == 1 && !g.NonTerms[ps[0].RHS[0].Name] {
		return ps[0].RHS[0].Name
	}
	return ""
}

// c03UpdateAppendsOne: Update(i) makes the top program append(top, i) and
// touches nothing else — written as Pop; Push(append(popped, i)) or as
// stack[len(stack)-1] = append(stack[len(stack)-1], i).
func c03UpdateAppendsOne(w *World, f *ssa.Function) bool {
	if f == nil || len(f.Params) != 2 || len(ssaLoops(f)) > 0 {
		return false
	}
	// the stack: the receiver itself (ProgStack.Update), or a field of the receiver (a method of the builder)
	isStack := func(v ssa.Value) bool {
		if v == ssa.Value(f.Params[0]) {
			return true
		}
		fa, ok := v.(*ssa.FieldAddr)
		return ok && fa.X == ssa.Value(f.Params[0])
	}
	pop, push := w.SSAFunc(w.Method("xpath", "ProgStack", "Pop")), w.SSAFunc(w.Method("xpath", "ProgStack", "Push"))
	var appends, pops, pushes []*ssa.Call
	var stores []*ssa.Store
	for _, b := range f.Blocks {
		for _, in := range b.Instrs {
			switch x := in.(type) {
			case *ssa.Call:
				if bi, ok := x.Call.Value.(*ssa.Builtin); ok && bi.Name() == "append" {
					appends = append(appends, x)
				}
				switch x.Call.StaticCallee() {
				case pop:
					pops = append(pops, x)
				case push:
					pushes = append(pushes, x)
				}
			case *ssa.Store:
				if _, isIA := x.Addr.(*ssa.IndexAddr); isIA {
					if al, ok := x.Addr.(*ssa.IndexAddr).X.(*ssa.Alloc); ok && strings.Contains(al.Comment, "varargs") {
						continue // filling an argument list
					}
					stores = append(stores, x)
				} else if _, isAl := x.Addr.(*ssa.Alloc); !isAl {
					stores = append(stores, x)
				}
			}
		}
	}
	if len(appends) != 1 {
		return false
	}
	ap := appends[0]
	els := sliceLiteralElems(ap.Call.Args[1])
	if len(els) != 1 || els[0] != ssa.Value(f.Params[1]) {
		return false
	}
	base := ap.Call.Args[0]
	// pop; push(append(popped, i))
	if len(pops) == 1 && len(pushes) == 1 && len(stores) == 0 {
		sameStack := isStack(pops[0].Call.Args[0]) && isStack(pushes[0].Call.Args[0])
		if pfa, ok := pops[0].Call.Args[0].(*ssa.FieldAddr); ok {
			qfa, ok2 := pushes[0].Call.Args[0].(*ssa.FieldAddr)
			sameStack = sameStack && ok2 && pfa.Field == qfa.Field
		}
		return base == ssa.Value(pops[0]) && len(pushes[0].Call.Args) == 2 && pushes[0].Call.Args[1] == ssa.Value(ap) && sameStack
	}
	// stack[len-1] = append(stack[len-1], i)
	if len(pops) == 0 && len(pushes) == 0 && len(stores) == 1 && stores[0].Val == ssa.Value(ap) {
		topSlot := func(v ssa.Value) (ssa.Value, bool) { // &S[len(S)-1] with S = *ps
			ia, ok := v.(*ssa.IndexAddr)
			if !ok {
				return nil, false
			}
			bo, ok := ia.Index.(*ssa.BinOp)
			if !ok || bo.Op != token.SUB {
				return nil, false
			}
			if k, isK := intConstOf(bo.Y); !isK || k != 1 {
				return nil, false
			}
			arg, isLen := isLenCall(bo.X)
			if !isLen || arg != ia.X {
				return nil, false
			}
			ld, ok := ia.X.(*ssa.UnOp)
			if !ok || ld.Op != token.MUL || ld.X != ssa.Value(f.Params[0]) {
				return nil, false
			}
			return ia.X, true
		}
		dst, ok1 := topSlot(stores[0].Addr)
		ld, isLd := base.(*ssa.UnOp)
		if !ok1 || !isLd || ld.Op != token.MUL {
			return false
		}
		src, ok2 := topSlot(ld.X)
		return ok2 && src == dst
	}
	return false
}

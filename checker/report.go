package main

import (
	"encoding/json"
	"fmt"
	"go/token"
	"os"
	"path/filepath"
	"sort"
	"strings"
	"time"
)

// An Obligation is one instance of one rule on one construct. Constructs are
// named by package/function/expression, never by line.
type Obligation struct {
	Rule      string `json:"rule"`
	Construct string `json:"construct"`
	Pos       string `json:"pos,omitempty"`
	Status    string `json:"status"` // ok | violation | known | reviewed
	Detail    string `json:"detail,omitempty"`
}

type RuleInfo struct {
	ID    string `json:"id"`
	Text  string `json:"text"`
	Floor int    `json:"floor"`
	Count int    `json:"instances"`
	Open  int    `json:"open"`
}

type Report struct {
	Prop        string
	Tier        string
	Level       string
	W           *World
	Obls        []Obligation
	Rules       map[string]*RuleInfo
	ruleOrder   []string
	Assumptions []string
	NotDecided  []string
	Extra       map[string]any
	Analysed    map[string]int
	start       time.Time
}

func NewReport(prop, tier string, w *World) *Report {
	return &Report{Prop: prop, Tier: tier, Level: "other", W: w, Rules: map[string]*RuleInfo{},
		Extra: map[string]any{}, Analysed: map[string]int{}, start: time.Now()}
}

// Rule declares a rule with its text and the hand-confirmed instance floor.
func (r *Report) Rule(id, text string, floor int) {
	if _, ok := r.Rules[id]; !ok {
		r.Rules[id] = &RuleInfo{ID: id, Text: text, Floor: floor}
		r.ruleOrder = append(r.ruleOrder, id)
	}
}

func (r *Report) add(rule, construct string, pos token.Pos, status, detail string) {
	ri := r.Rules[rule]
	if ri == nil {
		panic("rule not declared: " + rule)
	}
	ri.Count++
	if status == "violation" {
		ri.Open++
	}
	ps := ""
	if r.W != nil && pos.IsValid() {
		ps = r.W.PosStr(pos)
	}
	r.Obls = append(r.Obls, Obligation{Rule: rule, Construct: construct, Pos: ps, Status: status, Detail: detail})
}

func (r *Report) OK(rule, construct string, pos token.Pos, detail string) {
	r.add(rule, construct, pos, "ok", detail)
}
func (r *Report) Reviewed(rule, construct string, pos token.Pos, detail string) {
	r.add(rule, construct, pos, "reviewed", detail)
}
func (r *Report) Fail(rule, construct string, pos token.Pos, detail string) {
	r.add(rule, construct, pos, "violation", detail)
}

// Check records ok or violation.
func (r *Report) Check(cond bool, rule, construct string, pos token.Pos, okDetail, failDetail string) bool {
	if cond {
		r.OK(rule, construct, pos, okDetail)
	} else {
		r.Fail(rule, construct, pos, failDetail)
	}
	return cond
}

func (r *Report) Count(what string, n int) { r.Analysed[what] += n }

// StandsFor: the instance just recorded sits in a helper that is called from n
// places, i.e. it stands for n instances of the rule (n-1 more than counted).
func (r *Report) StandsFor(rule string, n int) {
	if ri := r.Rules[rule]; ri != nil && n > 1 {
		ri.Count += n - 1
	}
}

// guard runs a rule body; a lost anchor (undecided panic) becomes an open
// obligation of that rule, any other panic propagates (exit 2).
func (r *Report) guard(rule string, body func()) {
	defer func() {
		if x := recover(); x != nil {
			if u, ok := x.(undecided); ok {
				r.Fail(rule, "anchor", token.NoPos, "mechanism not found: "+u.why)
				return
			}
			panic(x)
		}
	}()
	body()
}

// ---- known findings ----

type KnownFinding struct {
	Property  string `json:"property"`
	Rule      string `json:"rule"`
	Construct string `json:"construct"`
	What      string `json:"what"`
	Input     string `json:"failing_input,omitempty"`
}

type KnownFile struct {
	Findings []KnownFinding `json:"findings"`
	Fixed    []string       `json:"fixed"`
}

func loadKnown(verifd string) KnownFile {
	var k KnownFile
	b, err := os.ReadFile(filepath.Join(verifd, "known_findings.json"))
	if err != nil {
		return k
	}
	if err := json.Unmarshal(b, &k); err != nil {
		fmt.Fprintf(os.Stderr, "known_findings.json: %v\n", err)
		os.Exit(2)
	}
	return k
}

// Finish applies floors and the known-findings list, writes evidence and the
// replay file, prints the verdict lines, and returns the exit code.
func (r *Report) Finish(verifd string) int {
	known := loadKnown(verifd)
	// floors
	for _, id := range r.ruleOrder {
		ri := r.Rules[id]
		if ri.Count < ri.Floor {
			r.Obls = append(r.Obls, Obligation{Rule: id, Construct: "floor", Status: "violation",
				Detail: fmt.Sprintf("rule matched %d instances, hand-confirmed floor is %d: the rule would pass vacuously", ri.Count, ri.Floor)})
			ri.Open++
		}
	}
	usedKnown := map[int]bool{}
	nviol, nknown := 0, 0
	for i := range r.Obls {
		o := &r.Obls[i]
		if o.Status != "violation" {
			continue
		}
		for j, k := range known.Findings {
			if k.Property == r.Prop && k.Rule == o.Rule && k.Construct == o.Construct {
				o.Status = "known"
				usedKnown[j] = true
				break
			}
		}
		if o.Status == "known" {
			nknown++
		} else {
			nviol++
		}
	}
	sort.SliceStable(r.Obls, func(i, j int) bool {
		if r.Obls[i].Rule != r.Obls[j].Rule {
			return r.Obls[i].Rule < r.Obls[j].Rule
		}
		return r.Obls[i].Construct < r.Obls[j].Construct
	})
	// print
	printedKnown := map[string]bool{}
	for _, o := range r.Obls {
		if o.Status == "known" {
			line := fmt.Sprintf("KNOWN-FINDING: property=%s %s %s: %s", r.Prop, o.Rule, o.Construct, o.Detail)
			if !printedKnown[line] {
				fmt.Println(line)
				printedKnown[line] = true
			}
		}
	}
	if pat := os.Getenv("YV_VERBOSE"); pat != "" {
		for _, o := range r.Obls {
			if pat == "all" || strings.HasPrefix(o.Rule, pat) {
				fmt.Printf("  [%s] %-9s %s (%s): %s\n", o.Rule, o.Status, o.Construct, o.Pos, o.Detail)
			}
		}
	}
	replay := ""
	selftest := os.Getenv("YV_SELFTEST") != ""
	if nviol > 0 && selftest {
		for _, o := range r.Obls {
			if o.Status == "violation" {
				fmt.Printf("  open: [%s] %s (%s): %s\n", o.Rule, o.Construct, o.Pos, o.Detail)
			}
		}
		return 1
	}
	if selftest {
		return 0
	}
	if nviol > 0 {
		os.MkdirAll(filepath.Join(verifd, "replay"), 0o755)
		replay = filepath.Join(verifd, "replay", r.Prop+".json")
		var vs []Obligation
		for _, o := range r.Obls {
			if o.Status == "violation" {
				vs = append(vs, o)
				fmt.Printf("  open: [%s] %s (%s): %s\n", o.Rule, o.Construct, o.Pos, o.Detail)
			}
		}
		b, _ := json.MarshalIndent(map[string]any{"property": r.Prop, "tier": r.Tier, "violations": vs,
			"how_to_replay": "apply the same tree and run: bin/yvcheck -prop " + r.Prop + " -tier " + r.Tier}, "", " ")
		os.WriteFile(replay, b, 0o644)
		fmt.Printf("VIOLATION property=%s replay=%s\n", r.Prop, replay)
	}
	r.writeEvidence(verifd, nviol, nknown)
	total := len(r.Obls)
	fmt.Printf("%s %s: %d obligations, %d ok/reviewed, %d known findings, %d violations (%.1fs)\n",
		r.Prop, r.Tier, total, total-nviol-nknown, nknown, nviol, time.Since(r.start).Seconds())
	if nviol > 0 {
		return 1
	}
	return 0
}

func (r *Report) writeEvidence(verifd string, nviol, nknown int) {
	var rules []*RuleInfo
	for _, id := range r.ruleOrder {
		rules = append(rules, r.Rules[id])
	}
	discharged := 0
	distinct := map[string]bool{}
	var samples []any
	perRuleSample := map[string]int{}
	for _, o := range r.Obls {
		if o.Status == "ok" || o.Status == "reviewed" {
			discharged++
		}
		distinct[o.Rule+"|"+o.Construct] = true
		if perRuleSample[o.Rule] < 3 {
			perRuleSample[o.Rule]++
			samples = append(samples, o)
		}
	}
	var open []Obligation
	for _, o := range r.Obls {
		if o.Status == "violation" || o.Status == "known" {
			open = append(open, o)
		}
	}
	cov := map[string]any{
		"explanation":         fmt.Sprintf("static analysis of /repo's current source (type-checked program, go/ssa, go/cfg, goyacc-regenerated grammars): %d rule instances (obligations) over %d rules; every obligation names a construct (package/function/table cell) and the rule applied; floors guard against vacuous passes", len(r.Obls), len(rules)),
		"obligations":         len(r.Obls),
		"discharged":          discharged,
		"known_findings":      nknown,
		"evaluations":         len(r.Obls),
		"distinct_nontrivial": len(distinct),
		"rule":                "one obligation per (rule, construct); distinct = distinct (rule, construct) keys; an obligation is non-trivial because it is derived from a construct found in the current source, not a constant",
		"rules":               rules,
		"samples":             samples,
		"open":                open,
		"analysed":            r.Analysed,
		"not_decided":         orEmpty(r.NotDecided),
		"checker_cmd":         "bin/yvcheck -prop " + r.Prop + " -tier " + r.Tier,
		"trusted_base":        []string{"go/types and go/ssa of golang.org/x/tools v0.50.0", "goyacc (LALR construction)", "the checker itself", "the RFC 6020 / XPath 1.0 / XML-Names tables transcribed in checker/spec_*.go"},
	}
	for k, v := range r.Extra {
		cov[k] = v
	}
	seed := 0
	fmt.Sscanf(os.Getenv("VERIF_SEED"), "%d", &seed)
	if r.Assumptions == nil {
		r.Assumptions = defaultAssumptions[r.Prop]
	}
	if r.Assumptions == nil {
		r.Assumptions = []string{}
	}
	if r.NotDecided == nil {
		r.NotDecided = []string{}
	}
	ev := map[string]any{
		"property_id": r.Prop,
		"tier":        r.Tier,
		"seed":        seed,
		"level":       r.Level,
		"coverage":    cov,
		"assumptions": r.Assumptions,
		"wall_s":      time.Since(r.start).Seconds(),
		"violations":  nviol,
	}
	b, _ := json.MarshalIndent(ev, "", " ")
	os.MkdirAll(filepath.Join(verifd, "evidence"), 0o755)
	os.WriteFile(filepath.Join(verifd, "evidence", r.Prop+".json"), b, 0o644)
}

func short(s string) string {
	s = strings.ReplaceAll(s, modPath+"/", "")
	return s
}

func orEmpty(s []string) []string {
	if s == nil {
		return []string{}
	}
	return s
}

// defaultAssumptions: what each property's rules take as given (used when the
// property file does not set its own list).
var defaultAssumptions = map[string][]string{
	"C08": {"strings.Index/TrimRight/Builder behave as documented (standard library)", "RFC 6020 section 6.1.3 trimming rules as transcribed in checker/c08.go"},
	"C10": {"RFC 6020 section 6.1.3 escape table as transcribed in checker/c08.go", "rune iteration over a Go string decodes UTF-8 as documented"},
	"C12": {"schema trees are built only through the compile package's Build*/add* functions (checked who-may-call, not assumed, for the anchored ones)"},
	"C13": {"strconv.ParseInt/ParseUint/ParseFloat report range errors as documented", "RFC 6020 section 9 built-in type bounds as transcribed in checker/c13.go"},
	"C14": {"RFC 6020 section 7.19.2 status ordering current < deprecated < obsolete as transcribed in checker/c14.go"},
	"C15": {"prefix maps are created only by the module/submodule constructors analysed under R15"},
	"C16": {"regexp.Compile accepts the anchored translation of every pattern the existing fixtures use", "RFC 6020 section 9 restriction semantics as transcribed in checker/c16.go"},
	"C17": {"error path segments are produced only by the constructors analysed under R17"},
	"C18": {"RFC 6020 sections 7.6.5, 7.7.3, 7.7.4, 7.9.4 mandatory/min-elements semantics as transcribed in checker/c18.go"},
	"C19": {"encoding/json and encoding/xml tokenisers behave as documented (standard library)"},
	"C20": {"schema filters are pure predicates over schema.Node values (R20.3 checks the ones defined in the module)"},
}

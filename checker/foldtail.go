// Load-time normalisation: a function that the reviewed tree did not have
// (absent from anchors.json and not the new name of a recorded one), that is
// unexported, has exactly one use in its package — a call in tail position
// whose arguments are plain local variables of identical type — is folded
// back into its caller: the analysis sees the caller as it was before its
// tail was moved out.  Nothing changes on a tree whose functions are all
// recorded (in particular the unchanged tree).
package main

import (
	"go/ast"
	"go/token"
	"go/types"

	"golang.org/x/tools/go/packages"
)

var foldedHelpers []string

func (w *World) recordedFuncs() map[string]map[[2]string]bool {
	out := map[string]map[[2]string]bool{}
	rec := w.recordedAnchors()
	for key, rp := range rec {
		m := map[[2]string]bool{}
		for _, f := range rp.Funcs {
			m[[2]string{f.Recv, f.Name}] = true
		}
		out[key] = m
	}
	return out
}

func (w *World) foldNewTailHelpers() {
	foldedHelpers = nil
	if skipNormalise {
		return
	}
	rec := w.recordedFuncs()
	if len(rec) == 0 {
		return
	}
	for key, p := range w.Pkgs {
		was := rec[key]
		if was == nil {
			continue
		}
		for round := 0; round < 3; round++ { // a tail of a tail
			if !w.foldOnce(p, was) {
				break
			}
		}
	}
}

func (w *World) foldOnce(p *packages.Package, was map[[2]string]bool) bool {
	type cand struct {
		fd   *ast.FuncDecl
		file *ast.File
	}
	cands := map[*types.Func]cand{}
	for _, file := range p.Syntax {
		if isTestFile(w, file.Pos()) {
			continue
		}
		for _, d := range file.Decls {
			fd, ok := d.(*ast.FuncDecl)
			if !ok || fd.Body == nil || fd.Type.TypeParams != nil || fd.Name.IsExported() {
				continue
			}
			obj, _ := p.TypesInfo.Defs[fd.Name].(*types.Func)
			if obj == nil {
				continue
			}
			sig := obj.Type().(*types.Signature)
			if was[[2]string{recvName(sig), obj.Name()}] || origName[obj] != "" || convertedFrom[obj] != "" {
				continue
			}
			if sig.Variadic() || sig.TypeParams() != nil || sig.RecvTypeParams() != nil {
				continue
			}
			// named results are variables of the helper that its caller has no declaration for
			namedResult := false
			if fd.Type.Results != nil {
				for _, fl := range fd.Type.Results.List {
					namedResult = namedResult || len(fl.Names) > 0
				}
			}
			if namedResult {
				continue
			}
			bad := false
			ast.Inspect(fd.Body, func(n ast.Node) bool {
				switch x := n.(type) {
				case *ast.DeferStmt:
					bad = true
				case *ast.CallExpr:
					if id, ok := x.Fun.(*ast.Ident); ok && id.Name == "recover" {
						bad = true
					}
				}
				return !bad
			})
			if !bad {
				cands[obj] = cand{fd, file}
			}
		}
	}
	if len(cands) == 0 {
		return false
	}
	uses := map[*types.Func][]*ast.Ident{}
	for id, o := range p.TypesInfo.Uses {
		if f, ok := o.(*types.Func); ok {
			if _, isC := cands[f]; isC {
				uses[f] = append(uses[f], id)
			}
		}
	}
	changed := false
	for h, c := range cands {
		if len(uses[h]) != 1 {
			continue
		}
		use := uses[h][0]
		for _, file := range p.Syntax {
			for _, d := range file.Decls {
				caller, ok := d.(*ast.FuncDecl)
				if !ok || caller.Body == nil || caller == c.fd {
					continue
				}
				if !(caller.Pos() <= use.Pos() && use.End() <= caller.End()) {
					continue
				}
				if w.foldInto(p, caller, c.fd, h, use) {
					// the helper is analysed as part of its caller only
					var keep []ast.Decl
					for _, d2 := range c.file.Decls {
						if d2 != ast.Decl(c.fd) {
							keep = append(keep, d2)
						}
					}
					c.file.Decls = keep
					foldedHelpers = append(foldedHelpers, h.FullName()+" → "+funcDeclName(caller))
					changed = true
				}
			}
		}
	}
	return changed
}

// foldInto replaces the tail call of h in caller by h's body.
func (w *World) foldInto(p *packages.Package, caller, hfd *ast.FuncDecl, h *types.Func, use *ast.Ident) bool {
	sig := h.Type().(*types.Signature)
	callerObj, _ := p.TypesInfo.Defs[caller.Name].(*types.Func)
	if callerObj == nil {
		return false
	}
	csig := callerObj.Type().(*types.Signature)
	calleeIs := func(c *ast.CallExpr) bool {
		switch f := c.Fun.(type) {
		case *ast.Ident:
			return f == use
		case *ast.SelectorExpr:
			return f.Sel == use
		}
		return false
	}
	var list *[]ast.Stmt
	idx := -1
	var call *ast.CallExpr
	var visit func(l *[]ast.Stmt, top bool)
	visitStmt := func(s ast.Stmt) {
		switch x := s.(type) {
		case *ast.BlockStmt:
			visit(&x.List, false)
		case *ast.IfStmt:
			visit(&x.Body.List, false)
			for e := x.Else; e != nil; {
				switch y := e.(type) {
				case *ast.BlockStmt:
					visit(&y.List, false)
					e = nil
				case *ast.IfStmt:
					visit(&y.Body.List, false)
					e = y.Else
				default:
					e = nil
				}
			}
		case *ast.ForStmt:
			visit(&x.Body.List, false)
		case *ast.RangeStmt:
			visit(&x.Body.List, false)
		case *ast.SwitchStmt:
			for _, cc := range x.Body.List {
				visit(&cc.(*ast.CaseClause).Body, false)
			}
		case *ast.TypeSwitchStmt:
			for _, cc := range x.Body.List {
				visit(&cc.(*ast.CaseClause).Body, false)
			}
		case *ast.SelectStmt:
			for _, cc := range x.Body.List {
				visit(&cc.(*ast.CommClause).Body, false)
			}
		case *ast.LabeledStmt:
			// not entered: labels and their targets stay as they are
		}
	}
	visit = func(l *[]ast.Stmt, top bool) {
		for i, s := range *l {
			switch x := s.(type) {
			case *ast.ReturnStmt:
				if len(x.Results) == 1 {
					if c, ok := x.Results[0].(*ast.CallExpr); ok && calleeIs(c) {
						list, idx, call = l, i, c
					}
				}
			case *ast.ExprStmt:
				if c, ok := x.X.(*ast.CallExpr); ok && calleeIs(c) && sig.Results().Len() == 0 {
					last := i == len(*l)-1 && top && csig.Results().Len() == 0
					if i+1 < len(*l) {
						if r, ok := (*l)[i+1].(*ast.ReturnStmt); ok && len(r.Results) == 0 {
							last = true
						}
					}
					if last {
						list, idx, call = l, i, c
					}
				}
			default:
				visitStmt(s)
			}
		}
	}
	visit(&caller.Body.List, true)
	if call == nil || call.Ellipsis.IsValid() {
		return false
	}
	if _, isRet := (*list)[idx].(*ast.ReturnStmt); isRet {
		if sig.Results().Len() != csig.Results().Len() || sig.Results().Len() == 0 {
			return false
		}
		for i := 0; i < sig.Results().Len(); i++ {
			if !types.Identical(sig.Results().At(i).Type(), csig.Results().At(i).Type()) {
				return false
			}
		}
	}
	// parameters ↔ arguments
	subst := map[types.Object]*types.Var{}
	taken := map[*types.Var]bool{}
	bound := map[*types.Var]bool{} // parameters that keep their own variable, assigned before the body
	var pre []ast.Stmt             // `param := argument` for arguments that are not plain variables
	bind := func(param *types.Var, arg ast.Expr) bool {
		id, ok := ast.Unparen(arg).(*ast.Ident)
		if !ok {
			// an expression: evaluated once, before the body, into the parameter's own variable — provided
			// it cannot touch the variables the plain arguments stand for (no closure, no address taken)
			// and the parameter is a real, named one (not the receiver)
			if param == sig.Recv() || param.Name() == "" || param.Name() == "_" {
				return false
			}
			tv, known := p.TypesInfo.Types[arg]
			if !known || tv.Type == nil || !types.Identical(tv.Type, param.Type()) {
				return false
			}
			clean := true
			ast.Inspect(arg, func(n ast.Node) bool {
				switch x := n.(type) {
				case *ast.FuncLit:
					clean = false
				case *ast.UnaryExpr:
					if x.Op == token.AND {
						clean = false
					}
				}
				return clean
			})
			if !clean {
				return false
			}
			nid := &ast.Ident{NamePos: arg.Pos(), Name: param.Name()}
			p.TypesInfo.Defs[nid] = param
			pre = append(pre, &ast.AssignStmt{Lhs: []ast.Expr{nid}, TokPos: arg.Pos(), Tok: token.DEFINE, Rhs: []ast.Expr{arg}})
			bound[param] = true
			return true
		}
		v, ok := p.TypesInfo.Uses[id].(*types.Var)
		if !ok || v.IsField() || v.Parent() == nil || v.Parent() == p.Types.Scope() || taken[v] {
			return false
		}
		if !types.Identical(v.Type(), param.Type()) {
			return false
		}
		taken[v] = true
		if param.Name() != "" && param.Name() != "_" {
			subst[param] = v
		}
		return true
	}
	if sig.Recv() != nil {
		se, ok := call.Fun.(*ast.SelectorExpr)
		if !ok || !bind(sig.Recv(), se.X) {
			return false
		}
	}
	if sig.Params().Len() != len(call.Args) {
		return false
	}
	for i := 0; i < sig.Params().Len(); i++ {
		if !bind(sig.Params().At(i), call.Args[i]) {
			return false
		}
	}
	// every variable of the helper's signature that its body mentions must have found its counterpart
	// in the caller (a named result, for one, has none): otherwise the spliced body would use a
	// variable nothing declares
	orphan := false
	ast.Inspect(hfd.Body, func(n ast.Node) bool {
		if id, ok := n.(*ast.Ident); ok {
			if v, isVar := p.TypesInfo.Uses[id].(*types.Var); isVar && !v.IsField() {
				inSig := hfd.Type.Pos() <= v.Pos() && v.Pos() < hfd.Body.Pos()
				inRecv := hfd.Recv != nil && hfd.Recv.Pos() <= v.Pos() && v.Pos() < hfd.Recv.End()
				if _, has := subst[v]; (inSig || inRecv) && !has && !bound[v] {
					orphan = true
				}
			}
		}
		return !orphan
	})
	if orphan {
		return false
	}
	ast.Inspect(hfd.Body, func(n ast.Node) bool {
		if id, ok := n.(*ast.Ident); ok {
			if v, ok := subst[p.TypesInfo.Uses[id]]; ok {
				p.TypesInfo.Uses[id] = v
				id.Name = v.Name()
			}
		}
		return true
	})
	// spliced in flat (objects, not names, tie identifiers to their variables): the caller reads as before the split
	var nl []ast.Stmt
	nl = append(nl, (*list)[:idx]...)
	nl = append(nl, pre...)
	nl = append(nl, hfd.Body.List...)
	nl = append(nl, (*list)[idx+1:]...)
	*list = nl
	_ = token.NoPos
	return true
}

package main

import (
	"fmt"
	"strings"
	"unicode"
)

// E1: a reader for the yacc sources of the three grammars.

type YSym struct {
	Name string // identifier, or the quoted form 'c' for character tokens
}

func (s YSym) IsChar() bool { return strings.HasPrefix(s.Name, "'") }

type YAction struct {
	At   int // index in RHS before which the action sits; == len(RHS) for end-of-rule
	Text string
	Line int
}

type Prod struct {
	Num     int // goyacc production number (1-based; 0 is $accept)
	LHS     string
	RHS     []YSym
	Actions []YAction
	Prec    string
	Line    int
}

func (p *Prod) String() string {
	var b strings.Builder
	b.WriteString(p.LHS + " →")
	if len(p.RHS) == 0 {
		b.WriteString(" ε")
	}
	for _, s := range p.RHS {
		b.WriteString(" " + s.Name)
	}
	return b.String()
}

type PrecLevel struct {
	Assoc string
	Syms  []string
}

type Grammar struct {
	Name      string
	Path      string
	Tokens    map[string]string // declared %token name -> <type> ("" if none)
	TokenList []string
	Prec      []PrecLevel
	Prods     []*Prod
	Start     string
	NonTerms  map[string]bool

	Generated     []byte
	Committed     []byte
	CommittedPath string
	Listing       string
	GoyaccOut     string
	Prefix        string
}

type ylex struct {
	src  []rune
	pos  int
	line int
}

func (l *ylex) peek() rune {
	if l.pos >= len(l.src) {
		return -1
	}
	return l.src[l.pos]
}
func (l *ylex) next() rune {
	if l.pos >= len(l.src) {
		return -1
	}
	r := l.src[l.pos]
	l.pos++
	if r == '\n' {
		l.line++
	}
	return r
}
func (l *ylex) hasPrefix(s string) bool {
	rs := []rune(s)
	if l.pos+len(rs) > len(l.src) {
		return false
	}
	for i, r := range rs {
		if l.src[l.pos+i] != r {
			return false
		}
	}
	return true
}

func (l *ylex) skipWS() {
	for {
		r := l.peek()
		switch {
		case r == ' ' || r == '\t' || r == '\n' || r == '\r':
			l.next()
		case l.hasPrefix("//"):
			for l.peek() != '\n' && l.peek() != -1 {
				l.next()
			}
		case l.hasPrefix("/*"):
			l.next()
			l.next()
			for !l.hasPrefix("*/") && l.peek() != -1 {
				l.next()
			}
			l.next()
			l.next()
		default:
			return
		}
	}
}

func isIdentRune(r rune, first bool) bool {
	if r == '_' || r == '.' || unicode.IsLetter(r) {
		return true
	}
	return !first && unicode.IsDigit(r)
}

func (l *ylex) ident() string {
	st := l.pos
	for isIdentRune(l.peek(), l.pos == st) {
		l.next()
	}
	return string(l.src[st:l.pos])
}

func (l *ylex) charLit() (string, error) {
	st := l.pos
	l.next() // '
	for {
		r := l.next()
		if r == -1 {
			return "", fmt.Errorf("line %d: unterminated char literal", l.line)
		}
		if r == '\\' {
			l.next()
			continue
		}
		if r == '\'' {
			break
		}
	}
	return string(l.src[st:l.pos]), nil
}

// block reads a brace-balanced Go block starting at '{'.
func (l *ylex) block() (string, error) {
	st := l.pos
	depth := 0
	for {
		r := l.peek()
		switch {
		case r == -1:
			return "", fmt.Errorf("line %d: unterminated action", l.line)
		case l.hasPrefix("//"):
			for l.peek() != '\n' && l.peek() != -1 {
				l.next()
			}
		case l.hasPrefix("/*"):
			for !l.hasPrefix("*/") && l.peek() != -1 {
				l.next()
			}
			l.next()
			l.next()
		case r == '"':
			l.next()
			for l.peek() != '"' && l.peek() != -1 {
				if l.peek() == '\\' {
					l.next()
				}
				l.next()
			}
			l.next()
		case r == '`':
			l.next()
			for l.peek() != '`' && l.peek() != -1 {
				l.next()
			}
			l.next()
		case r == '\'':
			if _, err := l.charLit(); err != nil {
				return "", err
			}
		case r == '{':
			depth++
			l.next()
		case r == '}':
			depth--
			l.next()
			if depth == 0 {
				return string(l.src[st:l.pos]), nil
			}
		default:
			l.next()
		}
	}
}

func ParseYacc(name, path, src string) (*Grammar, error) {
	g := &Grammar{Name: name, Path: path, Tokens: map[string]string{}, NonTerms: map[string]bool{}}
	l := &ylex{src: []rune(src), line: 1}
	// ---- declarations ----
	for {
		l.skipWS()
		if l.peek() == -1 {
			return nil, fmt.Errorf("no %%%% found")
		}
		if l.hasPrefix("%%") {
			l.next()
			l.next()
			break
		}
		if l.hasPrefix("%{") {
			for !l.hasPrefix("%}") && l.peek() != -1 {
				l.next()
			}
			l.next()
			l.next()
			continue
		}
		if l.peek() != '%' {
			return nil, fmt.Errorf("line %d: unexpected %q in declarations", l.line, l.peek())
		}
		l.next()
		kw := l.ident()
		switch kw {
		case "union":
			l.skipWS()
			if _, err := l.block(); err != nil {
				return nil, err
			}
		case "token", "left", "right", "nonassoc", "type":
			typ := ""
			var syms []string
			for {
				l.skipWS()
				r := l.peek()
				if r == '<' {
					l.next()
					st := l.pos
					for l.peek() != '>' && l.peek() != -1 {
						l.next()
					}
					typ = string(l.src[st:l.pos])
					l.next()
					continue
				}
				if r == '\'' {
					c, err := l.charLit()
					if err != nil {
						return nil, err
					}
					syms = append(syms, c)
					continue
				}
				if isIdentRune(r, true) {
					syms = append(syms, l.ident())
					continue
				}
				break
			}
			switch kw {
			case "token":
				for _, s := range syms {
					g.Tokens[s] = typ
					g.TokenList = append(g.TokenList, s)
				}
			case "left", "right", "nonassoc":
				g.Prec = append(g.Prec, PrecLevel{Assoc: kw, Syms: syms})
				for _, s := range syms {
					if !strings.HasPrefix(s, "'") {
						if _, ok := g.Tokens[s]; !ok {
							g.Tokens[s] = typ
							g.TokenList = append(g.TokenList, s)
						}
					}
				}
			}
		case "start":
			l.skipWS()
			g.Start = l.ident()
		default:
			return nil, fmt.Errorf("line %d: unknown directive %%%s", l.line, kw)
		}
	}
	// ---- rules ----
	num := 0
	curLHS := ""
	var cur *Prod
	flush := func() {
		if cur != nil {
			num++
			cur.Num = num
			g.Prods = append(g.Prods, cur)
			cur = nil
		}
	}
	for {
		l.skipWS()
		r := l.peek()
		if r == -1 || l.hasPrefix("%%") {
			flush()
			break
		}
		switch {
		case r == '|':
			l.next()
			flush()
			cur = &Prod{LHS: curLHS, Line: l.line}
		case r == ';':
			l.next()
			flush()
		case r == '{':
			ln := l.line
			txt, err := l.block()
			if err != nil {
				return nil, err
			}
			if cur == nil {
				return nil, fmt.Errorf("line %d: action outside a rule", ln)
			}
			cur.Actions = append(cur.Actions, YAction{At: len(cur.RHS), Text: txt, Line: ln})
		case r == '\'':
			c, err := l.charLit()
			if err != nil {
				return nil, err
			}
			if cur == nil {
				return nil, fmt.Errorf("line %d: symbol outside a rule", l.line)
			}
			cur.RHS = append(cur.RHS, YSym{c})
		case r == '%':
			l.next()
			kw := l.ident()
			if kw != "prec" {
				return nil, fmt.Errorf("line %d: unexpected %%%s in rules", l.line, kw)
			}
			l.skipWS()
			if l.peek() == '\'' {
				c, _ := l.charLit()
				cur.Prec = c
			} else {
				cur.Prec = l.ident()
			}
		case isIdentRune(r, true):
			ln := l.line
			id := l.ident()
			save := *l
			l.skipWS()
			if l.peek() == ':' {
				l.next()
				flush()
				curLHS = id
				g.NonTerms[id] = true
				if g.Start == "" {
					g.Start = id
				}
				cur = &Prod{LHS: id, Line: ln}
			} else {
				*l = save
				if cur == nil {
					return nil, fmt.Errorf("line %d: symbol %s outside a rule", ln, id)
				}
				cur.RHS = append(cur.RHS, YSym{id})
			}
		default:
			return nil, fmt.Errorf("line %d: unexpected %q in rules", l.line, r)
		}
	}
	// mid-rule actions mark: At < len(RHS) after the fact
	return g, nil
}

func (g *Grammar) IsTerminal(s string) bool {
	return !g.NonTerms[s]
}

func (g *Grammar) ProdsOf(lhs string) []*Prod {
	var r []*Prod
	for _, p := range g.Prods {
		if p.LHS == lhs {
			r = append(r, p)
		}
	}
	return r
}

// HasMidRuleAction reports productions with an action before the end.
func (p *Prod) MidRule() bool {
	for _, a := range p.Actions {
		if a.At < len(p.RHS) {
			return true
		}
	}
	return false
}

// Conflicts extracts the conflict summary goyacc writes to y.output.
func (g *Grammar) Conflicts() (sr, rr int, found bool) {
	for _, line := range strings.Split(g.Listing, "\n") {
		if strings.Contains(line, "conflicts reported") {
			if n, _ := fmt.Sscanf(strings.TrimSpace(line), "%d shift/reduce, %d reduce/reduce conflicts reported", &sr, &rr); n == 2 {
				return sr, rr, true
			}
		}
	}
	return 0, 0, false
}

package main

// Rules added after the sixth round of seeded changes.  Each decides a
// structural necessary condition of its property at the place the change was
// made; the helper functions are shared between properties where one
// mechanism serves two of them.

import (
	"fmt"
	"go/constant"
	"go/token"
	"go/types"
	"sort"
	"strings"

	"golang.org/x/tools/go/ssa"
)

// noIntegerFormat: f (and what it calls in the module) turns a number into text
// with the floating-point formatter alone — no conversion of the float to a
// fixed-width integer, no integer formatter.
func noIntegerFormat(w *World, r *Report, rule string, f *ssa.Function, consequence string) {
	if f == nil {
		panic(undecided{rule + ": function not found"})
	}
	var bad []string
	for g := range calleesDeep(f, 3) {
		switch g.String() {
		case "strconv.FormatInt", "strconv.FormatUint", "strconv.Itoa", "strconv.AppendInt", "strconv.AppendUint":
			bad = append(bad, g.String())
		}
	}
	for _, g := range bodiesDeep(f, 3) {
		for _, b := range g.Blocks {
			for _, in := range b.Instrs {
				if cv, ok := in.(*ssa.Convert); ok {
					from, okF := cv.X.Type().Underlying().(*types.Basic)
					to, okT := cv.Type().Underlying().(*types.Basic)
					if okF && okT && from.Info()&types.IsFloat != 0 && to.Info()&types.IsInteger != 0 {
						bad = append(bad, "a conversion of the number to "+to.Name()+" in "+g.Name())
					}
				}
			}
		}
	}
	sort.Strings(bad)
	r.Check(len(bad) == 0, rule, funcKey(f)+" writes numbers with the float formatter only", f.Pos(), "no fixed-width integer on the path", "the text of a number goes through "+strings.Join(bad, ", ")+": "+consequence)
}

// loopMidExits: the condition (from the loop header) under which an iteration
// of l leaves the loop other than through the header's own exit.
func loopMidExits(sym *Sym, l ssaLoop) *pcF {
	body := l.body()
	out := pcZ
	for b := range body {
		if b == l.Header {
			continue
		}
		for _, sc := range b.Succs {
			if !body[sc] {
				out = pcOrF(out, pcAndF(sym.PathCond(l.Header, b, nil), sym.edgeCond(b, sc, nil)))
			}
		}
	}
	return out
}

// r6EqDispatch (R01.10, R02.10): ProgBuilder.Eq.
func r6EqDispatch(w *World, r *Report, rule string, which string) {
	f := w.SSAFunc(w.Method("xpath", "ProgBuilder", "Eq"))
	if f == nil {
		panic(undecided{"ProgBuilder.Eq"})
	}
	switch which {
	case "members":
		// in Eq's own body (not the comparison functions it hands on) no two string values are compared:
		// a member of a leaf-list is compared by re-entering the type-directed comparison
		var bad *ssa.BinOp
		reenters := false
		// Eq itself and the helpers it shares the member loop with (those that call Eq back)
		cone := []*ssa.Function{f}
		for g := range calleesDeep(f, 1) {
			if g != f && g.Pkg == f.Pkg && g.Blocks != nil && g.Parent() == nil && calleesDeep(g, 2)[f] {
				cone = append(cone, g)
			}
		}
		for _, cf := range cone {
			for _, b := range cf.Blocks {
				for _, in := range b.Instrs {
					switch x := in.(type) {
					case *ssa.BinOp:
						if x.Op == token.EQL || x.Op == token.NEQ {
							if bt, ok := x.X.Type().Underlying().(*types.Basic); ok && bt.Info()&types.IsString != 0 {
								bad = x
							}
						}
					case *ssa.Call:
						if _, inLoop := loopOf(cf, b); inLoop {
							g := x.Call.StaticCallee()
							if g == f || (g != nil && calleesDeep(g, 2)[w.SSAFunc(w.Method("xpath", "context", "popCompareEqualityAndPush"))]) || (g != nil && nm(g) == "popCompareEqualityAndPush") {
								reenters = true
							}
						}
					}
				}
			}
		}
		pos := f.Pos()
		if bad != nil {
			pos = bad.Pos()
		}
		r.Check(bad == nil && reenters, rule, "Eq compares the members of a leaf-list by type", pos, "each member goes through the type-directed comparison", "a member of a leaf-list is compared with the other operand as two strings (or not through the comparison that looks at the operand types): `rate = 1.5` fails for the member 1.50, `flag = true()` for every member")
	case "left":
		// the leaf-list arm is chosen by the left operand (the second one popped) alone
		pop := w.SSAFunc(w.Method("xpath", "context", "popDatum"))
		var pops []*ssa.Call
		for _, b := range f.Blocks {
			for _, in := range b.Instrs {
				if c, ok := in.(*ssa.Call); ok && c.Call.StaticCallee() == pop && b == f.Blocks[0] {
					pops = append(pops, c)
				}
			}
		}
		if len(pops) != 2 {
			panic(undecided{"Eq: the two operands popped at entry"})
		}
		n := 0
		why := ""
		for _, b := range f.Blocks {
			for _, in := range b.Instrs {
				c, ok := in.(*ssa.Call)
				if !ok || c.Call.StaticCallee() == nil || nm(c.Call.StaticCallee()) != "TypeIsDatumSlice" || len(c.Call.Args) != 1 {
					continue
				}
				n++
				if c.Call.Args[0] != ssa.Value(pops[1]) {
					why = "the right operand (the key's value inside a predicate) is also asked whether it is a leaf-list"
				}
			}
		}
		if n == 0 {
			panic(undecided{"Eq: TypeIsDatumSlice"})
		}
		r.Check(why == "", rule, "Eq takes the leaf-list arm for a leaf-list on the left only", f.Pos(), "TypeIsDatumSlice(left operand)", why+": `[key = ../leaf-list]` stops being a key predicate, no key is attached and the path is never resolved")
	}
}

// r6StartsWithXML (R04.24)
func r6StartsWithXML(w *World, r *Report, rule string) {
	f := w.SSAFunc(w.Func("xpath/grammars/leafref", "startsWithXML"))
	if f == nil {
		panic(undecided{"leafref.startsWithXML"})
	}
	isXML := func(v ssa.Value) bool {
		k, ok := v.(*ssa.Const)
		return ok && k.Value != nil && k.Value.Kind() == constant.String && strings.EqualFold(constant.StringVal(k.Value), "xml")
	}
	isPrefix3 := func(v ssa.Value) bool {
		sl, ok := v.(*ssa.Slice)
		if !ok || sl.High == nil {
			return false
		}
		hi, okH := intConstOf(sl.High)
		lo := int64(0)
		okL := true
		if sl.Low != nil {
			lo, okL = intConstOf(sl.Low)
		}
		return okH && okL && lo == 0 && hi == 3
	}
	n, why := 0, ""
	for _, b := range f.Blocks {
		for _, in := range b.Instrs {
			switch x := in.(type) {
			case *ssa.BinOp:
				if (x.Op == token.EQL || x.Op == token.NEQ) && (isXML(x.X) || isXML(x.Y)) {
					n++
					other := x.X
					if isXML(x.X) {
						other = x.Y
					}
					if !isPrefix3(other) {
						why = "the whole name is compared with \"xml\""
					}
				}
			case *ssa.Call:
				g := x.Call.StaticCallee()
				if g == nil {
					continue
				}
				switch g.String() {
				case "strings.HasPrefix":
					if isXML(x.Call.Args[1]) {
						n++
					}
				case "strings.EqualFold":
					if isXML(x.Call.Args[1]) || isXML(x.Call.Args[0]) {
						n++
						other := x.Call.Args[0]
						if isXML(other) {
							other = x.Call.Args[1]
						}
						if !isPrefix3(other) {
							why = "the whole name is compared with \"xml\""
						}
					}
				}
			}
		}
	}
	if n == 0 {
		panic(undecided{"startsWithXML: comparison with \"xml\""})
	}
	r.Check(why == "", rule, "startsWithXML looks at the first three characters", f.Pos(), "prefix of length 3 compared with xml", why+": only the exact name `xml` is refused, `xmlns`, `xml_b`, `p:xmlname` are accepted in a leafref path although RFC 6020 excludes them")
}

// r6LexDotDigits (R04.25): after '.', a number is read exactly for the ten digits.
func r6LexDotDigits(w *World, r *Report, rule string) {
	f := w.SSAFunc(w.Method("xpath", "CommonLex", "LexDot"))
	lexNum := w.SSAFunc(w.Method("xpath", "CommonLex", "LexNum"))
	next := w.SSAFunc(w.Method("xpath", "CommonLex", "Next"))
	if f == nil || lexNum == nil {
		panic(undecided{"CommonLex.LexDot / LexNum"})
	}
	sym := NewSym(w)
	var read *ssa.Call
	cond := pcZ
	for _, b := range f.Blocks {
		for _, in := range b.Instrs {
			c, ok := in.(*ssa.Call)
			if !ok {
				continue
			}
			if c.Call.StaticCallee() == next && read == nil {
				read = c
			}
			if c.Call.StaticCallee() == lexNum {
				cond = pcOrF(cond, sym.PathCond(f.Blocks[0], b, nil))
			}
		}
	}
	if read == nil {
		panic(undecided{"LexDot: the rune read after the dot"})
	}
	vals, decided := pcValuesWhen(cond, sym.Key(read, nil))
	want := ISet{{'0', '9'}}
	r.Check(decided && vals.equal(want), rule, "LexDot reads a number after '.' for every digit", f.Pos(), "'0'..'9'", fmt.Sprintf("a '.' is taken as the start of a number for the runes %s, not for exactly the ten digits: `.05` (or `.5`) is split into a step and a number and rejected", vals.String()))
}

// r6NoFloatCounter (R05.14): no loop of the xpath evaluator is driven by a floating-point counter.
func r6NoFloatCounter(w *World, r *Report, rule string) {
	n := 0
	for _, f := range allFuncs(w.SSAPkg("xpath")) {
		if isTestFile(w, f.Pos()) {
			continue
		}
		for _, l := range ssaLoops(f) {
			n++
			var bad *ssa.Phi
			for _, in := range l.Header.Instrs {
				phi, ok := in.(*ssa.Phi)
				if !ok {
					continue
				}
				bt, ok := phi.Type().Underlying().(*types.Basic)
				if !ok || bt.Info()&types.IsFloat == 0 {
					continue
				}
				// the header's exit test reads the counter, and the counter is stepped by addition
				stepped := false
				for _, e := range phi.Edges {
					if bo, ok := e.(*ssa.BinOp); ok && (bo.Op == token.ADD || bo.Op == token.SUB) && (bo.X == ssa.Value(phi) || bo.Y == ssa.Value(phi)) {
						stepped = true
					}
				}
				if !stepped {
					continue
				}
				body := l.body()
				for b := range body {
					if iff, ok := b.Instrs[len(b.Instrs)-1].(*ssa.If); ok {
						if bo, ok := iff.Cond.(*ssa.BinOp); ok && (bo.X == ssa.Value(phi) || bo.Y == ssa.Value(phi)) {
							leaves := false
							for _, sc := range b.Succs {
								if !body[sc] {
									leaves = true
								}
							}
							if leaves {
								bad = phi
							}
						}
					}
				}
			}
			if bad != nil {
				r.Fail(rule, funcKey(f)+": loop counter", bad.Pos(), "the loop is counted with a floating-point variable stepped by addition: beyond 2^53 the step no longer changes it and the run never ends (e.g. substring('12345', -1e18, 2e18))")
			}
		}
	}
	r.Check(n > 0, rule, "loops of package xpath", token.NoPos, fmt.Sprintf("%d loops, none counted in floating point", n), "no loop found")
}

// round6 registers the rules of this file with their properties.
func round6(w *World, r *Report, prop string) {
	switch prop {
	case "C01":
		r.Rule("R01.10", "a leaf-list is compared member by member through the comparison that looks at the operand types: in ProgBuilder.Eq's own body no two string values are compared, and the loop over the members re-enters Eq (or the type-directed comparison)", 1)
		r.guard("R01.10", func() { r6EqDispatch(w, r, "R01.10", "members") })
	case "C02":
		r.Rule("R02.10", "whether '=' stands for a key predicate or a leaf-list test is decided by the left operand alone: ProgBuilder.Eq asks TypeIsDatumSlice of the second operand popped only — the right operand is the key's value, whatever kind of node it came from", 1)
		r.guard("R02.10", func() { r6EqDispatch(w, r, "R02.10", "left") })
		r.Rule("R02.11", "a number used as a key value is written out with the floating-point formatter alone: numDatum.Literal goes through no fixed-width integer (which ends at 2^63) and no integer formatter", 1)
		r.guard("R02.11", func() {
			noIntegerFormat(w, r, "R02.11", w.SSAFunc(w.Method("xpath", "numDatum", "Literal")), "[id = 10000000000000000000] asks the tree for id=-9223372036854775808")
		})
	case "C04":
		r.Rule("R04.24", "names that begin with 'xml' in any case are not identifiers of a leafref path (RFC 6020 §6.2): startsWithXML compares the first three characters of the name, not the whole name", 1)
		r.guard("R04.24", func() { r6StartsWithXML(w, r, "R04.24") })
		r.Rule("R04.25", "Number ::= '.' Digits: after a '.', CommonLex.LexDot hands over to the number lexer exactly when the next rune is one of the ten digits", 1)
		r.guard("R04.25", func() { r6LexDotDigits(w, r, "R04.25") })
	case "C07":
		r.Rule("R07.13", "no statement kind falls through the argument dispatch: getArgByType has an arm for every kind that has a keyword — its default arm is a panic without position that, through the deferred interning of a nil argument, surfaces as a runtime error which Tree.recover re-raises", 1)
		r.guard("R07.13", func() { r6ArgByTypeTotal(w, r, "R07.13") })
	case "C11":
		r.Rule("R11.13", "a verdict does not depend on what was compiled before: the map-, slice- and struct-valued fields of compile.Compiler and their writers are the reviewed ones (same analysis as R12.10) — a memo keyed by a name that is not unique (two groupings called g) makes the outcome depend on the order in which modules and scopes are visited", 8)
		r.guard("R11.13", func() { c12CompilerFields(w, r, "R11.13") })
		r.Rule("R11.14", "the value space of an identityref does not depend on the order in which identities were linked: identityValues lists every derived identity it meets (NewIdentity on every iteration) — the links are made in map order (reviewed, R11.1), so a `skip what is already listed` makes the result order-dependent", 1)
		r.guard("R11.14", func() { r6EveryIdentityListed(w, r, "R11.14") })
	case "C16":
		r.Rule("R16.15", "the value space of a union is the union of the member types the compiler hands over: NewUnion stores its member list as given (nil replaced by an empty list) — no member is dropped on the way (inline members of one built-in type all have the same name)", 1)
		r.guard("R16.15", func() {
			r6ListStoredAsGiven(w, r, "R16.15", "NewUnion", "Type", "union", "typs", "typs: typs", "a member type can be missing from the union, and a value only that member accepts is rejected")
		})
		r.Rule("R16.16", "decimal64 value spaces: for every fraction-digits value 1..18 the bounds table holds -2^63/10^fd and (2^63-1)/10^fd (as the nearest doubles)", 18)
		r.guard("R16.16", func() { r6FdTable(w, r, "R16.16") })
		r.Rule("R16.17", "a value lies in a union iff some member type holds it: union.Validate asks the member types in turn and leaves the scan early only at one that accepts — whatever kind of error a member answers with", 1)
		r.guard("R16.17", func() { r6UnionTriesEveryMember(w, r, "R16.17") })
	case "C17":
		r.Rule("R17.10", "a value token of a union-typed leaf or key is accepted iff some member type accepts it: union.Validate leaves its scan early only at a member that accepts (same analysis as R16.17)", 1)
		r.guard("R17.10", func() { r6UnionTriesEveryMember(w, r, "R17.10") })
		r.Rule("R17.11", "a rejection names the offending element in the encoding its readers decode: every store into the Path of a management error in package schema takes the text from pathutil.Pathstr (or copies another error's Path)", 10)
		r.guard("R17.11", func() { r6PathWrittenByPathstr(w, r, "R17.11") })
	case "C18":
		r.Rule("R18.14", "a case is active through any member: hasCfg answers `configured` exactly when the name of some member of the choice or case is among the configured names — no test of what kind of node the member is", 1)
		r.guard("R18.14", func() { r6HasCfg(w, r, "R18.14") })
		r.Rule("R18.15", "a present leaf of a unique set is found: resolveDescendant's scan over the children is left early only at the child whose name equals the step (no exit on a string ordering — the children come in natural order)", 1)
		r.guard("R18.15", func() { r6ResolveDescendantScan(w, r, "R18.15") })
	case "C19":
		r.Rule("R19.15", "decoding rejects what the schema rejects, entry by entry: in convertToDataNode every iteration of the loop over the values reaches sn.Validate — no value is skipped", 1)
		r.guard("R19.15", func() { r6EveryValueValidated(w, r, "R19.15") })
		r.Rule("R19.16", "an identityref survives the XML round trip: namespacePrefixes binds the prefix of an identity to that identity's own Namespace", 1)
		r.guard("R19.16", func() { r6XmlnsOfIdentity(w, r, "R19.16") })
	case "C20":
		r.Rule("R20.9", "no filter means no filtering: Compiler.filter is stored in NewCompiler only, and it is the caller's filter as it stands (nil stays nil)", 1)
		r.guard("R20.9", func() { r6FilterStoredAsGiven(w, r, "R20.9") })
	case "C13":
		r.Rule("R13.13", "a derived type only narrows: getTypes refuses `type` substatements on a type derived from a union typedef (an error exit is taken when a base union is given and member types are listed) — otherwise the listed members replace the inherited ones", 1)
		r.guard("R13.13", func() { r6DerivedUnionMembers(w, r, "R13.13") })
	case "C14":
		r.Rule("R14.12", "the effective feature set is what the last source that knows a feature says: checkers.Status asks every composed checker and carries the latest Enabled/Disabled answer round the loop — it never stops at the first", 1)
		r.guard("R14.12", func() { r6LastCheckerWins(w, r, "R14.12") })
		r.Rule("R14.13", "the status rule applies to a typedef however its name is written: in BuildBaseType every path that goes on with the resolved typedef passes assertReferenceStatus, and that call does not hang on a flag (prefixed or bare spelling)", 1)
		r.guard("R14.13", func() { r6TypedefStatusAlways(w, r, "R14.13") })
	case "C12":
		r.Rule("R12.11", "replacing a `uses` does not disturb the expansion that is under way: no method of parse.node stores into node.children an append onto a re-slice of the current list (elements shifted inside the array Children() handed out)", 1)
		r.guard("R12.11", func() { r6ChildrenNotEditedInPlace(w, r, "R12.11") })
		r.Rule("R12.12", "modules are expanded after everything they take groupings from, submodule imports included: in ExpandModules the includes are processed (ProcessModuleIncludes merges a submodule's imports into its module) before the import graph is sorted", 1)
		r.guard("R12.12", func() { r6IncludesBeforeImportGraph(w, r, "R12.12") })
	case "C15":
		r.Rule("R15.13", "every must/when a deviation adds is compiled in the deviating module's scope: deviateAdd.propertyAction attaches the property whenever it is not an extension statement — never depending on what the target already carries (two statements with the same text may resolve their prefixes differently)", 1)
		r.guard("R15.13", func() { r6DeviateAddAll(w, r, "R15.13") })
		r.Rule("R15.12", "an expression is compiled for the statement it is written in, every time: the Compiler keeps no table of compiled expressions or programs — its map-, slice- and struct-valued fields and their writers are the reviewed ones (same analysis as R12.10); a program cached by text is reused in a module that binds its prefixes differently", 8)
		r.guard("R15.12", func() { c12CompilerFields(w, r, "R15.12") })
	case "C09":
		r.Rule("R09.13", "a submodule is laid out like a module: node.check runs checkModule and checkRevisionOrder exactly for the statement kinds module and submodule", 2)
		r.guard("R09.13", func() { r6ModuleChecksBothKinds(w, r, "R09.13") })
		r.Rule("R09.14", "an empty step is not a node identifier: the Parse methods of the schema-node-id arguments split at \"/\" with a function that keeps empty parts (each part is then checked), never with strings.Fields/FieldsFunc", 2)
		r.guard("R09.14", func() { r6SchemaIdSteps(w, r, "R09.14") })
	case "C08":
		r.Rule("R08.16", "comments are skipped, not glued to what follows: lexComment and lexCommentLine call ignore() on every path that hands back to the statement scanner", 2)
		r.guard("R08.16", func() { r6CommentsDiscarded(w, r, "R08.16") })
		r.Rule("R08.17", "the argument reported for a statement is its own: the key under which ArgInterner.Intern shares arguments keeps statement kind and argument text apart (same analysis as R10.12)", 1)
		r.guard("R08.17", func() { c10InternerKey(w, r, "R08.17") })
	case "C10":
		r.Rule("R10.13", "a piece's continuation lines are stripped relative to its own opening quote: when trimWhitespace runs, the last token read is the piece's closing quote (same analysis as R08.15) — otherwise the decoded argument depends on what follows the piece (a later piece with the same text, a comment)", 1)
		r.guard("R10.13", func() { c08ClosingQuoteLast(w, r, "R10.13") })
		r.Rule("R10.14", "comments are trivia: lexComment and lexCommentLine call ignore() on every path that hands back to the statement scanner (same analysis as R08.16) — otherwise a `//` line before a token in column 0 changes that token", 2)
		r.guard("R10.14", func() { r6CommentsDiscarded(w, r, "R10.14") })
	case "C06":
		r.Rule("R06.9", "runs share nothing but the frozen machine: the xpath packages have no package-level channel, sync.Pool or sync.Map (a free list hands a map or buffer of one run to another run while the first may still read it)", 1)
		r.guard("R06.9", func() { r6NoHandOver(w, r, "R06.9") })
	case "C05":
		r.Rule("R05.14", "every loop of the evaluator ends: no loop in package xpath is counted with a floating-point variable stepped by addition (beyond 2^53 the step is lost and the loop never ends)", 1)
		r.guard("R05.14", func() { r6NoFloatCounter(w, r, "R05.14") })
	}
}

// r6NoHandOver (R06.9): no package-level channel, pool or synchronised map in
// the xpath packages — such an object hands values from one run to another.
func r6NoHandOver(w *World, r *Report, rule string) {
	var carries func(t types.Type, seen map[types.Type]bool) string
	carries = func(t types.Type, seen map[types.Type]bool) string {
		if seen[t] {
			return ""
		}
		seen[t] = true
		if n, ok := t.(*types.Named); ok && n.Obj().Pkg() != nil && n.Obj().Pkg().Path() == "sync" {
			switch n.Obj().Name() {
			case "Pool", "Map":
				return "sync." + n.Obj().Name()
			}
		}
		switch u := t.Underlying().(type) {
		case *types.Chan:
			return "a channel"
		case *types.Pointer:
			return carries(u.Elem(), seen)
		case *types.Slice:
			return carries(u.Elem(), seen)
		case *types.Array:
			return carries(u.Elem(), seen)
		case *types.Map:
			if s := carries(u.Key(), seen); s != "" {
				return s
			}
			return carries(u.Elem(), seen)
		case *types.Struct:
			for i := 0; i < u.NumFields(); i++ {
				if s := carries(u.Field(i).Type(), seen); s != "" {
					return s
				}
			}
		}
		return ""
	}
	n := 0
	for _, key := range c06XPathKeys {
		p := w.Pkg(key)
		sc := p.Types.Scope()
		for _, name := range sc.Names() {
			v, ok := sc.Lookup(name).(*types.Var)
			if !ok || isTestFile(w, v.Pos()) {
				continue
			}
			n++
			if what := carries(v.Type(), map[types.Type]bool{}); what != "" {
				r.Fail(rule, key+"."+nm(v), v.Pos(), "package-level variable of the evaluator holds "+what+": values (maps, buffers) pass from one run to another run that may still be using them — concurrent runs of machines are no longer independent")
			}
		}
	}
	r.Check(n > 0, rule, "package-level variables of the xpath packages", token.NoPos, fmt.Sprintf("%d variables, none is a channel, pool or synchronised map", n), "no package-level variable found")
}

// r6CommentsDiscarded (R08.16 / R10.14): a comment scanner throws away what it
// scanned before it hands back to the statement scanner, on every path.
func r6CommentsDiscarded(w *World, r *Report, rule string) {
	ignore := w.SSAFunc(w.Method("parse", "lexer", "ignore"))
	errorf := w.SSAFunc(w.Method("parse", "lexer", "errorf"))
	if ignore == nil {
		panic(undecided{"lexer.ignore"})
	}
	for _, name := range []string{"lexComment", "lexCommentLine"} {
		f := w.SSAFunc(w.Func("parse", name))
		if f == nil {
			panic(undecided{"parse." + name})
		}
		var at []*ssa.BasicBlock
		for _, g := range bodiesDeep(f, 1) {
			if g != f {
				continue
			}
			for _, b := range g.Blocks {
				for _, in := range b.Instrs {
					if c, ok := in.(*ssa.Call); ok && c.Call.StaticCallee() == ignore {
						at = append(at, b)
					}
				}
			}
		}
		bad := token.NoPos
		nret := 0
		for _, b := range f.Blocks {
			ret, ok := b.Instrs[len(b.Instrs)-1].(*ssa.Return)
			if !ok || len(ret.Results) != 1 {
				continue
			}
			if c, isC := ret.Results[0].(*ssa.Call); isC && c.Call.StaticCallee() == errorf {
				continue // the scan failed: the lexer stops
			}
			nret++
			covered := false
			for _, ib := range at {
				if ib == b || ib.Dominates(b) {
					covered = true
				}
			}
			if !covered {
				bad = ret.Pos()
				if !bad.IsValid() {
					bad = f.Pos()
				}
			}
		}
		if nret == 0 {
			panic(undecided{name + ": no return to the statement scanner"})
		}
		r.Check(!bad.IsValid(), rule, name+" discards the comment", firstValid(bad, f.Pos()), "ignore() before every hand-back", "a path hands back to the statement scanner with the comment text still pending: it is glued to the next token (a keyword in column 0 becomes `// c\\nleaf`, a quoted string is reported unterminated)")
	}
}

func firstValid(ps ...token.Pos) token.Pos {
	for _, p := range ps {
		if p.IsValid() {
			return p
		}
	}
	return token.NoPos
}

// r6ArgByTypeTotal (R07.13): getArgByType has an arm for every statement kind
// that has a keyword; its default arm (a panic without position which, through
// the deferred interning of a nil argument, becomes a runtime error that
// Tree.recover re-raises) is reached for none of them.
func r6ArgByTypeTotal(w *World, r *Report, rule string) {
	f := w.SSAFunc(w.Func("parse", "getArgByType"))
	if f == nil || len(f.Params) == 0 {
		panic(undecided{"parse.getArgByType"})
	}
	names, _ := nodeTypeNames(w)
	sym := NewSym(w)
	cond := pcZ
	n := 0
	// the dispatch: getArgByType itself, or a helper of the package that is handed the kind
	top := f
	for _, g := range bodiesDeep(top, 1) {
		if g.Pkg != top.Pkg || g.Parent() != nil {
			continue
		}
		gn := 0
		gc := pcZ
		for _, b := range g.Blocks {
			if _, ok := b.Instrs[len(b.Instrs)-1].(*ssa.Panic); ok {
				gn++
				gc = pcOrF(gc, sym.PathCond(g.Blocks[0], b, nil))
			}
		}
		if gn > 0 && len(g.Blocks) > len(f.Blocks) || (gn > 0 && n == 0) {
			f, n, cond = g, gn, gc
		}
	}
	if n == 0 {
		r.OK(rule, "getArgByType never panics", f.Pos(), "no panic in the dispatch")
		return
	}
	// the subject the arms test: the kind parameter (read through its cell when a function literal captures it)
	freq := map[string]int{}
	subj := sym.Key(f.Params[0], nil)
	for _, a := range cond.atoms() {
		if a.subj != "" {
			freq[a.subj]++
			if freq[a.subj] > freq[subj] {
				subj = a.subj
			}
		}
	}
	vals, decided := pcValuesWhen(cond, subj)
	if !decided {
		panic(undecided{"getArgByType: the kinds that reach the default arm"})
	}
	var bad []string
	for v, name := range names {
		if strings.Contains(name, " ") {
			continue // range markers of the kind enumeration ("data definition end" …), not statements
		}
		if vals.contains(v) {
			bad = append(bad, name)
		}
	}
	sort.Strings(bad)
	r.Check(len(bad) == 0, rule, "getArgByType covers every statement kind", f.Pos(), fmt.Sprintf("%d kinds with a keyword, none reaches the default arm", len(names)), "the statement kind(s) {"+strings.Join(bad, ",")+"} fall into the default arm: Parse panics with a runtime error (nil argument interned in the deferred call) that Tree.recover re-raises, and the lexer goroutine is left blocked")
}

// r6ModuleChecksBothKinds (R09.13): node.check runs the section-order and the
// revision-order check for modules and submodules alike.
func r6ModuleChecksBothKinds(w *World, r *Report, rule string) {
	f := w.SSAFunc(w.Method("parse", "node", "check"))
	if f == nil {
		panic(undecided{"parse.node.check"})
	}
	_, byName := nodeTypeNames(w)
	var want ISet
	for _, kw := range []string{"module", "submodule"} {
		for _, v := range byName[kw] {
			want = want.union(isetOf(v))
		}
	}
	sym := NewSym(w)
	for _, name := range []string{"checkModule", "checkRevisionOrder"} {
		g := w.SSAFunc(w.Func("parse", name))
		if g == nil {
			panic(undecided{"parse." + name})
		}
		cond := pcZ
		n := 0
		for _, b := range f.Blocks {
			for _, in := range b.Instrs {
				if c, ok := in.(*ssa.Call); ok && c.Call.StaticCallee() == g {
					n++
					cond = pcOrF(cond, sym.PathCond(f.Blocks[0], b, nil))
				}
			}
		}
		if n == 0 {
			r.Fail(rule, "node.check runs "+name, f.Pos(), name+" is no longer called from node.check")
			continue
		}
		freq := map[string]int{}
		subj := ""
		for _, a := range cond.atoms() {
			if a.subj != "" {
				freq[a.subj]++
				if freq[a.subj] > freq[subj] {
					subj = a.subj
				}
			}
		}
		vals, decided := pcValuesWhen(cond, subj)
		r.Check(decided && subj != "" && vals.equal(want), rule, "node.check runs "+name+" for modules and submodules", f.Pos(), "statement kind ∈ {module, submodule}", fmt.Sprintf("%s runs for the statement kinds %s, not for exactly module and submodule: a submodule (or module) with its sections or revisions out of order is accepted", name, vals.String()))
	}
}

// r6SchemaIdSteps (R09.14): the steps of a schema node identifier are obtained
// with strings.Split, which keeps empty steps so that they can be refused.
func r6SchemaIdSteps(w *World, r *Report, rule string) {
	for _, typ := range []string{"AbsoluteSchemaArg", "DescendantSchemaArg"} {
		f := w.SSAFunc(w.Method("parse", typ, "Parse"))
		if f == nil {
			panic(undecided{"parse." + typ + ".Parse"})
		}
		splits, drops := false, ""
		for _, g := range bodiesDeep(f, 2) {
			for _, b := range g.Blocks {
				for _, in := range b.Instrs {
					c, ok := in.(*ssa.Call)
					if !ok || c.Call.StaticCallee() == nil {
						continue
					}
					switch c.Call.StaticCallee().String() {
					case "strings.Split", "strings.SplitN", "strings.SplitAfter", "strings.Cut":
						if k, isK := c.Call.Args[1].(*ssa.Const); isK && k.Value != nil && k.Value.Kind() == constant.String && constant.StringVal(k.Value) == "/" {
							splits = true
						}
					case "strings.Fields", "strings.FieldsFunc", "strings.FieldsSeq", "strings.FieldsFuncSeq":
						drops = c.Call.StaticCallee().String()
					}
				}
			}
		}
		why := ""
		switch {
		case drops != "":
			why = "the steps are obtained with " + drops + ", which drops empty steps"
		case !splits:
			why = "no split of the argument at \"/\" that keeps empty steps was found"
		}
		r.Check(why == "", rule, typ+".Parse keeps empty steps to refuse them", f.Pos(), "strings.Split(arg, \"/\"), every part checked as an identifier", why+": `/a//b`, `/a/b/` and `/` are accepted as schema node identifiers")
	}
}

// r6ChildrenNotEditedInPlace (R12.11): the list of children handed out by
// Children() is never edited in place — no `append(n.children[:i], …)` that
// shifts elements inside the array a caller may be ranging over.
func r6ChildrenNotEditedInPlace(w *World, r *Report, rule string) {
	children := w.Field("parse", "node", "children")
	n := 0
	for _, f := range allFuncs(w.SSAPkg("parse")) {
		if isTestFile(w, f.Pos()) {
			continue
		}
		for _, b := range f.Blocks {
			for _, in := range b.Instrs {
				st, ok := in.(*ssa.Store)
				if !ok {
					continue
				}
				fa, ok := st.Addr.(*ssa.FieldAddr)
				if !ok || !isFieldAddrOf(fa, children) {
					continue
				}
				n++
				// the value stored: an append whose first operand is a prefix (or any re-slice) of the current list
				bad := false
				var walk func(v ssa.Value, d int)
				walk = func(v ssa.Value, d int) {
					if d > 4 {
						return
					}
					switch x := v.(type) {
					case *ssa.Call:
						if bi, ok := x.Call.Value.(*ssa.Builtin); ok && bi.Name() == "append" && len(x.Call.Args) >= 1 {
							if sl, ok := x.Call.Args[0].(*ssa.Slice); ok && (sl.High != nil || sl.Low != nil) {
								if ld, ok := sl.X.(*ssa.UnOp); ok {
									if sfa, ok := ld.X.(*ssa.FieldAddr); ok && isFieldAddrOf(sfa, children) {
										bad = true
									}
								}
							}
							walk(x.Call.Args[0], d+1)
						}
					case *ssa.Phi:
						for _, e := range x.Edges {
							walk(e, d+1)
						}
					}
				}
				walk(st.Val, 0)
				if bad {
					r.Fail(rule, funcKey(f)+" edits node.children in place", st.Pos(), "the children are shifted inside the array that Children() handed out: a caller ranging over that list (expandGroupings while it replaces a `uses`) skips the element after the one removed, and a uses nested below it is never expanded")
				}
			}
		}
	}
	if n == 0 {
		panic(undecided{"no store to node.children"})
	}
	r.OK(rule, "stores to node.children", token.NoPos, fmt.Sprintf("%d stores looked at: fresh lists or appends at the end", n))
}

// r6IncludesBeforeImportGraph (R12.12): the imports of submodules are merged into
// their module before the import graph that orders expansion is built.
func r6IncludesBeforeImportGraph(w *World, r *Report, rule string) {
	f := w.SSAFunc(w.Method("compile", "Compiler", "ExpandModules"))
	pmi := w.SSAFunc(w.Method("compile", "Compiler", "ProcessModuleIncludes"))
	if f == nil || pmi == nil {
		panic(undecided{"Compiler.ExpandModules / ProcessModuleIncludes"})
	}
	var merges, sorts []ssa.Instruction
	for _, b := range f.Blocks {
		for _, in := range b.Instrs {
			c, ok := in.(*ssa.Call)
			if !ok || c.Call.StaticCallee() == nil {
				continue
			}
			g := c.Call.StaticCallee()
			if g == pmi || calleesDeep(g, 2)[pmi] {
				merges = append(merges, in)
			}
			if nm(g) == "Sort" && strings.Contains(g.String(), "tsort") {
				sorts = append(sorts, in)
			}
		}
	}
	if len(merges) == 0 || len(sorts) == 0 {
		panic(undecided{"ExpandModules: include processing / topological sort"})
	}
	why := ""
	for _, s := range sorts {
		for _, m := range merges {
			if instrFlowsTo(s, m) {
				why = "the import graph is sorted before the includes are processed"
			}
			if !instrFlowsTo(m, s) {
				why = "the include processing does not precede the sort of the import graph"
			}
		}
	}
	r.Check(why == "", rule, "ExpandModules merges includes before ordering the modules", f.Pos(), "ProcessModuleIncludes … then tsort", why+": an import written only in a submodule adds no ordering edge, the using module can be expanded before the library, and nodes of a nested uses keep the library's namespace")
}

// r6DeviateAddAll (R15.13 / R14.14): deviate add attaches every property it is
// given, whatever is already on the target.
func r6DeviateAddAll(w *World, r *Report, rule string) {
	f := w.SSAFunc(w.Method("compile", "deviateAdd", "propertyAction"))
	if f == nil {
		panic(undecided{"compile.deviateAdd.propertyAction"})
	}
	_, byName := nodeTypeNames(w)
	sym := NewSym(w)
	sym.Expand = false
	cond := pcZ
	n := 0
	for _, b := range f.Blocks {
		for _, in := range b.Instrs {
			if c, ok := in.(*ssa.Call); ok && c.Call.IsInvoke() && nm(c.Call.Method) == "AddChildren" {
				n++
				cond = pcOrF(cond, sym.PathCond(f.Blocks[0], b, nil))
			}
		}
	}
	if n == 0 {
		panic(undecided{"deviateAdd.propertyAction: AddChildren"})
	}
	unknown := byName["unknown"]
	msg := pcCompare(cond, func(a *pcAtom) string {
		if a.subj != "" && len(unknown) == 1 && a.set.equal(isetOf(unknown[0])) {
			return "unknown"
		}
		return ""
	}, func(env map[string]bool) bool { return !env["unknown"] })
	r.Check(msg == "", rule, "deviate add attaches every property", f.Pos(), "AddChildren(property) iff the property is not an extension statement", "whether a property is added depends on more than its kind ("+msg+"): a must (or unique) whose text is already on the target is dropped although it was written in a module that binds its prefixes differently — it is never compiled")
}

// r6DerivedUnionMembers (R13.13): a type derived from a union may not list
// member types of its own.
func r6DerivedUnionMembers(w *World, r *Report, rule string) {
	f := c16UnionMembersFunc(w)
	cerr := w.SSAFunc(w.Method("compile", "Compiler", "error"))
	if cerr == nil {
		panic(undecided{"Compiler.error"})
	}
	// the base union: the parameter of the interface type Union
	var base *ssa.Parameter
	for _, prm := range f.Params {
		if nt, ok := prm.Type().(*types.Named); ok && nm(nt.Obj()) == "Union" {
			if _, isI := nt.Underlying().(*types.Interface); isI {
				base = prm
			}
		}
	}
	if base == nil {
		panic(undecided{"getTypes: the base union parameter"})
	}
	sym := NewSym(w)
	sym.Expand = false
	isLenOfMembers := func(v ssa.Value) bool {
		c, ok := v.(*ssa.Call)
		if !ok {
			return false
		}
		bi, ok := c.Call.Value.(*ssa.Builtin)
		return ok && bi.Name() == "len"
	}
	model := func(a *pcAtom) (bool, bool) {
		if a.op == token.EQL && a.x != nil && a.y != nil {
			if (a.x == ssa.Value(base) && isNilConst(a.y)) || (a.y == ssa.Value(base) && isNilConst(a.x)) {
				return false, true // a base union is given
			}
		}
		if bo, ok := a.v.(*ssa.BinOp); ok && a.subj != "" {
			for _, side := range []ssa.Value{bo.X, bo.Y} {
				if isLenOfMembers(side) {
					return a.set.contains(2), true // two member types are listed
				}
			}
		}
		return false, false
	}
	refused := false
	n := 0
	for _, b := range f.Blocks {
		for _, in := range b.Instrs {
			if c, ok := in.(*ssa.Call); ok && c.Call.StaticCallee() == cerr {
				n++
				if hit, decided := pcEvalFree(sym.PathCond(f.Blocks[0], b, nil), model); decided && hit {
					refused = true
				}
			}
		}
	}
	if n == 0 {
		panic(undecided{"getTypes: no error exit"})
	}
	r.Check(refused, rule, "getTypes refuses member types on a derived union", f.Pos(), "base given ∧ member types listed ⇒ error", "a type derived from a union typedef that lists `type` substatements of its own is accepted and the listed members replace the inherited ones: the derived type accepts values its base rejects")
}

// r6LastCheckerWins (R14.12): the composed feature checker lets the last
// source that knows a feature decide; the scan is never left early.
func r6LastCheckerWins(w *World, r *Report, rule string) {
	f := w.SSAFunc(w.Method("compile", "checkers", "Status"))
	if f == nil {
		panic(undecided{"compile.checkers.Status"})
	}
	loops := ssaLoops(f)
	if len(loops) != 1 {
		panic(undecided{"checkers.Status: one loop over the checkers"})
	}
	l := loops[0]
	body := l.body()
	early := false
	for b := range body {
		if b == l.Header {
			continue
		}
		for _, sc := range b.Succs {
			if !body[sc] {
				early = true
			}
		}
	}
	// what is returned after the loop: a value carried round the loop that an iteration replaces by that checker's answer
	carried := false
	for _, b := range f.Blocks {
		ret, ok := b.Instrs[len(b.Instrs)-1].(*ssa.Return)
		if !ok || len(ret.Results) != 1 || body[b] {
			continue
		}
		phi, ok := ret.Results[0].(*ssa.Phi)
		if !ok || phi.Block() != l.Header {
			continue
		}
		seen := map[ssa.Value]bool{}
		var look func(v ssa.Value)
		look = func(v ssa.Value) {
			if seen[v] {
				return
			}
			seen[v] = true
			switch x := v.(type) {
			case *ssa.Phi:
				for _, e := range x.Edges {
					look(e)
				}
			case *ssa.Call:
				if x.Call.IsInvoke() && nm(x.Call.Method) == "Status" && body[x.Block()] {
					carried = true
				}
			}
		}
		look(phi)
	}
	r.Check(!early && carried, rule, "checkers.Status lets the last source decide", f.Pos(), "every checker is asked; a later Enabled/Disabled replaces an earlier one", "the scan over the feature sources is left at the first one that knows the feature (or the answer is not carried round the loop): a feature that the capabilities enable and the configuration disables stays enabled, and the nodes under it are present against the effective feature set")
}

// r6TypedefStatusAlways (R14.13): BuildBaseType applies the reference-status
// rule to every typedef it resolves, however the name was written.
func r6TypedefStatusAlways(w *World, r *Report, rule string) {
	f := w.SSAFunc(w.Method("compile", "Compiler", "BuildBaseType"))
	ars := w.SSAFunc(w.Method("compile", "Compiler", "assertReferenceStatus"))
	if f == nil || ars == nil {
		panic(undecided{"Compiler.BuildBaseType / assertReferenceStatus"})
	}
	var call *ssa.Call
	for _, b := range f.Blocks {
		for _, in := range b.Instrs {
			if c, ok := in.(*ssa.Call); ok && c.Call.StaticCallee() == ars && len(c.Call.Args) == 4 {
				call = c
			}
		}
	}
	if call == nil {
		r.Fail(rule, "BuildBaseType applies the status rule to the typedef", f.Pos(), "assertReferenceStatus is no longer called for the typedef a type refers to")
		return
	}
	dst := call.Call.Args[2]
	why := ""
	for _, ref := range *dst.Referrers() {
		switch x := ref.(type) {
		case *ssa.BinOp, *ssa.Phi, *ssa.DebugRef:
			continue
		case *ssa.Call:
			if x == call {
				continue
			}
		case *ssa.TypeAssert, *ssa.ChangeInterface, *ssa.MakeInterface:
			// conversions: their own uses are looked at below through the block test
		}
		if rb := ref.Block(); rb != call.Block() && !call.Block().Dominates(rb) && !rb.Dominates(call.Block()) {
			why = "the typedef is used (`" + ref.String() + "`) on a path that does not pass the status check"
		}
	}
	// and the check itself depends on nothing but the typedef having been found
	sym := NewSym(w)
	sym.Expand = false
	for _, a := range sym.PathCond(f.Blocks[0], call.Block(), nil).atoms() {
		if phi, ok := a.v.(*ssa.Phi); ok {
			if bt, isB := phi.Type().Underlying().(*types.Basic); isB && bt.Kind() == types.Bool {
				allConst := true
				for _, e := range phi.Edges {
					if _, isK := e.(*ssa.Const); !isK {
						allConst = false
					}
				}
				if allConst && phi.Comment != "ok" {
					why = "the status check runs only when the flag `" + phi.Comment + "` is set"
				}
			}
		}
	}
	r.Check(why == "", rule, "BuildBaseType applies the status rule to every typedef it resolves", call.Pos(), "assertReferenceStatus(type, typedef) on every path that goes on with the typedef", why+": `type own-prefix:old-t` (the module's own prefix) refers to a deprecated or obsolete typedef of the same module without complaint")
}

// r6ListStoredAsGiven: the constructor ctor stores the list parameter whose
// element type contains elem into typ.field unchanged (nil replaced by an
// empty list).
func r6ListStoredAsGiven(w *World, r *Report, rule, ctor, elem, typ, field, what, consequence string) {
	f := w.SSAFunc(w.Func("schema", ctor))
	if f == nil {
		panic(undecided{"schema." + ctor})
	}
	var given *ssa.Parameter
	for _, prm := range f.Params {
		if sl, ok := prm.Type().Underlying().(*types.Slice); ok && strings.Contains(sl.Elem().String(), elem) {
			given = prm
		}
	}
	fld := w.Field("schema", typ, field)
	n := 0
	why := ""
	var asGiven func(v ssa.Value, d int) bool
	asGiven = func(v ssa.Value, d int) bool {
		switch x := v.(type) {
		case *ssa.Parameter:
			return x == given
		case *ssa.MakeSlice:
			k, ok := intConstOf(x.Len)
			return ok && k == 0
		case *ssa.Slice:
			if a, ok := x.X.(*ssa.Alloc); ok {
				if arr, ok := a.Type().Underlying().(*types.Pointer).Elem().Underlying().(*types.Array); ok && arr.Len() == 0 {
					return true
				}
			}
			return false
		case *ssa.Phi:
			if d > 3 {
				return false
			}
			for _, e := range x.Edges {
				if !asGiven(e, d+1) {
					return false
				}
			}
			return true
		case *ssa.Call:
			// a helper of the module that hands back the list it is given, or an empty one (nil → empty)
			h := x.Call.StaticCallee()
			if h == nil || h.Blocks == nil || !strings.HasPrefix(pkgPathOf(h), modPath) || d > 2 {
				return false
			}
			var hp *ssa.Parameter
			for i, a := range x.Call.Args {
				if asGiven(a, d+1) {
					if _, isParamOrPhi := a.(*ssa.Parameter); isParamOrPhi && i < len(h.Params) {
						hp = h.Params[i]
					}
				}
			}
			if hp == nil {
				return false
			}
			n := 0
			for _, hb := range h.Blocks {
				ret, ok := hb.Instrs[len(hb.Instrs)-1].(*ssa.Return)
				if !ok || len(ret.Results) != 1 {
					continue
				}
				n++
				var ok2 func(v ssa.Value, dd int) bool
				ok2 = func(v ssa.Value, dd int) bool {
					switch y := v.(type) {
					case *ssa.Parameter:
						return y == hp
					case *ssa.MakeSlice:
						k, ok := intConstOf(y.Len)
						return ok && k == 0
					case *ssa.Slice:
						if a, ok := y.X.(*ssa.Alloc); ok {
							if arr, ok := a.Type().Underlying().(*types.Pointer).Elem().Underlying().(*types.Array); ok && arr.Len() == 0 {
								return true
							}
						}
					case *ssa.Phi:
						if dd > 3 {
							return false
						}
						for _, e := range y.Edges {
							if !ok2(e, dd+1) {
								return false
							}
						}
						return true
					}
					return false
				}
				if !ok2(ret.Results[0], 0) {
					return false
				}
			}
			return n > 0
		}
		return false
	}
	for _, b := range f.Blocks {
		for _, in := range b.Instrs {
			st, ok := in.(*ssa.Store)
			if !ok {
				continue
			}
			fa, ok := st.Addr.(*ssa.FieldAddr)
			if !ok || !isFieldAddrOf(fa, fld) {
				continue
			}
			n++
			if given == nil || !asGiven(st.Val, 0) {
				why = "the list stored is `" + st.Val.String() + "`, computed from the one given"
			}
		}
	}
	if n == 0 {
		panic(undecided{ctor + ": store of the list"})
	}
	r.Check(why == "", rule, ctor+" keeps the list it is given", f.Pos(), what, why+": "+consequence)
}

// r6FdTable (R16.16): the decimal64 bounds per fraction-digits are ±(2^63)/10^fd.
func r6FdTable(w *World, r *Report, rule string) {
	v := w.Var("schema", "fdtab")
	init, ip := w.VarInit(v)
	lv := evalLit(ip, init)
	seen := map[int64]bool{}
	one := constant.MakeInt64(1)
	two63 := constant.Shift(one, token.SHL, 63)
	for _, row := range lv.KVs {
		fd, _ := constant.Int64Val(row.Key)
		seen[fd] = true
		c := fmt.Sprintf("fdtab[%d]", fd)
		vals := row.Val.Elems
		if len(vals) != 2 || vals[0].Const == nil || vals[1].Const == nil {
			r.Fail(rule, c, row.Pos.Pos(), "row is not {min, max}")
			continue
		}
		pow := constant.MakeInt64(1)
		for i := int64(0); i < fd; i++ {
			pow = constant.BinaryOp(pow, token.MUL, constant.MakeInt64(10))
		}
		lo := constant.BinaryOp(constant.UnaryOp(token.SUB, two63, 0), token.QUO, constant.ToFloat(pow))
		hi := constant.BinaryOp(constant.BinaryOp(two63, token.SUB, one), token.QUO, constant.ToFloat(pow))
		wl, _ := constant.Float64Val(constant.ToFloat(lo))
		wh, _ := constant.Float64Val(constant.ToFloat(hi))
		gl, _ := constant.Float64Val(constant.ToFloat(vals[0].Const))
		gh, _ := constant.Float64Val(constant.ToFloat(vals[1].Const))
		r.Check(gl == wl && gh == wh, rule, c, row.Pos.Pos(), fmt.Sprintf("%v..%v", gl, gh), fmt.Sprintf("bounds %v..%v; a decimal64 with %d fraction digits ranges over %v..%v (±2^63 / 10^%d): values at the end of the value space are refused or values outside it accepted", gl, gh, fd, wl, wh, fd))
	}
	for fd := int64(1); fd <= 18; fd++ {
		if !seen[fd] {
			r.Fail(rule, fmt.Sprintf("fdtab[%d]", fd), init.Pos(), "fraction-digits value missing from the table")
		}
	}
}

// r6UnionTriesEveryMember (R16.17 / R17.10): union.Validate asks every member
// type and leaves the scan early only at one that accepts.
func r6UnionTriesEveryMember(w *World, r *Report, rule string) {
	f := w.SSAFunc(w.Method("schema", "union", "Validate"))
	if f == nil {
		panic(undecided{"schema.union.Validate"})
	}
	sym := NewSym(w)
	sym.Expand = false
	isMemberValidate := func(v ssa.Value) bool {
		c, ok := v.(*ssa.Call)
		return ok && c.Call.IsInvoke() && nm(c.Call.Method) == "Validate"
	}
	why := "no scan over the member types found"
	for _, g := range bodiesDeep(f, 2) {
		if g.Pkg != f.Pkg {
			continue
		}
		for _, b := range g.Blocks {
			for _, in := range b.Instrs {
				if call, ok := in.(*ssa.Call); ok {
					if list, test := containsFuncCall(call); test != nil && loadedFieldName(list) == "typs" {
						why = ""
					}
				}
			}
		}
		for _, l := range ssaLoops(g) {
			body := l.body()
			asks := false
			for b := range body {
				for _, in := range b.Instrs {
					if v, ok := in.(ssa.Value); ok && isMemberValidate(v) {
						asks = true
					}
				}
			}
			if !asks {
				continue
			}
			has := false
			msg := pcImplies(loopMidExits(sym, l), func(a *pcAtom) string {
				if a.op == token.EQL && a.x != nil && a.y != nil && ((isNilConst(a.x) && isMemberValidate(a.y)) || (isNilConst(a.y) && isMemberValidate(a.x))) {
					has = true
					return "accepts"
				}
				return ""
			}, func(env map[string]bool) bool { return env["accepts"] })
			mid := loopMidExits(sym, l)
			switch {
			case mid == pcZ || !pcSat(mid):
				why = "" // never left early: every member is asked
			case !has || msg != "":
				why = "the scan over the member types is left although the member asked did not accept (" + msg + ")"
			default:
				why = ""
			}
		}
	}
	r.Check(why == "", rule, "union.Validate asks every member type", f.Pos(), "left early only at a member that accepts", why+": a union whose first member answers with another kind of error (`empty` does) rejects values a later member accepts")
}

// r6PathWrittenByPathstr (R17.11): wherever package schema fills the Path of a
// management error, the text comes from pathutil.Pathstr.
func r6PathWrittenByPathstr(w *World, r *Report, rule string) {
	n := 0
	for _, f := range allFuncs(w.SSAPkg("schema")) {
		if isTestFile(w, f.Pos()) {
			continue
		}
		// the functions that are handed a path as a list of tokens (path validation and its error constructors)
		tokens := false
		for g := f; g != nil; g = g.Parent() {
			for _, prm := range g.Params {
				if prm.Type().String() == "[]string" {
					tokens = true
				}
			}
		}
		if !tokens {
			continue
		}
		for _, b := range f.Blocks {
			for _, in := range b.Instrs {
				st, ok := in.(*ssa.Store)
				if !ok {
					continue
				}
				fa, ok := st.Addr.(*ssa.FieldAddr)
				if !ok {
					continue
				}
				fv := fieldAddrVar(fa)
				if fv == nil || fv.Name() != "Path" || fv.Pkg() == nil || !strings.Contains(fv.Pkg().Path(), "mgmterror") {
					continue
				}
				n++
				good := false
				var from func(v ssa.Value, d int) bool
				from = func(v ssa.Value, d int) bool {
					if d > 4 {
						return false
					}
					switch x := v.(type) {
					case *ssa.Call:
						if g := x.Call.StaticCallee(); g != nil {
							if strings.HasSuffix(g.String(), "pathutil.Pathstr") {
								return true
							}
							// a helper of the package that only hands the text on
							if g.Pkg == f.Pkg && g.Blocks != nil {
								all := true
								cnt := 0
								for _, gb := range g.Blocks {
									if ret, ok := gb.Instrs[len(gb.Instrs)-1].(*ssa.Return); ok && len(ret.Results) == 1 {
										cnt++
										if !from(ret.Results[0], d+1) {
											all = false
										}
									}
								}
								return all && cnt > 0
							}
						}
					case *ssa.Phi:
						for _, e := range x.Edges {
							if !from(e, d+1) {
								return false
							}
						}
						return len(x.Edges) > 0
					case *ssa.UnOp:
						// copied from another error's Path
						if sfa, ok := x.X.(*ssa.FieldAddr); ok {
							if sv := fieldAddrVar(sfa); sv != nil && sv.Name() == "Path" {
								return true
							}
						}
					case *ssa.Const:
						return true
					}
					return false
				}
				good = from(st.Val, 0)
				r.Check(good, rule, funcKey(f)+" sets Path", st.Pos(), "pathutil.Pathstr(…)", "the Path of the error is written by something other than pathutil.Pathstr (`"+st.Val.String()+"`): a token containing '/', '%', '+' or a blank is not escaped, and the reader (pathutil.Makepath) names another element")
			}
		}
	}
	if n == 0 {
		panic(undecided{"no store to the Path of a management error in package schema"})
	}
}

// r6HasCfg (R18.14): a choice or case has configuration as soon as one of its
// members is among the configured names, whatever kind of node that member is.
func r6HasCfg(w *World, r *Report, rule string) {
	var f *ssa.Function
	if hf := w.tryFunc("schema", "hasCfg"); hf != nil {
		f = w.SSAFunc(hf)
	}
	if f == nil {
		// folded into the checker the decorator hands to IsActiveDefault
		dl, _ := c18DefaultLoop(w)
		isActive := w.SSAFunc(w.Func("schema", "IsActiveDefault"))
		rsym := NewSym(w)
		callsWithCtx(dl, 2, func(c *ssa.Call, ctx *symCtx) {
			if c.Call.StaticCallee() != isActive {
				return
			}
			arg := rsym.Resolve(c.Call.Args[len(c.Call.Args)-1], ctx)
			if ct, ok := arg.(*ssa.ChangeType); ok {
				arg = rsym.Resolve(ct.X, ctx)
			}
			if mc, ok := arg.(*ssa.MakeClosure); ok {
				f, _ = mc.Fn.(*ssa.Function)
			}
		})
	}
	if f == nil {
		panic(undecided{"schema.hasCfg"})
	}
	sym := NewSym(w)
	sym.Expand = false
	classify := func(a *pcAtom) string {
		if ex, ok := a.v.(*ssa.Extract); ok && ex.Index == 1 {
			if lk, ok := ex.Tuple.(*ssa.Lookup); ok && lk.CommaOk {
				return "seen"
			}
		}
		if pcIsIter(a) {
			return "iter"
		}
		return ""
	}
	why := ""
	loops := ssaLoops(f)
	switch len(loops) {
	case 1:
		l := loops[0]
		body := l.body()
		trueCond := pcZ
		for _, b := range f.Blocks {
			ret, ok := b.Instrs[len(b.Instrs)-1].(*ssa.Return)
			if !ok || len(ret.Results) != 1 {
				continue
			}
			k, isK := ret.Results[0].(*ssa.Const)
			if !isK || k.Value == nil {
				why = "a result that is not a constant"
				continue
			}
			if k.Value.ExactString() == "true" {
				if !(body[b] || l.Header.Dominates(b)) {
					why = "true is returned outside the scan of the members"
					continue
				}
				trueCond = pcOrF(trueCond, sym.PathCond(l.Header, b, nil))
			}
		}
		if why == "" {
			if msg := pcCompare(trueCond, classify, func(env map[string]bool) bool { return env["iter"] && env["seen"] }); msg != "" {
				why = "`configured` is not answered exactly when a member's name is among the configured names: " + msg
			}
		}
	case 0:
		// the scan handed to slices.ContainsFunc
		found := false
		for _, b := range f.Blocks {
			for _, in := range b.Instrs {
				if call, ok := in.(*ssa.Call); ok {
					if _, test := containsFuncCall(call); test != nil {
						found = true
						if msg := pcCompare(sym.ResultCond(test, nil), classify, func(env map[string]bool) bool { return env["seen"] }); msg != "" {
							why = "the test handed to the scan is not `this member's name is configured`: " + msg
						}
					}
				}
			}
		}
		if !found {
			why = "no scan of the members found"
		}
	default:
		why = "more than one loop"
	}
	r.Check(why == "", rule, "hasCfg: configured iff some member is configured", f.Pos(), "∃ member: name ∈ configured names", why+": a case that is active only through a non-presence container (or another kind of member) is not recognised, its sibling defaults are omitted and the default case's defaults are added next to explicit data of another case")
}

// r6ResolveDescendantScan (R18.15): the scan over the children of a list entry
// in resolveDescendant is left early only at the child it is looking for.
func r6ResolveDescendantScan(w *World, r *Report, rule string) {
	f := w.SSAFunc(w.Func("schema", "resolveDescendant"))
	if f == nil {
		panic(undecided{"schema.resolveDescendant"})
	}
	sym := NewSym(w)
	sym.Expand = false
	loops := ssaLoops(f)
	if len(loops) == 0 {
		r.OK(rule, "resolveDescendant scan", f.Pos(), "no hand-written loop (library search)")
		return
	}
	why := ""
	for _, l := range loops {
		// the scan over the children: the innermost loop that asks a child for its name
		body := l.body()
		asks, inner := false, false
		for b := range body {
			for _, in := range b.Instrs {
				if c, ok := in.(*ssa.Call); ok && c.Call.IsInvoke() && nm(c.Call.Method) == "YangDataName" {
					asks = true
				}
			}
		}
		for _, l2 := range loops {
			if l2.Header != l.Header && body[l2.Header] {
				inner = true
			}
		}
		if !asks || inner {
			continue
		}
		mid := loopMidExits(sym, l)
		if mid == pcZ {
			continue
		}
		has := false
		msg := pcImplies(mid, func(a *pcAtom) string {
			if a.op == token.EQL && a.x != nil && a.y != nil {
				if bt, ok := a.x.Type().Underlying().(*types.Basic); ok && bt.Info()&types.IsString != 0 {
					has = true
					return "match"
				}
			}
			return ""
		}, func(env map[string]bool) bool { return env["match"] })
		if !has || msg != "" {
			why = "the scan over the children is left although the child looked at is not the one named (" + msg + ")"
		}
	}
	r.Check(why == "", rule, "resolveDescendant looks at every child until it finds the one named", f.Pos(), "left early only at a child whose name equals the step", why+": with an early exit on a string ordering (the children are in natural order, `addr2` before `addr10`) a present leaf of a unique set is taken for absent and duplicate entries go unreported")
}

// r6EveryValueValidated (R19.15): every value of a decoded leaf or leaf-list is
// put to the schema's Validate.
func r6EveryValueValidated(w *World, r *Report, rule string) {
	f := w.SSAFunc(w.Func("data/encoding", "convertToDataNode"))
	if f == nil {
		panic(undecided{"encoding.convertToDataNode"})
	}
	found, every, why := everyIterationCallsDeep(f, func(c ssa.CallInstruction) bool {
		cc := c.Common()
		return cc.IsInvoke() && nm(cc.Method) == "Validate" && len(cc.Args) == 3
	}, 0)
	if !found {
		panic(undecided{"convertToDataNode: loop that validates the values"})
	}
	r.Check(every, rule, "convertToDataNode validates every value", f.Pos(), "sn.Validate(…) on every iteration of the loop over the values", "some values skip validation ("+why+"): an entry of a leaf-list the type rejects (\"\" for a uint16, null) is dropped or accepted instead of reported, and a legitimate \"\" entry of a string leaf-list is lost")
}

// r6XmlnsOfIdentity (R19.16): the namespace bound to an identity's prefix in the
// XML encoding is the identity's own.
func r6XmlnsOfIdentity(w *World, r *Report, rule string) {
	f := w.SSAFunc(w.Func("data/encoding", "namespacePrefixes"))
	if f == nil {
		panic(undecided{"encoding.namespacePrefixes"})
	}
	n := 0
	why := ""
	for _, b := range f.Blocks {
		if _, inLoop := loopOf(f, b); !inLoop {
			continue
		}
		for _, in := range b.Instrs {
			st, ok := in.(*ssa.Store)
			if !ok {
				continue
			}
			fa, ok := st.Addr.(*ssa.FieldAddr)
			if !ok {
				continue
			}
			fv := fieldAddrVar(fa)
			if fv == nil || fv.Name() != "Value" || fv.Pkg() == nil || fv.Pkg().Path() != "encoding/xml" {
				continue
			}
			n++
			if loadedFieldName(st.Val) != "Namespace" {
				why = "the value of the xmlns attribute is `" + st.Val.String() + "`, not the Namespace of the identity"
			}
		}
	}
	if n == 0 {
		panic(undecided{"namespacePrefixes: xmlns attribute for an identity"})
	}
	r.Check(why == "", rule, "namespacePrefixes binds an identity's prefix to the identity's namespace", f.Pos(), "xmlns:<module> = identity.Namespace", why+": the prefix of a foreign identity resolves to the leaf's own module when the XML is read back, and the value silently becomes a same-named identity of that module")
}

// r6FilterStoredAsGiven (R20.9)
func r6FilterStoredAsGiven(w *World, r *Report, rule string) {
	f := w.SSAFunc(w.Func("compile", "NewCompiler"))
	filter := w.Field("compile", "Compiler", "filter")
	if f == nil {
		panic(undecided{"compile.NewCompiler"})
	}
	n := 0
	why := ""
	for _, g := range allFuncs(w.SSAPkg("compile")) {
		if isTestFile(w, g.Pos()) {
			continue
		}
		for _, b := range g.Blocks {
			for _, in := range b.Instrs {
				st, ok := in.(*ssa.Store)
				if !ok {
					continue
				}
				fa, ok := st.Addr.(*ssa.FieldAddr)
				if !ok || !isFieldAddrOf(fa, filter) {
					continue
				}
				n++
				v := st.Val
				for {
					if ct, ok := v.(*ssa.ChangeType); ok {
						v = ct.X
						continue
					}
					break
				}
				if prm, isP := v.(*ssa.Parameter); !isP || prm.Parent() != f || g != f {
					why = "Compiler.filter is set to `" + st.Val.String() + "` in " + funcKey(g)
				}
			}
		}
	}
	if n == 0 {
		panic(undecided{"no store to Compiler.filter"})
	}
	r.Check(why == "", rule, "the compiler filters with the filter it was given", f.Pos(), "c.filter = filter, in NewCompiler only", why+", not to the caller's filter as it stands: a nil filter (`do not filter`) is replaced, so the unfiltered compile already lacks nodes and a filtered compile is no longer its pruning")
}

// r6EveryIdentityListed (R11.14): identityValues lists every derived identity it
// meets; what is already in the list plays no part.
func r6EveryIdentityListed(w *World, r *Report, rule string) {
	f := identityClosureFunc(w)
	found, every, why := everyIterationCalls(f, func(c ssa.CallInstruction) bool {
		g := c.Common().StaticCallee()
		return g != nil && nm(g) == "NewIdentity"
	})
	if !found {
		panic(undecided{"identityValues: loop that lists the derived identities"})
	}
	r.Check(every, rule, "identityValues lists every derived identity", f.Pos(), "schema.NewIdentity(…) on every iteration", "a derived identity is left out depending on what is already listed ("+why+"): the derived identities are linked to their bases in map order, so which of two same-named identities of different modules survives differs from run to run")
}

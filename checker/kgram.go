package main

import (
	"sort"
	"strings"
)

// E11: the k-gram language of a yacc grammar — the set of terminal strings of
// length k that occur as substrings of "^ sentence $". It is a property of the
// language, not of how the grammar is written: refactoring productions leaves
// it unchanged, accepting a new token sequence shape changes it.
//
// Terminal strings of length <= k are packed into a uint64: 6 bits per
// terminal id (1..63), the length in the top byte.

type kstr = string // external form: terminals joined by "\x00"

func ksplit(s kstr) []string {
	if s == "" {
		return nil
	}
	return strings.Split(s, "\x00")
}

type kcode uint64

func klen(c kcode) int     { return int(c >> 56) }
func kbody(c kcode) uint64 { return uint64(c) & (1<<56 - 1) }
func kmake(body uint64, n int) kcode {
	if n < 8 {
		body &= 1<<(6*uint(n)) - 1
	}
	return kcode(uint64(n)<<56 | body)
}
func kprefix(c kcode, n int) kcode { return kmake(kbody(c), n) }
func ksuffix(c kcode, n int) kcode { return kmake(kbody(c)>>(6*uint(klen(c)-n)), n) }
func kcat(a, b kcode) kcode        { return kmake(kbody(a)|kbody(b)<<(6*uint(klen(a))), klen(a)+klen(b)) }

type kset map[kcode]struct{}

func (s kset) add(c kcode) bool {
	if _, ok := s[c]; ok {
		return false
	}
	s[c] = struct{}{}
	return true
}

type kinfo struct{ F, L, G kset }

func newKinfo() *kinfo { return &kinfo{F: kset{}, L: kset{}, G: kset{}} }

func kconcat(a, b *kinfo, k int) *kinfo {
	out := newKinfo()
	pre := make([]kset, k+1) // exact-length prefixes of b.F
	suf := make([]kset, k+1) // exact-length suffixes of a.L
	cut := make([]kset, k+1) // b.F entries cut to at most n
	cutL := make([]kset, k+1)
	for i := range pre {
		pre[i], suf[i], cut[i], cutL[i] = kset{}, kset{}, kset{}, kset{}
	}
	for y := range b.F {
		n := klen(y)
		for m := 1; m <= n && m <= k; m++ {
			pre[m].add(kprefix(y, m))
		}
		for m := 1; m <= k; m++ {
			if n > m {
				cut[m].add(kprefix(y, m))
			} else {
				cut[m].add(y)
			}
		}
	}
	for x := range a.L {
		n := klen(x)
		for m := 1; m <= n && m <= k; m++ {
			suf[m].add(ksuffix(x, m))
		}
		for m := 1; m <= k; m++ {
			if n > m {
				cutL[m].add(ksuffix(x, m))
			} else {
				cutL[m].add(x)
			}
		}
	}
	for x := range a.F {
		if klen(x) >= k {
			out.F.add(x)
			continue
		}
		for y := range cut[k-klen(x)] {
			out.F.add(kcat(x, y))
		}
	}
	for y := range b.L {
		if klen(y) >= k {
			out.L.add(y)
			continue
		}
		for x := range cutL[k-klen(y)] {
			out.L.add(kcat(x, y))
		}
	}
	for g := range a.G {
		out.G.add(g)
	}
	for g := range b.G {
		out.G.add(g)
	}
	for i := 1; i < k; i++ {
		for s := range suf[i] {
			for p := range pre[k-i] {
				out.G.add(kcat(s, p))
			}
		}
	}
	return out
}

// KGrams computes the k-gram set of the grammar's language with the sentence
// delimited by "^" and "$".
func (g *Grammar) KGrams(k int) map[kstr]bool { return g.KGramsClass(k, nil) }

// KGramsClass is KGrams with every terminal first replaced by class(terminal).
func (g *Grammar) KGramsClass(k int, class func(string) string) map[kstr]bool {
	if k < 1 || k > 8 {
		panic("k-gram length out of range")
	}
	ids := map[string]int{}
	var names []string
	id := func(t string) kcode {
		if class != nil {
			t = class(t)
		}
		n, ok := ids[t]
		if !ok {
			n = len(names) + 1
			if n > 63 {
				panic("too many terminals for the k-gram encoding")
			}
			ids[t] = n
			names = append(names, t)
		}
		return kmake(uint64(n), 1)
	}
	term := func(c kcode) *kinfo {
		ki := newKinfo()
		ki.F.add(c)
		ki.L.add(c)
		if k == 1 {
			ki.G.add(c)
		}
		return ki
	}
	eps := func() *kinfo {
		ki := newKinfo()
		ki.F.add(kmake(0, 0))
		ki.L.add(kmake(0, 0))
		return ki
	}
	info := map[string]*kinfo{}
	for nt := range g.NonTerms {
		info[nt] = newKinfo()
	}
	changed := map[string]bool{}
	for nt := range g.NonTerms {
		changed[nt] = true
	}
	first := true
	for len(changed) > 0 {
		next := map[string]bool{}
		for _, p := range g.Prods {
			dirty := first
			for _, s := range p.RHS {
				if changed[s.Name] {
					dirty = true
				}
			}
			if !dirty {
				continue
			}
			acc := eps()
			dead := false
			for _, s := range p.RHS {
				var si *kinfo
				if g.NonTerms[s.Name] {
					si = info[s.Name]
					if len(si.F) == 0 {
						dead = true
						break
					}
				} else {
					si = term(id(s.Name))
				}
				acc = kconcat(acc, si, k)
			}
			if dead {
				continue
			}
			dst := info[p.LHS]
			ch := false
			for x := range acc.F {
				if dst.F.add(x) {
					ch = true
				}
			}
			for x := range acc.L {
				if dst.L.add(x) {
					ch = true
				}
			}
			for x := range acc.G {
				if dst.G.add(x) {
					ch = true
				}
			}
			if ch {
				next[p.LHS] = true
			}
		}
		first = false
		changed = next
	}
	top := kconcat(kconcat(term(id("^")), info[g.Start], k), term(id("$")), k)
	out := map[kstr]bool{}
	for c := range top.G {
		n := klen(c)
		parts := make([]string, n)
		body := kbody(c)
		for i := 0; i < n; i++ {
			parts[i] = names[int(body>>(6*uint(i))&63)-1]
		}
		out[strings.Join(parts, "\x00")] = true
	}
	return out
}

func sortedK(m map[kstr]bool) []string {
	var out []string
	for x := range m {
		out = append(out, strings.ReplaceAll(x, "\x00", " "))
	}
	sort.Strings(out)
	return out
}

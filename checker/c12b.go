package main

import (
	"fmt"
	"go/constant"
	"go/token"
	"go/types"
	"sort"
	"strings"

	"golang.org/x/tools/go/ssa"
)

// R12.6  an existing sibling is never overwritten. node.children is keyed by
// the local name, so the only thing that keeps a second node of that name
// from silently replacing the first is that the map store in addChild is
// reachable only through the "not present" branch of a presence test on the
// same map and key; addChoice appends only after a scan in which an equal
// name returns the error.
func c12NoOverwrite(w *World, r *Report) { c12NoOverwriteRule(w, r, "R12.6") }

func c12NoOverwriteRule(w *World, r *Report, rule string) {
	children := w.Field("schema", "node", "children")
	choices := w.Field("schema", "node", "choices")
	f := w.SSAFunc(w.Method("schema", "node", "addChild"))
	if f == nil {
		panic(undecided{"schema.node.addChild"})
	}
	isChildrenMap := func(v ssa.Value) bool {
		u, ok := v.(*ssa.UnOp)
		if !ok || u.Op != token.MUL {
			return false
		}
		fa, ok := u.X.(*ssa.FieldAddr)
		return ok && isFieldAddrOf(fa, children)
	}
	nUpd := 0
	for _, b := range f.Blocks {
		for _, in := range b.Instrs {
			mu, ok := in.(*ssa.MapUpdate)
			if !ok || !isChildrenMap(mu.Map) {
				continue
			}
			nUpd++
			guarded := false
			for _, b2 := range f.Blocks {
				iff, ok := b2.Instrs[len(b2.Instrs)-1].(*ssa.If)
				if !ok {
					continue
				}
				ex, ok := iff.Cond.(*ssa.Extract)
				if !ok || ex.Index != 1 {
					continue
				}
				lk, ok := ex.Tuple.(*ssa.Lookup)
				if !ok || !lk.CommaOk || !isChildrenMap(lk.X) || lk.Index != mu.Key {
					continue
				}
				absent := b2.Succs[1]
				if len(absent.Preds) == 1 && absent.Dominates(b) {
					// and the present branch leaves with an error
					present := b2.Succs[0]
					if ret, ok := present.Instrs[len(present.Instrs)-1].(*ssa.Return); ok && len(ret.Results) == 1 {
						if c, isC := ret.Results[0].(*ssa.Const); !isC || !c.IsNil() {
							guarded = true
						}
					}
				}
			}
			r.Check(guarded, rule, "node.addChild stores into children", mu.Pos(), "only on the branch where the name is not present; the present branch returns the redefinition error",
				"the child map entry can be written although a sibling of that name exists (the presence test has a further condition, or its error branch is gone): the later node silently replaces the earlier one")
		}
	}
	if nUpd == 0 {
		r.Fail(rule, "node.addChild stores into children", f.Pos(), "no store into node.children found")
	}
	// addChoice
	g := w.SSAFunc(w.Method("schema", "node", "addChoice"))
	if g == nil {
		panic(undecided{"schema.node.addChoice"})
	}
	okScan, okAppend := false, false
	var at token.Pos = g.Pos()
	sym := NewSym(w)
	isName := func(v ssa.Value) bool {
		c, ok := outerValue(v).(*ssa.Call)
		return ok && c.Call.IsInvoke() && nm(c.Call.Method) == "Name"
	}
	// the scan: left in the middle, with the redefinition error, exactly when an element has
	// the name of the new choice (the scan may be a loop or slices.ContainsFunc with that test)
	hit := pcZ
	nHit, badExit := 0, false
	var scanCall *ssa.Call
	exits := searchExits(sym, g)
	for _, ex := range exits {
		if len(ex.ret.Results) != 1 {
			continue
		}
		isNil := isNilConst(ex.ret.Results[0])
		switch {
		case ex.inLoop && !isNil:
			nHit++
			hit = pcOrF(hit, ex.cond)
			if ex.list == nil || loadedFieldName(ex.list) != nm(choices) {
				badExit = true
			}
			for _, a := range ex.cond.atoms() {
				if a.iter {
					scanCall, _ = a.v.(*ssa.Call)
				}
			}
		case ex.inLoop && isNil:
			badExit = true // leaves the scan early without the error
		}
	}
	if nHit > 0 && !badExit {
		okScan = pcCompare(hit, func(a *pcAtom) string {
			if pcIsIter(a) {
				return "iter"
			}
			if a.op == token.EQL && a.x != nil && a.y != nil && isName(a.x) && isName(a.y) {
				return "same"
			}
			return ""
		}, func(env map[string]bool) bool { return env["iter"] && env["same"] }) == ""
	}
	// the store to n.choices happens only after the scan is done
	loops := ssaLoops(g)
	for _, b := range g.Blocks {
		for _, in := range b.Instrs {
			st, ok := in.(*ssa.Store)
			if !ok {
				continue
			}
			fa, ok := st.Addr.(*ssa.FieldAddr)
			if !ok || !isFieldAddrOf(fa, choices) {
				continue
			}
			at = st.Pos()
			if scanCall != nil {
				// reached only when the scan said no
				key := sym.Key(scanCall, nil)
				has := false
				msg := pcImplies(sym.PathCond(g.Blocks[0], b, nil), func(a *pcAtom) string {
					if a.key == key {
						has = true
						return "found"
					}
					return ""
				}, func(env map[string]bool) bool { return !env["found"] })
				okAppend = has && msg == "" && scanCall.Block().Dominates(b)
				continue
			}
			for _, l := range loops {
				if !l.body()[b] && l.Header.Dominates(b) {
					okAppend = true
				}
			}
		}
	}
	r.Check(okScan && okAppend, rule, "node.addChoice appends to choices", at, "after a scan of all choices in which an equal name returns the redefinition error",
		"a choice/case can be appended although one of that name exists (the equality test has a further condition, or its error branch is gone)")
}

// R12.7  references are resolved where they are written. An unprefixed
// feature/identity reference inside a grouping belongs to the module that
// defines the grouping (node.Root()), not to the module that uses it
// (node.UsesRoot()): every call of getModuleAndReference passes a Root()
// result (or hands on its own module parameter), and package compile does not
// consult UsesRoot() at all (re-homing is confined to parse/namespace.go).
func c12LexicalScope(w *World, r *Report) {
	sp := w.SSAPkg("compile")
	gmr := w.SSAFunc(w.Method("compile", "Compiler", "getModuleAndReference"))
	if gmr == nil {
		panic(undecided{"Compiler.getModuleAndReference"})
	}
	n := map[string]int{}
	for _, f := range allFuncs(sp) {
		for _, b := range f.Blocks {
			for _, in := range b.Instrs {
				c, ok := in.(ssa.CallInstruction)
				if !ok {
					continue
				}
				cc := c.Common()
				if cc.IsInvoke() && nm(cc.Method) == "UsesRoot" {
					n["uses"]++
					r.Fail("R12.7", "UsesRoot() consulted in "+funcKey(f), in.Pos(), "the compiler looks at the using module of a grouping-derived node: a reference written in the grouping would be resolved in the wrong module")
					continue
				}
				if cc.StaticCallee() != gmr {
					continue
				}
				n[funcKey(f)]++
				what := funcKey(f) + ": getModuleAndReference #" + itoa(n[funcKey(f)])
				arg := cc.Args[1] // receiver is Args[0]
				good := ""
				var walk func(v ssa.Value, d int) bool
				walk = func(v ssa.Value, d int) bool {
					if d > 4 {
						return false
					}
					switch x := v.(type) {
					case *ssa.Call:
						if x.Call.IsInvoke() && nm(x.Call.Method) == "Root" {
							good = "Root() of the referring statement"
							return true
						}
					case *ssa.Parameter:
						good = "the caller's module parameter " + x.Name()
						return true
					case *ssa.Phi:
						for _, e := range x.Edges {
							if !walk(e, d+1) {
								return false
							}
						}
						return len(x.Edges) > 0
					case *ssa.ChangeInterface:
						return walk(x.X, d+1)
					}
					return false
				}
				ok2 := walk(arg, 0)
				r.Check(ok2, "R12.7", what, in.Pos(), "module = "+good, "the module in which the reference is looked up is `"+arg.String()+"`, not the Root() of the statement that contains it: unprefixed references inside a grouping used from another module resolve in the wrong module")
			}
		}
	}
	if n["uses"] == 0 {
		r.OK("R12.7", "package compile never consults UsesRoot()", token.NoPos, "re-homing stays inside parse/namespace.go")
	}
}

func itoa(i int) string {
	if i == 0 {
		return "0"
	}
	s := ""
	for i > 0 {
		s = string(rune('0'+i%10)) + s
		i /= 10
	}
	return s
}

// R15.5  text and prefix scope belong to the same statement. For every
// machine constructor call in package compile, the expression text is the
// direct result of a text accessor (ArgWhen/ArgMust/Path/…) on some parse
// node, and the prefix-mapping closure handed to the same call resolves
// prefixes through that very node (same variable cell). A text taken from
// anywhere else (e.g. the expression of an already compiled machine) would be
// compiled in the prefix scope of a different module.
func c15TextAndScope(w *World, r *Report, rule string, want func(fn string) bool) {
	sp := w.SSAPkg("compile")
	ctors := map[string]bool{}
	for _, n := range []string{"NewExprMachine", "NewExprMachineWithCustomFunctions", "NewLeafrefMachine", "NewPathEvalMachine", "NewPathEvalMachineWithCustomFns"} {
		ctors[n] = true
	}
	// cellOf: the variable a value is read from, named canonically: a cell
	// that only ever holds one parameter (a parameter captured by a closure
	// is spilled into such a cell) stands for that parameter
	var cellOf func(v ssa.Value) ssa.Value
	cellOf = func(v ssa.Value) ssa.Value {
		if u, ok := v.(*ssa.UnOp); ok && u.Op == token.MUL {
			if a, ok := u.X.(*ssa.Alloc); ok {
				return cellOf(a)
			}
			if fv, ok := u.X.(*ssa.FreeVar); ok {
				return fv
			}
		}
		if a, ok := v.(*ssa.Alloc); ok {
			var only ssa.Value
			n := 0
			for _, ref := range *a.Referrers() {
				if st, ok := ref.(*ssa.Store); ok && st.Addr == ssa.Value(a) {
					n++
					only = st.Val
				}
			}
			if n == 1 {
				if p, ok := only.(*ssa.Parameter); ok {
					return p
				}
			}
		}
		return v
	}
	// callers of in-package functions (for pass-through helpers)
	callers := map[*ssa.Function][]*ssa.Call{}
	for _, f := range allFuncs(sp) {
		for _, b := range f.Blocks {
			for _, in := range b.Instrs {
				if c, ok := in.(*ssa.Call); ok {
					if sc := c.Call.StaticCallee(); sc != nil && sc.Pkg == sp {
						callers[sc] = append(callers[sc], c)
					}
				}
			}
		}
	}
	paramIdx := func(v ssa.Value) int {
		p, ok := v.(*ssa.Parameter)
		if !ok {
			return -1
		}
		for i, q := range p.Parent().Params {
			if q == p {
				return i
			}
		}
		return -1
	}
	// scopeCell: the variable cell of the node through which the closure resolves prefixes
	var scopeCell func(v ssa.Value, depth int) (ssa.Value, string)
	scopeCell = func(v ssa.Value, depth int) (ssa.Value, string) {
		if ct, ok := v.(*ssa.ChangeType); ok {
			v = ct.X
		}
		// a helper of the package that builds the closure from a statement it is given
		if call, ok := v.(*ssa.Call); ok && depth < 2 {
			if h := call.Call.StaticCallee(); h != nil && h.Pkg == sp && h.Blocks != nil {
				var inner ssa.Value
				n := 0
				for _, hb := range h.Blocks {
					if ret, ok := hb.Instrs[len(hb.Instrs)-1].(*ssa.Return); ok && len(ret.Results) == 1 {
						n++
						inner = ret.Results[0]
					}
				}
				if n != 1 {
					return nil, "the prefix map comes from " + h.Name() + ", which has several results"
				}
				cell, why := scopeCell(inner, depth+1)
				if cell == nil {
					return nil, h.Name() + ": " + why
				}
				if hp, ok := cell.(*ssa.Parameter); ok && hp.Parent() == h {
					for i, q := range h.Params {
						if q == hp && i < len(call.Call.Args) {
							return cellOf(call.Call.Args[i]), ""
						}
					}
				}
				return nil, h.Name() + " resolves prefixes through something other than a statement it is given"
			}
		}
		mc, ok := v.(*ssa.MakeClosure)
		if !ok {
			return nil, "the prefix map is not a closure built here"
		}
		cf := mc.Fn.(*ssa.Function)
		var cell ssa.Value
		// a method value of a small struct that carries the statement (scope.namespace): the method resolves
		// prefixes through a field of its receiver, and that field of the bound receiver holds the statement
		if cf.Synthetic != "" && len(mc.Bindings) == 1 {
			var m *ssa.Function
			for _, cb := range cf.Blocks {
				for _, ci := range cb.Instrs {
					if cc, ok := ci.(*ssa.Call); ok && cc.Call.StaticCallee() != nil {
						m = cc.Call.StaticCallee()
					}
				}
			}
			fieldIdx := -1
			if m != nil && len(m.Params) > 0 {
				for _, cb := range m.Blocks {
					for _, ci := range cb.Instrs {
						cc, ok := ci.(*ssa.Call)
						if !ok || !cc.Call.IsInvoke() || nm(cc.Call.Method) != "YangPrefixToNamespace" {
							continue
						}
						switch x := cc.Call.Value.(type) {
						case *ssa.Field:
							if x.X == ssa.Value(m.Params[0]) {
								fieldIdx = x.Field
							}
						case *ssa.UnOp:
							if fa, ok := x.X.(*ssa.FieldAddr); ok {
								base := fa.X
								if ld, ok := base.(*ssa.UnOp); ok {
									base = ld.X
								}
								if base == ssa.Value(m.Params[0]) || cellOf(fa.X) == ssa.Value(m.Params[0]) {
									fieldIdx = fa.Field
								}
							}
						}
					}
				}
			}
			if fieldIdx >= 0 {
				recv := mc.Bindings[0]
				var box *ssa.Alloc
				switch x := recv.(type) {
				case *ssa.UnOp:
					box, _ = x.X.(*ssa.Alloc)
				case *ssa.Alloc:
					box = x
				}
				if box != nil {
					for _, ref := range *box.Referrers() {
						if fa, ok := ref.(*ssa.FieldAddr); ok && fa.Field == fieldIdx {
							for _, r2 := range *fa.Referrers() {
								if st, ok := r2.(*ssa.Store); ok && st.Addr == ssa.Value(fa) {
									cell = cellOf(st.Val)
								}
							}
						}
					}
				}
			}
			if cell == nil {
				return nil, "the method value does not resolve prefixes through a statement held by its receiver"
			}
			return cell, ""
		}
		for _, cb := range cf.Blocks {
			for _, ci := range cb.Instrs {
				cc, ok := ci.(*ssa.Call)
				if !ok || !cc.Call.IsInvoke() || nm(cc.Call.Method) != "YangPrefixToNamespace" {
					continue
				}
				if fv, ok := cellOf(cc.Call.Value).(*ssa.FreeVar); ok {
					for i, x := range cf.FreeVars {
						if x == fv && i < len(mc.Bindings) {
							cell = cellOf(mc.Bindings[i])
						}
					}
				}
			}
		}
		if cell == nil {
			return nil, "the closure does not resolve prefixes through a captured statement"
		}
		return cell, ""
	}
	var check func(text, mapFn ssa.Value, depth int) (bool, string)
	check = func(text, mapFn ssa.Value, depth int) (bool, string) {
		if ct, ok := mapFn.(*ssa.ChangeType); ok {
			mapFn = ct.X
		}
		// pass-through helper: both come in as parameters
		if ti, mi := paramIdx(text), paramIdx(mapFn); ti >= 0 && mi >= 0 && depth < 2 {
			fn := text.(*ssa.Parameter).Parent()
			cs := callers[fn]
			if len(cs) == 0 {
				return false, "text and prefix map are parameters of a function nobody calls"
			}
			for _, c := range cs {
				if ok, why := check(c.Call.Args[ti], c.Call.Args[mi], depth+1); !ok {
					return false, "via " + funcKey(c.Parent()) + ": " + why
				}
			}
			return true, "text and prefix map handed through from callers that satisfy the rule"
		}
		cell, why := scopeCell(mapFn, 0)
		if cell == nil {
			return false, why
		}
		tc, ok := text.(*ssa.Call)
		if !ok {
			return false, "the expression text is `" + text.String() + "`, not read from a parse statement"
		}
		if tc.Call.IsInvoke() {
			if cellOf(tc.Call.Value) == cell {
				return true, "text = " + tc.Call.Method.Name() + "() of the statement whose imports resolve the prefixes"
			}
			return false, "the text is " + tc.Call.Method.Name() + "() of one value, the prefixes are resolved through another"
		}
		// an in-package helper deriving the text from the statement (extension forms of must)
		if sc := tc.Call.StaticCallee(); sc != nil && sc.Pkg == sp {
			for _, a := range tc.Call.Args {
				if cellOf(a) == cell {
					return true, "text = " + sc.Name() + "(…) computed from the statement whose imports resolve the prefixes"
				}
			}
		}
		return false, "the expression text `" + text.String() + "` is not derived from the statement the prefix map resolves through"
	}
	n := map[string]int{}
	for _, f := range allFuncs(sp) {
		for _, b := range f.Blocks {
			for _, in := range b.Instrs {
				c, ok := in.(*ssa.Call)
				if !ok || c.Call.StaticCallee() == nil || !ctors[nm(c.Call.StaticCallee())] || len(c.Call.Args) < 2 {
					continue
				}
				// a helper only one of the named functions uses counts as that function
				named := false
				for _, g := range w.OwnerChain(f) {
					if nm(g) == "BuildWhens" || nm(g) == "BuildMusts" || nm(g) == "getPath" {
						named = true
					}
				}
				if want != nil && !named {
					continue
				}
				fk := funcKey(f)
				n[fk+c.Call.StaticCallee().Name()]++
				what := fmt.Sprintf("%s: %s #%d", fk, c.Call.StaticCallee().Name(), n[fk+c.Call.StaticCallee().Name()])
				ok2, why := check(c.Call.Args[0], c.Call.Args[1], 0)
				r.Check(ok2, rule, what, c.Pos(), why, why+": the expression would be compiled in the prefix scope of a different statement/module than the one it is written in")
			}
		}
	}
}

// R14.7  no stale inherited status. Where a function derives the effective
// status of the node it handles from its inherited-status parameter (a local
// that starts as the parameter and is overridden by the node's own status
// statement), everything below must see the derived value: the bare parameter
// has no other use than feeding that derivation.
func c14StaleStatus(w *World, r *Report) {
	sp := w.SSAPkg("compile")
	n := 0
	for _, f := range allFuncs(sp) {
		for _, p := range f.Params {
			if nt, ok := p.Type().(*types.Named); !ok || nm(nt.Obj()) != "Status" || nt.Obj().Pkg() == nil || nm(nt.Obj().Pkg()) != "schema" {
				continue
			}
			// the derivation: a phi that merges the parameter with the node's own
			// status, or a helper of the package that is handed the parameter and
			// returns a status
			var derived ssa.Instruction
			derivedName := ""
			// a parameter that a function literal captures lives in a cell: its reads in this
			// function are reads of the parameter
			isP := func(v ssa.Value) bool { return v == ssa.Value(p) }
			refs := append([]ssa.Instruction{}, *p.Referrers()...)
			if cell := spillCell(p); cell != nil {
				refs = nil
				for _, cr := range *cell.Referrers() {
					if ld, ok := cr.(*ssa.UnOp); ok && ld.Op == token.MUL && ld.Parent() == f {
						refs = append(refs, *ld.Referrers()...)
					}
				}
				isP = func(v ssa.Value) bool {
					ld, ok := v.(*ssa.UnOp)
					return ok && ld.Op == token.MUL && ld.X == ssa.Value(cell)
				}
			}
			for _, ref := range refs {
				if phi, ok := ref.(*ssa.Phi); ok {
					for _, e := range phi.Edges {
						if !isP(e) {
							derived, derivedName = phi, phi.Comment
						}
					}
				}
				if c, ok := ref.(*ssa.Call); ok && derived == nil {
					if g := c.Call.StaticCallee(); g != nil && g.Pkg == sp && g.Signature.Results().Len() == 1 && types.Identical(g.Signature.Results().At(0).Type(), p.Type()) {
						derived, derivedName = c, g.Name()+"(…)"
					}
				}
			}
			if derived == nil {
				continue
			}
			n++
			var stale []ssa.Instruction
			for _, ref := range refs {
				switch x := ref.(type) {
				case *ssa.Phi:
					if ssa.Instruction(x) == derived {
						continue
					}
				case *ssa.Call:
					if ssa.Instruction(x) == derived {
						continue
					}
				case *ssa.DebugRef:
					continue
				}
				// uses the derivation cannot flow into are fine (they happen before the override is known)
				if !instrFlowsTo(derived, ref) {
					continue
				}
				stale = append(stale, ref)
			}
			what := funcKey(f) + ": " + p.Name() + " after the node's own status is known"
			if len(stale) == 0 {
				r.OK("R14.7", what, derived.Pos(), "only the derived status `"+derivedName+"` is used below")
			} else {
				r.Fail("R14.7", what, stale[0].Pos(), "the inherited status parameter is still used in `"+stale[0].String()+"` although the node's own status overrides it: a status written on this node does not reach what lies beneath it")
			}
		}
	}
	if n == 0 {
		panic(undecided{"no function derives an effective status from an inherited-status parameter"})
	}
}

// c12InheritUnconditional: inheritCommonProperties hands the parent's
// if-feature, when and status statements to the child unconditionally: its
// body is straight-line (one basic block, no closure) and each
// parent.ChildrenByType(kind) result is passed directly to
// child.AddChildren / child.AddWhenChildren.
func c12InheritUnconditional(w *World, r *Report, rule string) {
	names, _ := nodeTypeNames(w)
	for _, fo := range c12InheritFuncs(w) {
		f := w.SSAFunc(fo)
		label := nm(fo)
		if len(c12InheritFuncs(w)) == 1 {
			label = "inheritCommonProperties"
		}
		straight := len(f.Blocks) == 1 && len(f.AnonFuncs) == 0
		got := map[string]bool{}
		if len(f.Blocks) > 0 {
			for _, in := range f.Blocks[0].Instrs {
				c, ok := in.(*ssa.Call)
				if !ok || !c.Call.IsInvoke() || (nm(c.Call.Method) != "AddChildren" && nm(c.Call.Method) != "AddWhenChildren") || c.Call.Value != ssa.Value(f.Params[1]) {
					continue
				}
				src, ok := c.Call.Args[len(c.Call.Args)-1].(*ssa.Call)
				if !ok || !src.Call.IsInvoke() || nm(src.Call.Method) != "ChildrenByType" || src.Call.Value != ssa.Value(f.Params[0]) {
					continue
				}
				if k, ok := src.Call.Args[0].(*ssa.Const); ok && k.Value != nil {
					if v, ok := constant.Int64Val(constant.ToInt(k.Value)); ok {
						got[names[v]] = true
					}
				}
			}
		}
		for _, k := range []string{"if-feature", "when", "status"} {
			r.Check(straight && got[k], rule, label+" hands down "+k+" unconditionally", f.Pos(), "child.Add…Children(parent.ChildrenByType("+k+")...) in a straight-line body",
				"the "+k+" written on a uses/augment is not (or only conditionally) added to each node it introduces: e.g. a node with its own "+k+" no longer receives the enclosing one, so it stays present/current when the uses or augment is disabled/obsolete")
		}
	}
}

// c12InheritFuncs: the function(s) of package compile that hand the when /
// if-feature / status of a uses or augment down to a node: the recorded
// inheritCommonProperties where it still exists, else every function of
// (parent, child parse.Node[, …]) that calls child.AddWhenChildren — one
// helper per kind of parent instead of one with a flag.
func c12InheritFuncs(w *World) []*types.Func {
	if f := w.tryFunc("compile", "inheritCommonProperties"); f != nil {
		return []*types.Func{f}
	}
	var out []*types.Func
	p := w.Pkg("compile")
	for _, fd := range funcDecls(p) {
		if isTestFile(w, fd.Pos()) || fd.Recv != nil {
			continue
		}
		fo, _ := p.TypesInfo.Defs[fd.Name].(*types.Func)
		if fo == nil {
			continue
		}
		sig := fo.Type().(*types.Signature)
		if sig.Params().Len() < 2 || sig.Params().At(0).Type().String() != sig.Params().At(1).Type().String() || !strings.HasSuffix(sig.Params().At(0).Type().String(), "parse.Node") {
			continue
		}
		f := w.SSAFunc(fo)
		if f == nil {
			continue
		}
		calls := false
		for _, b := range f.Blocks {
			for _, in := range b.Instrs {
				if c, ok := in.(*ssa.Call); ok && c.Call.IsInvoke() && nm(c.Call.Method) == "AddWhenChildren" && c.Call.Value == ssa.Value(f.Params[1]) {
					calls = true
				}
			}
		}
		if calls {
			out = append(out, fo)
		}
	}
	if len(out) == 0 {
		panic(undecided{"func compile.inheritCommonProperties not found"})
	}
	return out
}

// R14.9  deviate not-supported is exclusive wherever it stands: the
// application of a not-supported deviate is dominated by a test that raises
// the error whenever the deviation has more than one deviate statement, and
// that test depends on nothing else (in particular not on the position of the
// not-supported statement among its siblings).
func c14NotSupportedExclusive(w *World, r *Report) {
	f := w.SSAFunc(w.Method("compile", "Compiler", "processDeviations"))
	if f == nil {
		panic(undecided{"Compiler.processDeviations"})
	}
	cerr := w.SSAFunc(w.Method("compile", "Compiler", "error"))
	var apply *ssa.Call
	// in processDeviations, or in the function of the package it hands the loop over the deviate statements to
	root := f
	for _, g := range bodiesDeep(root, 0) {
		if g.Pkg != root.Pkg {
			continue
		}
		for _, b := range g.Blocks {
			for _, in := range b.Instrs {
				c, ok := in.(*ssa.Call)
				if !ok || c.Call.StaticCallee() == nil || nm(c.Call.StaticCallee()) != "doDeviate" {
					continue
				}
				last := c.Call.Args[len(c.Call.Args)-1]
				if mi, ok := last.(*ssa.MakeInterface); ok && strings.Contains(mi.X.Type().String(), "deviateNotSupported") {
					apply = c
					f = g
				}
			}
		}
	}
	if apply == nil {
		panic(undecided{"processDeviations: application of deviateNotSupported not found"})
	}
	ok := false
	for _, b := range f.Blocks {
		iff, isIf := b.Instrs[len(b.Instrs)-1].(*ssa.If)
		if !isIf || !b.Dominates(apply.Block()) {
			continue
		}
		bo, isBo := iff.Cond.(*ssa.BinOp)
		if !isBo || bo.Op != token.GTR {
			continue
		}
		k, isK := bo.Y.(*ssa.Const)
		ln, isLen := bo.X.(*ssa.Call)
		if !isK || !isLen || k.Value == nil {
			continue
		}
		if v, _ := constant.Int64Val(constant.ToInt(k.Value)); v != 1 {
			continue
		}
		if bi, isB := ln.Call.Value.(*ssa.Builtin); !isB || nm(bi) != "len" {
			continue
		}
		raises := false
		for _, in := range b.Succs[0].Instrs {
			if c, isC := in.(*ssa.Call); isC && c.Call.StaticCallee() == cerr {
				raises = true
			}
		}
		// the test must stand in the not-supported arm: the arm's entry (a block that tests the kind of the
		// current deviate) dominates it, i.e. the test is inside the loop over the deviate statements
		inLoop := false
		for _, l := range ssaLoops(f) {
			if l.body()[b] && l.body()[apply.Block()] && b != l.Header {
				inLoop = true
			}
		}
		if raises && inLoop {
			ok = true
		}
	}
	r.Check(ok, "R14.9", "processDeviations: not-supported excludes every other deviate", apply.Pos(), "len(deviates) > 1 ⇒ error, tested where the not-supported deviate is applied", "a not-supported deviate can be applied although the deviation has other deviate statements (the exclusivity test is missing, conditional on more than the count, or made only for one position): RFC 6020 §7.18.3.2 forbids the combination")
}

// c13EveryPartChecked (R13.4): validateRangeBoundaries tests end < start for
// every part of a restriction: part 0 on every path through the function, the
// others in a loop whose induction variable starts at 1 (or 0) and whose test
// is executed on every iteration.
func c13EveryPartChecked(w *World, r *Report) {
	f := w.SSAFunc(w.Method("compile", "Compiler", "validateRangeBoundaries"))
	if f == nil {
		panic(undecided{"Compiler.validateRangeBoundaries"})
	}
	// index argument of ranges.GetEnd(k) / GetStart(k) inside LessThan(GetEnd(k), GetStart(k))
	partIndex := func(c ssa.Value) (ssa.Value, bool) {
		call, ok := c.(*ssa.Call)
		if !ok || !call.Call.IsInvoke() || nm(call.Call.Method) != "LessThan" || len(call.Call.Args) != 2 {
			return nil, false
		}
		get := func(v ssa.Value, name string) ssa.Value {
			g, ok := v.(*ssa.Call)
			if !ok || !g.Call.IsInvoke() || g.Call.Method.Name() != name || len(g.Call.Args) != 1 {
				return nil
			}
			return g.Call.Args[0]
		}
		e, s := get(call.Call.Args[0], "GetEnd"), get(call.Call.Args[1], "GetStart")
		if e == nil || s == nil || e != s {
			if ec, ok := e.(*ssa.Const); ok {
				if sc, ok := s.(*ssa.Const); ok && ec.Value != nil && sc.Value != nil && constant.Compare(ec.Value, token.EQL, sc.Value) {
					return e, true
				}
			}
			return nil, false
		}
		return e, true
	}
	var returns []*ssa.BasicBlock
	for _, b := range f.Blocks {
		if _, ok := b.Instrs[len(b.Instrs)-1].(*ssa.Return); ok {
			returns = append(returns, b)
		}
	}
	first, rest := false, false
	startsAt := int64(-1)
	loops := ssaLoops(f)
	// the places where a part is tested: a branch on LessThan(GetEnd(k), GetStart(k)) here, or a call of a
	// helper of the package that makes that test, on every path through it, for the index it is handed
	type testSite struct {
		k ssa.Value
		b *ssa.BasicBlock
	}
	var sites []testSite
	for _, b := range f.Blocks {
		if iff, ok := b.Instrs[len(b.Instrs)-1].(*ssa.If); ok {
			if k, ok := partIndex(iff.Cond); ok {
				sites = append(sites, testSite{k, b})
			}
		}
		for _, in := range b.Instrs {
			c, ok := in.(*ssa.Call)
			if !ok {
				continue
			}
			h := c.Call.StaticCallee()
			if h == nil || h.Pkg != f.Pkg || h.Blocks == nil || h == f {
				continue
			}
			for _, hb := range h.Blocks {
				hif, ok := hb.Instrs[len(hb.Instrs)-1].(*ssa.If)
				if !ok {
					continue
				}
				hk, ok := partIndex(hif.Cond)
				if !ok {
					continue
				}
				prm, isP := hk.(*ssa.Parameter)
				if !isP {
					continue
				}
				always := true
				for _, rb := range h.Blocks {
					if _, isRet := rb.Instrs[len(rb.Instrs)-1].(*ssa.Return); isRet && !hb.Dominates(rb) {
						always = false
					}
				}
				if !always {
					continue
				}
				for pi, q := range h.Params {
					if q == prm && pi < len(c.Call.Args) {
						sites = append(sites, testSite{c.Call.Args[pi], b})
					}
				}
			}
		}
	}
	for _, ts := range sites {
		k, b := ts.k, ts.b
		if c, isC := k.(*ssa.Const); isC {
			if v, _ := constant.Int64Val(constant.ToInt(c.Value)); v == 0 {
				all := true
				for _, rb := range returns {
					if !b.Dominates(rb) {
						all = false
					}
				}
				if all {
					first = true
				}
			}
			continue
		}
		if phi, isPhi := k.(*ssa.Phi); isPhi {
			for _, l := range loops {
				if phi.Block() != l.Header {
					continue
				}
				domAll := true
				for _, lt := range l.Latches {
					if !b.Dominates(lt) {
						domAll = false
					}
				}
				for _, e := range l.Entries {
					if c, ok := phiEdge(phi, e).(*ssa.Const); ok && c.Value != nil {
						startsAt, _ = constant.Int64Val(constant.ToInt(c.Value))
					}
				}
				if domAll && (startsAt == 0 || startsAt == 1) {
					rest = true
				}
			}
		}
	}
	r.Check(rest && (first || startsAt == 0), "R13.4", "validateRangeBoundaries checks end >= start for every part", f.Pos(), "part 0 on every path, parts 1..n-1 in the loop", "some part of a multi-part range/length is not tested for end < start (e.g. the first part when there are several): `range \"9..3 | 20..30\"` compiles and the leaf silently accepts nothing in 3..9")
}

// R12.8  expansion reaches every statement: expandGroupings calls itself for
// every child of the node it handles (on every iteration of the loop over the
// children), so a `uses` nested anywhere — also below a data node inside a
// grouping body — is expanded in the module that defines it, before the body
// is cloned into a using module.
func c12ExpandEveryChild(w *World, r *Report) {
	f := w.SSAFunc(w.Method("compile", "Compiler", "expandGroupings"))
	if f == nil {
		panic(undecided{"Compiler.expandGroupings"})
	}
	found, ok, why := everyIterationCalls(f, func(c ssa.CallInstruction) bool { return c.Common().StaticCallee() == f })
	if !found {
		panic(undecided{"expandGroupings: recursive descent"})
	}
	r.Check(ok, "R12.8", "expandGroupings descends into every child", f.Pos(), "recursive call on every iteration of the child loop", "some children are not descended into ("+why+"): a uses below them is expanded only later, on the clone, and its nodes are re-homed to the wrong module")
}

// R12.9  every when / must statement on a node becomes a context of the
// compiled node: BuildWhens and BuildMusts append one context per statement
// on every iteration (a when inherited from a uses or augment stands next to
// the node's own one even when both are spelled alike).
func c12EveryWhenMust(w *World, r *Report) {
	for _, c := range []struct{ fn, ctor string }{{"BuildWhens", "NewWhenContext"}, {"BuildMusts", "NewMustContext"}} {
		f := w.SSAFunc(w.Method("compile", "Compiler", c.fn))
		if f == nil {
			panic(undecided{"Compiler." + c.fn})
		}
		found, ok, why := everyIterationAppends(f, func(call *ssa.Call) bool {
			return call.Call.StaticCallee() != nil && nm(call.Call.StaticCallee()) == c.ctor
		})
		if !found {
			panic(undecided{c.fn + ": loop over the statements"})
		}
		r.Check(ok, "R12.9", c.fn+" keeps every statement", f.Pos(), "append("+c.ctor+"(…)) on every iteration", "a statement can be skipped ("+why+"): e.g. the when of an augment is dropped for a node whose own when has the same text, so the augment's condition no longer guards that node")
	}
}

// R14.10  a deviate statement is checked property by property against the
// target as it is *after* the preceding properties were applied: in doDeviate
// the legality check and the edit of one property happen in the same
// iteration, check first.
func c14DeviateInterleaved(w *World, r *Report) {
	root := w.SSAFunc(w.Method("compile", "Compiler", "doDeviate"))
	if root == nil {
		panic(undecided{"Compiler.doDeviate"})
	}
	// doDeviate and the helpers only it uses
	var cone []*ssa.Function
	for _, g := range allFuncs(w.SSAPkg("compile")) {
		if !isTestFile(w, g.Pos()) && w.OwnedBy(g, root) {
			cone = append(cone, g)
		}
	}
	var chk, act *ssa.Call
	for _, g := range cone {
		for _, b := range g.Blocks {
			for _, in := range b.Instrs {
				c, ok := in.(*ssa.Call)
				if !ok || !c.Call.IsInvoke() {
					continue
				}
				switch nm(c.Call.Method) {
				case "isAllowed":
					chk = c
				case "propertyAction":
					act = c
				}
			}
		}
	}
	if chk == nil || act == nil {
		panic(undecided{"doDeviate: isAllowed / propertyAction calls"})
	}
	// the innermost loop an instruction runs in, seen from doDeviate: its own
	// function's loop, or the loop around the call that enters its function
	var loopCtx func(in ssa.Instruction, d int) string
	loopCtx = func(in ssa.Instruction, d int) string {
		g := in.Parent()
		if l, ok := loopOf(g, in.Block()); ok {
			return fmt.Sprintf("%s#%d", g.Name(), l.Header.Index)
		}
		if g == root || d > 4 {
			return ""
		}
		ctx := ""
		n := 0
		for _, h := range cone {
			for _, b := range h.Blocks {
				for _, i2 := range b.Instrs {
					if c, ok := i2.(ssa.CallInstruction); ok && c.Common().StaticCallee() == g {
						n++
						ctx = loopCtx(c, d+1)
					}
				}
			}
		}
		if n != 1 {
			return "?"
		}
		return ctx
	}
	lc, la := loopCtx(chk, 0), loopCtx(act, 0)
	same := lc != "" && lc != "?" && lc == la && chk.Parent() == act.Parent() && chk.Block().Dominates(act.Block())
	r.Check(same, "R14.10", "doDeviate checks and applies property by property", root.Pos(), "isAllowed(p) then propertyAction(p) in the same iteration", "all properties are checked against the unmodified target before any is applied: a deviate that names the same single-instance property twice (`deviate add { default 1; default 2; }`) is accepted")
}

// R20.7  checks that run on the built (already filtered) children never turn
// a child the filter removed into an error: in BuildList's walk over the
// unique paths an error is raised only about a path element that was found
// (the empty-leaf test), never for one that is missing among the children.
func c20UniqueWalk(w *World, r *Report) {
	f := w.SSAFunc(w.Method("compile", "Compiler", "BuildList"))
	if f == nil {
		panic(undecided{"Compiler.BuildList"})
	}
	cerr := w.SSAFunc(w.Method("compile", "Compiler", "error"))
	loops := ssaLoops(f)
	// the loop over l.Uniques()
	var outer *ssaLoop
	for i := range loops {
		for b := range loops[i].body() {
			for _, in := range b.Instrs {
				if ia, ok := in.(*ssa.IndexAddr); ok {
					if c, ok := ia.X.(*ssa.Call); ok && c.Call.IsInvoke() && nm(c.Call.Method) == "Uniques" {
						if outer == nil || len(loops[i].body()) > len(outer.body()) {
							outer = &loops[i]
						}
					}
				}
			}
		}
	}
	if outer == nil {
		panic(undecided{"BuildList: loop over l.Uniques()"})
	}
	body := outer.body()
	// the block entered when a child's name matches the path element
	var matched []*ssa.BasicBlock
	for b := range body {
		iff, ok := b.Instrs[len(b.Instrs)-1].(*ssa.If)
		if !ok {
			continue
		}
		bo, ok := iff.Cond.(*ssa.BinOp)
		if !ok || (bo.Op != token.NEQ && bo.Op != token.EQL) {
			continue
		}
		isName := func(v ssa.Value) bool {
			c, ok := v.(*ssa.Call)
			return ok && c.Call.IsInvoke() && nm(c.Call.Method) == "Name"
		}
		if !isName(bo.X) && !isName(bo.Y) {
			continue
		}
		if bo.Op == token.NEQ {
			matched = append(matched, b.Succs[1])
		} else {
			matched = append(matched, b.Succs[0])
		}
	}
	if len(matched) == 0 {
		panic(undecided{"BuildList: name match in the unique walk"})
	}
	n := 0
	for b := range body {
		for _, in := range b.Instrs {
			c, ok := in.(*ssa.Call)
			if !ok || c.Call.StaticCallee() != cerr {
				continue
			}
			n++
			dom := false
			for _, m := range matched {
				if len(m.Preds) == 1 && (m == b || m.Dominates(b)) {
					dom = true
				}
			}
			r.Check(dom, "R20.7", fmt.Sprintf("BuildList unique walk: error #%d", n), c.Pos(), "raised about a child that was found", "an error is raised in the unique-path walk without a matching child having been found: under a filter that removed a node on the path, the filtered compile fails although the unfiltered one succeeds")
		}
	}
	if n == 0 {
		r.OK("R20.7", "BuildList unique walk raises no error", f.Pos(), "no error call in the walk")
	}
}

// R18.11  which node a question is asked of. The helpers that decide whether a
// schema child belongs to a choice take (parent, child); the configuration
// checker is asked about the case being examined (isActiveDefaultCase) resp.
// the choice and then the enclosing node (isActiveDefault). Argument roles are
// derived from where the value comes from: a parameter of the function, or an
// element of a range over something.
func c18ArgumentRoles(w *World, r *Report) {
	role := func(v ssa.Value) string {
		for {
			switch x := v.(type) {
			case *ssa.ChangeInterface:
				v = x.X
				continue
			case *ssa.MakeInterface:
				v = x.X
				continue
			case *ssa.TypeAssert:
				v = x.X
				continue
			}
			break
		}
		switch x := v.(type) {
		case *ssa.Parameter:
			// the k-th parameter of its type (the position in the list may change)
			k := 0
			for _, q := range x.Parent().Params {
				if q == x {
					return fmt.Sprintf("the %s parameter #%d", types.TypeString(x.Type(), func(*types.Package) string { return "" }), k)
				}
				if types.Identical(q.Type(), x.Type()) {
					k++
				}
			}
			return "param ?"
		case *ssa.UnOp:
			if _, ok := x.X.(*ssa.IndexAddr); ok {
				return "element"
			}
		case *ssa.Extract:
			if _, ok := x.Tuple.(*ssa.Next); ok {
				return "element"
			}
		case *ssa.Call:
			if x.Call.IsInvoke() {
				return "call " + x.Call.Method.Name()
			}
			if sc := x.Call.StaticCallee(); sc != nil {
				return "call " + sc.Name()
			}
		}
		return "other"
	}
	want := map[string][]string{
		"hasMandatoryChildren: isAChoice":         {"the Node parameter #0", "element"},
		"hasCaseMandatoryChildren: isACaseChoice": {"the Node parameter #0", "element"},
		"checkMandatory: isAChoice":               {"call schema", "element"},
		"isActiveDefault: cfg checker #1":         {"element"},
		"isActiveDefault: cfg checker #2":         {"the Node parameter #0"},
		"isActiveDefaultCase: cfg checker #1":     {"element"},
	}
	seen := map[string]bool{}
	sp := w.SSAPkg("schema")
	isChecker := func(c *ssa.Call) bool {
		if c.Call.IsInvoke() {
			return false
		}
		v := c.Call.Value
		if ld, ok := v.(*ssa.UnOp); ok && ld.Op == token.MUL {
			if _, isFA := ld.X.(*ssa.FieldAddr); isFA {
				v = ld // the checker carried in a field of the walk's state
				_, isSig := v.Type().Underlying().(*types.Signature)
				return isSig
			}
		}
		if p, ok := v.(*ssa.Parameter); ok {
			_, isSig := p.Type().Underlying().(*types.Signature)
			return isSig
		}
		return false
	}
	// the pair that walks node → choice → case → node below IsActiveDefault, by role when the names are gone
	activePair := func() (node, choice *ssa.Function) {
		node, choice = ssaFuncNamed(sp, "isActiveDefault"), ssaFuncNamed(sp, "isActiveDefaultCase")
		if node != nil && choice != nil {
			return
		}
		entry := ssaFuncNamed(sp, "IsActiveDefault")
		if entry == nil {
			return nil, nil
		}
		inPkg := func(f *ssa.Function) []*ssa.Function {
			var out []*ssa.Function
			for g := range calleesDeep(f, 0) {
				if g.Pkg == f.Pkg && g.Blocks != nil && g != f {
					out = append(out, g)
				}
			}
			return out
		}
		var firsts []*ssa.Function
		for _, g := range inPkg(entry) {
			for _, h := range inPkg(g) {
				for _, back := range inPkg(h) {
					if back == g {
						firsts = append(firsts, g)
						choice = h
					}
				}
			}
		}
		if len(firsts) != 1 {
			return nil, nil
		}
		return firsts[0], choice
	}
	for _, fn := range []string{"hasMandatoryChildren", "hasCaseMandatoryChildren", "checkMandatory", "isActiveDefault", "isActiveDefaultCase"} {
		f := ssaFuncNamed(sp, fn)
		if f == nil && strings.HasPrefix(fn, "isActiveDefault") {
			n, c := activePair()
			if fn == "isActiveDefault" {
				f = n
			} else {
				f = c
			}
		}
		if f == nil {
			panic(undecided{"schema." + fn})
		}
		dyn := 0
		type site struct {
			key  string
			args []ssa.Value
			pos  token.Pos
		}
		var sites []site
		for _, b := range f.Blocks {
			for _, in := range b.Instrs {
				c, ok := in.(*ssa.Call)
				if !ok {
					continue
				}
				if sc := c.Call.StaticCallee(); sc != nil && (nm(sc) == "isAChoice" || nm(sc) == "isACaseChoice") {
					sites = append(sites, site{fn + ": " + nm(sc), c.Call.Args, c.Pos()})
				} else if isChecker(c) {
					sites = append(sites, site{fn + ": cfg checker", c.Call.Args, c.Pos()})
				}
			}
		}
		sort.Slice(sites, func(i, j int) bool { return sites[i].pos < sites[j].pos })
		for _, s := range sites {
			key := s.key
			if strings.Contains(key, ": cfg") {
				dyn++
				key = fmt.Sprintf("%s #%d", key, dyn)
			}
			var got []string
			for _, a := range s.args {
				got = append(got, role(a))
			}
			seen[key] = true
			exp, known := want[key]
			if !known {
				r.Fail("R18.11", key, s.pos, "call site not in the reviewed table (roles "+strings.Join(got, ", ")+")")
				continue
			}
			r.Check(strings.Join(got, ",") == strings.Join(exp, ","), "R18.11", key, s.pos, "asked of ("+strings.Join(exp, ", ")+")", "the question is asked of ("+strings.Join(got, ", ")+") instead of ("+strings.Join(exp, ", ")+"): e.g. swapped parent/child makes every member of a nested choice look like an ordinary child, so mandatory nodes of inactive nested cases are reported missing; asking the enclosing choice instead of the case makes the defaults of an inactive case active")
		}
	}
	for k := range want {
		if !seen[k] {
			r.Fail("R18.11", k, token.NoPos, "reviewed call site no longer found")
		}
	}
}

// instrFlowsTo: control can pass from instruction a to instruction b (a phi
// counts as standing at the start of its block).
func instrFlowsTo(a, b ssa.Instruction) bool {
	idx := func(in ssa.Instruction) int {
		for i, x := range in.Block().Instrs {
			if x == in {
				return i
			}
		}
		return -1
	}
	seen := map[*ssa.BasicBlock]bool{}
	work := append([]*ssa.BasicBlock{}, a.Block().Succs...)
	if a.Block() == b.Block() && idx(a) < idx(b) {
		return true
	}
	for len(work) > 0 {
		x := work[len(work)-1]
		work = work[:len(work)-1]
		if seen[x] {
			continue
		}
		seen[x] = true
		if x == b.Block() {
			return true
		}
		work = append(work, x.Succs...)
	}
	return false
}

// spillCell: the cell a captured parameter is moved into (its only use is the
// store that fills the cell), or nil.
func spillCell(p *ssa.Parameter) *ssa.Alloc {
	refs := p.Referrers()
	if refs == nil {
		return nil
	}
	var cell *ssa.Alloc
	for _, ref := range *refs {
		switch x := ref.(type) {
		case *ssa.DebugRef:
		case *ssa.Store:
			a, ok := x.Addr.(*ssa.Alloc)
			if !ok || x.Val != ssa.Value(p) || cell != nil {
				return nil
			}
			cell = a
		default:
			return nil
		}
	}
	if cell == nil {
		return nil
	}
	// never assigned again
	for _, cr := range *cell.Referrers() {
		if st, ok := cr.(*ssa.Store); ok && st.Addr == ssa.Value(cell) && st.Val != ssa.Value(p) {
			return nil
		}
	}
	return cell
}

package main

import (
	"fmt"
	"go/token"
	"go/types"

	"golang.org/x/tools/go/ssa"
)

// R12.6  an existing sibling is never overwritten. node.children is keyed by
// the local name, so the only thing that keeps a second node of that name
// from silently replacing the first is that the map store in addChild is
// reachable only through the "not present" branch of a presence test on the
// same map and key; addChoice appends only after a scan in which an equal
// name returns the error.
func c12NoOverwrite(w *World, r *Report) {
	children := w.Field("schema", "node", "children")
	choices := w.Field("schema", "node", "choices")
	f := w.SSAFunc(w.Method("schema", "node", "addChild"))
	if f == nil {
		panic(undecided{"schema.node.addChild"})
	}
	isChildrenMap := func(v ssa.Value) bool {
		u, ok := v.(*ssa.UnOp)
		if !ok || u.Op != token.MUL {
			return false
		}
		fa, ok := u.X.(*ssa.FieldAddr)
		return ok && isFieldAddrOf(fa, children)
	}
	nUpd := 0
	for _, b := range f.Blocks {
		for _, in := range b.Instrs {
			mu, ok := in.(*ssa.MapUpdate)
			if !ok || !isChildrenMap(mu.Map) {
				continue
			}
			nUpd++
			guarded := false
			for _, b2 := range f.Blocks {
				iff, ok := b2.Instrs[len(b2.Instrs)-1].(*ssa.If)
				if !ok {
					continue
				}
				ex, ok := iff.Cond.(*ssa.Extract)
				if !ok || ex.Index != 1 {
					continue
				}
				lk, ok := ex.Tuple.(*ssa.Lookup)
				if !ok || !lk.CommaOk || !isChildrenMap(lk.X) || lk.Index != mu.Key {
					continue
				}
				absent := b2.Succs[1]
				if len(absent.Preds) == 1 && absent.Dominates(b) {
					// and the present branch leaves with an error
					present := b2.Succs[0]
					if ret, ok := present.Instrs[len(present.Instrs)-1].(*ssa.Return); ok && len(ret.Results) == 1 {
						if c, isC := ret.Results[0].(*ssa.Const); !isC || !c.IsNil() {
							guarded = true
						}
					}
				}
			}
			r.Check(guarded, "R12.6", "node.addChild stores into children", mu.Pos(), "only on the branch where the name is not present; the present branch returns the redefinition error",
				"the child map entry can be written although a sibling of that name exists (the presence test has a further condition, or its error branch is gone): the later node silently replaces the earlier one")
		}
	}
	if nUpd == 0 {
		r.Fail("R12.6", "node.addChild stores into children", f.Pos(), "no store into node.children found")
	}
	// addChoice
	g := w.SSAFunc(w.Method("schema", "node", "addChoice"))
	if g == nil {
		panic(undecided{"schema.node.addChoice"})
	}
	loops := ssaLoops(g)
	okScan, okAppend := false, false
	var at token.Pos = g.Pos()
	for _, l := range loops {
		body := l.body()
		for b := range body {
			iff, ok := b.Instrs[len(b.Instrs)-1].(*ssa.If)
			if !ok {
				continue
			}
			bo, ok := iff.Cond.(*ssa.BinOp)
			if !ok || bo.Op != token.EQL {
				continue
			}
			isName := func(v ssa.Value) bool {
				c, ok := v.(*ssa.Call)
				return ok && c.Call.IsInvoke() && c.Call.Method.Name() == "Name"
			}
			if !(isName(bo.X) && isName(bo.Y)) {
				continue
			}
			eq := b.Succs[0]
			if ret, ok := eq.Instrs[len(eq.Instrs)-1].(*ssa.Return); ok && len(eq.Preds) == 1 && len(ret.Results) == 1 {
				if c, isC := ret.Results[0].(*ssa.Const); !isC || !c.IsNil() {
					okScan = true
				}
			}
		}
		// the store to n.choices happens only after the loop is done
		for _, b := range g.Blocks {
			for _, in := range b.Instrs {
				st, ok := in.(*ssa.Store)
				if !ok {
					continue
				}
				fa, ok := st.Addr.(*ssa.FieldAddr)
				if !ok || !isFieldAddrOf(fa, choices) {
					continue
				}
				at = st.Pos()
				if !body[b] && l.Header.Dominates(b) {
					okAppend = true
				}
			}
		}
	}
	r.Check(okScan && okAppend, "R12.6", "node.addChoice appends to choices", at, "after a scan of all choices in which an equal name returns the redefinition error",
		"a choice/case can be appended although one of that name exists (the equality test has a further condition, or its error branch is gone)")
}

// R12.7  references are resolved where they are written. An unprefixed
// feature/identity reference inside a grouping belongs to the module that
// defines the grouping (node.Root()), not to the module that uses it
// (node.UsesRoot()): every call of getModuleAndReference passes a Root()
// result (or hands on its own module parameter), and package compile does not
// consult UsesRoot() at all (re-homing is confined to parse/namespace.go).
func c12LexicalScope(w *World, r *Report) {
	sp := w.SSAPkg("compile")
	gmr := w.SSAFunc(w.Method("compile", "Compiler", "getModuleAndReference"))
	if gmr == nil {
		panic(undecided{"Compiler.getModuleAndReference"})
	}
	n := map[string]int{}
	for _, f := range allFuncs(sp) {
		for _, b := range f.Blocks {
			for _, in := range b.Instrs {
				c, ok := in.(ssa.CallInstruction)
				if !ok {
					continue
				}
				cc := c.Common()
				if cc.IsInvoke() && cc.Method.Name() == "UsesRoot" {
					n["uses"]++
					r.Fail("R12.7", "UsesRoot() consulted in "+funcKey(f), in.Pos(), "the compiler looks at the using module of a grouping-derived node: a reference written in the grouping would be resolved in the wrong module")
					continue
				}
				if cc.StaticCallee() != gmr {
					continue
				}
				n[funcKey(f)]++
				what := funcKey(f) + ": getModuleAndReference #" + itoa(n[funcKey(f)])
				arg := cc.Args[1] // receiver is Args[0]
				good := ""
				var walk func(v ssa.Value, d int) bool
				walk = func(v ssa.Value, d int) bool {
					if d > 4 {
						return false
					}
					switch x := v.(type) {
					case *ssa.Call:
						if x.Call.IsInvoke() && x.Call.Method.Name() == "Root" {
							good = "Root() of the referring statement"
							return true
						}
					case *ssa.Parameter:
						good = "the caller's module parameter " + x.Name()
						return true
					case *ssa.Phi:
						for _, e := range x.Edges {
							if !walk(e, d+1) {
								return false
							}
						}
						return len(x.Edges) > 0
					case *ssa.ChangeInterface:
						return walk(x.X, d+1)
					}
					return false
				}
				ok2 := walk(arg, 0)
				r.Check(ok2, "R12.7", what, in.Pos(), "module = "+good, "the module in which the reference is looked up is `"+arg.String()+"`, not the Root() of the statement that contains it: unprefixed references inside a grouping used from another module resolve in the wrong module")
			}
		}
	}
	if n["uses"] == 0 {
		r.OK("R12.7", "package compile never consults UsesRoot()", token.NoPos, "re-homing stays inside parse/namespace.go")
	}
}

func itoa(i int) string {
	if i == 0 {
		return "0"
	}
	s := ""
	for i > 0 {
		s = string(rune('0'+i%10)) + s
		i /= 10
	}
	return s
}

// R15.5  text and prefix scope belong to the same statement. For every
// machine constructor call in package compile, the expression text is the
// direct result of a text accessor (ArgWhen/ArgMust/Path/…) on some parse
// node, and the prefix-mapping closure handed to the same call resolves
// prefixes through that very node (same variable cell). A text taken from
// anywhere else (e.g. the expression of an already compiled machine) would be
// compiled in the prefix scope of a different module.
func c15TextAndScope(w *World, r *Report) {
	sp := w.SSAPkg("compile")
	ctors := map[string]bool{}
	for _, n := range []string{"NewExprMachine", "NewExprMachineWithCustomFunctions", "NewLeafrefMachine", "NewPathEvalMachine", "NewPathEvalMachineWithCustomFns"} {
		ctors[n] = true
	}
	cellOf := func(v ssa.Value) ssa.Value {
		if u, ok := v.(*ssa.UnOp); ok && u.Op == token.MUL {
			if a, ok := u.X.(*ssa.Alloc); ok {
				return a
			}
			if fv, ok := u.X.(*ssa.FreeVar); ok {
				return fv
			}
		}
		return v
	}
	// callers of in-package functions (for pass-through helpers)
	callers := map[*ssa.Function][]*ssa.Call{}
	for _, f := range allFuncs(sp) {
		for _, b := range f.Blocks {
			for _, in := range b.Instrs {
				if c, ok := in.(*ssa.Call); ok {
					if sc := c.Call.StaticCallee(); sc != nil && sc.Pkg == sp {
						callers[sc] = append(callers[sc], c)
					}
				}
			}
		}
	}
	paramIdx := func(v ssa.Value) int {
		p, ok := v.(*ssa.Parameter)
		if !ok {
			return -1
		}
		for i, q := range p.Parent().Params {
			if q == p {
				return i
			}
		}
		return -1
	}
	// scopeCell: the variable cell of the node through which the closure resolves prefixes
	scopeCell := func(v ssa.Value) (ssa.Value, string) {
		if ct, ok := v.(*ssa.ChangeType); ok {
			v = ct.X
		}
		mc, ok := v.(*ssa.MakeClosure)
		if !ok {
			return nil, "the prefix map is not a closure built here"
		}
		cf := mc.Fn.(*ssa.Function)
		var cell ssa.Value
		for _, cb := range cf.Blocks {
			for _, ci := range cb.Instrs {
				cc, ok := ci.(*ssa.Call)
				if !ok || !cc.Call.IsInvoke() || cc.Call.Method.Name() != "YangPrefixToNamespace" {
					continue
				}
				if fv, ok := cellOf(cc.Call.Value).(*ssa.FreeVar); ok {
					for i, x := range cf.FreeVars {
						if x == fv && i < len(mc.Bindings) {
							cell = mc.Bindings[i]
						}
					}
				}
			}
		}
		if cell == nil {
			return nil, "the closure does not resolve prefixes through a captured statement"
		}
		return cell, ""
	}
	var check func(text, mapFn ssa.Value, depth int) (bool, string)
	check = func(text, mapFn ssa.Value, depth int) (bool, string) {
		if ct, ok := mapFn.(*ssa.ChangeType); ok {
			mapFn = ct.X
		}
		// pass-through helper: both come in as parameters
		if ti, mi := paramIdx(text), paramIdx(mapFn); ti >= 0 && mi >= 0 && depth < 2 {
			fn := text.(*ssa.Parameter).Parent()
			cs := callers[fn]
			if len(cs) == 0 {
				return false, "text and prefix map are parameters of a function nobody calls"
			}
			for _, c := range cs {
				if ok, why := check(c.Call.Args[ti], c.Call.Args[mi], depth+1); !ok {
					return false, "via " + funcKey(c.Parent()) + ": " + why
				}
			}
			return true, "text and prefix map handed through from callers that satisfy the rule"
		}
		cell, why := scopeCell(mapFn)
		if cell == nil {
			return false, why
		}
		tc, ok := text.(*ssa.Call)
		if !ok {
			return false, "the expression text is `" + text.String() + "`, not read from a parse statement"
		}
		if tc.Call.IsInvoke() {
			if cellOf(tc.Call.Value) == cell {
				return true, "text = " + tc.Call.Method.Name() + "() of the statement whose imports resolve the prefixes"
			}
			return false, "the text is " + tc.Call.Method.Name() + "() of one value, the prefixes are resolved through another"
		}
		// an in-package helper deriving the text from the statement (extension forms of must)
		if sc := tc.Call.StaticCallee(); sc != nil && sc.Pkg == sp {
			for _, a := range tc.Call.Args {
				if cellOf(a) == cell {
					return true, "text = " + sc.Name() + "(…) computed from the statement whose imports resolve the prefixes"
				}
			}
		}
		return false, "the expression text `" + text.String() + "` is not derived from the statement the prefix map resolves through"
	}
	n := map[string]int{}
	for _, f := range allFuncs(sp) {
		for _, b := range f.Blocks {
			for _, in := range b.Instrs {
				c, ok := in.(*ssa.Call)
				if !ok || c.Call.StaticCallee() == nil || !ctors[c.Call.StaticCallee().Name()] || len(c.Call.Args) < 2 {
					continue
				}
				fk := funcKey(f)
				n[fk+c.Call.StaticCallee().Name()]++
				what := fmt.Sprintf("%s: %s #%d", fk, c.Call.StaticCallee().Name(), n[fk+c.Call.StaticCallee().Name()])
				ok2, why := check(c.Call.Args[0], c.Call.Args[1], 0)
				r.Check(ok2, "R15.5", what, c.Pos(), why, why+": the expression would be compiled in the prefix scope of a different statement/module than the one it is written in")
			}
		}
	}
}

// R14.7  no stale inherited status. Where a function derives the effective
// status of the node it handles from its inherited-status parameter (a local
// that starts as the parameter and is overridden by the node's own status
// statement), everything below must see the derived value: the bare parameter
// has no other use than feeding that derivation.
func c14StaleStatus(w *World, r *Report) {
	sp := w.SSAPkg("compile")
	n := 0
	for _, f := range allFuncs(sp) {
		for _, p := range f.Params {
			if nt, ok := p.Type().(*types.Named); !ok || nt.Obj().Name() != "Status" || nt.Obj().Pkg() == nil || nt.Obj().Pkg().Name() != "schema" {
				continue
			}
			var derived *ssa.Phi
			for _, ref := range *p.Referrers() {
				if phi, ok := ref.(*ssa.Phi); ok {
					for _, e := range phi.Edges {
						if e != ssa.Value(p) {
							derived = phi
						}
					}
				}
			}
			if derived == nil {
				continue
			}
			n++
			var stale []ssa.Instruction
			for _, ref := range *p.Referrers() {
				switch x := ref.(type) {
				case *ssa.Phi:
					if x == derived {
						continue
					}
				case *ssa.DebugRef:
					continue
				}
				// uses that dominate the derivation are fine (they happen before the override is known)
				if ref.Block() != derived.Block() && ref.Block().Dominates(derived.Block()) {
					continue
				}
				stale = append(stale, ref)
			}
			what := funcKey(f) + ": " + p.Name() + " after the node's own status is known"
			if len(stale) == 0 {
				r.OK("R14.7", what, derived.Pos(), "only the derived status `"+derived.Comment+"` is used below")
			} else {
				r.Fail("R14.7", what, stale[0].Pos(), "the inherited status parameter is still used in `"+stale[0].String()+"` although the node's own status overrides it: a status written on this node does not reach what lies beneath it")
			}
		}
	}
	if n == 0 {
		panic(undecided{"no function derives an effective status from an inherited-status parameter"})
	}
}

package main

import (
	"go/token"
	"go/types"
	"strings"

	"golang.org/x/tools/go/ssa"
)

// funcValues: the functions a function-typed value may stand for, when that
// can be read off directly: a function literal, a named function, or the
// result of a module function all of whose exits return such a value.
func funcValues(v ssa.Value, depth int) []*ssa.Function {
	switch x := v.(type) {
	case *ssa.MakeClosure:
		if f, ok := x.Fn.(*ssa.Function); ok {
			return []*ssa.Function{f}
		}
	case *ssa.Function:
		return []*ssa.Function{x}
	case *ssa.ChangeType:
		return funcValues(x.X, depth)
	case *ssa.Call:
		g := x.Call.StaticCallee()
		if g == nil || depth > 2 || g.Blocks == nil || !strings.HasPrefix(pkgPathOf(g), modPath) || g.Signature.Results().Len() != 1 {
			return nil
		}
		var out []*ssa.Function
		for _, b := range g.Blocks {
			if ret, ok := b.Instrs[len(b.Instrs)-1].(*ssa.Return); ok && len(ret.Results) == 1 {
				fs := funcValues(unspill(ret.Results[0]), depth+1)
				if fs == nil {
					return nil
				}
				out = append(out, fs...)
			}
		}
		return out
	}
	return nil
}

// calleesDeep: every function fn may call, directly or through functions of
// the module it calls (function literals it makes and calls, and function
// values per funcValues, included), to the given depth.
func calleesDeep(fn *ssa.Function, depth int) map[*ssa.Function]bool {
	out := map[*ssa.Function]bool{}
	var visit func(f *ssa.Function, d int)
	visit = func(f *ssa.Function, d int) {
		for _, b := range f.Blocks {
			for _, in := range b.Instrs {
				ci, ok := in.(ssa.CallInstruction)
				if !ok {
					continue
				}
				cc := ci.Common()
				var gs []*ssa.Function
				if g := cc.StaticCallee(); g != nil {
					gs = []*ssa.Function{g}
				} else if !cc.IsInvoke() {
					gs = funcValues(cc.Value, 0)
				}
				for _, g := range gs {
					if out[g] {
						continue
					}
					out[g] = true
					if d < depth && g.Blocks != nil && strings.HasPrefix(pkgPathOf(g), modPath) {
						visit(g, d+1)
					}
				}
			}
		}
	}
	visit(fn, 0)
	return out
}

// bodiesDeep: fn and the module functions it reaches (calleesDeep), for rules
// that look for an effect (a store, an increment) wherever the work was put.
func bodiesDeep(fn *ssa.Function, depth int) []*ssa.Function {
	out := []*ssa.Function{fn}
	for g := range calleesDeep(fn, depth) {
		if g.Blocks != nil && strings.HasPrefix(pkgPathOf(g), modPath) {
			out = append(out, g)
		}
	}
	return out
}

// incrementsField: somewhere in fs the field is set to its own value plus one.
func incrementsField(fs []*ssa.Function, isField func(*ssa.FieldAddr) bool, delta int64) bool {
	for _, f := range fs {
		for _, b := range f.Blocks {
			for _, in := range b.Instrs {
				st, ok := in.(*ssa.Store)
				if !ok {
					continue
				}
				fa, ok := st.Addr.(*ssa.FieldAddr)
				if !ok || !isField(fa) {
					continue
				}
				bo, ok := st.Val.(*ssa.BinOp)
				if !ok {
					continue
				}
				c, isC := intConstOf(bo.Y)
				ld, isLd := bo.X.(*ssa.UnOp)
				if !isC || !isLd || ld.Op != token.MUL {
					continue
				}
				lfa, ok := ld.X.(*ssa.FieldAddr)
				if !ok || !isField(lfa) {
					continue
				}
				if (bo.Op == token.ADD && c == delta) || (bo.Op == token.SUB && c == -delta) {
					return true
				}
			}
		}
	}
	return false
}

// builderInstrFuncs: the functions a builder method hands on as function
// arguments (to CodeFn and the like): the code of the instruction(s) it emits.
func builderInstrFuncs(builder *ssa.Function) []*ssa.Function {
	var out []*ssa.Function
	seen := map[*ssa.Function]bool{}
	for _, b := range builder.Blocks {
		for _, in := range b.Instrs {
			c, ok := in.(*ssa.Call)
			if !ok {
				continue
			}
			for _, a := range c.Call.Args {
				if _, isSig := a.Type().Underlying().(*types.Signature); !isSig {
					continue
				}
				for _, f := range funcValues(a, 0) {
					if !seen[f] {
						seen[f] = true
						out = append(out, f)
					}
				}
			}
		}
	}
	return out
}

// popEvent: one operand taken off the stack by an instruction, in the order
// taken.  val is the value as the instruction sees it (the call itself, or
// the result of the helper that did the popping for it); nil when the helper
// does not hand the popped value straight back.
type popEvent struct {
	val  ssa.Value
	kind *ssa.Function // the pop routine (popNumber, popBool, …)
	at   *ssa.Call
}

// popEvents lists the pops of fn's entry block in order, looking into
// single-block helpers of the module that are handed the pop routine (a
// method value) or call it themselves.  ok is false when a pop sits outside
// the entry block or in a helper that cannot be read this way.
func popEvents(w *World, fn *ssa.Function, pops map[*ssa.Function]bool) (evs []popEvent, ok bool) {
	sym := NewSym(w)
	ok = true
	popOf := func(cc *ssa.CallCommon, ctx *symCtx) *ssa.Function {
		if g := cc.StaticCallee(); g != nil {
			if pops[g] {
				return g
			}
			return nil
		}
		if cc.IsInvoke() {
			return nil
		}
		for _, g := range funcValues(sym.Resolve(cc.Value, ctx), 0) {
			// a method value: the wrapper stands for the method
			if m, isF := g.Object().(*types.Func); isF {
				if real := w.SSA().FuncValue(m); real != nil && pops[real] {
					return real
				}
			}
			if pops[g] {
				return g
			}
		}
		return nil
	}
	for _, b := range fn.Blocks {
		for _, in := range b.Instrs {
			c, isC := in.(*ssa.Call)
			if !isC {
				continue
			}
			if k := popOf(&c.Call, nil); k != nil {
				if b != fn.Blocks[0] {
					ok = false
				}
				evs = append(evs, popEvent{c, k, c})
				continue
			}
			h := c.Call.StaticCallee()
			if h == nil || h.Blocks == nil || !strings.HasPrefix(pkgPathOf(h), modPath) {
				continue
			}
			nctx := &symCtx{call: c}
			var inner []*ssa.Call
			var kinds []*ssa.Function
			for _, hb := range h.Blocks {
				for _, hin := range hb.Instrs {
					if hc, isHC := hin.(*ssa.Call); isHC {
						if k := popOf(&hc.Call, nctx); k != nil {
							inner = append(inner, hc)
							kinds = append(kinds, k)
						}
					}
				}
			}
			if len(inner) == 0 {
				continue
			}
			if len(h.Blocks) != 1 || b != fn.Blocks[0] {
				ok = false
			}
			ret, _ := h.Blocks[len(h.Blocks)-1].Instrs[len(h.Blocks[len(h.Blocks)-1].Instrs)-1].(*ssa.Return)
			for i, hc := range inner {
				var val ssa.Value
				if ret != nil {
					for ri, rv := range ret.Results {
						if unspill(rv) != ssa.Value(hc) {
							continue
						}
						if len(ret.Results) == 1 {
							val = c
						}
						for _, ref := range *c.Referrers() {
							if ex, isEx := ref.(*ssa.Extract); isEx && ex.Index == ri {
								val = ex
							}
						}
					}
				}
				evs = append(evs, popEvent{val, kinds[i], c})
			}
		}
	}
	return evs, ok
}

// argInstance is one value a parameter takes: the argument of a static call of
// the function (followed up through the caller's own parameters).
type argInstance struct {
	caller *ssa.Function
	site   ssa.CallInstruction
	val    ssa.Value
}

// paramInstances lists, for parameter p of f, the arguments of all static
// calls of f among fns.  ok is false when f is also used as a value (its
// callers are then not all known) or has no caller.
func paramInstances(fns []*ssa.Function, p *ssa.Parameter, depth int) (out []argInstance, ok bool) {
	f := p.Parent()
	idx := -1
	for i, q := range f.Params {
		if q == p {
			idx = i
		}
	}
	if idx < 0 || depth > 3 {
		return nil, false
	}
	for _, g := range fns {
		for _, b := range g.Blocks {
			for _, in := range b.Instrs {
				// f as a value: callers unknown
				for _, op := range in.Operands(nil) {
					if *op != ssa.Value(f) {
						continue
					}
					ci, isCall := in.(ssa.CallInstruction)
					if !isCall || ci.Common().Value != ssa.Value(f) {
						return nil, false
					}
				}
				ci, isCall := in.(ssa.CallInstruction)
				if !isCall || ci.Common().StaticCallee() != f || idx >= len(ci.Common().Args) {
					continue
				}
				a := ci.Common().Args[idx]
				for {
					if ct, isCT := a.(*ssa.ChangeType); isCT {
						a = ct.X
						continue
					}
					break
				}
				if q, isParam := a.(*ssa.Parameter); isParam {
					sub, okSub := paramInstances(fns, q, depth+1)
					if !okSub {
						return nil, false
					}
					out = append(out, sub...)
					continue
				}
				out = append(out, argInstance{g, ci, a})
			}
		}
	}
	return out, len(out) > 0
}

// staticCallSites: the number of static call sites of f among fns (0 when f is
// a function literal or is also used as a value).
func staticCallSites(fns []*ssa.Function, f *ssa.Function) int {
	if f == nil || f.Parent() != nil {
		return 0
	}
	n := 0
	for _, g := range fns {
		for _, b := range g.Blocks {
			for _, in := range b.Instrs {
				if ci, ok := in.(ssa.CallInstruction); ok && ci.Common().StaticCallee() == f {
					n++
					continue
				}
				for _, op := range in.Operands(nil) {
					if *op == ssa.Value(f) {
						return 0
					}
				}
			}
		}
	}
	return n
}

// callsWithCtx visits every call of fn and of the module functions it calls
// statically (to the given depth), each with the chain of call sites that
// leads to it, so that a helper's parameters resolve to fn's own values.
func callsWithCtx(fn *ssa.Function, depth int, visit func(c *ssa.Call, ctx *symCtx)) {
	var walk func(f *ssa.Function, ctx *symCtx, d int, seen map[*ssa.Function]bool)
	walk = func(f *ssa.Function, ctx *symCtx, d int, seen map[*ssa.Function]bool) {
		for _, b := range f.Blocks {
			for _, in := range b.Instrs {
				c, ok := in.(*ssa.Call)
				if !ok {
					continue
				}
				visit(c, ctx)
				g := c.Call.StaticCallee()
				if g == nil || g.Blocks == nil || d >= depth || seen[g] || !strings.HasPrefix(pkgPathOf(g), modPath) {
					continue
				}
				seen[g] = true
				walk(g, &symCtx{call: c, parent: ctx}, d+1, seen)
				delete(seen, g)
			}
		}
	}
	walk(fn, nil, 0, map[*ssa.Function]bool{fn: true})
}

// sliceLiteralElems: the values stored into the fresh array behind a slice
// literal (the form a variadic argument list takes), in no particular order.
func sliceLiteralElems(v ssa.Value) []ssa.Value {
	sl, ok := v.(*ssa.Slice)
	if !ok {
		return nil
	}
	al, ok := sl.X.(*ssa.Alloc)
	if !ok {
		return nil
	}
	var out []ssa.Value
	for _, ref := range *al.Referrers() {
		ia, ok := ref.(*ssa.IndexAddr)
		if !ok {
			continue
		}
		for _, r2 := range *ia.Referrers() {
			if st, ok := r2.(*ssa.Store); ok && st.Addr == ssa.Value(ia) {
				out = append(out, st.Val)
			}
		}
	}
	return out
}

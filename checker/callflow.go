package main

import (
	"go/token"
	"go/types"
	"strings"

	"golang.org/x/tools/go/ssa"
)

// funcValues: the functions a function-typed value may stand for, when that
// can be read off directly: a function literal, a named function, or the
// result of a module function all of whose exits return such a value.
func funcValues(v ssa.Value, depth int) []*ssa.Function {
	switch x := v.(type) {
	case *ssa.MakeClosure:
		if f, ok := x.Fn.(*ssa.Function); ok {
			return []*ssa.Function{f}
		}
	case *ssa.Function:
		return []*ssa.Function{x}
	case *ssa.ChangeType:
		return funcValues(x.X, depth)
	case *ssa.Call:
		g := x.Call.StaticCallee()
		if g == nil || depth > 2 || g.Blocks == nil || !strings.HasPrefix(pkgPathOf(g), modPath) || g.Signature.Results().Len() != 1 {
			return nil
		}
		var out []*ssa.Function
		for _, b := range g.Blocks {
			if ret, ok := b.Instrs[len(b.Instrs)-1].(*ssa.Return); ok && len(ret.Results) == 1 {
				fs := funcValues(unspill(ret.Results[0]), depth+1)
				if fs == nil {
					return nil
				}
				out = append(out, fs...)
			}
		}
		return out
	}
	return nil
}

// calleesDeep: every function fn may call, directly or through functions of
// the module it calls (function literals it makes and calls, and function
// values per funcValues, included), to the given depth.
func calleesDeep(fn *ssa.Function, depth int) map[*ssa.Function]bool {
	out := map[*ssa.Function]bool{}
	var visit func(f *ssa.Function, d int)
	visit = func(f *ssa.Function, d int) {
		for _, b := range f.Blocks {
			for _, in := range b.Instrs {
				ci, ok := in.(ssa.CallInstruction)
				if !ok {
					continue
				}
				cc := ci.Common()
				var gs []*ssa.Function
				if g := cc.StaticCallee(); g != nil {
					gs = []*ssa.Function{g}
				} else if !cc.IsInvoke() {
					gs = funcValues(cc.Value, 0)
				}
				for _, g := range gs {
					if out[g] {
						continue
					}
					out[g] = true
					if d < depth && g.Blocks != nil && strings.HasPrefix(pkgPathOf(g), modPath) {
						visit(g, d+1)
					}
				}
			}
		}
	}
	visit(fn, 0)
	return out
}

// bodiesDeep: fn and the module functions it reaches (calleesDeep), for rules
// that look for an effect (a store, an increment) wherever the work was put.
func bodiesDeep(fn *ssa.Function, depth int) []*ssa.Function {
	out := []*ssa.Function{fn}
	for g := range calleesDeep(fn, depth) {
		if g.Blocks != nil && strings.HasPrefix(pkgPathOf(g), modPath) {
			out = append(out, g)
		}
	}
	return out
}

// incrementsField: somewhere in fs the field is set to its own value plus one.
func incrementsField(fs []*ssa.Function, isField func(*ssa.FieldAddr) bool, delta int64) bool {
	for _, f := range fs {
		for _, b := range f.Blocks {
			for _, in := range b.Instrs {
				st, ok := in.(*ssa.Store)
				if !ok {
					continue
				}
				fa, ok := st.Addr.(*ssa.FieldAddr)
				if !ok || !isField(fa) {
					continue
				}
				bo, ok := st.Val.(*ssa.BinOp)
				if !ok {
					continue
				}
				c, isC := intConstOf(bo.Y)
				ld, isLd := bo.X.(*ssa.UnOp)
				if !isC || !isLd || ld.Op != token.MUL {
					continue
				}
				lfa, ok := ld.X.(*ssa.FieldAddr)
				if !ok || !isField(lfa) {
					continue
				}
				if (bo.Op == token.ADD && c == delta) || (bo.Op == token.SUB && c == -delta) {
					return true
				}
			}
		}
	}
	return false
}

// builderInstrFuncs: the functions a builder method hands on as function
// arguments (to CodeFn and the like): the code of the instruction(s) it emits.
func builderInstrFuncs(builder *ssa.Function) []*ssa.Function {
	var out []*ssa.Function
	seen := map[*ssa.Function]bool{}
	for _, b := range builder.Blocks {
		for _, in := range b.Instrs {
			c, ok := in.(*ssa.Call)
			if !ok {
				continue
			}
			for _, a := range c.Call.Args {
				if _, isSig := a.Type().Underlying().(*types.Signature); !isSig {
					continue
				}
				for _, f := range funcValues(a, 0) {
					if !seen[f] {
						seen[f] = true
						out = append(out, f)
					}
				}
			}
		}
	}
	return out
}

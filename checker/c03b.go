package main

import (
	"fmt"
	"go/ast"
	"go/constant"
	"go/token"
	"go/types"
	"golang.org/x/tools/go/ssa"
	"sort"
	"strings"

	"golang.org/x/tools/go/packages"
)

type packagesPackage = packages.Package

var wsSet = isetOf(' ', '\t', '\n', '\r')

// lexCommonDispatch returns, per arm of LexCommon's main switch, its constant
// set and body, plus the switch itself.
// lexCommonSkipper: set by lexCommonSwitch when the rune LexCommon dispatches on
// is handed back by a helper that skips the white space (its declaration, and
// the locals it assigns from Next()).
var lexCommonSkipper *ast.FuncDecl
var lexCommonSkipperVars map[types.Object]bool

// lexCommonSkipSwitch: the switch that holds the white-space skipping arm, and
// the function it stands in: the dispatch switch of LexCommon, or the switch
// on the rune just read in the skipping helper.
func lexCommonSkipSwitch(w *World) (*ast.FuncDecl, *packages.Package, *ast.SwitchStmt) {
	fd, p, sw := lexCommonSwitch(w)
	hasSkip := false
	for _, a := range switchArms(p, sw) {
		if len(a.Clause.Body) == 1 {
			if b, ok := a.Clause.Body[0].(*ast.BranchStmt); ok && b.Tok == token.CONTINUE {
				hasSkip = true
			}
		}
	}
	if hasSkip || lexCommonSkipper == nil {
		return fd, p, sw
	}
	vars := lexCommonSkipperVars
	sws := switchesOn(lexCommonSkipper.Body, func(e ast.Expr) bool { return vars[objOfIdent(p, e)] })
	if len(sws) != 1 {
		return fd, p, sw
	}
	return lexCommonSkipper, p, sws[0]
}

func lexCommonSwitch(w *World) (*ast.FuncDecl, *packages.Package, *ast.SwitchStmt) {
	f := w.Func("xpath", "LexCommon")
	fd, p := w.FuncDecl(f)
	next := w.interfaceMethod("xpath", "XpathLexer", "Next")
	// the subject: a local assigned from x.Next()
	var subj types.Object
	lexCommonSkipper = nil
	// x.Next(), or a function of the package that hands back a rune it read with Next() (the
	// white-space skipping moved out of LexCommon)
	var readsNext func(ce *ast.CallExpr, depth int) bool
	readsNext = func(ce *ast.CallExpr, depth int) bool {
		g := calleeOf(p, ce)
		if g == next {
			return true
		}
		if g == nil || depth > 0 || g.Pkg() != p.Types {
			return false
		}
		gfd, gp := w.FuncDecl(g)
		if gfd == nil || gp != p || gfd.Body == nil {
			return false
		}
		fromNext := map[types.Object]bool{}
		ast.Inspect(gfd.Body, func(n ast.Node) bool {
			if as, ok := n.(*ast.AssignStmt); ok && len(as.Rhs) == 1 && len(as.Lhs) == 1 {
				if c2, ok := as.Rhs[0].(*ast.CallExpr); ok && calleeOf(p, c2) == next {
					fromNext[objOfIdent(p, as.Lhs[0])] = true
				}
			}
			return true
		})
		rets := returnsIn(gfd.Body)
		for _, ret := range rets {
			if len(ret.Results) != 1 || !fromNext[objOfIdent(p, ret.Results[0])] {
				return false
			}
		}
		if len(rets) > 0 {
			lexCommonSkipper = gfd
			lexCommonSkipperVars = fromNext
		}
		return len(rets) > 0
	}
	ast.Inspect(fd.Body, func(n ast.Node) bool {
		if as, ok := n.(*ast.AssignStmt); ok && len(as.Rhs) == 1 && len(as.Lhs) == 1 {
			if ce, ok := as.Rhs[0].(*ast.CallExpr); ok && readsNext(ce, 0) {
				if o := objOfIdent(p, as.Lhs[0]); o != nil && subj == nil {
					subj = o
				}
			}
		}
		return true
	})
	if subj == nil {
		panic(undecided{"LexCommon: no local assigned from Next()"})
	}
	sws := switchesOn(fd.Body, func(e ast.Expr) bool { return objOfIdent(p, e) == subj })
	if len(sws) != 1 {
		panic(undecided{fmt.Sprintf("LexCommon: %d switches on the current rune", len(sws))})
	}
	return fd, p, sws[0]
}

func (w *World) interfaceMethod(pkgKey, iface, name string) *types.Func {
	p := w.Pkg(pkgKey)
	tn, ok := scopeLookup(p.Types.Scope(), iface).(*types.TypeName)
	if !ok {
		panic(undecided{"interface " + iface})
	}
	it, ok := tn.Type().Underlying().(*types.Interface)
	if !ok {
		panic(undecided{iface + " is not an interface"})
	}
	for i := 0; i < it.NumMethods(); i++ {
		if nm(it.Method(i)) == name {
			return it.Method(i)
		}
	}
	panic(undecided{"interface method " + iface + "." + name})
}

// concreteMethod resolves a method name on a concrete (pointer) type through
// embedding.
func (w *World) concreteMethod(pkgKey, typ, name string) *types.Func {
	p := w.Pkg(pkgKey)
	tn, ok := scopeLookup(p.Types.Scope(), typ).(*types.TypeName)
	if !ok {
		panic(undecided{"type " + pkgKey + "." + typ})
	}
	ms := types.NewMethodSet(types.NewPointer(tn.Type()))
	for i := 0; i < ms.Len(); i++ {
		if nm(ms.At(i).Obj()) == name {
			return ms.At(i).Obj().(*types.Func)
		}
	}
	panic(undecided{"method " + typ + "." + name})
}

func c03Whitespace(w *World, r *Report) {
	fd, p, sw := lexCommonSkipSwitch(w)
	// 1. the skip arm
	var skipArms []swArm
	for _, a := range switchArms(p, sw) {
		if len(a.Clause.Body) == 1 {
			if b, ok := a.Clause.Body[0].(*ast.BranchStmt); ok && b.Tok == token.CONTINUE {
				skipArms = append(skipArms, a)
			}
		}
	}
	if len(skipArms) != 1 {
		r.Fail("R03.7", "LexCommon skip arm", fd.Pos(), fmt.Sprintf("expected one arm whose only effect is `continue`, found %d", len(skipArms)))
	} else {
		var s ISet
		for _, c := range skipArms[0].Consts {
			if v, ok := intConst(c); ok {
				s = s.union(isetOf(v))
			}
		}
		r.Check(s.equal(wsSet), "R03.7", "LexCommon skip arm", skipArms[0].Clause.Pos(), "skips "+s.String(), "skip arm covers "+s.String()+", XPath ExprWhitespace is "+wsSet.String())
	}
	// the switch sits in an unconditional loop whose first statement reads the next rune
	inLoop := false
	ast.Inspect(fd.Body, func(n ast.Node) bool {
		if fs, ok := n.(*ast.ForStmt); ok && fs.Cond == nil && fs.Init == nil && fs.Post == nil {
			for _, s := range fs.Body.List {
				if s == ast.Stmt(sw) {
					inLoop = true
				}
			}
		}
		return true
	})
	r.Check(inLoop, "R03.7", "LexCommon loop", fd.Pos(), "switch is directly inside for{}", "the skip arm's continue does not re-enter an unconditional read loop")

	// 2. isWhitespace
	pe := NewPredEval(w, intDom{})
	ws := pe.TrueSet(w.Method("xpath", "CommonLex", "isWhitespace")).(ISet)
	r.Check(ws.equal(wsSet), "R03.7", "CommonLex.isWhitespace", token.NoPos, ws.String(), "isWhitespace accepts "+ws.String()+", must be "+wsSet.String())

	// 3. LexName look-aheads
	lexName := w.Method("xpath", "CommonLex", "LexName")
	lfd, lp := w.FuncDecl(lexName)
	nextM := w.Method("xpath", "CommonLex", "Next")
	nextI := w.interfaceMethod("xpath", "XpathLexer", "Next")
	peek, line := w.Field("xpath", "CommonLex", "peek"), w.Field("xpath", "CommonLex", "line")
	direct := 0
	ast.Inspect(lfd.Body, func(n ast.Node) bool {
		switch x := n.(type) {
		case *ast.CallExpr:
			if c := calleeOf(lp, x); c == nextM || c == nextI {
				direct++
			}
		case *ast.SelectorExpr:
			if f := fieldOfSel(lp, x); f == peek || f == line {
				direct++
			}
		}
		return true
	})
	r.Check(direct == 0, "R03.7", "CommonLex.LexName raw look-ahead", lfd.Pos(), "no direct Next()/peek/line access", fmt.Sprintf("LexName reads the input directly %d times; every look-ahead must skip whitespace (XPath §3.7 'possibly after intervening ExprWhitespace')", direct))
	_ = w.Method("xpath", "CommonLex", "isWhitespace")
	for _, name := range []string{"NextNonWhitespace", "NextNonWhitespaceStringIs"} {
		m := w.Method("xpath", "CommonLex", name)
		mfd, _ := w.FuncDecl(m)
		ok := false
		// a loop that reads a rune each time round and goes round exactly for the whitespace characters
		for _, g := range bodiesDeep(w.SSAFunc(m), 1) { // the skipping loop may live in a helper of its own
			if g.Pkg != w.SSAFunc(m).Pkg {
				continue
			}
			for _, ll := range lexLoops(w, g) {
				if ll.consumes && ll.roundsExactlyFor(wsSet) {
					ok = true
				}
			}
		}
		used := len(allCallsTo(lp, lfd.Body, m)) > 0
		r.Check(ok && used, "R03.7", "CommonLex."+name, mfd.Pos(), "loops while isWhitespace, advancing; used by LexName", "helper does not skip whitespace in a loop (or LexName no longer uses it)")
	}

	// 4. precToken writers
	prec := w.Field("xpath", "CommonLex", "precToken")
	save := w.Method("xpath", "CommonLex", "SaveTokenType")
	nw := 0
	for _, pk := range w.All {
		for _, f := range funcDecls(pk) {
			for _, a := range assignsToField(pk, f.Body, prec) {
				nw++
				if pk.TypesInfo.Defs[f.Name] != save {
					r.Fail("R03.7", "precToken written in "+funcDeclName(f), a.Pos(), "the only cross-token lexer state is written outside SaveTokenType")
				}
			}
		}
	}
	r.Check(nw >= 1, "R03.7", "precToken writers", token.NoPos, fmt.Sprintf("%d write(s), all in SaveTokenType", nw), "no writer of precToken found")
	// SaveTokenType is called with the returned token of LexCommon only
	for _, pk := range w.All {
		for _, f := range funcDecls(pk) {
			if isTestFile(w, f.Pos()) {
				continue
			}
			for _, c := range allCallsTo(pk, f.Body, save) {
				r.Fail("R03.7", "SaveTokenType called from "+funcDeclName(f), c.Pos(), "unexpected direct call")
			}
			for _, c := range allCallsTo(pk, f.Body, w.interfaceMethod("xpath", "XpathLexer", "SaveTokenType")) {
				if pk.TypesInfo.Defs[f.Name] != w.Func("xpath", "LexCommon") {
					r.Fail("R03.7", "SaveTokenType called from "+funcDeclName(f), c.Pos(), "the preceding-token state must only be saved by LexCommon for the token it returns")
				}
			}
		}
	}
}

// condNegates reports whether every call to f inside cond sits under a '!'.
func condNegates(p *packages.Package, cond ast.Expr, f *types.Func) bool {
	neg := false
	ast.Inspect(cond, func(n ast.Node) bool {
		if u, ok := n.(*ast.UnaryExpr); ok && u.Op == token.NOT {
			if ce, ok := ast.Unparen(u.X).(*ast.CallExpr); ok && calleeOf(p, ce) == f {
				neg = true
			}
		}
		return true
	})
	return neg
}

// spellingTokens derives, from the lexer source, the common token returned for
// every operator spelling.
func spellingTokens(w *World, lexType string, lexPkg string) (map[string]int64, []string) {
	out := map[string]int64{}
	var problems []string
	_, p, sw := lexCommonSwitch(w)
	// arm → interface method called in its return
	armOf := func(ch rune) (string, *ast.CaseClause) {
		for _, a := range switchArms(p, sw) {
			for _, c := range a.Consts {
				if v, ok := intConst(c); ok && v == int64(ch) {
					for _, ret := range returnsIn(a.Clause) {
						if len(ret.Results) == 1 {
							if ce, ok := ret.Results[0].(*ast.CallExpr); ok {
								if f := calleeOf(p, ce); f != nil {
									return f.Name(), a.Clause
								}
							}
						}
					}
				}
			}
		}
		return "", nil
	}
	// punctuation
	for _, ch := range []rune{'+', '-', '|', '(', ')', '[', ']', ',', '@'} {
		m, _ := armOf(ch)
		if m == "" {
			problems = append(problems, fmt.Sprintf("no lexer arm for %q", ch))
			continue
		}
		cm := w.concreteMethod(lexPkg, lexType, m)
		fd, cp := w.FuncDecl(cm)
		rets := returnsIn(fd.Body)
		ok := false
		if len(rets) == 1 && len(rets[0].Results) == 2 {
			if ce, isCall := ast.Unparen(rets[0].Results[0]).(*ast.CallExpr); isCall && len(ce.Args) == 1 {
				if tv, ok2 := cp.TypesInfo.Types[ce.Fun]; ok2 && tv.IsType() && objOfIdent(cp, ce.Args[0]) == paramObj(cp, fd, 0) {
					ok = true
				}
			}
		}
		if ok {
			out[string(ch)] = int64(ch)
		} else if lexType == "exprLex" {
			problems = append(problems, fmt.Sprintf("%q: %s does not return the character itself", ch, m))
		}
	}
	// asterisk: the token returned when tokenCanBeOperator() holds
	if m, _ := armOf('*'); m != "" {
		f := w.SSAFunc(w.concreteMethod(lexPkg, lexType, m))
		toks, probs := lexDecisionTokens(w, f, []rune{0})
		problems = append(problems, probs...)
		if v, ok := toks["\x00@op"]; ok {
			out["*"] = v
		}
	}
	if _, ok := out["*"]; !ok {
		problems = append(problems, "'*': LexAsterisk does not return '*' under tokenCanBeOperator()")
	}
	// relational
	if m, _ := armOf('='); m != "" {
		f := w.SSAFunc(w.concreteMethod(lexPkg, lexType, m))
		toks, probs := lexDecisionTokens(w, f, []rune{'=', '<', '>', '!'})
		problems = append(problems, probs...)
		for _, ch := range []rune{'=', '<', '>', '!'} {
			// the spelling "c=" when the next character is '=', "c" otherwise
			with, ok1 := toks[string(ch)+"="]
			without, ok2 := toks[string(ch)]
			if ok1 && ok2 && with == without {
				out[string(ch)] = with
				continue
			}
			if ok1 {
				out[string(ch)+"="] = with
			}
			if ok2 {
				out[string(ch)] = without
			}
		}
	}
	// operator names
	gon := w.Method("xpath", "CommonLex", "getOperatorName")
	if names, why := stringDecision(w, w.SSAFunc(gon), 1); why == "" {
		for k, v := range names {
			out[k] = v
		}
	} else {
		problems = append(problems, "getOperatorName: "+why)
	}
	// LexName must consult getOperatorName under tokenCanBeOperator
	lfd, lp := w.FuncDecl(w.Method("xpath", "CommonLex", "LexName"))
	okName := false
	tco := w.Method("xpath", "CommonLex", "tokenCanBeOperator")
	for _, s := range lfd.Body.List {
		if is, ok := s.(*ast.IfStmt); ok {
			if ce, ok := ast.Unparen(is.Cond).(*ast.CallExpr); ok && calleeOf(lp, ce) == tco && len(allCallsTo(lp, is.Body, gon)) == 1 {
				okName = true
			}
		}
	}
	if !okName {
		problems = append(problems, "LexName does not return getOperatorName(name) under tokenCanBeOperator()")
	}
	return out, problems
}

// retUnderEqTest: ret lies in an if whose condition is `<local> == '='`.
func retUnderEqTest(p *packages.Package, scope ast.Node, ret *ast.ReturnStmt) bool {
	found := false
	ast.Inspect(scope, func(n ast.Node) bool {
		is, ok := n.(*ast.IfStmt)
		if !ok {
			return true
		}
		be, ok := ast.Unparen(is.Cond).(*ast.BinaryExpr)
		if !ok || be.Op != token.EQL {
			return true
		}
		if v, ok := ConstInt(p, be.Y); !ok || v != '=' {
			return true
		}
		for _, r := range returnsIn(is.Body) {
			if r == ret {
				found = true
			}
		}
		return true
	})
	return found
}

// tokenMap evaluates a map[int]int composite literal of constants.
func constIntMap(w *World, pkgKey, name string) map[int64]int64 {
	v := w.Var(pkgKey, name)
	init, p := w.VarInit(v)
	cl, ok := ast.Unparen(init).(*ast.CompositeLit)
	if !ok {
		panic(undecided{name + " is not a composite literal"})
	}
	m := map[int64]int64{}
	for _, e := range cl.Elts {
		kv, ok := e.(*ast.KeyValueExpr)
		if !ok {
			panic(undecided{name + ": element without key"})
		}
		k, ok1 := ConstInt(p, kv.Key)
		x, ok2 := ConstInt(p, kv.Value)
		if !ok1 || !ok2 {
			panic(undecided{name + ": non-constant entry"})
		}
		m[k] = x
	}
	return m
}

func pkgConstInt(w *World, pkgKey, name string) (int64, bool) {
	c, ok := scopeLookup(w.Pkg(pkgKey).Types.Scope(), name).(*types.Const)
	if !ok {
		return 0, false
	}
	return constant.Int64Val(c.Val())
}

func c03Spelling(w *World, r *Report) {
	toks, problems := spellingTokens(w, "exprLex", "xpath/grammars/expr")
	for _, p := range problems {
		r.Fail("R03.8", "lexer", token.NoPos, p)
	}
	c2e := constIntMap(w, "xpath/grammars/expr", "commonToExprTokenMap")
	// spelling → grammar terminal
	want := map[string]string{
		"or": "OR", "and": "AND", "=": "EQ", "!=": "NE", "<": "LT", "<=": "LE", ">": "GT", ">=": "GE",
		"+": "'+'", "-": "'-'", "*": "'*'", "div": "DIV", "mod": "MOD", "|": "'|'",
	}
	var keys []string
	for k := range want {
		keys = append(keys, k)
	}
	sort.Strings(keys)
	for _, sp := range keys {
		term := want[sp]
		c := "operator " + sp
		common, ok := toks[sp]
		if !ok {
			r.Fail("R03.8", c, token.NoPos, "the lexer produces no token for this spelling")
			continue
		}
		// map into the grammar
		gtok := common
		if m, ok := c2e[common]; ok {
			gtok = m
		}
		var wantTok int64
		if ch, ok := charTok(term); ok {
			wantTok = int64(ch)
		} else if v, ok := pkgConstInt(w, "xpath/grammars/expr", term); ok {
			wantTok = v
		} else {
			r.Fail("R03.8", c, token.NoPos, "grammar token "+term+" not declared")
			continue
		}
		r.Check(gtok == wantTok, "R03.8", c, token.NoPos, fmt.Sprintf("→ common %#x → grammar %s", common, term),
			fmt.Sprintf("spelling %q reaches grammar token %d, the level table needs %s (%d)", sp, gtok, term, wantTok))
	}
	// the operator-name set must be exactly the four names
	var names []string
	for k := range toks {
		if k[0] >= 'a' && k[0] <= 'z' {
			names = append(names, k)
		}
	}
	sort.Strings(names)
	r.Check(strings.Join(names, ",") == "and,div,mod,or", "R03.8", "operator names", token.NoPos, "and,div,mod,or", "operator-name table is {"+strings.Join(names, ",")+"}")
}

// lexDecisionTokens reads a lexer method (c rune) (int, TokVal) as a decision
// table: which constant token it returns for first character c, depending on
// whether the next character read is '=' (key c+"=") or not (key c), and on
// tokenCanBeOperator() (keys with "@op" appended when the result depends on
// it and it holds).  if/switch forms and helpers that read the next character
// give the same table.
func lexDecisionTokens(w *World, f *ssa.Function, chars []rune) (map[string]int64, []string) {
	out := map[string]int64{}
	var problems []string
	if f == nil || f.Blocks == nil {
		return out, []string{"lexer method without body"}
	}
	if len(ssaLoops(f)) > 0 {
		return out, []string{f.Name() + ": has a loop, not read as a decision table"}
	}
	sym := NewSym(w)
	sym.keepAtom = func(g *ssa.Function) bool { return nm(g) == "tokenCanBeOperator" }
	rows := sym.retTable(f, 0)
	isNextCall := func(v ssa.Value) bool {
		c, ok := v.(*ssa.Call)
		if !ok {
			return false
		}
		if c.Call.IsInvoke() {
			return nm(c.Call.Method) == "Next"
		}
		return c.Call.StaticCallee() != nil && nm(c.Call.StaticCallee()) == "Next"
	}
	isCanBeOp := func(v ssa.Value) bool {
		c, ok := v.(*ssa.Call)
		return ok && !c.Call.IsInvoke() && c.Call.StaticCallee() != nil && nm(c.Call.StaticCallee()) == "tokenCanBeOperator"
	}
	for _, ch := range chars {
		for _, eq := range []bool{true, false} {
			for _, op := range []bool{true, false} {
				usesEq, usesOp := false, false
				var got []int64
				bad := ""
				for _, row := range rows {
					v, ok, und := pcEvalUnder(row.cond, func(a *pcAtom) (bool, bool) {
						if a.subj == "p1" && len(f.Params) > 1 {
							return a.set.contains(int64(ch)), true
						}
						if cmp, ok := a.v.(*ssa.BinOp); ok && a.subj != "" && (isNextCall(cmp.X) || isNextCall(cmp.Y)) {
							usesEq = true
							if eq {
								return a.set.contains('='), true
							}
							// some other character: none of the ones tested for
							return false, true
						}
						if isCanBeOp(a.v) {
							usesOp = true
							return op, true
						}
						return false, false
					})
					if !ok {
						bad = und
						continue
					}
					if v {
						if k, isInt := intConstOf(row.val); isInt {
							got = append(got, k)
						} else {
							got = append(got, -1)
						}
					}
				}
				if bad != "" {
					problems = append(problems, fmt.Sprintf("%s: the token for %q depends on %s", f.Name(), ch, bad))
					continue
				}
				if len(got) != 1 {
					problems = append(problems, fmt.Sprintf("%s: %d exits for %q (next is '=': %v)", f.Name(), len(got), ch, eq))
					continue
				}
				key := string(ch)
				if eq {
					key += "="
				}
				if op && usesOp {
					key += "@op"
				}
				if !op && usesOp {
					key += "@nop"
				}
				_ = usesEq
				if got[0] >= 0 {
					out[key] = got[0]
				}
			}
		}
	}
	return out, problems
}
